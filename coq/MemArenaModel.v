(* MemArenaModel.v — ArenaAllocator: reset, destructor, whole histories (C19). *)
From Coq Require Import List Arith Bool Lia Permutation.
Require Import XV.GenCont XV.GenMem XV.MemDefs XV.MemModel XV.MemListModel.
Import ListNotations.

Lemma arena_reset_spec : forall a h h1 a1 ok, ainv a h -> arena_reset a h = (h1, a1, ok) ->
  ainv a1 h1 /\ am a1 = am a /\ absize a1 = absize a /\ aleak a1 = aleak a /\
  (ok = true -> ablocks a1 = [] /\ lhead (alist a1) <> None /\ lnodes (alist a1) = []) /\
  (ok = false -> a1 = a /\ live h1 = live h) /\
  (lhead (alist a) <> None -> ok = true /\ next h1 = next h /\ fuse h1 = fuse h) /\
  (fuse h = None -> ok = true /\ fuse h1 = None).
Proof.
  intros a h h1 a1 ok [[Wl Wb] I] H. unfold arena_reset in H.
  destruct (get_head TAG_ANODE (alist a) h) as [[h2 l2] ok2] eqn:G.
  unfold aowned in I. rewrite <- app_assoc in I.
  pose proof (get_head_spec _ _ _ _ _ _ _ I G) as [I2 [[SM [SN SF]] [HD [TH HH]]]].
  assert (FZ : fuse h = None -> ok2 = true /\ fuse h2 = None).
  { intros Fz. unfold get_head in G. destruct (lhead (alist a)); [inversion G; subst; auto|].
    destruct (alloc_nofuse (lm (alist a)) TAG_ANODE 1 h Fz) as [hx [Ax Fx]]. rewrite Ax in G. inversion G; subst; auto. }
  destruct ok2; inversion H; subst; clear H.
  - specialize (HD eq_refl).
    assert (I3 : linv (lowned l2 ++ aleak a) (fold_left (fun h b => block_dtor (lm l2) b h) (ablocks a) h2)).
    { apply blocks_dtor_spec. eapply linv_perm; [|exact I2]. unfold am. rewrite SM. permp. }
    destruct (blocks_dtor_next (lm l2) (ablocks a) h2) as [N2 F2].
    split.
    + apply ainv_intro; auto. cbn. eapply linv_perm; [|exact I3].
      unfold lowned, ids_of, hd_list. cbn [lm lhead lnodes lfree]. permp.
    + sp; cbn; auto; try discriminate;
        try (intros HN; destruct (HH HN) as [-> [-> _]]; sp; auto; fail);
        try (intros Fz; destruct (FZ Fz) as [_ F3]; split; auto; congruence).
  - destruct (TH eq_refl) as [-> L]. split.
    + split; [split; auto|]. unfold aowned. rewrite <- app_assoc. exact I2.
    + sp; auto; try discriminate;
        try (intros HN; destruct (HH HN) as [_ [_ X]]; discriminate);
        try (intros Fz; destruct (FZ Fz); discriminate).
Qed.

(* ~ArenaAllocator: reset() then ~XalanList *)
Lemma arena_dtor_spec : forall a h h1 a1 ok, ainv a h -> arena_dtor a h = (h1, a1, ok) ->
  (ok = true -> Permutation (live h1) (aleak a) /\ bad h1 = false) /\
  (ok = false -> a1 = a /\ live h1 = live h /\ lhead (alist a) = None) /\
  (lhead (alist a) <> None -> ok = true /\ next h1 = next h /\ fuse h1 = fuse h) /\
  (fuse h = None -> ok = true).
Proof.
  intros a h h1 a1 ok V H. unfold arena_dtor in H.
  destruct (arena_reset a h) as [[h2 a2] ok2] eqn:R.
  pose proof (arena_reset_spec _ _ _ _ _ V R) as [[[Wl2 Wb2] I2] [AM [BS [LK [OK [TH [HH FZ]]]]]]].
  destruct ok2.
  - destruct (OK eq_refl) as [B0 [HD N0]].
    destruct (list_dtor TAG_ANODE (alist a2) h2) as [h3 okd] eqn:D.
    inversion H; subst; clear H.
    unfold aowned in I2. rewrite B0 in I2. cbn in I2. rewrite app_nil_r in I2.
    pose proof (list_dtor_spec _ _ _ _ _ _ Wl2 I2 D) as [-> [[_ [P Bd]] [N3 F3]]].
    split; [intros _; split; [rewrite <- LK; exact P | exact Bd]|].
    split; [discriminate|].
    split; [intros HN; destruct (HH HN) as [_ [A B]]; sp; auto; congruence | auto].
  - inversion H; subst; clear H. destruct (TH eq_refl) as [-> L].
    split; [discriminate|].
    split; [intros _; sp; auto; destruct (lhead (alist a)) eqn:E; auto; destruct HH as [X _]; discriminate |].
    split; [intros HN; destruct (HH HN) as [X _]; discriminate | intros Fz; destruct (FZ Fz); discriminate].
Qed.

Lemma astep_inv : forall op a h h1 a1 ok, ainv a h -> astep op a h = (h1, a1, ok) ->
  ainv a1 h1 /\ am a1 = am a /\ leak_step a a1 /\ (ok = true -> aleak a1 = aleak a) /\
  (fuse h = None -> ok = true /\ fuse h1 = None).
Proof.
  intros op a h h1 a1 ok V H. destruct op; cbn [astep] in H.
  - pose proof (arena_new_obj_spec _ _ _ _ _ _ V H) as [V1 [AM [BS [LK [OK FZ]]]]].
    sp; auto. intros Fz. split; auto.
    (* the fuse stays off: every alloc under fuse = None leaves it None *)
    clear - H Fz. unfold arena_new_obj in H.
    assert (GA : forall m t c hh hx r, fuse hh = None -> alloc m t c hh = (hx, r) -> fuse hx = None).
    { intros m t c hh hx r F A. unfold alloc in A. rewrite F in A. inversion A; subst; reflexivity. }
    assert (GH : forall l hh hx lx okx, fuse hh = None -> get_head TAG_ANODE l hh = (hx, lx, okx) -> fuse hx = None).
    { intros l hh hx lx okx F G. unfold get_head in G. destruct (lhead l); [inversion G; subst; auto|].
      destruct (alloc (lm l) TAG_ANODE 1 hh) as [hy [i|]] eqn:A; inversion G; subst; eapply GA; eauto. }
    assert (GC : forall l p hh hx lx okx, fuse hh = None -> construct_node TAG_ANODE l p hh = (hx, lx, okx) -> fuse hx = None).
    { intros l p hh hx lx okx F G. unfold construct_node in G. destruct (lfree l); [|inversion G; subst; auto].
      destruct (alloc (lm l) TAG_ANODE 1 hh) as [hy [i|]] eqn:A; inversion G; subst; eapply GA; eauto. }
    destruct (get_head TAG_ANODE (alist a) h) as [[h2 l2] ok2] eqn:G.
    pose proof (GH _ _ _ _ _ Fz G) as F2.
    destruct ok2; [|inversion H; subst; auto].
    destruct (last_full _).
    + destruct (alloc _ TAG_ABLK 1 h2) as [h3 [bs|]] eqn:A1; pose proof (GA _ _ _ _ _ _ F2 A1) as F3;
        [|inversion H; subst; auto].
      destruct (alloc _ TAG_ASTORE _ h3) as [h4 [st|]] eqn:A2; pose proof (GA _ _ _ _ _ _ F3 A2) as F4;
        [|inversion H; subst; auto].
      destruct (construct_node TAG_ANODE l2 _ h4) as [[h5 l3] ok3] eqn:C. pose proof (GC _ _ _ _ _ _ F4 C) as F5.
      destruct ok3; [|inversion H; subst; auto].
      destruct (alloc _ TAG_BYTE osz h5) as [h6 [o|]] eqn:A3; pose proof (GA _ _ _ _ _ _ F5 A3) as F6;
        inversion H; subst; auto.
    + destruct (alloc _ TAG_BYTE osz h2) as [h6 [o|]] eqn:A3; pose proof (GA _ _ _ _ _ _ F2 A3) as F6;
        inversion H; subst; auto.
  - pose proof (arena_reset_spec _ _ _ _ _ V H) as [V1 [AM [BS [LK [OK [TH [HH FZ]]]]]]].
    sp; auto. left; auto.
Qed.

Lemma arun_inv : forall ops a h a1 h1, ainv a h -> run _ _ astep ops a h = (a1, h1) ->
  ainv a1 h1 /\ (fuse h = None -> aleak a1 = aleak a /\ fuse h1 = None).
Proof.
  induction ops as [|op r IH]; intros a h a1 h1 V H; cbn in H.
  - inversion H; subst; auto.
  - destruct (astep op a h) as [[h2 a2] ok] eqn:E.
    pose proof (astep_inv _ _ _ _ _ _ V E) as [V2 [AM [LS [OK FZ]]]].
    destruct (IH _ _ _ _ V2 H) as [V3 FZ3]. split; auto.
    intros Fz. destruct (FZ Fz) as [-> F2]. destruct (FZ3 F2) as [L3 F3]. split; auto.
    rewrite L3. apply OK. reflexivity.
Qed.

Lemma ainv0 : forall m bs f, ainv (arena0 m bs) (heap0 f).
Proof.
  intros m bs f. unfold ainv, awf, lwf, linv, heap_ok. cbn. repeat split; try constructor; try (intros p []).
Qed.
