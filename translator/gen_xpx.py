"""C02 (extension part, family xpx) — facts of the EXSLT / xalan: extension functions and of id()'s
tokenizer consumed by coq/XpxDefs.v (GenXpx.v).  Regenerated from /repo on every run; fail closed.

  tables     StringTokenizer::s_defaultTokens (the delimiter set id() splits on), the alignment
             keywords of str:align, the default padding of str:padding
  decisions  FunctionDifference keeps a node when indexOf(...) == npos, FunctionIntersection when != npos;
             set:leading's functor excludes the boundary node and keeps `isNodeAfter == false`,
             set:trailing's keeps `isNodeAfter == true`; FunctionDistinct tests the set of seen
             string-values BEFORE adding and adds the node that is current at that moment (the first of
             its class); math:min/lowest use DoubleSupport::lessThan, math:max/highest greaterThan, and a
             NaN operand ends the loop with NaN / the empty list."""
import re
import srcfacts
from srcfacts import AnchorError, need, read, strip_comments, function_body, HEADER


def _squeeze(s):
    s = re.sub(r"\s+", " ", s).strip()
    return re.sub(r"(?<![A-Za-z0-9_]) | (?![A-Za-z0-9_])", "", s)


def _norm(s):
    return _squeeze(strip_comments(s))


def _lit(snippet):
    return re.escape(_squeeze(snippet))


def _unicode_table():
    txt = read("PlatformSupport/XalanUnicode.hpp")
    tbl = {}
    for m in re.finditer(r"\b(char\w+)\s*=\s*(0x[0-9A-Fa-f]+|\d+)\s*;", txt):
        tbl[m.group(1)] = int(m.group(2), 0)
    if len(tbl) < 100:
        raise AnchorError("XalanUnicode.hpp: character constants not found")
    return tbl


def _char_array(text, name, tbl, what):
    m = need(r"\b%s\s*\[\s*\]\s*=\s*\{(.*?)\}\s*;" % re.escape(name), strip_comments(text), what)
    out = []
    for item in m.group(1).split(","):
        item = item.strip()
        if not item:
            continue
        mm = re.fullmatch(r"XalanUnicode::(char\w+)", item)
        if mm:
            if mm.group(1) not in tbl:
                raise AnchorError("%s: unknown character constant %s" % (what, item))
            out.append(tbl[mm.group(1)])
        elif re.fullmatch(r"0x[0-9A-Fa-f]+|\d+", item):
            out.append(int(item, 0))
        else:
            raise AnchorError("%s: unrecognised array element %r" % (what, item))
    if not out or out[-1] != 0:
        raise AnchorError("%s: array is not 0-terminated" % what)
    return out[:-1]


def _nlist(xs):
    return "[" + "; ".join("%d%%N" % x for x in xs) + "]"


def gen_xpx():
    tbl = _unicode_table()
    facts = {}
    # ---- tables
    st = read("PlatformSupport/StringTokenizer.cpp")
    delims = _char_array(st, "StringTokenizer::s_defaultTokens", tbl, "StringTokenizer::s_defaultTokens")
    fid = _norm(read("XPath/FunctionID.cpp"))
    need(_lit("StringTokenizer theTokenizer(theResultString);"), fid, "FunctionID::execute: StringTokenizer with the default delimiters", 0)
    hpp = _norm(read("PlatformSupport/StringTokenizer.hpp"))
    need(r"StringTokenizer\(const XalanDOMString&theString,const XalanDOMChar\*theTokens=s_defaultTokens,bool fReturnTokens=false\)",
         hpp, "StringTokenizer(string, tokens = s_defaultTokens, fReturnTokens = false)", 0)
    es = read("XalanEXSLT/XalanEXSLTString.cpp")
    center = _char_array(es, "XalanEXSLTFunctionAlign::s_centerString", tbl, "str:align s_centerString")
    right = _char_array(es, "XalanEXSLTFunctionAlign::s_rightString", tbl, "str:align s_rightString")
    space = _char_array(es, "XalanEXSLTFunctionPadding::s_spaceString", tbl, "str:padding s_spaceString")
    # str:align: how the third argument is compared with a keyword.  Recognised shapes:
    #   prefix : equals(keyword, arg.c_str(), |keyword|)                         (only the first |keyword| units)
    #   exact  : arg.length() == |keyword| && equals(keyword, arg.c_str(), |keyword|)   or   equals(arg, keyword)
    al = _norm(function_body(es, r"XalanEXSLTFunctionAlign::execute\s*\([^)]*\)\s*const\s*\{", "XalanEXSLTFunctionAlign::execute"))

    def kw_shape(kw, what):
        n = "sizeof(%s)/sizeof(%s[0])-1" % (kw, kw)
        pre = "equals(%s,theAlignmentString.c_str(),%s)==true" % (kw, n)
        if ("theAlignmentString.length()==%s&&%s" % (n, pre)) in al:
            return True
        if ("equals(theAlignmentString,%s)" % kw) in al or ("equals(%s,theAlignmentString)" % kw) in al:
            return True
        if ("if(%s)" % pre) in al:
            return False
        raise AnchorError("str:align: unrecognised comparison of the third argument with " + what)
    ex_c, ex_r = kw_shape("s_centerString", "'center'"), kw_shape("s_rightString", "'right'")
    if ex_c != ex_r:
        raise AnchorError("str:align: 'center' and 'right' are compared differently")
    align_exact = ex_c
    need(_lit("if (theAlignment == eLeft)"), al, "str:align: left is the default alignment", 0)
    # ---- decisions
    diff = _norm(function_body(read("XalanExtensions/FunctionDifference.cpp"), r"FunctionDifference::execute\s*\([^)]*\)\s*const\s*\{", "FunctionDifference::execute"))
    m = need(_lit("if (nodeset2.indexOf(theNode)") + r"(==|!=)" + _lit("NodeRefListBase::npos) { theResult->addNodeInDocOrder(theNode, executionContext); }"),
             diff, "FunctionDifference: if (nodeset2.indexOf(theNode) ?= npos) addNodeInDocOrder", 0)
    diff_keep_found = m.group(1) == "!="
    need(_lit("XalanNode* const theNode = nodeset1.item(i);"), diff, "FunctionDifference: loop over nodeset1", 0)
    inter = _norm(function_body(read("XalanExtensions/FunctionIntersection.cpp"), r"FunctionIntersection::execute\s*\([^)]*\)\s*const\s*\{", "FunctionIntersection::execute"))
    m = need(_lit("if (nodeset2.indexOf(theNode)") + r"(==|!=)" + _lit("NodeRefListBase::npos) { theResult->addNodeInDocOrder(theNode, executionContext); }"),
             inter, "FunctionIntersection: if (nodeset2.indexOf(theNode) ?= npos) addNodeInDocOrder", 0)
    inter_keep_found = m.group(1) == "!="
    need(_lit("XalanNode* const theNode = nodeset1.item(i);"), inter, "FunctionIntersection: loop over nodeset1", 0)
    dist = _norm(function_body(read("XalanExtensions/FunctionDistinct.cpp"), r"FunctionDistinct::execute\s*\([^)]*\)\s*const\s*\{", "FunctionDistinct::execute"))
    need(_lit("for (NodeRefListBase::size_type i = 0; i < theLength; ++i) { XalanNode* const theNode = nodeset.item(i);"), dist,
         "FunctionDistinct: ascending loop over the argument", 0)
    need(_lit("if (theStrings.find(theCachedString) == theStrings.end()) { theResult->addNodeInDocOrder(theNode, executionContext); theStrings.insert(theCachedString); }"),
         dist, "FunctionDistinct: a node is added when its string-value has not been seen, then the value is recorded", 0)
    need(_lit("if (theLength == 1) { theResult->addNode(nodeset.item(0)); }"), dist, "FunctionDistinct: single-node shortcut", 0)
    sets = _norm(read("XalanEXSLT/XalanEXSLTSet.cpp"))
    m = need(r"struct LeadingCompareFunctor\{.*?return(.*?);\}", sets, "LeadingCompareFunctor::operator()", 0)
    lead = m.group(1).strip()
    if lead == _squeeze("theLHS != theRHS && m_executionContext.isNodeAfter(*theLHS, *theRHS) == false"):
        lead_excl_self = True
    elif lead == _squeeze("m_executionContext.isNodeAfter(*theLHS, *theRHS) == false"):
        lead_excl_self = False
    else:
        raise AnchorError("LeadingCompareFunctor: unrecognised predicate " + lead)
    m = need(r"struct TrailingCompareFunctor\{.*?return(.*?);\}", sets, "TrailingCompareFunctor::operator()", 0)
    if m.group(1).strip() != _squeeze("m_executionContext.isNodeAfter(*theLHS, *theRHS) == true"):
        raise AnchorError("TrailingCompareFunctor: unrecognised predicate " + m.group(1))
    need(_lit("if (theLength1 == 0 || theLength2 == 0) { return args[0]; }"), sets, "set:leading/trailing: an empty argument returns the first argument", 0)
    need(_lit("const XalanNode* const theNode = nodeset2.item(0);"), sets, "set:leading/trailing: boundary = first node of the second argument", 0)
    need(_lit("const NodeRefListBase::size_type theIndex = nodeset1.indexOf(theNode); if (theIndex != NodeRefListBase::npos)"), sets,
         "set:leading/trailing: boundary must be contained in the first argument", 0)
    dom = _norm(function_body(read("DOMSupport/DOMServices.cpp"), r"\nDOMServices::isNodeAfter\s*\([^)]*\)\s*\{", "DOMServices::isNodeAfter"))
    need(_lit("return node1.getIndex() > node2.getIndex() ? true : false;"), dom, "DOMServices::isNodeAfter: index(node1) > index(node2)", 0)
    math = _norm(read("XalanEXSLT/XalanEXSLTMath.cpp"))

    def cmp_of(fn, helper):
        mm = need(r"XalanEXSLTFunction%s::execute\(.*?return %s\(executionContext,args\[0\]->nodeset\(\),DoubleSupport::(\w+)\);" % (fn, helper),
                  math, "math:%s comparator" % fn.lower(), 0)
        if mm.group(1) not in ("lessThan", "greaterThan"):
            raise AnchorError("math:%s uses DoubleSupport::%s" % (fn.lower(), mm.group(1)))
        return mm.group(1) == "greaterThan"
    dirs = {"min": cmp_of("Min", "findValue"), "max": cmp_of("Max", "findValue"),
            "highest": cmp_of("Highest", "findNodes"), "lowest": cmp_of("Lowest", "findNodes")}
    need(_lit("if (DoubleSupport::isNaN(theCurrent) == true) { theResult = theCurrent; break; } else if (theCompareFunction(theCurrent, theResult) == true) { theResult = theCurrent; }"),
         math, "findValue: NaN ends the loop with NaN, a better value replaces the result", 0)
    need(_lit("if (DoubleSupport::isNaN(theCurrent) == true) { theNodes->clear(); break; } else if (DoubleSupport::equal(theCurrent, theNumericValue) == true) { theNodes->addNodeInDocOrder(theCurrentNode, executionContext); }"
              " else if (theCompareFunction(theCurrent, theNumericValue) == true) { theNodes->clear(); theNodes->addNode(theCurrentNode); theNumericValue = theCurrent; }"),
         math, "findNodes: NaN clears, an equal value is added, a better value restarts the list", 0)
    need(_lit("if (theLength == 0) { return executionContext.getXObjectFactory().createNumber(DoubleSupport::getNaN()); }"), math, "findValue: empty node-set gives NaN", 0)
    facts = {"delims": delims, "center": center, "right": right, "space": space, "diff_keep_found": diff_keep_found,
             "inter_keep_found": inter_keep_found, "lead_excl_self": lead_excl_self, "dirs": dirs, "align_exact": align_exact}
    b = lambda v: "true" if v else "false"
    text = HEADER + "\n".join([
        "From Coq Require Import List NArith Bool.", "Import ListNotations.", "",
        "(* PlatformSupport/StringTokenizer.cpp s_defaultTokens: what id() splits its argument on *)",
        "Definition gen_id_delims : list N := %s." % _nlist(delims),
        "(* XalanEXSLTString.cpp: str:align keywords, str:padding default *)",
        "Definition gen_align_center : list N := %s." % _nlist(center),
        "Definition gen_align_right : list N := %s." % _nlist(right),
        "Definition gen_padding_default : list N := %s." % _nlist(space),
        "(* str:align compares the whole third argument with the keyword (true) or only its first |keyword| units (false) *)",
        "Definition gen_align_exact_keyword : bool := %s." % b(align_exact),
        "(* FunctionDifference / FunctionIntersection: a node of the first list is kept when (it is found in the second) = flag *)",
        "Definition gen_difference_keep_found : bool := %s." % b(diff_keep_found),
        "Definition gen_intersection_keep_found : bool := %s." % b(inter_keep_found),
        "(* LeadingCompareFunctor: theLHS != theRHS && ... *)",
        "Definition gen_leading_excludes_boundary : bool := %s." % b(lead_excl_self),
        "(* comparator handed to findValue / findNodes: true = DoubleSupport::greaterThan, false = lessThan *)",
        "Definition gen_min_greater : bool := %s." % b(dirs["min"]),
        "Definition gen_max_greater : bool := %s." % b(dirs["max"]),
        "Definition gen_lowest_greater : bool := %s." % b(dirs["lowest"]),
        "Definition gen_highest_greater : bool := %s." % b(dirs["highest"]), ""])
    return text, facts


GENERATORS = {"GenXpx": gen_xpx}
