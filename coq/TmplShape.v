(* TmplShape.v — C10: the generated facts (coq/GenTmpl.v, from XPath::getTargetData,
   XPath::getMatchScoreValue and Stylesheet::addTemplate) against the hand-written model and
   against XSLT 1.0 section 5.5. *)
From Coq Require Import List Bool ZArith NArith Lia.
Require Import XV.TmplDefs XV.GenTmpl.
Import ListNotations.
Local Open Scope Z_scope.

(* what getTargetData reports for an alternative of the given shape *)
Definition target_data (sh : shape) : target * score :=
  match gen_last_step (sh_last sh) with
  | (n, t, s) => ({| tg_name := n; tg_type := t |}, if sh_multi sh then gen_multi_score else s)
  end.

(* the numbers of the model are those of getMatchScoreValue *)
Lemma score_values_agree : forall s,
  gen_score_value s = match s with ScNone => None | _ => Some (score_value s) end.
Proof. destruct s; reflexivity. Qed.

(* default priorities: for every shape of alternative the score is not "none" and its value is
   the default priority of section 5.5 *)
Lemma default_priority_lemma : forall sh,
  gen_score_value (snd (target_data sh)) = Some (spec_default_priority sh).
Proof.
  intros [l m]. unfold target_data, spec_default_priority. cbn [sh_last sh_multi].
  destruct m; destruct l as [| |a nt]; try reflexivity; destruct a; destruct nt; reflexivity.
Qed.

(* the dispatch of addTemplate in the source is the one of the model *)
Lemma gen_slots_agree : forall tg, gen_slots tg = slots_of_target tg.
Proof. intros [n t]. destruct n; destruct t; reflexivity. Qed.

(* filing is complete: a node the last step can match is looked up in a list that received the
   entry (function-headed patterns are filed under every list) *)
Lemma filing_by_shape : forall sh k,
  step_may_match (sh_last sh) k = true -> covers (fst (target_data sh)) k = true.
Proof.
  intros [l m] k H. unfold target_data. cbn [sh_last sh_multi] in *.
  destruct l as [| |a nt].
  - destruct k; try discriminate; reflexivity.
  - destruct k; try discriminate; reflexivity.
  - destruct a; destruct nt; destruct k; try discriminate; cbn in *;
      rewrite ?H, ?orb_true_r; try reflexivity.
Qed.

(* "every matching alternative is filed where the node is looked up" follows from a statement
   about pattern shapes: every alternative's target is what getTargetData reports for its shape
   and the matcher only accepts nodes the last step can match *)
Lemma filed_from_shapes :
  forall (node : Type) (key_of : node -> nkey) (pmatch : N -> node -> bool) s n (shape_of : alt -> shape),
  (forall t a, In t (all_templates s) -> In a (t_alts t) ->
     a_target a = fst (target_data (shape_of a)) /\
     (pmatch (a_pat a) n = true -> step_may_match (sh_last (shape_of a)) (key_of n) = true)) ->
  filed_where_matching node key_of pmatch s n = true.
Proof.
  intros node key_of pmatch s n shape_of H. unfold filed_where_matching.
  apply forallb_forall. intros t Ht. apply forallb_forall. intros a Ha.
  destruct (H t a Ht Ha) as (H1 & H3).
  destruct (pmatch (a_pat a) n) eqn:E; [|reflexivity]. cbn.
  rewrite H1. apply filing_by_shape. apply H3; reflexivity.
Qed.
