(* C16 — generic facts: insertion sort with a three-way comparison that is a total preorder is a
   stable sort, and the stable sorted arrangement of a list is unique. *)
From Coq Require Import List Bool Arith Permutation Sorted.
Import ListNotations.

Section Generic.
  Variable A : Type.
  Variable c : A -> A -> comparison.

  Definition c_refl := forall x, c x x = Eq.
  Definition c_sym := forall x y, c y x = CompOpp (c x y).
  Definition c_trans := forall x y z, c x y <> Gt -> c y z <> Gt -> c x z <> Gt.
  Record total_preorder : Prop := { tp_refl : c_refl; tp_sym : c_sym; tp_trans : c_trans }.

  Definition le (x y : A) : Prop := c x y <> Gt.
  Definition eqvb (x y : A) : bool := match c x y with Eq => true | _ => false end.
  Definition ltb (x y : A) : bool := match c x y with Lt => true | _ => false end.

  (* stability: for every element z, the elements equivalent to z appear in the same order *)
  Definition stable (l l' : list A) : Prop := forall z, filter (eqvb z) l' = filter (eqvb z) l.

  Fixpoint ins (x : A) (l : list A) : list A :=
    match l with
    | [] => [x]
    | y :: t => if ltb y x then y :: ins x t else x :: y :: t
    end.
  Fixpoint isort_g (l : list A) : list A :=
    match l with [] => [] | x :: t => ins x (isort_g t) end.

  Hypothesis TP : total_preorder.

  Lemma eq_trans_c : forall x y z, c x y = Eq -> c y z = Eq -> c x z = Eq.
  Proof.
    intros x y z H1 H2. destruct TP as [_ S T].
    assert (L : c x z <> Gt) by (apply (T x y z); congruence).
    assert (R : c z x <> Gt).
    { apply (T z y x); rewrite S; [rewrite H2 | rewrite H1]; simpl; congruence. }
    rewrite S in R. destruct (c x z); simpl in *; congruence.
  Qed.

  Lemma eq_sym_c : forall x y, c x y = Eq -> c y x = Eq.
  Proof. intros x y H. destruct TP as [_ S _]. rewrite S, H. reflexivity. Qed.

  Lemma lt_eq_trans : forall x y z, c x y = Lt -> c y z = Eq -> c x z = Lt.
  Proof.
    intros x y z H1 H2. destruct TP as [_ S T].
    assert (L : c x z <> Gt) by (apply (T x y z); congruence).
    destruct (c x z) eqn:E; try congruence.
    (* c x z = Eq: then y <= z ~ x so y <= x, contradiction with x < y *)
    exfalso. assert (c y x <> Gt).
    { apply (T y z x); [congruence|]. rewrite S, E. simpl. congruence. }
    rewrite S, H1 in H. simpl in H. congruence.
  Qed.

  Lemma gt_flip : forall x y, c x y = Gt -> c y x = Lt.
  Proof. intros x y H. rewrite (tp_sym TP), H. reflexivity. Qed.

  Lemma lt_flip : forall x y, c x y = Lt -> c y x = Gt.
  Proof. intros x y H. rewrite (tp_sym TP), H. reflexivity. Qed.

  Lemma le_lt_trans : forall x y z, c x y <> Gt -> c y z = Lt -> c x z = Lt.
  Proof.
    intros x y z H1 H2.
    assert (L : c x z <> Gt) by (apply (tp_trans TP x y z); congruence).
    destruct (c x z) eqn:E; try congruence.
    exfalso. assert (c z y <> Gt).
    { apply (tp_trans TP z x y); [rewrite (tp_sym TP), E; simpl; congruence | exact H1]. }
    rewrite (tp_sym TP), H2 in H. simpl in H. congruence.
  Qed.

  Lemma lt_trans_c : forall x y z, c x y = Lt -> c y z = Lt -> c x z = Lt.
  Proof. intros x y z H1 H2. apply le_lt_trans with y; congruence. Qed.

  Lemma eq_lt_trans : forall x y z, c x y = Eq -> c y z = Lt -> c x z = Lt.
  Proof. intros x y z H1 H2. apply le_lt_trans with y; congruence. Qed.

  (* ---------------------------------------------------------------------------------------- *)
  Lemma ins_perm : forall x l, Permutation (ins x l) (x :: l).
  Proof.
    induction l as [|y t IH]; simpl; [reflexivity|].
    destruct (ltb y x); [|reflexivity].
    rewrite IH. apply perm_swap.
  Qed.

  Theorem isort_perm : forall l, Permutation (isort_g l) l.
  Proof.
    induction l as [|x t IH]; simpl; [constructor|].
    rewrite ins_perm. constructor. exact IH.
  Qed.

  Lemma ins_sorted : forall x l, StronglySorted le l -> StronglySorted le (ins x l).
  Proof.
    induction l as [|y t IH]; intros H; simpl.
    - repeat constructor.
    - inversion H as [|? ? Ht Hy]; subst.
      unfold ltb. destruct (c y x) eqn:E.
      + constructor; [exact H|]. constructor.
        * unfold le. destruct TP as [_ S _]. rewrite S, E. simpl. congruence.
        * eapply Forall_impl; [|exact Hy]. intros a Ha. unfold le in *.
          destruct TP as [_ S T]. apply (T x y a); [rewrite S, E; simpl; congruence | exact Ha].
      + constructor; [apply IH; exact Ht|].
        eapply Permutation_Forall; [symmetry; apply ins_perm|].
        constructor; [unfold le; congruence | exact Hy].
      + constructor; [exact H|]. constructor.
        * unfold le. destruct TP as [_ S _]. rewrite S, E. simpl. congruence.
        * eapply Forall_impl; [|exact Hy]. intros a Ha. unfold le in *.
          destruct TP as [_ S T]. apply (T x y a); [rewrite S, E; simpl; congruence | exact Ha].
  Qed.

  Theorem isort_sorted : forall l, StronglySorted le (isort_g l).
  Proof. induction l; simpl; [constructor | apply ins_sorted; assumption]. Qed.

  Lemma ins_filter : forall z x l, filter (eqvb z) (ins x l) = filter (eqvb z) (x :: l).
  Proof.
    induction l as [|y t IH]; [reflexivity|].
    simpl ins. unfold ltb. destruct (c y x) eqn:E; try reflexivity.
    simpl. rewrite IH. simpl. unfold eqvb.
    destruct (c z y) eqn:Ey; destruct (c z x) eqn:Ex; simpl; try reflexivity.
    (* z ~ y, z ~ x, y < x : impossible *)
    exfalso. apply eq_sym_c in Ey. pose proof (eq_trans_c _ _ _ Ey Ex). congruence.
  Qed.

  Theorem isort_stable : forall l, stable l (isort_g l).
  Proof.
    intros l z. induction l as [|x t IH]; [reflexivity|].
    simpl isort_g. rewrite ins_filter. simpl. rewrite IH. reflexivity.
  Qed.

  (* ---------------------------------------------------------------------------------------- *)
  (* uniqueness of the stable sorted arrangement *)

  Lemma filter_head_in : forall (f : A -> bool) l x r, filter f l = x :: r -> In x l.
  Proof.
    intros f l x r H. assert (In x (filter f l)) by (rewrite H; left; reflexivity).
    apply filter_In in H0. tauto.
  Qed.

  Lemma filter_cons_true : forall (f : A -> bool) x l, f x = true -> filter f (x :: l) = x :: filter f l.
  Proof. intros f x l H. simpl. rewrite H. reflexivity. Qed.

  Lemma eqvb_refl : forall x, eqvb x x = true.
  Proof. intros x. unfold eqvb. rewrite (tp_refl TP). reflexivity. Qed.

  Lemma le_refl : forall x, le x x.
  Proof. intros x. unfold le. rewrite (tp_refl TP). congruence. Qed.

  Lemma sorted_stable_unique : forall l1 l2,
      StronglySorted le l1 -> StronglySorted le l2 ->
      (forall z, filter (eqvb z) l1 = filter (eqvb z) l2) -> l1 = l2.
  Proof.
    induction l1 as [|x t1 IH]; intros l2 S1 S2 F.
    - destruct l2 as [|y t2]; [reflexivity|]. exfalso.
      specialize (F y). rewrite (filter_cons_true _ _ _ (eqvb_refl y)) in F. discriminate.
    - destruct l2 as [|y t2].
      { exfalso. specialize (F x). rewrite (filter_cons_true _ _ _ (eqvb_refl x)) in F. discriminate. }
      inversion S1 as [|? ? S1t Hx]; subst. inversion S2 as [|? ? S2t Hy]; subst.
      assert (Lyx : le y x).
      { pose proof (F x) as Fx. rewrite (filter_cons_true _ _ _ (eqvb_refl x)) in Fx.
        symmetry in Fx. apply filter_head_in in Fx. destruct Fx as [->|Hin].
        - apply le_refl.
        - rewrite Forall_forall in Hy. apply Hy. exact Hin. }
      assert (Lxy : le x y).
      { pose proof (F y) as Fy. rewrite (filter_cons_true _ y t2 (eqvb_refl y)) in Fy.
        apply filter_head_in in Fy. destruct Fy as [->|Hin].
        - apply le_refl.
        - rewrite Forall_forall in Hx. apply Hx. exact Hin. }
      assert (Exy : c x y = Eq).
      { unfold le in *. rewrite (tp_sym TP) in Lyx. destruct (c x y); simpl in *; congruence. }
      assert (x = y).
      { pose proof (F x) as Fx. rewrite (filter_cons_true _ _ _ (eqvb_refl x)) in Fx.
        rewrite (filter_cons_true (eqvb x) y t2) in Fx by (unfold eqvb; rewrite Exy; reflexivity).
        congruence. }
      subst y. f_equal. apply IH; try assumption.
      intros z. specialize (F z). simpl in F. destruct (eqvb z x); congruence.
  Qed.

  Theorem stable_sort_unique : forall l l',
      StronglySorted le l' -> stable l l' -> l' = isort_g l.
  Proof.
    intros l l' S St. apply sorted_stable_unique; [exact S | apply isort_sorted |].
    intros z. rewrite St. symmetry. apply isort_stable.
  Qed.

  (* a stable arrangement is a permutation (so the hypothesis need not be stated separately) *)
  Lemma stable_length_filter : forall l l', stable l l' ->
      forall z, length (filter (eqvb z) l') = length (filter (eqvb z) l).
  Proof. intros l l' H z. rewrite H. reflexivity. Qed.

  (* stability read through original positions: in the output, an earlier element is strictly
     smaller, or equivalent with a smaller original position *)
  Variable pos : A -> nat.
  Definition before (x y : A) : Prop := c x y = Lt \/ (c x y = Eq /\ pos x < pos y).

  Lemma ins_sorted_pos : forall x l,
      StronglySorted before l -> Forall (fun y => pos x < pos y) l -> StronglySorted before (ins x l).
  Proof.
    induction l as [|y t IH]; intros H P; simpl.
    - repeat constructor.
    - inversion H as [|? ? Ht Hy]; subst. inversion P as [|? ? Py Pt]; subst.
      assert (CASE : forall a, before y a -> c x y <> Gt -> pos x < pos a -> before x a).
      { intros a [Hl|[He Hp]] Hle Hpa.
        - left. apply le_lt_trans with y; assumption.
        - destruct (c x y) eqn:E; try congruence.
          + right. split; [apply eq_trans_c with y; assumption | exact Hpa].
          + left. apply lt_eq_trans with y; assumption. }
      unfold ltb. destruct (c y x) eqn:E.
      + assert (Exy : c x y = Eq) by (apply eq_sym_c; exact E).
        constructor; [exact H|]. constructor.
        * right. split; assumption.
        * rewrite Forall_forall in *. intros a Ha. apply CASE; [apply Hy; exact Ha | congruence | apply Pt; exact Ha].
      + constructor; [apply IH; assumption|].
        eapply Permutation_Forall; [symmetry; apply ins_perm|].
        constructor; [left; exact E | exact Hy].
      + assert (Exy : c x y = Lt) by (apply gt_flip; exact E).
        constructor; [exact H|]. constructor.
        * left. exact Exy.
        * rewrite Forall_forall in *. intros a Ha. apply CASE; [apply Hy; exact Ha | congruence | apply Pt; exact Ha].
  Qed.

  (* the "less" predicate handed to std::stable_sort is a strict weak ordering *)
  Theorem ltb_strict_weak :
    (forall x, ltb x x = false) /\
    (forall x y z, ltb x y = true -> ltb y z = true -> ltb x z = true) /\
    (forall x y z, ltb x y = false -> ltb y x = false -> ltb y z = false -> ltb z y = false ->
                   ltb x z = false /\ ltb z x = false).
  Proof.
    destruct TP as [R S T]. unfold ltb. repeat split.
    - intros x. rewrite R. reflexivity.
    - intros x y z H1 H2.
      destruct (c x y) eqn:E1; try discriminate. destruct (c y z) eqn:E2; try discriminate.
      assert (L : c x z <> Gt) by (apply (T x y z); congruence).
      destruct (c x z) eqn:E3; try congruence.
      exfalso. assert (c z y <> Gt).
      { apply (T z x y); [rewrite S, E3; simpl; congruence | congruence]. }
      rewrite S, E2 in H. simpl in H. congruence.
    - assert (Q : c x y = Eq) by (rewrite (S x y) in H0; destruct (c x y); simpl in *; congruence).
      assert (Q2 : c y z = Eq) by (rewrite (S y z) in H2; destruct (c y z); simpl in *; congruence).
      rewrite (eq_trans_c _ _ _ Q Q2). reflexivity.
    - assert (Q : c x y = Eq) by (rewrite (S x y) in H0; destruct (c x y); simpl in *; congruence).
      assert (Q2 : c y z = Eq) by (rewrite (S y z) in H2; destruct (c y z); simpl in *; congruence).
      rewrite S, (eq_trans_c _ _ _ Q Q2). reflexivity.
  Qed.
End Generic.

(* lexicographic combination and reversal of total preorders *)
Section Combine.
  Variable A : Type.

  Definition lexc (c1 c2 : A -> A -> comparison) (x y : A) : comparison :=
    match c1 x y with Eq => c2 x y | r => r end.
  Definition revc (c1 : A -> A -> comparison) (x y : A) : comparison := CompOpp (c1 x y).

  Lemma revc_tp : forall c1, total_preorder A c1 -> total_preorder A (revc c1).
  Proof.
    intros c1 [R S T]. unfold revc. split.
    - intros x. rewrite R. reflexivity.
    - intros x y. rewrite (S x y). reflexivity.
    - intros x y z H1 H2. rewrite (S z x), CompOpp_involutive.
      rewrite (S y x), CompOpp_involutive in H1. rewrite (S z y), CompOpp_involutive in H2.
      apply (T z y x); assumption.
  Qed.

  Lemma lexc_tp : forall c1 c2, total_preorder A c1 -> total_preorder A c2 -> total_preorder A (lexc c1 c2).
  Proof.
    intros c1 c2 T1 T2. unfold lexc. split.
    - intros x. rewrite (tp_refl _ _ T1). apply (tp_refl _ _ T2).
    - intros x y. rewrite (tp_sym _ _ T1 x y). destruct (c1 x y); simpl; try reflexivity. apply (tp_sym _ _ T2).
    - intros x y z H1 H2.
      destruct (c1 x y) eqn:E1; try congruence; destruct (c1 y z) eqn:E2; try congruence.
      + rewrite (eq_trans_c _ _ T1 _ _ _ E1 E2). apply (tp_trans _ _ T2 x y z); assumption.
      + rewrite (eq_lt_trans _ _ T1 _ _ _ E1 E2). congruence.
      + rewrite (lt_eq_trans _ _ T1 _ _ _ E1 E2). congruence.
      + rewrite (lt_trans_c _ _ T1 _ _ _ E1 E2). congruence.
  Qed.

  Lemma const_eq_tp : total_preorder A (fun _ _ => Eq).
  Proof. split; intro; intros; simpl; congruence. Qed.

  (* pulling a total preorder back along a function *)
  Lemma pullback_tp : forall B (f : A -> B) cb, total_preorder B cb -> total_preorder A (fun x y => cb (f x) (f y)).
  Proof.
    intros B f cb [R S T]. split.
    - intros x. apply R.
    - intros x y. apply S.
    - intros x y z. apply T.
  Qed.
End Combine.
