"""Fingerprints of the source files each property's hand-written model mirrors (DESIGN.md section 2,
step 2).  The list of files per property is the `anchors.files` list of /verif/properties.jsonl (given),
extended by vlib/anchors_extra.json (files the models were read from beyond that list).  A fingerprint
is the sha256 of the file with comments and white space removed.  corpus/anchors.json stores the
fingerprints of the tree the models were last validated against (maintenance:
python3 -c 'from vlib import anchors; anchors.freeze()').  A changed fingerprint is not a verdict - the
proofs, the translator and the correspondence are the tie - but it ESCALATES: when the quick tier found
nothing on a tree whose modelled files differ from the validated text, check.py runs the property again
with the thorough budgets and another seed (bounded by VERIF_ESCALATE_BUDGET_S), so that an edit to
modelled code is always met with the deepest search available."""
import os, re, json, hashlib

VERIF = os.path.dirname(os.path.dirname(os.path.abspath(__file__)))
STORE = os.path.join(VERIF, "corpus", "anchors.json")
EXTRA = os.path.join(VERIF, "vlib", "anchors_extra.json")

_COMMENT = re.compile(r'//[^\n]*|/\*.*?\*/|"(?:\\.|[^"\\\n])*"|\'(?:\\.|[^\'\\\n])*\'', re.S)


def _repo():
    return os.environ.get("VERIF_REPO", "/repo")


def fingerprint(path):
    try:
        txt = open(path, errors="replace").read()
    except OSError:
        return "missing"
    # drop comments, keep string and character literals
    txt = _COMMENT.sub(lambda m: "" if m.group(0).startswith("/") else m.group(0), txt)
    txt = re.sub(r"\s+", "", txt)
    return hashlib.sha256(txt.encode("utf-8", "replace")).hexdigest()[:24]


def files_for(pid):
    files = []
    for line in open(os.path.join(VERIF, "properties.jsonl")):
        line = line.strip()
        if not line:
            continue
        p = json.loads(line)
        if p.get("id") == pid:
            files += list((p.get("anchors") or {}).get("files") or [])
    if os.path.exists(EXTRA):
        files += json.load(open(EXTRA)).get(pid, [])
    seen, out = set(), []
    for f in files:
        if f not in seen and not os.path.isdir(os.path.join(_repo(), f)):
            seen.add(f)
            out.append(f)
    return out


def all_properties():
    return [json.loads(l)["id"] for l in open(os.path.join(VERIF, "properties.jsonl")) if l.strip()]


def freeze():
    store = {}
    for pid in all_properties():
        for f in files_for(pid):
            store[f] = fingerprint(os.path.join(_repo(), f))
    os.makedirs(os.path.dirname(STORE), exist_ok=True)
    with open(STORE, "w") as fh:
        json.dump(store, fh, indent=0, sort_keys=True)
    return len(store)


def changed_for(pid):
    """modelled source files of property pid whose text differs from the validated one"""
    if not os.path.exists(STORE):
        return []
    store = json.load(open(STORE))
    out = []
    for f in files_for(pid):
        if f in store and fingerprint(os.path.join(_repo(), f)) != store[f]:
            out.append(f)
    return out
