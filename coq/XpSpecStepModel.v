(* XpSpecStepModel.v — steps and location paths of the interpreter model against the declarative
   reading of XpSpecDefs.v:
   - [axis_nodes] (walk + node test) = the axis relation restricted by the node test, in axis order;
   - the i-th member of an axis-ordered list has proximity position i, the list length is the
     context size; position() as coded (index in the context node list + 1) is that position;
   - [apply_pred] / [apply_preds] (null-then-compact filtering, the number-literal shortcut [k]) =
     the predicate semantics of section 2.4 (each predicate evaluated at node, proximity position,
     size of the set the previous predicate left);
   - [steps_from] (per-context-node steps merged in document order) = relational composition,
     the result strictly sorted in document order.
   The evaluator of predicate expressions is an argument [ev]; the only thing assumed of it is that
   it is a function [pv] of (node, position in the context list, length of the context list). *)
From Coq Require Import ZArith NArith List Bool Arith Lia Relations Sorted Permutation.
Require Import XV.XpAst XV.DomDefs XV.NumDefs XV.XpDefs XV.DomModel XV.DomDescModel XV.XpModel
               XV.XpSpecDefs XV.XpSpecLayoutModel XV.XpSpecAxesModel XV.XpSpecFollowModel XV.XpSpecIndexModel.
Import ListNotations.

(** * wfd unpacked *)
Lemma wfd_unpack d : wfd d -> exists sz,
  sz 0 = length d /\ (forall n, n < length d -> node_layout d sz n) /\
  n_parent (get d 0) = None /\ is_attr_kind (n_kind (get d 0)) = false /\
  (forall n, n < length d -> (n_kind (get d n) = KDoc <-> n = 0)).
Proof. intros [[Hr Hk] Hdoc [sz [H0 HL]]]. exists sz. auto. Qed.

(** * every axis relates nodes of the table only *)
Lemma axis_rel_in_range d ax n x : wfd d -> n < length d -> axis_rel d ax n x -> x < length d.
Proof.
  intros Hw Hn H. destruct (wfd_unpack d Hw) as [sz [H0 [HL [Hr [Hk Hdoc]]]]].
  destruct ax; cbn [axis_rel] in H.
  - eapply ancestor_in_range; eauto.
  - destruct H as [->|H]; [exact Hn | eapply ancestor_in_range; eauto].
  - destruct H as [_ [H _]]. apply (attr_facts d sz H0 HL n x H).
  - apply (child_facts d sz H0 HL n x H).
  - apply (desc_interval d sz H0 HL n x H).
  - destruct H as [->|H]; [exact Hn | apply (desc_interval d sz H0 HL n x H)].
  - apply H.
  - destruct H as [p [_ [H _]]]. apply (child_facts d sz H0 HL p x H).
  - unfold parent_rel, child_of in H. eapply lists_in_range. destruct H as [H|H]; [right|left]; exact H.
  - apply H.
  - destruct H as [p [_ [H _]]]. apply (child_facts d sz H0 HL p x H).
  - unfold self_ax in H. subst. exact Hn.
  - destruct H.
  - apply (root_walk_correct d sz H0 HL Hr n Hn) in H. destruct H as [<-|[]]. lia.
Qed.

(** * axis_nodes: walk + node test *)
Lemma walk_filter d ax n raw (f : nat -> bool) : walk_correct d ax n raw ->
  axis_ordered ax (filter f raw) /\ forall x, In x (filter f raw) <-> axis_rel d ax n x /\ f x = true.
Proof.
  intros [Ho Hm]. split; [apply axis_ordered_filter; exact Ho|].
  intros x. rewrite filter_In, (Hm x). reflexivity.
Qed.

Lemma test_attr_kind c t x : is_attr_kind (n_kind (get (cx_doc c) x)) = true ->
  test_node c AxAttribute t x = true -> n_kind (get (cx_doc c) x) = KAttr.
Proof.
  intros Hk Ht. unfold test_node in Ht. destruct (n_kind (get (cx_doc c) x)); try reflexivity; try discriminate;
    destruct t as [| |[tg|]| |ns lo|]; cbn in Ht; try discriminate;
    try (destruct ns, lo; discriminate).
Qed.

Lemma Ok_inj {A} (a b : A) : Ok a = Ok b -> a = b.
Proof. intros H. inversion H. reflexivity. Qed.

Theorem axis_nodes_correct c ax t n l rv :
  wfd (cx_doc c) -> n < length (cx_doc c) -> ax <> AxNamespace -> (ax = AxRoot -> t = TRoot) ->
  axis_nodes c ax t n = Ok (l, rv) ->
  rv = axis_reverse ax /\ axis_ordered ax l /\
  forall x, In x l <-> axis_rel (cx_doc c) ax n x /\ test_node c ax t x = true.
Proof.
  intros Hw Hn Hns Hrt H. destruct (wfd_unpack _ Hw) as [sz [H0 [HL [Hr [Hk Hdoc]]]]].
  set (d := cx_doc c) in *.
  unfold axis_nodes in H. fold d in H.
  destruct ax; apply Ok_inj in H; apply pair_equal_spec in H; destruct H as [Hl Hrv]; subst l rv; (split; [reflexivity|]).
  - apply walk_filter. apply (ancestor_walk_correct d sz H0 HL Hr). lia.
  - apply walk_filter. apply (ancestor_or_self_walk_correct d sz H0 HL Hr n (length d)). exact Hn.
  - (* attribute *)
    destruct (attribute_walk_correct d sz HL n Hn) as [_ Hm]. split.
    + apply axis_ordered_fwd; [reflexivity|].
      destruct (nkind_eqb (n_kind (get d n)) KElem); [|constructor].
      apply ss_filter. rewrite (nl_attrs _ _ _ (HL n Hn)). apply ss_seq.
    + intros x. specialize (Hm x). rewrite filter_In in Hm. cbn [axis_rel] in *.
      destruct (nkind_eqb (n_kind (get d n)) KElem) eqn:E.
      * rewrite filter_In. split.
        -- intros [Hin Ht]. split; [|exact Ht]. apply Hm. split; [exact Hin|].
           unfold is_kattr. apply nkind_eqb_eq. apply (test_attr_kind c t x); [|exact Ht].
           apply (attr_facts d sz H0 HL n x Hin).
        -- intros [Ha Ht]. split; [|exact Ht]. apply Hm in Ha. apply Ha.
      * split; [intros []|]. intros [Ha _]. apply Hm in Ha. destruct Ha as [[] _].
  - apply walk_filter. apply (child_walk_correct d sz H0 HL). pose proof (children_length d sz H0 HL n). lia.
  - apply walk_filter. apply (descendant_walk_correct d sz H0 HL Hr n Hn).
  - apply walk_filter. apply (descendant_or_self_walk_correct d sz H0 HL Hr n Hn).
  - apply walk_filter. apply (following_walk_correct d sz H0 HL Hr Hk Hdoc n Hn).
  - apply walk_filter. apply (following_sibling_walk_correct d sz H0 HL Hr). lia.
  - apply walk_filter. apply (parent_walk d sz H0 HL Hr).
  - apply walk_filter. apply (preceding_walk_correct d sz H0 HL Hr Hk Hdoc n Hn).
  - apply walk_filter. apply (preceding_sibling_walk_correct d sz H0 HL Hr). lia.
  - apply walk_filter. apply self_walk.
  - congruence.
  - (* root *)
    destruct (root_walk_correct d sz H0 HL Hr n Hn) as [Ho Hm]. split; [exact Ho|].
    intros x. rewrite (Hm x). rewrite (Hrt eq_refl). split; [|tauto]. intros Hx. split; [exact Hx|].
    apply Hm in Hx. destruct Hx as [<-|[]]. unfold test_node. fold d.
    apply nkind_eqb_eq. apply (Hdoc 0); [lia | reflexivity].
Qed.

(** * proximity position = index in an axis-ordered list *)
Lemma axis_before_asym ax x y : axis_before ax x y -> axis_before ax y x -> False.
Proof. unfold axis_before. destruct (axis_reverse ax); lia. Qed.

Lemma nth_error_split' {A} (l : list A) i x : nth_error l i = Some x ->
  l = firstn i l ++ x :: skipn (S i) l /\ length (firstn i l) = i.
Proof.
  revert i. induction l as [|a l IH]; intros [|i] H; simpl in H; try discriminate.
  - inversion H. split; reflexivity.
  - destruct (IH i H) as [E L]. split; [simpl; f_equal; exact E | simpl; f_equal; exact L].
Qed.

Lemma prox_of_list ax (S : nat -> Prop) l : axis_ordered ax l -> (forall y, In y l <-> S y) ->
  forall i x, nth_error l i = Some x -> proximity_position ax S x (Datatypes.S i).
Proof.
  intros Ho Hm i x Hn. destruct (nth_error_split' l i x Hn) as [E L].
  split; [apply Hm; eapply nth_error_In; exact Hn|].
  exists (firstn i l). rewrite E in Ho. destruct (ss_app_inv _ _ _ Ho) as [H1 [H2 H3]].
  inversion H2 as [|? ? H4 Hall]; subst. rewrite Forall_forall in Hall.
  split; [apply (axis_ordered_nodup ax); exact H1|]. split; [|rewrite L; reflexivity].
  intros y. split.
  - intros Hy. split; [apply Hm; rewrite E; apply in_or_app; left; exact Hy|].
    apply H3; [exact Hy | left; reflexivity].
  - intros [Hy Hb]. apply Hm in Hy. rewrite E in Hy. apply in_app_or in Hy. destruct Hy as [Hy|[<-|Hy]].
    + exact Hy.
    + exfalso. exact (axis_before_irrefl ax x Hb).
    + exfalso. exact (axis_before_asym ax y x Hb (Hall y Hy)).
Qed.

Lemma size_of_list ax (S : nat -> Prop) l : axis_ordered ax l -> (forall y, In y l <-> S y) -> set_size S (length l).
Proof. intros Ho Hm. exists l. split; [apply (axis_ordered_nodup ax); exact Ho|]. split; [exact Hm | reflexivity]. Qed.

Lemma nodup_same_length (l1 l2 : list nat) : NoDup l1 -> NoDup l2 -> (forall y, In y l1 <-> In y l2) -> length l1 = length l2.
Proof. intros H1 H2 H. apply Permutation_length. apply NoDup_Permutation; assumption. Qed.

Lemma prox_unique ax S x k k' : proximity_position ax S x k -> proximity_position ax S x k' -> k = k'.
Proof.
  intros [_ [b [Hb [Hm ->]]]] [_ [b' [Hb' [Hm' ->]]]]. f_equal.
  apply nodup_same_length; try assumption. intros y. rewrite (Hm y), (Hm' y). reflexivity.
Qed.

Lemma size_unique S m m' : set_size S m -> set_size S m' -> m = m'.
Proof.
  intros [a [Ha [Hm ->]]] [a' [Ha' [Hm' ->]]].
  apply nodup_same_length; try assumption. intros y. rewrite (Hm y), (Hm' y). reflexivity.
Qed.

(* position() as coded: index of the context node in the context node list, plus one *)
Lemma position_of_nth c n l i : NoDup l -> nth_error l i = Some n -> position_of (with_node c n l) = S i.
Proof.
  intros Hnd Hn. unfold position_of. cbn [with_node cx_list cx_node].
  enough (G : forall l i k, NoDup l -> nth_error l i = Some n ->
            (fix go (l0 : list nat) (i0 : nat) {struct l0} : nat :=
               match l0 with [] => 0 | a :: r => if Nat.eqb a n then S i0 else go r (S i0) end) l k = S (k + i))
    by (apply (G l i 0 Hnd Hn)).
  clear. induction l as [|a l IH]; intros [|i] k Hnd Hn; simpl in Hn; try discriminate.
  - inversion Hn; subst. rewrite Nat.eqb_refl. f_equal. lia.
  - inversion Hnd as [|? ? Hna Hnd']; subst.
    destruct (Nat.eqb_spec a n) as [->|Hne]; [exfalso; apply Hna; eapply nth_error_In; exact Hn|].
    rewrite (IH i (S k) Hnd' Hn). f_equal. lia.
Qed.

(** * predicates *)
Section Preds.
  Variable ev : ctx -> expr -> res value.
  Variable c : ctx.
  Variable pv : expr -> nat -> nat -> nat -> res value.
  (* the only assumption about the evaluator of predicate expressions: its result is a function of the
     context node, its position in the context node list and the length of that list *)
  Hypothesis Hev : forall pe l i n, NoDup l -> nth_error l i = Some n ->
    ev (with_node c n l) pe = pv pe n (S i) (length l).
  (* a number literal evaluates to its value *)
  Hypothesis Hnum : forall t x k m, pv (ENumLit t) x k m = Ok (VNum (string_to_number t)).
  (* fewer than 2^53 nodes (positions are exact doubles) *)
  Hypothesis Hsmall : (Z.of_nat (length (cx_doc c)) < 2 ^ 53)%Z.

  Let d := cx_doc c.

  Lemma keep_iff v i :
    negb (match v with VNum x => negb (d_eq (d_of_nat (S i)) x) | _ => false end) && to_boolean v = true <->
    match v with VNum r => d_eq (d_of_nat (S i)) r = true | _ => to_boolean v = true end.
  Proof.
    destruct v as [b|x|s|l]; cbn [negb andb]; try reflexivity.
    rewrite andb_true_iff, negb_true_iff, negb_false_iff. split; [tauto|].
    intros H. split; [exact H|]. cbn [to_boolean]. apply (d_eq_pos_truthy i x H).
  Qed.

  (* one pass of the general filter over the tail [rest] of the list, counter at i *)
  Lemma pred_filter_spec l pe : NoDup l -> forall rest pre r, l = pre ++ rest ->
    pred_filter ev c l pe rest (length pre) = Ok r ->
    forall x, In x r <-> exists j, nth_error rest j = Some x /\ pred_true pv pe x (S (length pre + j)) (length l).
  Proof.
    intros Hnd. induction rest as [|n rest IH]; intros pre r E H x; cbn [pred_filter] in H.
    - inversion H; subst. split; [intros [] | intros [j [Hj _]]; destruct j; discriminate].
    - assert (Hn : nth_error l (length pre) = Some n).
      { rewrite E, nth_error_app2 by lia. rewrite Nat.sub_diag. reflexivity. }
      rewrite (Hev pe l (length pre) n Hnd Hn) in H. cbn [bind] in H.
      destruct (pv pe n (S (length pre)) (length l)) as [v|er] eqn:Ev; cbn [bind] in H; [|discriminate].
      destruct (pred_filter ev c l pe rest (S (length pre))) as [r'|er] eqn:Er; cbn [bind] in H; [|discriminate].
      assert (E' : l = (pre ++ [n]) ++ rest) by (rewrite <- app_assoc; exact E).
      assert (Hl' : length (pre ++ [n]) = S (length pre)) by (rewrite app_length; simpl; lia).
      rewrite <- Hl' in Er. specialize (IH (pre ++ [n]) r' E' Er).
      assert (Hnr : ~ In n rest).
      { rewrite E in Hnd. apply NoDup_remove_2 in Hnd. intros Hin. apply Hnd. apply in_or_app. right. exact Hin. }
      assert (Hkeep : In n r <-> pred_true pv pe n (S (length pre)) (length l) /\ True).
      { pose proof (keep_iff v (length pre)) as Hk. inversion H; subst r. unfold pred_true. rewrite Ev.
        match goal with |- In n (if ?b then _ else _) <-> _ => destruct b end.
        - split; [intros _; split; [|exact I]; exists v; split; [reflexivity | apply Hk; reflexivity] | intros _; left; reflexivity].
        - split.
          + intros Hin. exfalso. apply Hnr. apply (IH n) in Hin. destruct Hin as [j [Hj _]]. eapply nth_error_In; exact Hj.
          + intros [[v' [Ev' Hv']] _]. inversion Ev'; subst v'. apply Hk in Hv'. discriminate. }
      split.
      + intros Hin. destruct (Nat.eq_dec x n) as [->|Hne].
        * exists 0. split; [reflexivity|]. rewrite Nat.add_0_r. apply Hkeep. exact Hin.
        * assert (Hin' : In x r').
          { inversion H; subst r. match goal with H1 : In x (if ?b then _ else _) |- _ => destruct b end;
              [destruct Hin as [->|Hin]; [congruence | exact Hin] | exact Hin]. }
          apply (IH x) in Hin'. destruct Hin' as [j [Hj Hp]]. exists (S j). split; [exact Hj|].
          rewrite Hl' in Hp. replace (length pre + S j) with (S (length pre) + j) by lia. exact Hp.
      + intros [j [Hj Hp]]. destruct j as [|j]; cbn [nth_error] in Hj.
        * inversion Hj; subst x. apply Hkeep. rewrite Nat.add_0_r in Hp. split; [exact Hp | exact I].
        * assert (Hin' : In x r').
          { apply (IH x). exists j. split; [exact Hj|]. rewrite Hl'.
            replace (S (length pre) + j) with (length pre + S j) by lia. exact Hp. }
          inversion H; subst r. match goal with |- In x (if ?b then _ else _) => destruct b end; [right|]; exact Hin'.
  Qed.

  Lemma pred_filter_ordered ax l pe rest i r : axis_ordered ax rest ->
    pred_filter ev c l pe rest i = Ok r -> axis_ordered ax r /\ forall x, In x r -> In x rest.
  Proof.
    revert i r. induction rest as [|n rest IH]; intros i r Ho H; cbn [pred_filter] in H.
    - inversion H; subst. split; [constructor | intros x []].
    - unfold bind in H. destruct (ev (with_node c n l) pe) as [v|er]; [|discriminate].
      destruct (pred_filter ev c l pe rest (S i)) as [r'|er] eqn:Er; [|discriminate].
      inversion Ho as [|? ? Ho' Hall]; subst. destruct (IH _ _ Ho' Er) as [Hor Hsub].
      rewrite Forall_forall in Hall.
      match type of H with Ok (if ?b then _ else _) = _ => destruct b end; inversion H; subst.
      + split.
        * constructor; [exact Hor|]. apply Forall_forall. intros y Hy. apply Hall, Hsub, Hy.
        * intros x [<-|Hx]; [left; reflexivity | right; apply Hsub, Hx].
      + split; [exact Hor | intros x Hx; right; apply Hsub, Hx].
  Qed.

  (* one predicate, general or number literal, applied to an axis-ordered list that enumerates S *)
  Lemma apply_pred_spec ax (S : nat -> Prop) l p r :
    axis_ordered ax l -> (forall y, In y l <-> S y) -> (forall y, S y -> y < length d) ->
    apply_pred ev c l p = Ok r ->
    axis_ordered ax r /\ forall x, In x r <-> filter_set pv ax S (snd p) x.
  Proof.
    intros Ho Hm Hrange H.
    assert (Hnd : NoDup l) by (apply (axis_ordered_nodup ax); exact Ho).
    assert (Hlen : (Z.of_nat (length l) < 2 ^ 53)%Z).
    { assert (length l <= length d); [|unfold d in *; lia].
      rewrite <- (seq_length (length d) 0). apply NoDup_incl_length; [exact Hnd|].
      intros y Hy. apply in_seq. apply Hm, Hrange in Hy. lia. }
    (* membership of the declarative filter, in terms of the list *)
    assert (Hfs : forall x, filter_set pv ax S (snd p) x <->
                   exists j, nth_error l j = Some x /\ pred_true pv (snd p) x (Datatypes.S j) (length l)).
    { intros x. unfold filter_set. split.
      - intros [Hx [k [m [Hk [Hsz Hp]]]]]. apply Hm in Hx. destruct (In_nth_error _ _ Hx) as [j Hj].
        exists j. split; [exact Hj|].
        rewrite (prox_unique ax S x k _ Hk (prox_of_list ax S l Ho Hm j x Hj)) in Hp.
        rewrite (size_unique S m _ Hsz (size_of_list ax S l Ho Hm)) in Hp. exact Hp.
      - intros [j [Hj Hp]]. split; [apply Hm; eapply nth_error_In; exact Hj|].
        exists (Datatypes.S j), (length l). split; [apply (prox_of_list ax S l Ho Hm j x Hj)|].
        split; [apply (size_of_list ax S l Ho Hm) | exact Hp]. }
    assert (Hgen : forall pe, snd p = pe -> pred_filter ev c l pe l 0 = Ok r ->
                   axis_ordered ax r /\ forall x, In x r <-> filter_set pv ax S (snd p) x).
    { intros pe Epe Hpf. split; [apply (pred_filter_ordered ax l pe l 0 r Ho Hpf)|].
      intros x. rewrite (Hfs x), Epe. apply (pred_filter_spec l pe Hnd l [] r eq_refl Hpf x). }
    unfold apply_pred in H. destruct l as [|a l'] eqn:El.
    { inversion H; subst. split; [constructor|]. intros x. rewrite (Hfs x).
      split; [intros [] | intros [j [Hj _]]; destruct j; discriminate]. }
    rewrite <- El in *. clear El a l'.
    destruct (snd p) as [| | | | | | | | | | | | | | | | | | tk | | |] eqn:Esp; try (apply (Hgen _ eq_refl H)).
    (* the number-literal shortcut *)
    assert (Hv : SpecFloat.valid_binary prec emax (string_to_number tk) = true) by apply string_to_number_valid.
    pose proof (d_index_spec (string_to_number tk) (length l)) as Hidx.
    assert (Hpt : forall x j, pred_true pv (ENumLit tk) x (Datatypes.S j) (length l) <->
                              d_eq (d_of_nat (Datatypes.S j)) (string_to_number tk) = true).
    { intros x j. unfold pred_true. rewrite Hnum. split.
      - intros [v [Ev Hv']]. inversion Ev; subst v. exact Hv'.
      - intros Hd. exists (VNum (string_to_number tk)). split; [reflexivity | exact Hd]. }
    destruct (d_index (string_to_number tk) (length l)) as [k|] eqn:Ei.
    - destruct (proj1 (Hidx k Hv Hlen) eq_refl) as [Hk Hdk].
      destruct (nth_error l (k - 1)) as [xk|] eqn:En.
      2:{ apply nth_error_None in En. lia. }
      inversion H; subst r. split; [apply ss_one|].
      intros x. rewrite (Hfs x). split.
      + intros [<-|[]]. exists (k - 1). split; [exact En|]. apply Hpt. replace (Datatypes.S (k - 1)) with k by lia. exact Hdk.
      + intros [j [Hj Hp]]. apply Hpt in Hp.
        assert (Hjl : j < length l) by (apply nth_error_Some; congruence).
        assert (Hkj : Some k = Some (Datatypes.S j)).
        { apply (Hidx (Datatypes.S j) Hv Hlen). split; [lia | exact Hp]. }
        inversion Hkj; subst k. replace (Datatypes.S j - 1) with j in En by lia. left. congruence.
    - inversion H; subst r. split; [constructor|]. intros x. rewrite (Hfs x). split; [intros []|].
      intros [j [Hj Hp]]. apply Hpt in Hp.
      assert (Hjl : j < length l) by (apply nth_error_Some; congruence).
      assert (None = Some (Datatypes.S j)); [|discriminate].
      apply (Hidx (Datatypes.S j) Hv Hlen). split; [lia | exact Hp].
  Qed.

  Lemma fold_err {A B} (F : res A -> B -> res A) (Herr : forall e b, F (Err e) b = Err e) l e :
    fold_left F l (Err e) = Err e.
  Proof. induction l as [|b l IH]; simpl; [reflexivity|]. rewrite Herr. exact IH. Qed.

  Lemma filter_set_sub ax S pe x : filter_set pv ax S pe x -> S x.
  Proof. intros [H _]. exact H. Qed.

  (* all the predicates of a step, left to right *)
  Lemma apply_preds_spec ax : forall ps (S : nat -> Prop) l r,
    axis_ordered ax l -> (forall y, In y l <-> S y) -> (forall y, S y -> y < length d) ->
    apply_preds ev c l ps = Ok r ->
    axis_ordered ax r /\ forall x, In x r <-> preds_set pv ax S ps x.
  Proof.
    unfold apply_preds. induction ps as [|p ps IH]; intros S l r Ho Hm Hrange H; cbn [fold_left preds_set] in *.
    - inversion H; subst. split; [exact Ho | exact Hm].
    - cbn [bind] in H. destruct (apply_pred ev c l p) as [l1|er] eqn:E.
      + destruct (apply_pred_spec ax S l p l1 Ho Hm Hrange E) as [Ho1 Hm1].
        apply (IH (filter_set pv ax S (snd p)) l1 r Ho1 Hm1); [|exact H].
        intros y Hy. apply Hrange. eapply filter_set_sub; exact Hy.
      + rewrite fold_err in H; [discriminate | reflexivity].
  Qed.

  Lemma preds_set_sub ax : forall ps (S : nat -> Prop) x, preds_set pv ax S ps x -> S x.
  Proof.
    induction ps as [|p ps IH]; intros S x H; cbn [preds_set] in H; [exact H|].
    apply IH in H. eapply filter_set_sub; exact H.
  Qed.

  (** ** one step from one context node *)
  Theorem step_from_node ax t ps n l0 rv l1 :
    wfd d -> n < length d -> ax <> AxNamespace -> (ax = AxRoot -> t = TRoot) ->
    axis_nodes c ax t n = Ok (l0, rv) -> apply_preds ev c l0 ps = Ok l1 ->
    rv = axis_reverse ax /\ axis_ordered ax l1 /\
    forall x, In x l1 <-> step_denotes d (test_node c) pv (ax, t, ps) n x.
  Proof.
    intros Hw Hn Hns Hrt Ha Hp. destruct (axis_nodes_correct c ax t n l0 rv Hw Hn Hns Hrt Ha) as [Hrv [Ho Hm]].
    split; [exact Hrv|]. cbn [step_denotes].
    apply (apply_preds_spec ax ps _ l0 l1 Ho Hm); [|exact Hp].
    intros y [Hy _]. apply (axis_rel_in_range d ax n y Hw Hn Hy).
  Qed.

  (* the list handed to the next step / returned: in document order *)
  Lemma doc_order_of_axis_order ax l : axis_ordered ax l ->
    ordered (if axis_reverse ax then rev l else l).
  Proof.
    unfold axis_ordered, axis_before, ordered. destruct (axis_reverse ax); intros H; [|exact H].
    rewrite <- (rev_involutive l) in H. set (m := rev l) in *. clearbody m.
    induction m as [|a m IH]; [constructor|].
    simpl in H. apply ss_app_inv in H. destruct H as [H1 [_ H3]]. constructor; [apply IH; exact H1|].
    apply Forall_forall. intros y Hy. apply (H3 y a); [apply -> in_rev; exact Hy | left; reflexivity].
  Qed.

  (** ** location paths *)
  Definition steps_ok (steps : list step) : Prop :=
    Forall (fun st : step => let '(ax, t, _) := st in ax <> AxNamespace /\ (ax = AxRoot -> t = TRoot)) steps.

  Lemma steps_from_spec : wfd d -> forall steps sfuel sub rv r, steps <> [] -> steps_ok steps ->
    (forall n, In n sub -> n < length d) ->
    steps_from ev c sfuel sub rv steps = Ok r ->
    ordered r /\ forall x, In x r <-> exists n, In n sub /\ path_denotes d (test_node c) pv steps n x.
  Proof.
    intros Hw. induction steps as [|[[ax t] ps] rest IH]; intros sfuel sub rv r Hne Hok Hsub H; [congruence|].
    destruct sfuel as [|sf]; cbn [steps_from] in H; [discriminate|].
    inversion Hok as [|? ? Hst Hok']; subst. cbn beta iota in Hst. destruct Hst as [Hns Hrt].
    (* the fold over the context nodes, generalised over the accumulator *)
    set (F := fun (acc : res (list nat)) (n : nat) =>
                do q <- acc; do an <- axis_nodes c ax t n; let (l0, rv0) := an in
                do l1 <- apply_preds ev c l0 ps; do r0 <- steps_from ev c sf l1 rv0 rest; Ok (merge_doc_order q r0)) in *.
    assert (G : forall sub q r, (forall n, In n sub -> n < length d) -> ordered q ->
              fold_left F sub (Ok q) = Ok r ->
              ordered r /\ forall x, In x r <-> In x q \/ exists n, In n sub /\ path_denotes d (test_node c) pv ((ax, t, ps) :: rest) n x).
    { clear H Hsub sub r. induction sub as [|n sub IHs]; intros q r Hsub Hq H; cbn [fold_left] in H.
      - inversion H; subst. split; [exact Hq|]. intros x. split; [auto | intros [Hx|[n [[] _]]]; exact Hx].
      - assert (Hn : n < length d) by (apply Hsub; left; reflexivity).
        destruct (F (Ok q) n) as [q'|er] eqn:EF; [|rewrite fold_err in H; [discriminate | reflexivity]].
        unfold F in EF. cbn [bind] in EF.
        destruct (axis_nodes c ax t n) as [[l0 rv0]|er] eqn:Ea; cbn [bind] in EF; [|discriminate].
        destruct (apply_preds ev c l0 ps) as [l1|er] eqn:Ep; cbn [bind] in EF; [|discriminate].
        destruct (steps_from ev c sf l1 rv0 rest) as [r0|er] eqn:Es; cbn [bind] in EF; [|discriminate].
        inversion EF; subst q'. clear EF.
        destruct (step_from_node ax t ps n l0 rv0 l1 Hw Hn Hns Hrt Ea Ep) as [Hrv [Ho1 Hm1]].
        assert (Hr0 : forall x, In x r0 <-> path_denotes d (test_node c) pv ((ax, t, ps) :: rest) n x).
        { intros x. cbn [path_denotes]. destruct rest as [|st rest'].
          - destruct sf as [|sf']; cbn [steps_from] in Es; [discriminate|]. inversion Es; subst r0.
            cbn [path_denotes]. split.
            + intros Hx. exists x. split; [|reflexivity]. apply Hm1. destruct rv0; [apply in_rev|]; exact Hx.
            + intros [y [Hy ->]]. apply Hm1 in Hy. destruct rv0; [apply -> in_rev|]; exact Hy.
          - destruct (IH sf l1 rv0 r0) as [_ Hm0]; [discriminate | exact Hok' | | exact Es |].
            + intros y Hy. apply Hm1 in Hy. cbn [step_denotes] in Hy. apply preds_set_sub in Hy. destruct Hy as [Hy _].
              apply (axis_rel_in_range d ax n y Hw Hn Hy).
            + rewrite (Hm0 x). split.
              * intros [y [Hy Hp]]. exists y. split; [apply Hm1; exact Hy | exact Hp].
              * intros [y [Hy Hp]]. exists y. split; [apply Hm1; exact Hy | exact Hp]. }
        destruct (IHs (merge_doc_order q r0) r) as [Hor Hmr];
          [intros m Hm; apply Hsub; right; exact Hm | apply merge_ordered; exact Hq | exact H |].
        split; [exact Hor|]. intros x. rewrite (Hmr x), merge_In, (Hr0 x). split.
        + intros [[Hx|Hx]|[m [Hm Hp]]]; [left; exact Hx | right; exists n; split; [left; reflexivity | exact Hx] |
                                         right; exists m; split; [right; exact Hm | exact Hp]].
        + intros [Hx|[m [[<-|Hm] Hp]]]; [left; left; exact Hx | left; right; exact Hp | right; exists m; split; assumption]. }
    destruct (G sub [] r Hsub ordered_nil H) as [Hor Hmr]. split; [exact Hor|].
    intros x. rewrite (Hmr x). split; [intros [[]|Hx]; exact Hx | intros Hx; right; exact Hx].
  Qed.

  (** a location path from one context node, with the fuel the interpreter passes *)
  Theorem path_from_node steps n r : wfd d -> n < length d -> steps_ok steps ->
    steps_from ev c (S (length steps)) [n] false steps = Ok r ->
    ordered r /\ forall x, In x r <-> path_denotes d (test_node c) pv steps n x.
  Proof.
    intros Hw Hn Hok H. destruct steps as [|st rest].
    - cbn [steps_from] in H. inversion H; subst. split; [apply ordered_one|].
      intros x. cbn [path_denotes In]. split; [intros [<-|[]]; reflexivity | intros ->; left; reflexivity].
    - destruct (steps_from_spec Hw (st :: rest) (S (length (st :: rest))) [n] false r) as [Hor Hm]; [discriminate | exact Hok | | exact H |].
      + intros m [<-|[]]. exact Hn.
      + split; [exact Hor|]. intros x. rewrite (Hm x). split.
        * intros [m [[<-|[]] Hp]]. exact Hp.
        * intros Hp. exists n. split; [left; reflexivity | exact Hp].
  Qed.

End Preds.
