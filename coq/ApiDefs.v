(* C06 — the transformer as a state machine over the public API (definitions only).
   The member universe, the reset chain, the doTransform statement list, the catch tables and the
   error-buffer idioms come from GenApi.v (regenerated from /repo on every run). *)
From Coq Require Import List ZArith Bool Arith.
Require Import XV.ApiName XV.GenApi.
Import ListNotations.
Open Scope name_scope.

(* ------------------------------------------------------------------------------------------ *)
(* members and their AUDITED classification                                                     *)

Definition mid := (mclass * name)%type.

Definition mclass_eqb (a b : mclass) : bool :=
  match a, b with
  | CSecd, CSecd | CXpec, CXpec | CXpecBase, CXpecBase | CExecBase, CExecBase
  | CEngine, CEngine | CTransformer, CTransformer | CVarStack, CVarStack | CCounters, CCounters => true
  | _, _ => false
  end.

Definition mid_eqb (a b : mid) : bool := mclass_eqb (fst a) (fst b) && name_eqb (snd a) (snd b).

Inductive cat :=
| PerTransformation   (* state of one transformation: must be back to its initial value afterwards *)
| Sticky              (* kept across transformations by documentation: params, functions, owned objects, options *)
| Constant            (* fixed at construction (or never written in this build) *)
| StackObject         (* member of an automatic object of doTransform: dies with the call *)
| Scratch.            (* overwritten before each use / emptied by RAII guards on every exit *)

Definition audit : list (mid * cat) := [
  (* StylesheetExecutionContextDefault *)
  ((CSecd, "m_xpathExecutionContextDefault"), Constant);   (* embedded sub-object; its members are classified under CXpec *)
  ((CSecd, "m_xsltProcessor"), PerTransformation);         (* points at doTransform's automatic XSLTEngineImpl *)
  ((CSecd, "m_rootDocument"), PerTransformation);          (* source document of the running transformation *)
  ((CSecd, "m_elementRecursionStack"), PerTransformation); (* recursion detection stack *)
  ((CSecd, "m_stylesheetRoot"), PerTransformation);        (* stylesheet being executed *)
  ((CSecd, "m_formatterListeners"), PerTransformation);    (* serializers created for this result *)
  ((CSecd, "m_printWriters"), PerTransformation);          (* writers created for this result *)
  ((CSecd, "m_outputStreams"), PerTransformation);         (* streams created for this result *)
  ((CSecd, "m_collationCompareFunctor"), Constant);        (* installed by the transformer's constructor, removed by its destructor *)
  ((CSecd, "m_formatNumberFunctor"), Constant);            (* same *)
  ((CSecd, "m_variablesStack"), PerTransformation);        (* variables, params, context markers *)
  ((CSecd, "m_paramsVector"), Constant);                   (* only used when XALAN_RECURSIVE_STYLESHEET_EXECUTION is defined (it is not) *)
  ((CSecd, "m_matchPatternCache"), PerTransformation);     (* XPaths owned by the per-call processor *)
  ((CSecd, "m_keyTables"), PerTransformation);             (* xsl:key tables per document *)
  ((CSecd, "m_countersTable"), PerTransformation);         (* xsl:number counters *)
  ((CSecd, "m_sourceTreeResultTreeFactory"), PerTransformation); (* document owning result tree fragments *)
  ((CSecd, "m_mode"), PerTransformation);                  (* current mode *)
  ((CSecd, "m_currentTemplateStack"), PerTransformation);  (* current template rule *)
  ((CSecd, "m_indentAmount"), Sticky);                     (* XalanTransformer::setIndent option *)
  ((CSecd, "m_xresultTreeFragAllocator"), PerTransformation);
  ((CSecd, "m_documentFragmentAllocator"), PerTransformation);
  ((CSecd, "m_documentAllocator"), PerTransformation);
  ((CSecd, "m_copyTextNodesOnlyStack"), PerTransformation);
  ((CSecd, "m_modeStack"), PerTransformation);
  ((CSecd, "m_currentIndexStack"), PerTransformation);
  ((CSecd, "m_xobjectPtrStack"), PerTransformation);
  ((CSecd, "m_mutableNodeRefListStack"), PerTransformation);
  ((CSecd, "m_nodesToTransformStack"), PerTransformation);
  ((CSecd, "m_processCurrentAttributeStack"), PerTransformation);
  ((CSecd, "m_executeIfStack"), PerTransformation);
  ((CSecd, "m_stringStack"), PerTransformation);
  ((CSecd, "m_formatterToTextStack"), PerTransformation);
  ((CSecd, "m_skipElementAttributesStack"), PerTransformation);
  ((CSecd, "m_formatterToSourceTreeStack"), PerTransformation);
  ((CSecd, "m_paramsVectorStack"), PerTransformation);
  ((CSecd, "m_elementInvokerStack"), PerTransformation);
  ((CSecd, "m_useAttributeSetIndexesStack"), PerTransformation);
  ((CSecd, "m_nodeSorter"), Scratch);                      (* keys assigned before each sort; vectors/caches emptied by CollectionClearGuard *)
  ((CSecd, "m_usePerInstanceDocumentFactory"), Sticky);    (* option *)
  ((CSecd, "m_escapeURLs"), Sticky);                       (* XalanTransformer::setEscapeURLs option *)
  ((CSecd, "m_omitMETATag"), Sticky);                      (* XalanTransformer::setOmitMETATag option *)
  (* XPathExecutionContextDefault and its bases *)
  ((CXpec, "m_xpathEnvSupport"), PerTransformation);       (* points at doTransform's automatic env support *)
  ((CXpec, "m_domSupport"), PerTransformation);            (* points at the per-call helper's DOM support *)
  ((CXpec, "m_currentNodeStack"), PerTransformation);
  ((CXpec, "m_contextNodeListStack"), PerTransformation);
  ((CXpec, "m_prefixResolver"), PerTransformation);
  ((CXpec, "m_currentPattern"), Constant);                 (* never written after construction *)
  ((CXpec, "m_nodeListCache"), PerTransformation);         (* borrowed lists *)
  ((CXpec, "m_stringCache"), PerTransformation);           (* borrowed strings *)
  ((CXpec, "m_cachedPosition"), PerTransformation);        (* position() cache *)
  ((CXpec, "m_scratchQName"), Scratch);                    (* overwritten before each use *)
  ((CXpecBase, "m_xobjectFactory"), PerTransformation);    (* points at doTransform's automatic factory *)
  ((CExecBase, "m_memoryManager"), Constant);
  ((CExecBase, "m_hasPreserveOrStripConditions"), Constant); (* no writer in the tree *)
  (* XalanTransformer *)
  ((CTransformer, "m_memoryManager"), Constant);
  ((CTransformer, "m_compiledStylesheets"), Sticky);       (* owned until destroyStylesheet / destructor *)
  ((CTransformer, "m_parsedSources"), Sticky);             (* owned until destroyParsedSource / destructor *)
  ((CTransformer, "m_params"), Sticky);                    (* documented: sticky until clearStylesheetParams *)
  ((CTransformer, "m_functions"), Sticky);                 (* until uninstallExternalFunction *)
  ((CTransformer, "m_traceListeners"), Sticky);
  ((CTransformer, "m_errorMessage"), Scratch);             (* emptied at the start of every compile/parse/transform: modelled by errbuf below *)
  ((CTransformer, "m_useValidation"), Sticky);
  ((CTransformer, "m_entityResolver"), Sticky);
  ((CTransformer, "m_xmlEntityResolver"), Sticky);
  ((CTransformer, "m_errorHandler"), Sticky);
  ((CTransformer, "m_externalSchemaLocation"), Sticky);
  ((CTransformer, "m_externalNoNamespaceSchemaLocation"), Sticky);
  ((CTransformer, "m_problemListener"), Sticky);
  ((CTransformer, "m_errorStream"), Sticky);
  ((CTransformer, "m_warningStream"), Sticky);
  ((CTransformer, "m_outputEncoding"), Sticky);
  ((CTransformer, "m_poolAllTextNodes"), Sticky);
  ((CTransformer, "m_topXObjectFactory"), Constant);       (* owned factory of parameter values; reset by clearStylesheetParams *)
  ((CTransformer, "m_stylesheetExecutionContext"), Constant); (* the long-lived context itself *)
  (* VariablesStack (StylesheetExecutionContextDefault::m_variablesStack) *)
  ((CVarStack, "m_stack"), PerTransformation);
  ((CVarStack, "m_globalStackFrameIndex"), PerTransformation);
  ((CVarStack, "m_globalStackFrameMarked"), PerTransformation);
  ((CVarStack, "m_currentStackFrameIndex"), PerTransformation); (* brought back to 0 by the pop() loop of reset() (anchored) *)
  ((CVarStack, "m_guardStack"), PerTransformation);
  ((CVarStack, "m_elementFrameStack"), PerTransformation);
  (* CountersTable (StylesheetExecutionContextDefault::m_countersTable) *)
  ((CCounters, "m_countersVector"), PerTransformation);
  ((CCounters, "m_newFound"), PerTransformation)
].

(* XSLTEngineImpl is an automatic object of doTransform (translator anchor): every member is StackObject *)
Definition classify (m : mid) : option cat :=
  match fst m with
  | CEngine => Some StackObject
  | _ => match find (fun e => mid_eqb (fst e) m) audit with
         | Some e => Some (snd e)
         | None => None
         end
  end.

Definition member_ids : list mid := map (fun t => (fst (fst t), snd (fst t))) members.

Definition kind_of (m : mid) : option mkind :=
  match find (fun t => mid_eqb (fst (fst t), snd (fst t)) m) members with
  | Some t => Some (snd t)
  | None => None
  end.

Definition is_objstack (m : mid) : bool :=
  match kind_of m with Some KObjStack => true | _ => false end.

Definition is_per_transformation (m : mid) : bool :=
  match classify m with Some PerTransformation => true | _ => false end.

(* ------------------------------------------------------------------------------------------ *)
(* the reset chain as coded                                                                    *)

Definition mem_str (s : name) (l : list name) : bool := existsb (name_eqb s) l.

Definition chain_cleared : list mid :=
  map (pair CSecd) secd_reset_clears
  ++ (if mem_str "cleanUpTransients" secd_reset_calls
      then map (pair CSecd) secd_cleanup_clears
           ++ (if mem_str "clearXPathCache" secd_cleanup_calls then map (pair CSecd) secd_clearxpathcache_clears else [])
      else [])
  ++ (if mem_str "m_xpathExecutionContextDefault" secd_reset_clears then map (pair CXpec) xpec_reset_clears else [])
  ++ (if mem_str "m_variablesStack" secd_reset_clears then map (pair CVarStack) varstack_reset_clears else [])
  ++ (if mem_str "cleanUpTransients" secd_reset_calls && mem_str "m_countersTable" secd_cleanup_clears
      then map (pair CCounters) counters_reset_clears else [])
  ++ (if ensure_reset_dtor_resets_transformer then transformer_reset_nulls else []).

(* ~EnsureReset really reaches StylesheetExecutionContextDefault::reset() *)
Definition chain_runs : bool :=
  ensure_reset_dtor_resets_context || (ensure_reset_dtor_resets_transformer && transformer_reset_resets_context).

Definition cleared (m : mid) : bool := chain_runs && existsb (mid_eqb m) chain_cleared.

(* XalanObjectStackCache::reset() resets the pooled objects; whether it also rewinds the count of
   objects handed out is a generated fact *)
Definition fully_cleared (m : mid) : bool :=
  cleared m && (if is_objstack m then objstack_reset_rewinds else true).

Definition all_classified : bool := forallb (fun m => match classify m with Some _ => true | None => false end) member_ids.
Definition audit_names_exist : bool := forallb (fun e => existsb (mid_eqb (fst e)) member_ids) audit.
Definition per_transformation_all_cleared : bool :=
  forallb (fun m => if is_per_transformation m then cleared m else true) member_ids.

(* ------------------------------------------------------------------------------------------ *)
(* doTransform: the guard object and the statements that touch the long-lived context          *)

Definition is_touch (s : stmt) : bool := match s with STouchCtx => true | _ => false end.
Definition is_guard (s : stmt) : bool := match s with SGuard => true | _ => false end.

Fixpoint guard_before_touch (seen : bool) (l : list stmt) : bool :=
  match l with
  | [] => true
  | SGuard :: t => guard_before_touch true t
  | STouchCtx :: t => seen && guard_before_touch seen t
  | _ :: t => guard_before_touch seen t
  end.

Definition pre_touches : bool := existsb is_touch dotransform_pre_stmts.

(* statement k of the try block throws (possibly after partly executing); None = no throw *)
Definition executed (abort : option nat) : nat :=
  match abort with Some k => S k | None => length dotransform_try_stmts end.
Definition constructed (abort : option nat) : nat :=
  match abort with Some k => k | None => length dotransform_try_stmts end.

Definition ctx_touched (abort : option nat) : bool :=
  pre_touches || existsb is_touch (firstn (executed abort) dotransform_try_stmts).
Definition guard_alive (abort : option nat) : bool :=
  existsb is_guard (firstn (constructed abort) dotransform_try_stmts).

(* members a transformation may leave dirty: only per-transformation state *)
Definition dirtied (dirt : list mid) : list mid := filter is_per_transformation dirt.

Definition transform_residue (abort : option nat) (dirt : list mid) : list mid :=
  if ctx_touched abort
  then (if guard_alive abort
        then filter (fun m => negb (fully_cleared m)) (dirtied dirt)
        else dirtied dirt)
  else [].

(* ------------------------------------------------------------------------------------------ *)
(* m_errorMessage: a char vector read back as a C string by getLastError()                     *)

Record errbuf := { eb_store : list nat; eb_size : nat }.

Definition eb_init : errbuf := {| eb_store := [0]; eb_size := 1 |}.          (* m_errorMessage(1, '\0') *)
Definition eb_set (m : list nat) : errbuf := {| eb_store := m ++ [0]; eb_size := S (length m) |}.
Definition eb_clear_push (e : errbuf) : errbuf := {| eb_store := 0 :: tl (eb_store e); eb_size := 1 |}.
(* XalanVector::resize(1, '\0'): shrinks without touching element 0; grows by filling *)
Definition eb_resize1 (e : errbuf) : errbuf :=
  match eb_size e with
  | 0 => {| eb_store := 0 :: tl (eb_store e); eb_size := 1 |}
  | 1 => e
  | _ => {| eb_store := eb_store e; eb_size := 1 |}
  end.
Definition eb_apply (i : err_idiom) (e : errbuf) : errbuf :=
  match i with ErrClearPush => eb_clear_push e | ErrResize1 => eb_resize1 e | ErrNone => e end.

Fixpoint cstr (l : list nat) : list nat :=
  match l with
  | [] => []
  | 0 :: _ => []
  | c :: t => c :: cstr t
  end.
Definition last_error (e : errbuf) : list nat := cstr (eb_store e).

(* ------------------------------------------------------------------------------------------ *)
(* exceptions and the catch tables                                                             *)

Inductive exn := EXSL | ESAXParse | ESAX | EXML | EDOM.

(* audited C++ hierarchy: SAXParseException derives from SAXException; the others are unrelated *)
Definition exn_matches (e : exn) (clause : name) : bool :=
  match e with
  | EXSL => name_eqb clause "XSLException"
  | ESAXParse => name_eqb clause "SAXParseException" || name_eqb clause "SAXException"
  | ESAX => name_eqb clause "SAXException"
  | EXML => name_eqb clause "XMLException"
  | EDOM => name_eqb clause "XalanDOMException"
  end.

Fixpoint status_of (tab : list (name * Z)) (e : exn) : option Z :=
  match tab with
  | [] => None
  | (c, z) :: t => if exn_matches e c then Some z else status_of t e
  end.

Inductive outcome := Ok | Fail (e : exn) (msg : list nat).

(* ------------------------------------------------------------------------------------------ *)
(* state, operations, step                                                                     *)

Record holder := { h_expr : option nat; h_val : option nat }.   (* XalanParamHolder: both forms are kept *)

(* what doTransform hands to the processor: the expression form when there is one *)
Definition effective (h : holder) : option (bool * nat) :=
  match h_expr h with
  | Some e => Some (true, e)
  | None => match h_val h with Some v => Some (false, v) | None => None end
  end.

Fixpoint upsert (n : nat) (f : holder -> holder) (ps : list (nat * holder)) : list (nat * holder) :=
  match ps with
  | [] => [(n, f {| h_expr := None; h_val := None |})]
  | (m, h) :: t => if Nat.eqb n m then (m, f h) :: t else (m, h) :: upsert n f t
  end.

Fixpoint lookup (n : nat) (ps : list (nat * holder)) : option holder :=
  match ps with
  | [] => None
  | (m, h) :: t => if Nat.eqb n m then Some h else lookup n t
  end.

Definition set_expr (n v : nat) := upsert n (fun h => {| h_expr := Some v; h_val := if set_expr_drops_value then None else h_val h |}).
Definition set_val (n v : nat) := upsert n (fun h => {| h_expr := if set_value_drops_expr then None else h_expr h; h_val := Some v |}).

Definition visible_param (ps : list (nat * holder)) (n : nat) : option (bool * nat) :=
  match lookup n ps with Some h => effective h | None => None end.

Record tkey := {
  k_sheet : nat; k_src : nat; k_xerces : bool;
  k_params : list (nat * (bool * nat));     (* name -> (expression form?, value id), in map order *)
  k_funcs : list nat; k_indent : Z }.

Record state := {
  st_params : list (nat * holder);
  st_funcs : list nat;
  st_cs : list (option nat);                 (* handle -> live compiled stylesheet (pool index) *)
  st_ps : list (option (nat * bool));        (* handle -> live parsed source (pool index, Xerces DOM?) *)
  st_residue : list mid;
  st_err : errbuf;
  st_indent : Z }.

Definition init : state :=
  {| st_params := []; st_funcs := []; st_cs := []; st_ps := []; st_residue := []; st_err := eb_init; st_indent := (-1)%Z |}.

Inductive op :=
| OCompile (s : nat) (o : outcome)
| OParse (d : nat) (x : bool) (o : outcome)
| OTransHH (i j : nat) (o : outcome) (abort : nat) (dirt : list mid)              (* transform(parsed, compiled) *)
| OTransSS (s d : nat) (po o : outcome) (abort : nat) (dirt : list mid)           (* transform(source, stylesheet) *)
| OTransHS (i d : nat) (po o : outcome) (abort : nat) (dirt : list mid)           (* transform(source, compiled) *)
| OTransSH (s j : nat) (o : outcome) (abort : nat) (dirt : list mid)              (* transform(parsed, stylesheet) *)
| OSetParamE (n v : nat)
| OSetParamV (n v : nat)
| OClearParams
| OInstall (k : nat)
| OUninstall (k : nat)
| ODestroyCS (i : nat)
| ODestroyPS (j : nat)
| OSetIndent (z : Z).

Inductive out :=
| OutVoid
| OutStatus (st : option Z) (err : list nat)                    (* None: the exception escapes the API *)
| OutTrans (key : option tkey) (st : option Z) (err : list nat) (* key None: no transformation was run *)
| OutNoCall.                                                    (* the driver's own guard: dead handle *)

Definition params_key (ps : list (nat * holder)) : list (nat * (bool * nat)) :=
  flat_map (fun p => match effective (snd p) with Some e => [(fst p, e)] | None => [] end) ps.

Definition key_of (s : state) (sheet src : nat) (x : bool) : tkey :=
  {| k_sheet := sheet; k_src := src; k_xerces := x; k_params := params_key (st_params s);
     k_funcs := st_funcs s; k_indent := st_indent s |}.

Definition with_err (s : state) (e : errbuf) : state :=
  {| st_params := st_params s; st_funcs := st_funcs s; st_cs := st_cs s; st_ps := st_ps s;
     st_residue := st_residue s; st_err := e; st_indent := st_indent s |}.

Definition add_residue (s : state) (r : list mid) : state :=
  {| st_params := st_params s; st_funcs := st_funcs s; st_cs := st_cs s; st_ps := st_ps s;
     st_residue := r ++ st_residue s; st_err := st_err s; st_indent := st_indent s |}.

(* a call that empties the message with idiom i and ends with outcome o under catch table tab *)
Definition finish_call (i : err_idiom) (tab : list (name * Z)) (s : state) (o : outcome) : state * option Z :=
  let s1 := with_err s (eb_apply i (st_err s)) in
  match o with
  | Ok => (s1, Some 0%Z)
  | Fail e m => match status_of tab e with
                | Some z => (with_err s1 (eb_set m), Some z)
                | None => (s1, None)
                end
  end.

Definition do_transform (s : state) (sheet src : nat) (x : bool) (o : outcome) (abort : nat) (dirt : list mid) : state * out :=
  let key := key_of s sheet src x in
  let ab := match o with Ok => None | Fail _ _ => Some abort end in
  let '(s1, z) := finish_call errclear_dotransform dotransform_catches s o in
  (add_residue s1 (transform_residue ab dirt), OutTrans (Some key) z (last_error (st_err s1))).

Definition parse_then (s : state) (po : outcome) (k : state -> state * out) : state * out :=
  let '(s1, z) := finish_call errclear_parse parse_catches s po in
  match po with
  | Ok => k s1     (* the temporary parsed source is pushed and erased again: st_ps unchanged *)
  | Fail _ _ => (s1, OutTrans None z (last_error (st_err s1)))
  end.

Fixpoint set_nth {A} (n : nat) (v : A) (l : list A) : list A :=
  match l, n with
  | [], _ => []
  | _ :: t, 0 => v :: t
  | a :: t, S n' => a :: set_nth n' v t
  end.

Definition live {A} (l : list (option A)) (i : nat) : option A :=
  match nth_error l i with Some (Some a) => Some a | _ => None end.

Definition step (s : state) (o : op) : state * out :=
  match o with
  | OCompile sh oc =>
      let '(s1, z) := finish_call errclear_compile compile_catches s oc in
      let h := match oc with Ok => Some sh | Fail _ _ => None end in
      ({| st_params := st_params s1; st_funcs := st_funcs s1; st_cs := st_cs s1 ++ [h]; st_ps := st_ps s1;
          st_residue := st_residue s1; st_err := st_err s1; st_indent := st_indent s1 |},
       OutStatus z (last_error (st_err s1)))
  | OParse d x oc =>
      let '(s1, z) := finish_call errclear_parse parse_catches s oc in
      let h := match oc with Ok => Some (d, x) | Fail _ _ => None end in
      ({| st_params := st_params s1; st_funcs := st_funcs s1; st_cs := st_cs s1; st_ps := st_ps s1 ++ [h];
          st_residue := st_residue s1; st_err := st_err s1; st_indent := st_indent s1 |},
       OutStatus z (last_error (st_err s1)))
  | OTransHH i j oc ab dirt =>
      match live (st_cs s) i, live (st_ps s) j with
      | Some sh, Some (d, x) => do_transform s sh d x oc ab dirt
      | _, _ => (s, OutNoCall)
      end
  | OTransSS sh d po oc ab dirt =>
      parse_then s po (fun s1 => do_transform s1 sh d false oc ab dirt)
  | OTransHS i d po oc ab dirt =>
      match live (st_cs s) i with
      | Some sh => parse_then s po (fun s1 => do_transform s1 sh d false oc ab dirt)
      | None => (s, OutNoCall)
      end
  | OTransSH sh j oc ab dirt =>
      match live (st_ps s) j with
      | Some (d, x) => do_transform s sh d x oc ab dirt
      | None => (s, OutNoCall)
      end
  | OSetParamE n v =>
      ({| st_params := set_expr n v (st_params s); st_funcs := st_funcs s; st_cs := st_cs s; st_ps := st_ps s;
          st_residue := st_residue s; st_err := st_err s; st_indent := st_indent s |}, OutVoid)
  | OSetParamV n v =>
      ({| st_params := set_val n v (st_params s); st_funcs := st_funcs s; st_cs := st_cs s; st_ps := st_ps s;
          st_residue := st_residue s; st_err := st_err s; st_indent := st_indent s |}, OutVoid)
  | OClearParams =>
      ({| st_params := if clear_params_clears_map then [] else st_params s; st_funcs := st_funcs s; st_cs := st_cs s;
          st_ps := st_ps s; st_residue := st_residue s; st_err := st_err s; st_indent := st_indent s |}, OutVoid)
  | OInstall k =>
      ({| st_params := st_params s; st_funcs := if existsb (Nat.eqb k) (st_funcs s) then st_funcs s else st_funcs s ++ [k];
          st_cs := st_cs s; st_ps := st_ps s; st_residue := st_residue s; st_err := st_err s; st_indent := st_indent s |}, OutVoid)
  | OUninstall k =>
      ({| st_params := st_params s; st_funcs := filter (fun f => negb (Nat.eqb k f)) (st_funcs s);
          st_cs := st_cs s; st_ps := st_ps s; st_residue := st_residue s; st_err := st_err s; st_indent := st_indent s |}, OutVoid)
  | ODestroyCS i =>
      match live (st_cs s) i with
      | Some _ => ({| st_params := st_params s; st_funcs := st_funcs s; st_cs := set_nth i None (st_cs s); st_ps := st_ps s;
                      st_residue := st_residue s; st_err := st_err s; st_indent := st_indent s |},
                   OutStatus (Some 0%Z) (last_error (st_err s)))
      | None => (s, OutNoCall)
      end
  | ODestroyPS j =>
      match live (st_ps s) j with
      | Some _ => ({| st_params := st_params s; st_funcs := st_funcs s; st_cs := st_cs s; st_ps := set_nth j None (st_ps s);
                      st_residue := st_residue s; st_err := st_err s; st_indent := st_indent s |},
                   OutStatus (Some 0%Z) (last_error (st_err s)))
      | None => (s, OutNoCall)
      end
  | OSetIndent z =>
      ({| st_params := st_params s; st_funcs := st_funcs s; st_cs := st_cs s; st_ps := st_ps s;
          st_residue := st_residue s; st_err := st_err s; st_indent := z |}, OutVoid)
  end.

Fixpoint run_from (s : state) (h : list op) : state * list out :=
  match h with
  | [] => (s, [])
  | o :: t => let '(s1, r) := step s o in
              let '(s2, rs) := run_from s1 t in (s2, r :: rs)
  end.

Definition run (h : list op) : state := fst (run_from init h).
Definition outs (h : list op) : list out := snd (run_from init h).

(* ------------------------------------------------------------------------------------------ *)
(* the independent specification: read the history backwards                                   *)

(* documented meaning of "currently set": the last setStylesheetParam for the name since the last
   clearStylesheetParams, whichever form it used *)
Fixpoint last_set (rh : list op) (n : nat) : option (bool * nat) :=
  match rh with
  | [] => None
  | OClearParams :: _ => None
  | OSetParamE m v :: t => if Nat.eqb n m then Some (true, v) else last_set t n
  | OSetParamV m v :: t => if Nat.eqb n m then Some (false, v) else last_set t n
  | _ :: t => last_set t n
  end.

(* what the code hands over: the last expression form since the last clear if any, else the last value form *)
Fixpoint last_expr (rh : list op) (n : nat) : option nat :=
  match rh with
  | [] => None
  | OClearParams :: _ => None
  | OSetParamE m v :: t => if Nat.eqb n m then Some v else last_expr t n
  | _ :: t => last_expr t n
  end.
Fixpoint last_val (rh : list op) (n : nat) : option nat :=
  match rh with
  | [] => None
  | OClearParams :: _ => None
  | OSetParamV m v :: t => if Nat.eqb n m then Some v else last_val t n
  | _ :: t => last_val t n
  end.

(* guard of the partial theorem: since the last clear, name n was never set in value form after
   having been set in expression form *)
Fixpoint no_form_switch (rh : list op) (n : nat) : bool :=
  match rh with
  | [] => true
  | OClearParams :: _ => true
  | OSetParamV m _ :: t => if Nat.eqb n m then match last_expr t n with Some _ => false | None => true end
                           else no_form_switch t n
  | OSetParamE m _ :: t => if Nat.eqb n m then true else no_form_switch t n
  | _ :: t => no_form_switch t n
  end.

Fixpoint installed_spec (rh : list op) (k : nat) : bool :=
  match rh with
  | [] => false
  | OInstall m :: t => if Nat.eqb k m then true else installed_spec t k
  | OUninstall m :: t => if Nat.eqb k m then false else installed_spec t k
  | _ :: t => installed_spec t k
  end.

Fixpoint indent_spec (rh : list op) : Z :=
  match rh with
  | [] => (-1)%Z
  | OSetIndent z :: _ => z
  | _ :: t => indent_spec t
  end.

Definition is_transform (o : op) : bool :=
  match o with OTransHH _ _ _ _ _ | OTransSS _ _ _ _ _ _ | OTransHS _ _ _ _ _ _ | OTransSH _ _ _ _ _ => true | _ => false end.

Definition destroys_cs (i : nat) (o : op) : bool := match o with ODestroyCS j => Nat.eqb i j | _ => false end.
Definition destroys_ps (i : nat) (o : op) : bool := match o with ODestroyPS j => Nat.eqb i j | _ => false end.

(* names / functions mentioned by a history, and the set-up a NEW transformer needs to be given the
   documented current settings of that history *)
Fixpoint names_of (h : list op) : list nat :=
  match h with
  | [] => []
  | OSetParamE n _ :: t | OSetParamV n _ :: t => n :: names_of t
  | _ :: t => names_of t
  end.
Fixpoint funcs_of (h : list op) : list nat :=
  match h with
  | [] => []
  | OInstall k :: t | OUninstall k :: t => k :: funcs_of t
  | _ :: t => funcs_of t
  end.

Definition fresh_setup (h : list op) : list op :=
  let rh := rev h in
  flat_map (fun n => match last_set rh n with
                     | Some (true, v) => [OSetParamE n v]
                     | Some (false, v) => [OSetParamV n v]
                     | None => [] end) (nodup Nat.eq_dec (names_of h))
  ++ flat_map (fun k => if installed_spec rh k then [OInstall k] else []) (nodup Nat.eq_dec (funcs_of h))
  ++ [OSetIndent (indent_spec rh)].

(* the key a transformation op would be run with in state s (None: no transformation is run) *)
Definition key_in (s : state) (o : op) : option tkey :=
  match o with
  | OTransHH i j _ _ _ => match live (st_cs s) i, live (st_ps s) j with
                          | Some sh, Some (d, x) => Some (key_of s sh d x) | _, _ => None end
  | OTransSS sh d Ok _ _ _ => Some (key_of s sh d false)
  | OTransHS i d Ok _ _ _ => match live (st_cs s) i with Some sh => Some (key_of s sh d false) | None => None end
  | OTransSH sh j _ _ _ => match live (st_ps s) j with Some (d, x) => Some (key_of s sh d x) | None => None end
  | _ => None
  end.

Definition key_params_lookup (k : tkey) (n : nat) : option (bool * nat) :=
  match find (fun p => Nat.eqb n (fst p)) (k_params k) with Some p => Some (snd p) | None => None end.

(* ------------------------------------------------------------------------------------------ *)
(* XalanObjectStackCache as coded: a pool of reusable objects and the number handed out.        *)
(* obj = abstract content of a pooled object; 0 = the reset (empty) content.                   *)

Record ostack := { os_pool : list nat; os_depth : nat }.
Inductive osop := OsGet | OsRelease | OsWrite (v : nat).   (* OsWrite: the user changes the top object *)

Definition os_step (s : ostack) (o : osop) : ostack * option nat :=
  match o with
  | OsGet =>
      if Nat.eqb (length (os_pool s)) (os_depth s)
      then ({| os_pool := os_pool s ++ [0]; os_depth := S (os_depth s) |}, Some 0)
      else ({| os_pool := os_pool s; os_depth := S (os_depth s) |}, nth_error (os_pool s) (os_depth s))
  | OsRelease =>
      match os_depth s with
      | 0 => (s, None)
      | S d => ({| os_pool := os_pool s; os_depth := d |}, nth_error (os_pool s) d)
      end
  | OsWrite v =>
      match os_depth s with
      | 0 => (s, None)
      | S d => ({| os_pool := set_nth d v (os_pool s); os_depth := os_depth s |}, Some v)
      end
  end.

(* reset() as coded: every pooled object is reset; the count is rewound only if the generated fact says so *)
Definition os_reset (s : ostack) : ostack :=
  {| os_pool := map (fun _ => 0) (os_pool s); os_depth := if objstack_reset_rewinds then 0 else os_depth s |}.

Fixpoint os_run (s : ostack) (l : list osop) : ostack * list (option nat) :=
  match l with
  | [] => (s, [])
  | o :: t => let '(s1, r) := os_step s o in let '(s2, rs) := os_run s1 t in (s2, r :: rs)
  end.

(* the usage discipline of the engine: never release/write below the depth at which one started *)
Fixpoint os_balanced (d : nat) (l : list osop) : bool :=
  match l with
  | [] => true
  | OsGet :: t => os_balanced (S d) t
  | OsRelease :: t => match d with 0 => false | S d' => os_balanced d' t end
  | OsWrite _ :: t => match d with 0 => false | S _ => os_balanced d t end
  end.
