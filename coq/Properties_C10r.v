(* Properties_C10r.v - property theorems for C10, part "currule": the current template rule
   (XSLT 1.0 sections 5.6 and 6) and the decision of xsl:apply-imports end to end.
   Model: CurRuleDefs.v ([walk]: the m_currentTemplateStack / m_elementInvokerStack discipline as
   coded, over execution trees; [spec]: the current rule as an inherited attribute of the tree);
   generated facts: GenCurRule.v (which of the known shapes ElemTemplate::startElement,
   VariablesStack::findXObject and ElemTemplateElement::executeChildren have in /repo now). *)
From Coq Require Import List NArith ZArith Bool.
Require Import XV.TmplDefs XV.CurRuleDefs XV.CurRuleModel XV.GenCurRule XV.Properties_C10.
Import ListNotations.

(* ---------------------------------------------------------------------------------------- *)
(* 1. both stacks are left as they were found: every instruction instance, every tree (well-formed
      or not), every variant of the code - unless an error was raised (the exception unwinds, and
      reset() starts the next transformation from [null]) *)
Theorem stack_balanced : forall v i s s' o,
  walk v i s = (s', o, true) -> s' = s.
Proof. exact balanced_lemma. Qed.
Print Assumptions stack_balanced.

(* ---------------------------------------------------------------------------------------- *)
(* 2. the top of the coded stack is the current template rule of section 5.6 *)

(* with the two repairs of the evaluation of top-level variables (fbf271b, 59004ef in /repo):
   every execution tree, at every watched instruction and every xsl:apply-imports, and the
   no-current-template error is raised exactly where section 5.6 says *)
Theorem current_rule_is_section_5_6 :
  forall i h s, wf h i = true -> compat h (itop s) = true ->
  forall s' o ok, walk fixed_variant i s = (s', o, ok) ->
  (o, ok) = spec h (top s) i /\ (ok = true -> s' = s).
Proof. exact fixed_lemma. Qed.
Print Assumptions current_rule_is_section_5_6.

(* every variant in which xsl:call-template keeps the rule (the code since 9c1f5e3), under the guard
   left by the two refutations below: top-level variables are first used where the current rule is
   null, and their content is not the short-cut *)
Theorem current_rule_is_section_5_6_partial :
  forall v, v_call_keeps v = true ->
  forall i h s, wf h i = true -> compat h (itop s) = true -> glob_ok v h (top s) i = true ->
  forall s' o ok, walk v i s = (s', o, ok) ->
  (o, ok) = spec h (top s) i /\ (ok = true -> s' = s).
Proof. exact sim_lemma. Qed.
Print Assumptions current_rule_is_section_5_6_partial.

(* ... for the tree the facts were generated from (does not type-check when the translator finds the
   shape of ElemTemplate::startElement from before 9c1f5e3).  The guard is needed only while one of
   the two repairs of the evaluation of top-level variables (fbf271b, 59004ef) is missing *)
Theorem current_rule_is_section_5_6_this_tree :
  forall i h s, wf h i = true -> compat h (itop s) = true ->
  gen_global_null && gen_global_direct = true \/ glob_ok gen_variant h (top s) i = true ->
  forall s' o ok, walk gen_variant i s = (s', o, ok) ->
  (o, ok) = spec h (top s) i /\ (ok = true -> s' = s).
Proof. exact (variant_lemma gen_variant eq_refl). Qed.
Print Assumptions current_rule_is_section_5_6_this_tree.

(* this tree has both repairs: the statement above is the full one, for every execution tree *)
Example this_tree_has_both_repairs : gen_global_null && gen_global_direct = true.
Proof. reflexivity. Qed.
Print Assumptions this_tree_has_both_repairs.

(* the state a transformation starts in: reset(), then execute() of the rule for the root node *)
Definition s_start : st := push_i InvNull st_reset.
Definition rule (id : N) (p : list nat) : tref := {| tr_id := id; tr_path := p |}.
Definition code_now : variant := {| v_call_keeps := true; v_global_null := false; v_global_direct := false |}.
Definition code_before : variant := {| v_call_keeps := false; v_global_null := false; v_global_direct := false |}.

(* main.xsl: match="a" calls the named template t of the imported module; t: xsl:apply-imports *)
Definition call_tree : inst :=
  ITemplate (rule 1 []) false
    [IText 10; ICall [] [ITemplate (rule 101 [0%nat]) false [IImports 1 1 None (Some 2%N) []]]; IText 11].

(* the code before 9c1f5e3 (every instantiated template becomes the current one): the named template
   is what xsl:apply-imports sees, not the rule that called it *)
Theorem current_rule_is_section_5_6_before_fix_witness :
  wf ByMatch call_tree = true /\ glob_ok code_before ByMatch None call_tree = true /\
  snd (fst (walk code_before call_tree s_start)) =
    [{| o_site := 1; o_cur := Some (rule 101 [0%nat]); o_ai := Some (1%N, None, Some 2%N) |}] /\
  fst (spec ByMatch None call_tree) =
    [{| o_site := 1; o_cur := Some (rule 1 []); o_ai := Some (1%N, None, Some 2%N) |}] /\
  snd (fst (walk code_now call_tree s_start)) = fst (spec ByMatch None call_tree).
Proof. vm_compute. repeat split. Qed.
Print Assumptions current_rule_is_section_5_6_before_fix_witness.

(* the code before fbf271b / 59004ef ([code_now] below names the variant of 9c1f5e3), first use of a top-level variable inside a rule: its content sees that rule
   (section 5.6: null, so xsl:apply-imports is the error) ... *)
Definition global_inherits_tree : inst :=
  ITemplate (rule 1 []) false [IText 10; IGlobal false [IImports 1 0 None None []]].
(* ... and a variable whose content is nothing but <xsl:call-template name="t"/>, first used inside an
   xsl:for-each: the named template becomes the current rule *)
Definition global_direct_tree : inst :=
  ITemplate (rule 1 []) false
    [IForEach [] [IBlock false [IGlobal true [ITemplate (rule 101 [0%nat]) false [IImports 1 0 None None []]]]]].

Theorem current_rule_is_section_5_6_refuted :
  (wf ByMatch global_inherits_tree = true /\
   snd (walk code_now global_inherits_tree s_start) = true /\ snd (spec ByMatch None global_inherits_tree) = false) /\
  (wf ByMatch global_direct_tree = true /\
   snd (walk code_now global_direct_tree s_start) = true /\ snd (spec ByMatch None global_direct_tree) = false) /\
  glob_ok code_now ByMatch None global_inherits_tree = false /\
  glob_ok code_now ByMatch None global_direct_tree = false.
Proof. vm_compute. repeat split. Qed.
Print Assumptions current_rule_is_section_5_6_refuted.

(* the hypotheses of the partial theorem hold for a tree with every kind of instance: a rule chosen
   by matching, a short-cut block, a call with a parameter, a for-each whose select is the first
   use of a top-level variable, apply-templates with a built-in rule, apply-imports *)
Definition ex_tree : inst :=
  ITemplate (rule 1 []) false
    [ IObs 1;
      IBlock true [ITemplate (rule 101 [0%nat]) true [ITemplate (rule 102 [1%nat]) false [IObs 2; IImports 3 0 None (Some 5%N) [ITemplate (rule 5 [0%nat]) false [IObs 4]]]]];
      ICall [IBlock false [IObs 5]] [ITemplate (rule 102 [1%nat]) false [IObs 6]];
      IForEach [IGlobal false [IObs 7; ICall [] [ITemplate (rule 101 [0%nat]) false [IObs 8]]]]
               [IBlock false [IObs 9; IApply [] [ITemplate builtin_ref false [IApply [] [ITemplate (rule 7 [1%nat]) false [IObs 10]]]]];
                IBlock true [ITemplate (rule 102 [1%nat]) false [IObs 11]]];
      IObs 12 ].

Example partial_theorem_applies_r :
  wf ByMatch ex_tree = true /\ compat ByMatch (itop s_start) = true /\ glob_ok code_now ByMatch (top s_start) ex_tree = true /\
  map (fun o => (o_site o, option_map tr_id (o_cur o))) (snd (fst (walk code_now ex_tree s_start))) =
    [(1, Some 1); (2, Some 1); (3, Some 1); (4, Some 5); (5, Some 1); (6, Some 1); (7, None); (8, None); (9, None);
     (10, Some 7); (11, None); (12, Some 1)]%N /\
  walk code_now ex_tree s_start = (s_start, fst (spec ByMatch None ex_tree), true).
Proof. vm_compute. repeat split. Qed.
Print Assumptions partial_theorem_applies_r.

(* ---------------------------------------------------------------------------------------- *)
(* 3. corollaries *)

(* section 6: "xsl:call-template does not change the current template rule" - what is seen inside
   the called template is what would be seen if its content stood in the place of the call *)
Theorem call_template_keeps_current_rule :
  forall v, v_call_keeps v = true ->
  forall t d l s, wf Ord (ICall [] [ITemplate t d l]) = true -> glob_ok v Ord (top s) (ICall [] [ITemplate t d l]) = true ->
  forall s1 o1 ok1 s2 o2 ok2,
  walk v (ICall [] [ITemplate t d l]) s = (s1, o1, ok1) ->
  walk v (IBlock d l) s = (s2, o2, ok2) ->
  o1 = o2 /\ ok1 = ok2.
Proof. exact call_lemma. Qed.
Print Assumptions call_template_keeps_current_rule.

(* section 5.6: the content of xsl:for-each sees a null rule, whatever surrounds it *)
Theorem for_each_nulls_current_rule :
  forall v, v_call_keeps v = true ->
  forall sel site rest s s' o ok,
  wf Ord (IForEach sel [IBlock false (IObs site :: rest)]) = true ->
  glob_ok v Ord (top s) (IForEach sel [IBlock false (IObs site :: rest)]) = true ->
  walk v (IForEach sel [IBlock false (IObs site :: rest)]) s = (s', o, ok) ->
  snd (spec_list (spec Ord (top s)) sel) = true ->
  In {| o_site := site; o_cur := None; o_ai := None |} o.
Proof. exact for_each_lemma. Qed.
Print Assumptions for_each_nulls_current_rule.

(* section 5.6: xsl:apply-imports where the current rule is null is the error; nothing is instantiated *)
Theorem apply_imports_without_current_rule_is_an_error : forall v site n m ch r s,
  top s = None ->
  walk v (IImports site n m ch r) s = (s, [{| o_site := site; o_cur := None; o_ai := Some (n, m, ch) |}], false).
Proof. exact imports_null_lemma. Qed.
Print Assumptions apply_imports_without_current_rule_is_an_error.

(* ---------------------------------------------------------------------------------------- *)
(* 4. xsl:apply-imports end to end: if every decision recorded in the tree is the one
      findTemplate(.., onlyUseImports) makes in the compiled stylesheet of the rule on top of the
      coded stack, then every decision is the section 5.5 choice among the rules imported into the
      stylesheet module of the section 5.6 current rule.  (Guards of Properties_C10.apply_imports_scope
      for every module of the import tree.) *)
Theorem apply_imports_searches_imports_of_current_rule :
  forall (node : Type) (key_of : node -> nkey) (pmatch : N -> node -> bool) pa (node_of : N -> node) s shape_of,
  (forall p sub, subsheet s p = Some sub -> pa = true \/ uniform_union_priorities sub = true) ->
  (forall p sub n, subsheet s p = Some sub -> matcher_respects_shapes node key_of pmatch sub (node_of n) shape_of) ->
  forall v, v_call_keeps v = true ->
  forall i h st, wf h i = true -> compat h (itop st) = true -> glob_ok v h (top st) i = true ->
  forall st' o ok, walk v i st = (st', o, ok) ->
  Forall (coded_choice node key_of pmatch pa node_of s) o ->
  o = fst (spec h (top st) i) /\
  Forall (specified_choice node pmatch node_of s) (fst (spec h (top st) i)).
Proof. exact end_to_end_lemma. Qed.
Print Assumptions apply_imports_searches_imports_of_current_rule.

(* the program of 9c1f5e3, run by the interpreter that is extracted for the correspondence:
   main (rule 1: match="a", calls t) imports imp1 (named template t: xsl:apply-imports; rule 2:
   match="a") which imports imp2 (rule 3: match="a").  Node 1 is <a/>. *)
Definition r_a (id : N) : template := {| t_id := id; t_mode := None; t_prio := None; t_alts := [alt_a] |}.
Definition fix_sheet : sheet := Sheet [ITmpl (r_a 1)] [Sheet [ITmpl (r_a 2)] [Sheet [ITmpl (r_a 3)] []]].
Definition fix_program : program :=
  {| p_sheet := fix_sheet;
     p_rules := [(1, {| td_ref := rule 1 []; td_body := [SText 10; SCall 1 None; SText 11] |});
                 (2, {| td_ref := rule 2 [0%nat]; td_body := [SText 20] |});
                 (3, {| td_ref := rule 3 [0%nat; 0%nat]; td_body := [SText 30] |})]%N;
     p_named := [(1, {| td_ref := rule 101 [0%nat]; td_body := [SImports 1] |})]%N;
     p_globals := [];
     p_children := [(0, [1])]%N;
     p_keys := [(0, KRoot); (1, KElem 5)]%N |}.
Definition fix_match (_ : N) (n : N) : bool := N.eqb n 1.

Example call_template_program :
  (* [main:[imp1]] now, [main:[imp2]] before *)
  snd (fst (run code_now true fix_match fix_program 50)) = [10; 20; 11]%N /\
  snd (fst (run code_before true fix_match fix_program 50)) = [10; 30; 11]%N /\
  snd (run code_now true fix_match fix_program 50) = Done /\
  (* the tree the interpreter builds is well-formed, its recorded decisions are the coded ones, and
     section 5.5 over the rules imported into main gives rule 2 *)
  (forall t, snd (fst (fst (run code_now true fix_match fix_program 50))) = [t] ->
     wf ByMatch t = true /\
     forallb (coded_choice_b true fix_match fix_program) (snd (fst (walk code_now t s_start))) = true) /\
  option_map (fun r => t_id (r_tmpl r)) (best_5_5 N fix_match (imported_rules fix_sheet) None 1%N) = Some 2%N.
Proof.
  split; [vm_compute; reflexivity|]. split; [vm_compute; reflexivity|]. split; [vm_compute; reflexivity|].
  split; [|vm_compute; reflexivity].
  intros t H. vm_compute in H. inversion H; subst. vm_compute. split; reflexivity.
Qed.
Print Assumptions call_template_program.
