(* Extraction of the C11 "cache" machine (this tree's flags, C18's conversions) for the correspondence driver.
   ExtrOcamlBasic only. *)
Require Import ExtrOcamlBasic.
Require Import XV.NumDefs XV.XoCacheDefs.
Extraction "extracted/xoCache_model.ml" xo_run xo_flags_ok of_bits to_bits.
