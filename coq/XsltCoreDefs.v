(* C01, whole-interpreter piece: a core XSLT instruction language, its denotational reference semantics
   (XSLT 1.0 sections 5-11) and the implementation-shaped interpreter: Xalan-C's iterative execution
   (no XALAN_RECURSIVE_STYLESHEET_EXECUTION) with explicit stacks.

   LANGUAGE (what the theorems of Properties_C01core.v cover): literal result elements with attribute
   value templates, literal text, xsl:value-of, xsl:if, xsl:choose/when/otherwise, xsl:for-each (optional
   sort), xsl:apply-templates (select, mode, sort, with-params; built-in rules are ordinary templates of
   the program), xsl:call-template (with-params), xsl:variable / xsl:with-param (select, empty, or body =
   result tree fragment), xsl:param (select default or empty), xsl:copy, xsl:copy-of, xsl:attribute with a
   literal name and a value template. NOT in the language: top-level variables/params, xsl:element /
   xsl:comment / xsl:processing-instruction, attribute sets, xsl:number, keys, imports (those enter C01
   through its oracle and the property-specific families).

   XPath evaluation, sorting, template selection (patterns, priorities, modes) and the copy of a source
   node are ABSTRACT: Section variables, keyed by an expression identity, the values of the variables
   the expression mentions, and the context (node, position, size). The refinement theorem holds for
   every instantiation (those mechanisms belong to C02 / C16 / C09 / C10). Only one thing is assumed
   of them: a selected (and a sorted) node list has no duplicates (it is a node-set).

   IMPLEMENTATION MODEL, read from: ElemTemplateElement.cpp (execute loop 240-283, begin/endExecuteChildren
   303-334, getFirst/NextChildElemToExecute 1596-1640), ElemForEach.cpp (191-266), ElemApplyTemplates.cpp
   (134-262), ElemCallTemplate.cpp (121-185), ElemTemplate.cpp (186-212), ElemVariable.cpp (227-297),
   ElemParam.cpp (66-105), ElemWithParam.cpp, ElemIf / ElemChoose / ElemWhen / ElemOtherwise, ElemLiteralResult.cpp,
   ElemValueOf.cpp, ElemTextLiteral.cpp, ElemCopy.cpp, ElemCopyOf.cpp, ElemAttribute.cpp,
   StylesheetExecutionContextDefault.cpp (beginParams / endParams / pushParam, the stacks).
     - the loop has three control points: CStart i (about to call i->startElement()), CEnd i (startElement
       returned 0 or the children are done: about to call i->endElement()), CNext (about to ask the invoker:
       getInvoker()->getNextChildElemToExecute(current), or leave the loop);
     - m_stack merges the static parent chain with m_elementInvokerStack: a frame is the open element, the
       siblings to the right of the running child, and whether the running child is the template an
       xsl:call-template / xsl:apply-templates invoked;
     - m_nodes = m_nodesToTransformStack (the REMAINING nodes of each list: list + index in the code),
       m_cnl = the context node list stack, m_cur = the current node stack (position() is the index of the
       current node in the context node list, as XPathExecutionContextDefault computes it), m_modes,
       m_ifs = m_executeIfStack, m_pvs = m_paramsVectorStack;
     - m_vs is the VariablesStack of XsltVarsDefs.v (reused, not copied); its entries carry a binding identity
       which here is an index into m_store, the heap of XObjects. All element frames carry the element
       identity 0 (the identity check elementFrameAlreadyPushed is the subject of C01's
       varstack_refines_lexical_env, not of this model); a variable REFERENCE does not change the stack
       (findEntry rewrites an entry only for fIsParam);
     - m_out is the formatter stack: result tree fragments are built by switching the output target
       (beginCreateXResultTreeFrag / endCreateXResultTreeFrag); each target is the pending-start-tag machine of
       XsltEventsDefs.v (reused).
   Definitions only (extracted by ExtractXsltCore.v). *)
From Coq Require Import List NArith Bool Arith.
Require Import XV.XsltEventsDefs XV.XsltVarsDefs.
Import ListNotations.

(* ---- values ---- *)
(* VAtom key sval: a string / number / boolean (key = its canonical tagged form, sval = its string-value);
   VNodes: a node-set in the order the evaluator delivers it; VRtf: a result tree fragment *)
Inductive value :=
| VAtom (key sval : str)
| VNodes (l : list N)
| VRtf (t : list rnode).

(* "s:" - the empty string (xsl:variable / xsl:with-param / xsl:param with neither select nor content) *)
Definition empty_string_value : value := VAtom [115%N; 58%N] [].

Record expr := mkX { xid : N; xvars : list N }.

Inductive avtpart := ALit (s : str) | AExp (e : expr).

Inductive instr :=
| ILre (n : str) (atts : list (str * list avtpart)) (body : list instr)
| IText (s : str)
| IValueOf (e : expr)
| IIf (e : expr) (body : list instr)
| IChoose (branches : list instr)
| IWhen (e : expr) (body : list instr)
| IOtherwise (body : list instr)
| IForEach (e : expr) (srt : option expr) (body : list instr)
| ICall (t : N) (wps : list instr)
| IApply (e : expr) (m : option N) (srt : option expr) (wps : list instr)
| IWithParam (n : N) (sel : option expr) (body : list instr)
| IVar (n : N) (sel : option expr) (body : list instr)
| IParam (n : N) (sel : option expr)
| ICopy (body : list instr)
| ICopyOf (e : expr)
| IAttribute (n : str) (v : list avtpart)
| ITemplate (ps : list instr) (body : list instr).

(* what xsl:copy does with the current node *)
Inductive shallow :=
| ShElem (n : str)
| ShRoot
| ShLeaf (its : list item).     (* text / attribute / comment / processing instruction: the one item *)

Record ctx := mkC { cnode : N; cpos : N; csize : N; cmode : N }.

Definition venv := list (N * value).

Fixpoint lookup_v (n : N) (en : venv) : option value :=
  match en with
  | [] => None
  | (n', v) :: r => if N.eqb n' n then Some v else lookup_v n r
  end.

Fixpoint map_opt {A B : Type} (g : A -> option B) (l : list A) : option (list B) :=
  match l with
  | [] => Some []
  | x :: r => match g x with
              | Some y => match map_opt g r with Some ys => Some (y :: ys) | None => None end
              | None => None
              end
  end.

Definition text_items (s : str) : list item := if nonempty s then [GText s] else [].

Fixpoint item_of_rnode (r : rnode) : item :=
  match r with
  | RElem n a ch => GElem n a (map item_of_rnode ch)
  | RText s => GText s
  | RComment s => GComment s
  | RPI t d => GPI t d
  end.

Definition is_decl (i : instr) : bool :=
  match i with IVar _ _ _ | IParam _ _ => true | _ => false end.

Definition has_decl (l : list instr) : bool := existsb is_decl l.

(* 1-based index of n in l (XPathExecutionContextDefault::getContextNodeListPosition: indexOf + 1) *)
Fixpoint index_of (n : N) (l : list N) : nat :=
  match l with
  | [] => 0
  | x :: r => if N.eqb x n then 0 else S (index_of n r)
  end.
Definition pos_of (n : N) (l : list N) : N := N.of_nat (S (index_of n l)).

Section Core.
  (* ---- the abstract mechanisms ---- *)
  Variable ev_value : N -> list value -> N -> N -> N -> value.
  Variable ev_string : N -> list value -> N -> N -> N -> str.
  Variable ev_bool : N -> list value -> N -> N -> N -> bool.
  Variable ev_nodes : N -> list value -> N -> N -> N -> list N.
  Variable ev_sort : N -> list value -> N -> N -> N -> list N -> list N.
  Variable sel_template : N -> N -> option N.
  Variable node_copy : N -> list item.
  Variable node_shallow : N -> shallow.
  (* the program: its templates (the built-in rules included, as ordinary templates) *)
  Variable templates : list instr.

  (* ---- evaluation glue shared by both sides; lk resolves the variables an expression mentions ---- *)
  Definition lkfun := list N -> option (list value).

  Definition gx {A : Type} (evf : N -> list value -> N -> N -> N -> A) (lk : lkfun) (c : ctx) (e : expr) : option A :=
    match lk (xvars e) with
    | Some vs => Some (evf (xid e) vs (cnode c) (cpos c) (csize c))
    | None => None
    end.

  Fixpoint ev_avt (lk : lkfun) (c : ctx) (parts : list avtpart) : option str :=
    match parts with
    | [] => Some []
    | ALit s :: r => match ev_avt lk c r with Some t => Some (s ++ t) | None => None end
    | AExp e :: r => match gx ev_string lk c e with
                     | Some s => match ev_avt lk c r with Some t => Some (s ++ t) | None => None end
                     | None => None
                     end
    end.

  Definition ev_atts (lk : lkfun) (c : ctx) (atts : list (str * list avtpart)) : option attrs :=
    map_opt (fun p => match ev_avt lk c (snd p) with Some v => Some (fst p, v) | None => None end) atts.

  Definition sel_nodes (lk : lkfun) (c : ctx) (e : expr) (srt : option expr) : option (list N) :=
    match gx ev_nodes lk c e with
    | Some l => match srt with
                | None => Some l
                | Some s => gx (fun id vs n p z => ev_sort id vs n p z l) lk c s
                end
    | None => None
    end.

  (* ElemChoose::startElement: the first xsl:when whose test holds, else xsl:otherwise *)
  Fixpoint pick (lk : lkfun) (c : ctx) (l : list instr) : option (option instr) :=
    match l with
    | [] => Some None
    | IWhen e b :: r => match gx ev_bool lk c e with
                        | Some true => Some (Some (IWhen e b))
                        | Some false => pick lk c r
                        | None => None
                        end
    | IOtherwise b :: _ => Some (Some (IOtherwise b))
    | _ :: _ => None
    end.

  Definition copy_items (v : value) : list item :=
    match v with
    | VAtom _ s => text_items s
    | VNodes l => flat_map node_copy l
    | VRtf t => map item_of_rnode t
    end.

  (* ================= the reference semantics ================= *)
  Definition slk (en : venv) : lkfun := map_opt (fun x => lookup_v x en).

  Definition sem_seq (g : instr -> venv -> option (venv * list item)) : list instr -> venv -> option (list item) :=
    fix go (l : list instr) (en : venv) : option (list item) :=
    match l with
    | [] => Some []
    | x :: r => match g x en with
                | Some (en', o1) => match go r en' with Some o2 => Some (o1 ++ o2) | None => None end
                | None => None
                end
    end.

  (* the selected nodes in order, each with its position *)
  Fixpoint each (g : N -> N -> option (list item)) (l : list N) (pos : N) : option (list item) :=
    match l with
    | [] => Some []
    | n :: r => match g n pos with
                | Some o1 => match each g r (N.succ pos) with Some o2 => Some (o1 ++ o2) | None => None end
                | None => None
                end
    end.

  (* the value of xsl:variable / xsl:with-param: select, or the empty string, or the fragment built from the body *)
  Definition sem_vvalue (seq : list instr -> venv -> option (list item)) (c : ctx) (sel : option expr)
             (body : list instr) (en : venv) : option value :=
    match sel with
    | Some e => gx ev_value (slk en) c e
    | None => match body with
              | [] => Some empty_string_value
              | _ => match seq body en with Some o => Some (VRtf (spec_tree false o)) | None => None end
              end
    end.

  Definition sem_wps (seq : list instr -> venv -> option (list item)) (c : ctx) (en : venv)
    : list instr -> option venv :=
    fix go (l : list instr) : option venv :=
    match l with
    | [] => Some []
    | IWithParam n sel body :: r =>
        match sem_vvalue seq c sel body en with
        | Some v => match go r with Some pv => Some ((n, v) :: pv) | None => None end
        | None => None
        end
    | _ :: _ => None
    end.

  (* xsl:param children of a template: bound to the with-param of that name (the last one passed), else to the
     default; shadowing another binding of the template is an error (XSLT 1.0 11.5) *)
  Fixpoint sem_params (pv : venv) (c : ctx) (ps : list instr) (en : venv) : option venv :=
    match ps with
    | [] => Some en
    | IParam n sel :: r =>
        match lookup_v n en with
        | Some _ => None
        | None =>
            match lookup_v n (rev pv) with
            | Some v => sem_params pv c r ((n, v) :: en)
            | None => match (match sel with Some e => gx ev_value (slk en) c e | None => Some empty_string_value end) with
                      | Some v => sem_params pv c r ((n, v) :: en)
                      | None => None
                      end
            end
        end
    | _ :: _ => None
    end.

  Definition sem_tmpl (g : venv -> ctx -> instr -> venv -> option (venv * list item)) (pv : venv) (c : ctx) (t : N)
    : option (list item) :=
    match nth_error templates (N.to_nat t) with
    | Some (ITemplate ps body) =>
        match sem_params pv c ps [] with
        | Some en0 => sem_seq (g pv c) body en0
        | None => None
        end
    | _ => None
    end.

  (* sem f wp c i en = Some (en', items): instruction i, instantiated with the params wp of the running template
     instance, the context c and the bindings en in scope, adds items to the result and leaves en' in scope for
     its following siblings. None = an error of the stylesheet (unbound variable, shadowing, misplaced
     instruction, unknown template, element with an empty name) or not enough fuel. *)
  Fixpoint sem (f : nat) (wp : venv) (c : ctx) (i : instr) (en : venv) {struct f} : option (venv * list item) :=
    match f with
    | O => None
    | S f' =>
      let seq := fun c' => sem_seq (sem f' wp c') in
      let block := fun body => match seq c body en with Some o => Some (en, o) | None => None end in
      match i with
      | ILre n atts body =>
          if nonempty n then
            match ev_atts (slk en) c atts with
            | Some pre => match seq c body en with Some o => Some (en, [GElem n pre o]) | None => None end
            | None => None
            end
          else None
      | IText s => Some (en, [GText s])
      | IValueOf e => match gx ev_string (slk en) c e with Some s => Some (en, text_items s) | None => None end
      | IIf e body =>
          match gx ev_bool (slk en) c e with
          | Some true => block body
          | Some false => Some (en, [])
          | None => None
          end
      | IChoose bs =>
          match pick (slk en) c bs with
          | Some (Some x) => match sem f' wp c x en with Some (_, o) => Some (en, o) | None => None end
          | Some None => Some (en, [])
          | None => None
          end
      | IWhen _ body => block body
      | IOtherwise body => block body
      | IForEach e srt body =>
          match body with
          | [] => Some (en, [])
          | _ =>
            match sel_nodes (slk en) c e srt with
            | Some l =>
                match each (fun n pos => seq (mkC n pos (N.of_nat (length l)) (cmode c)) body en) l 1%N with
                | Some o => Some (en, o)
                | None => None
                end
            | None => None
            end
          end
      | ICall t wps =>
          match sem_wps (seq c) c en wps with
          | Some pv => match sem_tmpl (sem f') pv c t with Some o => Some (en, o) | None => None end
          | None => None
          end
      | IApply e m srt wps =>
          (* the mode of the instruction is the current mode while its with-params are evaluated *)
          let md := match m with Some m' => m' | None => cmode c end in
          let c1 := mkC (cnode c) (cpos c) (csize c) md in
          match sem_wps (seq c1) c1 en wps with
          | Some pv =>
              match sel_nodes (slk en) c1 e srt with
              | Some l =>
                  match each (fun n pos => match sel_template n md with
                                           | Some t => sem_tmpl (sem f') pv (mkC n pos (N.of_nat (length l)) md) t
                                           | None => Some []
                                           end) l 1%N with
                  | Some o => Some (en, o)
                  | None => None
                  end
              | None => None
              end
          | None => None
          end
      | IVar n sel body =>
          match lookup_v n en with
          | Some _ => None
          | None => match sem_vvalue (seq c) c sel body en with
                    | Some v => Some ((n, v) :: en, [])
                    | None => None
                    end
          end
      | ICopy body =>
          match node_shallow (cnode c) with
          | ShElem n => if nonempty n then match seq c body en with Some o => Some (en, [GElem n [] o]) | None => None end
                        else None
          | ShRoot => block body
          | ShLeaf its => Some (en, its)
          end
      | ICopyOf e => match gx ev_value (slk en) c e with Some v => Some (en, copy_items v) | None => None end
      | IAttribute n v => match ev_avt (slk en) c v with Some s => Some (en, [GAttr n s]) | None => None end
      | IWithParam _ _ _ | IParam _ _ | ITemplate _ _ => None
      end
    end.

  (* the transformation: the template selected for the root node in the default mode (0), no params *)
  Definition sem_main (f : nat) (root : N) : option (list item) :=
    match sel_template root 0%N with
    | Some t => sem_tmpl (sem f) [] (mkC root 1%N 1%N 0%N) t
    | None => None
    end.

  Definition result_of (items : list item) : list rnode := spec_tree false items.

  (* ================= the machine ================= *)
  Definition frame := (instr * list instr * bool)%type.

  Record mstate := mkM {
    m_stack : list frame;
    m_nodes : list (list N);
    m_cnl : list (list N);
    m_cur : list N;
    m_modes : list N;
    m_ifs : list bool;
    m_pvs : list (list (N * N));
    m_vs : vs;
    m_store : list value;
    m_out : list est }.

  Inductive ctl := CStart (i : instr) | CEnd (i : instr) | CNext.

  Inductive res := Run (c : ctl) (s : mstate) | Done (s : mstate) | Stuck.

  (* a variable reference: getVariable, then the XObject the entry points to *)
  Definition mlk (v : vs) (store : list value) : lkfun :=
    map_opt (fun x => match fst (get_variable x v) with
                      | Some b => nth_error store (N.to_nat b)
                      | None => None
                      end).

  Definition begin_children (body : list instr) (v : vs) : vs :=
    if has_decl body then push (EFrame 0%N) v else v.

  Definition end_children (body : list instr) (v : vs) : option vs :=
    if has_decl body then pop_frame v else Some v.

  Definition emit (ops : list iop) (o : list est) : list est :=
    match o with
    | e :: r => run_ops ops e :: r
    | [] => []
    end.

  (* ElemLiteralResult::startElement: startElement(name), then the AVTs through the engine's unguarded addResultAttribute *)
  Definition emit_lre_start (n : str) (pre : attrs) (o : list est) : list est :=
    match o with
    | e :: r => fold_left (fun s p => eng_add_attr (fst p) (snd p) s) pre (eng_start n e) :: r
    | [] => []
    end.

  (* findNextTemplateToExecute: nodes without a template are skipped *)
  Fixpoint find_next (md : N) (rest : list N) : option (N * N * list N) :=
    match rest with
    | [] => None
    | n :: r => match sel_template n md with
                | Some t => Some (n, t, r)
                | None => find_next md r
                end
    end.

  Definition is_template (i : instr) : bool := match i with ITemplate _ _ => true | _ => false end.

  Definition get_template (t : N) : option instr :=
    match nth_error templates (N.to_nat t) with
    | Some i => if is_template i then Some i else None
    | None => None
    end.

  Definition tl_or_nil {A : Type} (l : list A) : list A := match l with [] => [] | _ :: r => r end.

  (* ElemVariable / ElemWithParam: the value when it is known at startElement *)
  Definition start_value (lk : lkfun) (c : ctx) (sel : option expr) (body : list instr) : option (option value) :=
    match sel with
    | Some e => match gx ev_value lk c e with Some v => Some (Some v) | None => None end
    | None => match body with [] => Some (Some empty_string_value) | _ => Some None end
    end.

  Definition is_rtf_def (sel : option expr) (body : list instr) : bool :=
    match sel, body with None, _ :: _ => true | _, _ => false end.

  (* endCreateXResultTreeFrag: the fragment the top formatter has received *)
  Definition pop_rtf (o : list est) : option (list rnode * list est) :=
    match o with
    | e :: r => match build (rev (out (eng_finish e))) with Some t => Some (t, r) | None => None end
    | [] => None
    end.

  Definition step (c : ctl) (s : mstate) : res :=
    let 'mkM stk nodes cnl cur modes ifs pvs v store o := s in
    match cur, cnl, modes with
    | n :: cur', l :: cnl', md :: modes' =>
      let cx := mkC n (pos_of n l) (N.of_nat (length l)) md in
      let lk := mlk v store in
      match c with
      | CStart i =>
        match i with
        | ILre nm atts body =>
            match ev_atts lk cx atts with
            | Some pre => Run CNext (mkM ((i, body, false) :: stk) nodes cnl cur modes ifs pvs (begin_children body v) store
                                         (emit_lre_start nm pre o))
            | None => Stuck
            end
        | IText t => Run (CEnd i) (mkM stk nodes cnl cur modes ifs pvs v store (emit [IChars t] o))
        | IValueOf e =>
            match gx ev_string lk cx e with
            | Some t => Run (CEnd i) (mkM stk nodes cnl cur modes ifs pvs v store (emit (ops_of (text_items t)) o))
            | None => Stuck
            end
        | IIf e body =>
            match gx ev_bool lk cx e with
            | Some true => Run CNext (mkM ((i, body, false) :: stk) nodes cnl cur modes (true :: ifs) pvs (begin_children body v) store o)
            | Some false => Run (CEnd i) (mkM stk nodes cnl cur modes (false :: ifs) pvs v store o)
            | None => Stuck
            end
        | IChoose bs =>
            match pick lk cx bs with
            | Some (Some x) => Run (CStart x) (mkM ((i, [], false) :: stk) nodes cnl cur modes ifs pvs v store o)
            | Some None => Run (CEnd i) s
            | None => Stuck
            end
        | IWhen _ body | IOtherwise body =>
            Run CNext (mkM ((i, body, false) :: stk) nodes cnl cur modes ifs pvs (begin_children body v) store o)
        | IForEach e srt body =>
            match body with
            | [] => Run (CEnd i) s
            | _ =>
              match sel_nodes lk cx e srt with
              | Some sl =>
                  match sl with
                  | [] => Run (CEnd i) (mkM stk (sl :: nodes) (sl :: cnl) cur modes ifs pvs v store o)
                  | n1 :: rest => Run CNext (mkM ((i, body, false) :: stk) (rest :: nodes) (sl :: cnl) (n1 :: cur) modes ifs pvs
                                                (begin_children body v) store o)
                  end
              | None => Stuck
              end
            end
        | ICall t wps =>
            match wps with
            | [] => match get_template t with
                    | Some tm => Run (CStart tm) (mkM ((i, [], true) :: stk) nodes cnl cur modes ifs pvs (push ECtx v) store o)
                    | None => Stuck
                    end
            | _ => Run CNext (mkM ((i, wps, false) :: stk) nodes cnl cur modes ifs ([] :: pvs) v store o)
            end
        | IApply e m srt wps =>
            let modes1 := match m with Some m' => m' :: modes | None => modes end in
            match wps with
            | [] => Run CNext (mkM ((i, [], false) :: stk) nodes cnl cur modes1 ifs ([] :: pvs) v store o)
            | _ => Run CNext (mkM ((i, wps, false) :: stk) nodes cnl cur modes1 ifs ([] :: pvs) v store o)
            end
        | IWithParam nm sel body =>
            match start_value lk cx sel body with
            | Some (Some val) =>
                match pvs with
                | top :: pr => Run (CEnd i) (mkM stk nodes cnl cur modes ifs ((top ++ [(nm, N.of_nat (length store))]) :: pr) v (store ++ [val]) o)
                | [] => Stuck
                end
            | Some None => Run CNext (mkM ((i, body, false) :: stk) nodes cnl cur modes ifs pvs (begin_children body v) store (e_init :: o))
            | None => Stuck
            end
        | IVar nm sel body =>
            match start_value lk cx sel body with
            | Some (Some val) =>
                match push_variable nm (N.of_nat (length store)) 0%N v with
                | Some v' => Run (CEnd i) (mkM stk nodes cnl cur modes ifs pvs v' (store ++ [val]) o)
                | None => Stuck
                end
            | Some None => Run CNext (mkM ((i, body, false) :: stk) nodes cnl cur modes ifs pvs (begin_children body v) store (e_init :: o))
            | None => Stuck
            end
        | IParam nm sel =>
            match get_param_variable nm v with
            | (Some _, v1) => Run (CEnd i) (mkM stk nodes cnl cur modes ifs pvs v1 store o)
            | (None, v1) =>
                match start_value (mlk v1 store) cx sel [] with
                | Some (Some val) =>
                    match push_variable nm (N.of_nat (length store)) 0%N v1 with
                    | Some v' => Run (CEnd i) (mkM stk nodes cnl cur modes ifs pvs v' (store ++ [val]) o)
                    | None => Stuck
                    end
                | _ => Stuck
                end
            end
        | ICopy body =>
            match node_shallow n with
            | ShElem nm => Run CNext (mkM ((i, body, false) :: stk) nodes cnl cur modes ifs pvs (begin_children body v) store (emit [IStart nm] o))
            | ShRoot => Run CNext (mkM ((i, body, false) :: stk) nodes cnl cur modes ifs pvs (begin_children body v) store o)
            | ShLeaf its => Run (CEnd i) (mkM stk nodes cnl cur modes ifs pvs v store (emit (ops_of its) o))
            end
        | ICopyOf e =>
            match gx ev_value lk cx e with
            | Some val => Run (CEnd i) (mkM stk nodes cnl cur modes ifs pvs v store (emit (ops_of (copy_items val)) o))
            | None => Stuck
            end
        | IAttribute nm av =>
            match ev_avt lk cx av with
            | Some t => Run (CEnd i) (mkM stk nodes cnl cur modes ifs pvs v store (emit [IAttr nm t] o))
            | None => Stuck
            end
        | ITemplate ps body =>
            Run CNext (mkM ((i, ps ++ body, false) :: stk) nodes cnl cur modes ifs pvs (begin_children (ps ++ body) v) store o)
        end
      | CEnd i =>
        match i with
        | ILre nm _ body =>
            match end_children body v with
            | Some v' => Run CNext (mkM stk nodes cnl cur modes ifs pvs v' store (emit [IEnd nm] o))
            | None => Stuck
            end
        | IIf _ body =>
            match ifs with
            | true :: ifs' => match end_children body v with
                              | Some v' => Run CNext (mkM stk nodes cnl cur modes ifs' pvs v' store o)
                              | None => Stuck
                              end
            | false :: ifs' => Run CNext (mkM stk nodes cnl cur modes ifs' pvs v store o)
            | [] => Stuck
            end
        | IWhen _ body | IOtherwise body =>
            match end_children body v with
            | Some v' => Run CNext (mkM stk nodes cnl cur modes ifs pvs v' store o)
            | None => Stuck
            end
        | IForEach _ _ body =>
            match body with
            | [] => Run CNext s
            | _ =>
              match (match l with [] => Some v | _ => end_children body v end) with
              | Some v' => Run CNext (mkM stk (tl_or_nil nodes) cnl' cur modes ifs pvs v' store o)
              | None => Stuck
              end
            end
        | ICall _ _ => Run CNext (mkM stk nodes cnl cur modes ifs pvs (pop_ctx v) store o)
        | IApply _ m _ _ =>
            Run CNext (mkM stk (tl_or_nil nodes) cnl' cur (match m with Some _ => modes' | None => modes end) ifs pvs (pop_ctx v) store o)
        | IWithParam nm sel body =>
            if is_rtf_def sel body then
              match end_children body v, pop_rtf o, pvs with
              | Some v', Some (t, o'), top :: pr =>
                  Run CNext (mkM stk nodes cnl cur modes ifs ((top ++ [(nm, N.of_nat (length store))]) :: pr) v' (store ++ [VRtf t]) o')
              | _, _, _ => Stuck
              end
            else Run CNext s
        | IVar nm sel body =>
            if is_rtf_def sel body then
              match end_children body v, pop_rtf o with
              | Some v', Some (t, o') =>
                  match push_variable nm (N.of_nat (length store)) 0%N v' with
                  | Some v'' => Run CNext (mkM stk nodes cnl cur modes ifs pvs v'' (store ++ [VRtf t]) o')
                  | None => Stuck
                  end
              | _, _ => Stuck
              end
            else Run CNext s
        | IParam nm _ =>
            match get_param_variable nm v with
            | (Some _, v1) => Run CNext (mkM stk nodes cnl cur modes ifs pvs v1 store o)
            | (None, _) => Run CNext s
            end
        | ICopy body =>
            match node_shallow n with
            | ShElem nm => match end_children body v with
                           | Some v' => Run CNext (mkM stk nodes cnl cur modes ifs pvs v' store (emit [IEnd nm] o))
                           | None => Stuck
                           end
            | ShRoot => match end_children body v with
                        | Some v' => Run CNext (mkM stk nodes cnl cur modes ifs pvs v' store o)
                        | None => Stuck
                        end
            | ShLeaf _ => Run CNext s
            end
        | ITemplate ps body =>
            (* endExecuteChildren; popElementFrame of a template's frame deactivates the params (resetParams) *)
            if has_decl (ps ++ body) then
              match pop_frame v with
              | Some v' => Run CNext (mkM stk nodes cnl cur modes ifs pvs (reset_params v') store o)
              | None => Stuck
              end
            else Run CNext s
        | IText _ | IValueOf _ | IChoose _ | ICopyOf _ | IAttribute _ _ => Run CNext s
        end
      | CNext =>
        match stk with
        | [] => Done s
        | (p, rsib, tm) :: stk' =>
          if tm then
            match p with
            | IApply _ _ _ _ =>
                (* the template instance for one node is over: popCurrentNode, findNextTemplateToExecute *)
                match nodes with
                | rest :: nodes' =>
                    match find_next md rest with
                    | Some (n1, t, rest') =>
                        match get_template t with
                        | Some tmi => Run (CStart tmi) (mkM stk (rest' :: nodes') cnl (n1 :: cur') modes ifs pvs v store o)
                        | None => Stuck
                        end
                    | None => Run (CEnd p) (mkM stk' ([] :: nodes') cnl cur' modes ifs pvs v store o)
                    end
                | [] => Stuck
                end
            | _ => Run (CEnd p) (mkM stk' nodes cnl cur modes ifs pvs v store o)
            end
          else
            match rsib with
            | x :: r => Run (CStart x) (mkM ((p, r, false) :: stk') nodes cnl cur modes ifs pvs v store o)
            | [] =>
              match p with
              | IForEach _ _ body =>
                  (* popCurrentNode; getNextNodeToTransform; pushCurrentNode; endExecuteChildren; beginExecuteChildren *)
                  match nodes with
                  | (n1 :: rest) :: nodes' =>
                      match end_children body v with
                      | Some v' => Run CNext (mkM ((p, body, false) :: stk') (rest :: nodes') cnl (n1 :: cur') modes ifs pvs
                                                 (begin_children body v') store o)
                      | None => Stuck
                      end
                  | [] :: nodes' => Run (CEnd p) (mkM stk' nodes cnl cur' modes ifs pvs v store o)
                  | [] => Stuck
                  end
              | ICall t _ =>
                  (* the with-params are done: pushContextMarker, endParams, the template *)
                  match pvs, get_template t with
                  | top :: pr, Some tmi =>
                      Run (CStart tmi) (mkM ((p, [], true) :: stk') nodes cnl cur modes ifs pr (push_params top (push ECtx v)) store o)
                  | _, _ => Stuck
                  end
              | IApply e _ srt _ =>
                  (* select (and sort), push the lists, pushContextMarker, endParams, findNextTemplateToExecute.
                     The select expression sees the caller's context: the mode pushed by startElement is not part of it *)
                  match pvs with
                  | top :: pr =>
                      match sel_nodes lk cx e srt with
                      | Some sl =>
                          let v' := push_params top (push ECtx v) in
                          match find_next md sl with
                          | Some (n1, t, rest') =>
                              match get_template t with
                              | Some tmi => Run (CStart tmi) (mkM ((p, [], true) :: stk') (rest' :: nodes) (sl :: cnl) (n1 :: cur) modes ifs pr v' store o)
                              | None => Stuck
                              end
                          | None => Run (CEnd p) (mkM stk' ([] :: nodes) (sl :: cnl) cur modes ifs pr v' store o)
                          end
                      | None => Stuck
                      end
                  | [] => Stuck
                  end
              | _ => Run (CEnd p) (mkM stk' nodes cnl cur modes ifs pvs v store o)
              end
            end
        end
      end
    | _, _, _ => Stuck
    end.

  Fixpoint run (fuel : nat) (c : ctl) (s : mstate) : res :=
    match fuel with
    | O => Run c s
    | S f => match step c s with
             | Run c' s' => run f c' s'
             | r => r
             end
    end.

  (* StylesheetRoot::process: the root node is the current node and the only member of the context node list,
     the default mode, the VariablesStack as XsltVarsDefs.impl_start leaves it without top-level variables *)
  Definition m_init (root : N) : mstate :=
    mkM [] [] [[root]] [root] [0%N] [] [] (impl_start []) [] [e_init].

  Definition machine_main (fuel : nat) (root : N) : res :=
    match sel_template root 0%N with
    | Some t => match get_template t with
                | Some tm => run fuel (CStart tm) (m_init root)
                | None => Stuck
                end
    | None => Stuck
    end.

  (* what the formatter of the main result tree has received when the loop has stopped *)
  Definition result_tree (s : mstate) : option (list rnode) :=
    match m_out s with
    | [e] => build (rev (out (eng_finish e)))
    | _ => None
    end.

  Definition machine_result (fuel : nat) (root : N) : option (list rnode) :=
    match machine_main fuel root with
    | Done s => result_tree s
    | _ => None
    end.
End Core.
