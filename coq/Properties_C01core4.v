(* Properties_C01core4.v - C01, the whole-interpreter piece, part 4: ATTRIBUTE SETS (XSLT 1.0 7.1.4) - use-attribute-sets on
   literal result elements, xsl:element, xsl:copy (element nodes only) and on attribute sets themselves.  The language of
   XsltCore2Defs.v has the constructors JLreU / JElementU / JCopyU / JAttrSet (+ the pseudo-instructions JSet, JAvts through
   which the machine walks ElemUse::getFirst/NextChildElemToExecute); the refinement theorem of Properties_C01core2.v /
   Properties_C01core3.v covers them (the simulation is proved for the whole language); here: the theorem restated for the
   language with attribute sets and top-level bindings (a set sees only top-level bindings), and what is specific to sets.
   Reference semantics: the attributes of the used sets, in the order of the names, each set after the sets it uses; then
   the element's own attributes; then the content.  The merging of same-named sets by import precedence is done by the
   program's builder (a name stands for its sets, lowest precedence first).  Not modelled: the recursion stack that turns
   a circular use into an error (the machine then never stops, the semantics is undefined; the guard discipline itself is
   SafeErrModel.attset_balanced_l).  Nothing here but statements closed by [exact] and their assumptions. *)
From Coq Require Import List NArith Bool Arith.
Require Import XV.XsltEventsDefs XV.XsltVarsDefs XV.XsltVarsModel XV.XsltCoreDefs XV.XsltCoreModel XV.XsltCoreSim.
Require Import XV.XsltCore2Defs XV.XsltCore2Model XV.XsltCore2Pkg XV.XsltCore3Defs XV.XsltCore3Pkg XV.XsltCore4Pkg XV.XsltCore4Examples.
Require Import XV.GenXsltCore4.
Import ListNotations.

(* the refinement for the whole language: core + element / comment / PI + attribute sets + top-level bindings *)
Theorem machine4_refines_sem4 : forall fxc m, mech2_ok (m3_base m) -> forall f items,
  SemMain3 m f = Some items ->
  exists k s, (forall j, MachineMain3 true fxc m (k + j) = Done2 s) /\ result_tree2 s = Some (result_of items).
Proof. exact machine3_refines_sem3_pkg. Qed.
Print Assumptions machine4_refines_sem4.

(* a literal result element that uses attribute sets: start tag; the attributes of the sets; THEN the element's own
   attributes; the content; the end tag - and every stack as it was.  (An attribute set executed after the element's own
   attributes contradicts this statement.) *)
Theorem attribute_sets_run_before_the_elements_own_attributes : forall fxc m, mech2_ok m -> forall f n use atts body tm wp nd l md en sa pre its,
  nonempty n = true ->
  sem_seq2 (Sem2 false m f tm wp (cxof nd l md)) (use_sets use) en = Some sa ->
  ev_atts (m2c_string m) (slk en) (cxof nd l md) atts = Some pre ->
  sem_seq2 (Sem2 false m f tm wp (cxof nd l md)) body en = Some its ->
  forall stk nodes cnl cur modes ifs pvs store o F R benv wpb,
    GoodR F R -> Fr true F benv wpb -> Res store benv en -> tflag o = mflag true tm ->
  exists k store',
    Run2_ true fxc m k (KStart (JLreU n use atts body)) (mkM2 stk nodes (l :: cnl) (nd :: cur) (md :: modes) ifs pvs (VS F R) store o)
    = Run2 KNext (mkM2 stk nodes (l :: cnl) (nd :: cur) (md :: modes) ifs pvs (VS F R) store'
                       (emit2 (IStart n :: ops_of sa ++ map (fun p => IAttr (fst p) (snd p)) pre ++ ops_of its ++ [IEnd n]) o))
    /\ (exists ext, store' = store ++ ext).
Proof. exact lre_with_sets_pkg. Qed.
Print Assumptions attribute_sets_run_before_the_elements_own_attributes.

(* what the sets contribute is attributes only (so the start tag is still pending when the element's own are added) *)
Theorem attribute_sets_yield_attributes_only : forall g m f tm wp c use en sa,
  sem_seq2 (Sem2 g m f tm wp c) (use_sets use) en = Some sa -> exists A, sa = attr_items A.
Proof. exact set_items_are_attributes_pkg. Qed.
Print Assumptions attribute_sets_yield_attributes_only.

(* 7.1.4 in the result tree: the attribute list of the element is that of the sets followed by its own, a later attribute of
   the same name replacing the value of an earlier one at the earlier one's place (duplicate_attribute_last_wins of
   Properties_C01.v, reused) *)
Theorem later_attribute_replaces_earlier_of_the_same_name : forall strict A pre o,
  spec_fold strict (attr_items A ++ attr_items pre ++ o) (true, [], []) = spec_fold strict o (true, dedup_last_keep_pos (A ++ pre), []).
Proof. exact set_then_own_attributes_last_wins_pkg. Qed.
Print Assumptions later_attribute_replaces_earlier_of_the_same_name.

(* ---- tie ---- *)
Theorem core4_attribute_set_shapes_as_in_source :
  src4_use_start_pushes_invoker_and_indexes = true /\
  src4_use_end_pops_invoker_and_indexes = true /\
  src4_first_child_sets_before_avts_before_children = true /\
  src4_next_child_sets_then_avts_then_children = true /\
  src4_copy_uses_sets_for_elements_only = true /\
  src4_next_set_walks_names_then_matching_sets = true /\
  src4_attribute_set_start_use_marker_guard_children = true /\
  src4_attribute_set_end_guard_marker_use = true /\
  src4_attribute_set_returns_to_its_user = true /\
  src4_lre_start_tag_use_children_no_avts = true /\
  src4_lre_avts_added_without_guard = true /\
  src4_lre_end_children_tag_use = true /\
  src4_element_start_tag_use_children = true /\
  src4_copy_clone_use_children = true.
Proof. exact (conj eq_refl (conj eq_refl (conj eq_refl (conj eq_refl (conj eq_refl (conj eq_refl (conj eq_refl (conj eq_refl
        (conj eq_refl (conj eq_refl (conj eq_refl (conj eq_refl (conj eq_refl eq_refl))))))))))))). Qed.
Print Assumptions core4_attribute_set_shapes_as_in_source.

(* ---- non-vacuity ---- *)
Example hypotheses_satisfiable4 : mech2_ok (m3_base ex4_mech).
Proof. exact ex4_base_ok. Qed.

(* <e use-attribute-sets="s1 s2" k="own">t</e>, s1 = {k=a, m=b} using s2 = {k=c, n=d}: k keeps the place of its first
   occurrence and has the element's own value *)
Example both_sides_compute_the_expected_tree4 :
  option_map result_of (SemMain3 ex4_mech 8) = Some ex4_tree /\
  (match MachineMain3 true true ex4_mech 200 with Done2 s => result_tree2 s | _ => None end) = Some ex4_tree.
Proof. exact ex4_both_sides. Qed.

Example circular_use_has_no_semantics_and_the_machine_does_not_stop :
  SemMain3 cy4_mech 30 = None /\ (match MachineMain3 true true cy4_mech 300 with Done2 _ => false | _ => true end) = true.
Proof. exact cy4_witness. Qed.
