<?xml version="1.0"?>
<xsl:stylesheet version="1.0" xmlns:xsl="http://www.w3.org/1999/XSL/Transform">
  <xsl:output method="text"/>
  <xsl:variable name="sorted">
    <xsl:for-each select="/w/i"><xsl:sort data-type="number"/><xsl:copy-of select="."/></xsl:for-each>
  </xsl:variable>
  <xsl:template match="/">
    <xsl:apply-templates select="w/i[1]" mode="walk"/>
    <xsl:text>|</xsl:text>
    <xsl:value-of select="string($sorted)"/>
    <xsl:text>|</xsl:text>
    <xsl:number value="1999" format="I"/>,<xsl:number value="27" format="a"/>,<xsl:number value="1234567" grouping-separator="," grouping-size="3"/>
    <xsl:value-of select="concat(floor(7.5), round(2.5), ceiling(0.1), boolean(w/z), not(w/i), lang('en'))"/>
  </xsl:template>
  <xsl:template match="i" mode="walk">
    <xsl:value-of select="."/><xsl:if test="following-sibling::i">,</xsl:if>
    <xsl:apply-templates select="following-sibling::i[1]" mode="walk"/>
  </xsl:template>
</xsl:stylesheet>
