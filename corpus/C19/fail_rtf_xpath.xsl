<?xml version="1.0"?>
<!-- the same facilities inside two nested fragments, then a run-time XPath error (key() with an undeclared name) -->
<xsl:stylesheet version="1.0" xmlns:xsl="http://www.w3.org/1999/XSL/Transform"
                xmlns:xalan="http://xml.apache.org/xalan" exclude-result-prefixes="xalan">
  <xsl:key name="k" match="item" use="@id"/>
  <xsl:decimal-format name="eu" decimal-separator="," grouping-separator="."/>
  <xsl:template match="/">
    <xsl:variable name="rtf">
      <list><item id="a">10</item><item id="b">20</item></list>
    </xsl:variable>
    <xsl:variable name="rtf2">
      <xsl:for-each select="xalan:nodeset($rtf)/list/item">
        <item id="{@id}x"><xsl:number level="any" count="item"/>-<xsl:value-of select="count(key('k', 'a'))"/></item>
      </xsl:for-each>
    </xsl:variable>
    <out>
      <xsl:for-each select="xalan:nodeset($rtf2)/item">
        <xsl:sort select="@id"/>
        <v><xsl:value-of select="key('k', 'bx')"/>|<xsl:value-of select="format-number(1234.5, '#.##0,0', 'eu')"/></v>
      </xsl:for-each>
      <xsl:copy-of select="xalan:nodeset($rtf)/list/item[key('k', 'b')]"/>
      <xsl:value-of select="key('undeclared', 'x')"/>
    </out>
  </xsl:template>
</xsl:stylesheet>
