(* model side of the xp correspondence (C02 / C11): same line protocol as harness/xp.cpp, plus a
   field A:<s-expression of the XpAst value> (the generator prints the expression string for the
   library and this AST for the model from one tree). *)

(* ---- s-expressions ---- *)
type sx = Atom of string | L of sx list

let tokenize_sx (s : string) : string list =
  let b = Buffer.create 16 and out = ref [] in
  let flush () = if Buffer.length b > 0 then (out := Buffer.contents b :: !out; Buffer.clear b) in
  String.iter (fun c ->
    match c with
    | '(' | ')' -> flush (); out := String.make 1 c :: !out
    | ' ' -> flush ()
    | _ -> Buffer.add_char b c) s;
  flush (); List.rev !out

let parse_sx (toks : string list) : sx =
  let rec one = function
    | "(" :: r -> let (items, r') = many r in (L items, r')
    | ")" :: _ -> failwith "unexpected )"
    | a :: r -> (Atom a, r)
    | [] -> failwith "eof"
  and many = function
    | ")" :: r -> ([], r)
    | [] -> failwith "eof in list"
    | l -> let (x, r) = one l in let (xs, r') = many r in (x :: xs, r')
  in fst (one toks)

let u = u16_of_token

let axis_of = function
  | "ancestor" -> AxAncestor | "ancestor-or-self" -> AxAncestorOrSelf | "attribute" -> AxAttribute
  | "child" -> AxChild | "descendant" -> AxDescendant | "descendant-or-self" -> AxDescendantOrSelf
  | "following" -> AxFollowing | "following-sibling" -> AxFollowingSibling | "parent" -> AxParent
  | "preceding" -> AxPreceding | "preceding-sibling" -> AxPrecedingSibling | "self" -> AxSelf
  | "namespace" -> AxNamespace | "root" -> AxRoot | a -> failwith ("axis " ^ a)

let test_of = function
  | Atom "comment" -> TComment | Atom "text" -> TText | Atom "node" -> TNode | Atom "root" -> TRoot
  | L [Atom "pi"] -> TPi None | L [Atom "pi"; Atom t] -> TPi (Some (u t))
  | L [Atom "name"; ns; l] ->
      let ns' = match ns with Atom "empty" -> NsEmpty | Atom "any" -> NsAny | L [Atom "uri"; Atom x] -> NsUri (u x) | _ -> failwith "ns" in
      let l' = match l with Atom "*" -> None | Atom x -> Some (u x) | _ -> failwith "local" in
      TName (ns', l')
  | _ -> failwith "test"

let rec expr_of (s : sx) : expr =
  match s with
  | L [Atom "or"; a; b] -> EOr (expr_of a, expr_of b) | L [Atom "and"; a; b] -> EAnd (expr_of a, expr_of b)
  | L [Atom "ne"; a; b] -> ENe (expr_of a, expr_of b) | L [Atom "eq"; a; b] -> EEq (expr_of a, expr_of b)
  | L [Atom "lte"; a; b] -> ELte (expr_of a, expr_of b) | L [Atom "lt"; a; b] -> ELt (expr_of a, expr_of b)
  | L [Atom "gte"; a; b] -> EGte (expr_of a, expr_of b) | L [Atom "gt"; a; b] -> EGt (expr_of a, expr_of b)
  | L [Atom "plus"; a; b] -> EPlus (expr_of a, expr_of b) | L [Atom "minus"; a; b] -> EMinus (expr_of a, expr_of b)
  | L [Atom "mult"; a; b] -> EMult (expr_of a, expr_of b) | L [Atom "div"; a; b] -> EDiv (expr_of a, expr_of b)
  | L [Atom "mod"; a; b] -> EMod (expr_of a, expr_of b)
  | L [Atom "neg"; a] -> ENeg (expr_of a)
  | L (Atom "union" :: l) -> EUnion (List.map expr_of l)
  | L [Atom "lit"; Atom x] -> ELiteral (u x)
  | L [Atom "var"; Atom ns; Atom l] -> EVar (u ns, u l)
  | L [Atom "group"; a] -> EGroup (expr_of a)
  | L [Atom "num"; Atom x] -> ENumLit (u x)
  | L (Atom "fn" :: Atom n :: args) -> EFunc (u n, List.map expr_of args)
  | L (Atom "extfn" :: Atom ns :: Atom n :: args) -> EExtFunc (u ns, u n, List.map expr_of args)
  | L [Atom "path"; h; L hp; L st] ->
      let h' = match h with Atom "none" -> None | x -> Some (expr_of x) in
      EPath (h', List.map pred_of hp, List.map step_of st)
  | _ -> failwith "expr"
and pred_of = function
  | L [Atom "pred"; Atom f; e] -> (f = "1", expr_of e)
  | _ -> failwith "pred"
and step_of = function
  | L [Atom "step"; Atom ax; t; L ps] -> ((axis_of ax, test_of t), List.map pred_of ps)
  | _ -> failwith "step"

(* ---- documents ---- *)
let trees_of_tokens (field : string) : tree list =
  let toks = split_ws field in
  (* returns (children, rest) up to the matching ")" *)
  let rec children toks =
    match toks with
    | [] -> ([], [])
    | ")" :: r -> ([], r)
    | t :: r ->
        if t.[0] = '(' then begin
          let name = String.sub t 1 (String.length t - 1) in
          let rec attrs acc = function
            | a :: r when String.length a > 0 && a.[0] = '@' ->
                let e = String.index a '=' in
                attrs ((u ("u:" ^ String.concat "," (List.map (fun c -> Printf.sprintf "%x" (Char.code c)) (List.init (e - 1) (fun i -> a.[i + 1])))),
                        u (String.sub a (e + 1) (String.length a - e - 1))) :: acc) r
            | r -> (List.rev acc, r) in
          let (ats, r1) = attrs [] r in
          let (ch, r2) = children r1 in
          let (sibs, r3) = children r2 in
          let qn = u ("u:" ^ String.concat "," (List.map (fun c -> Printf.sprintf "%x" (Char.code c)) (List.init (String.length name) (fun i -> name.[i])))) in
          (TElem (qn, ats, ch) :: sibs, r3)
        end else begin
          let node =
            match t.[0] with
            | 't' -> TTextN (u (String.sub t 2 (String.length t - 2)))
            | 'c' -> TCommentN (u (String.sub t 2 (String.length t - 2)))
            | 'p' ->
                let e = String.index_from t 2 '=' in
                let tg = String.sub t 2 (e - 2) in
                TPiN (u ("u:" ^ String.concat "," (List.map (fun c -> Printf.sprintf "%x" (Char.code c)) (List.init (String.length tg) (fun i -> tg.[i])))),
                      u (String.sub t (e + 1) (String.length t - e - 1)))
            | _ -> failwith ("doc token " ^ t) in
          let (sibs, r') = children r in
          (node :: sibs, r')
        end
  in fst (children toks)

let show_dbl (x : spec_float) : string =
  match x with S754_nan -> "nan" | _ -> hex_of_z (to_bits x) 16

let show_nodes (l : nat list) : string =
  "ns:" ^ String.concat "," (List.map (fun n -> string_of_int (int_of_nat n)) l)

let field (fs : string list) (k : int) : string =
  let s = List.nth fs k in String.sub s 2 (String.length s - 2)

let split_on (c : char) (s : string) : string list =
  if s = "" then [] else String.split_on_char c s

let () =
  let ic = if Array.length Sys.argv > 1 then open_in Sys.argv.(1) else stdin in
  let last_doc = ref "" and doc = ref [] in
  iter_lines ic (fun line ->
    if line <> "" && line.[0] <> '#' then begin
      let fs = String.split_on_char '|' line in
      if List.length fs >= 8 then begin
        let id = List.nth fs 0 in
        (try
          let docf = field fs 2 in
          if docf <> !last_doc then (doc := build_doc (trees_of_tokens docf); last_doc := docf);
          let ctxf = field fs 3 in
          let (cn, cl) = match String.split_on_char ';' ctxf with
            | [a] -> (int_of_string a, [])
            | a :: b :: _ -> (int_of_string a, List.map int_of_string (split_on ',' b))
            | [] -> (0, []) in
          let vars = List.map (fun kv ->
              let e = String.index kv '=' in
              let name = String.sub kv 0 e and v = String.sub kv (e + 1) (String.length kv - e - 1) in
              let nm = u ("u:" ^ String.concat "," (List.map (fun c -> Printf.sprintf "%x" (Char.code c)) (List.init (String.length name) (fun i -> name.[i])))) in
              let value =
                if v.[0] = 'b' then VBool (v.[2] = '1')
                else if v.[0] = 'n' && v.[1] = ':' then
                  (let h = String.sub v 2 (String.length v - 2) in VNum (if h = "nan" then S754_nan else of_bits (z_of_hex h)))
                else if v.[0] = 's' then VStr (u (String.sub v 2 (String.length v - 2)))
                else VNodes (List.map (fun x -> nat_of_int (int_of_string x)) (split_on ',' (String.sub v 3 (String.length v - 3)))) in
              (([], nm), value)) (split_on ';' (field fs 4)) in
          let ast = expr_of (parse_sx (tokenize_sx (field fs 7))) in
          let c = { cx_doc = !doc; cx_node = nat_of_int cn; cx_list = List.map nat_of_int cl; cx_vars = vars; cx_strip = (fun _ _ -> false) } in
          match eval_this_tree c ast with   (* = eval_top while GenXpCp.v says the string functions count code units *)
          | Err _ -> Printf.printf "%s|err\n" id
          | Ok v ->
              let g = match v with
                | VBool b -> if b then "b:1" else "b:0"
                | VNum x -> "n:" ^ show_dbl x
                | VStr s -> "s:" ^ token_of_u16 s
                | VNodes l -> show_nodes l in
              let s = "s:" ^ token_of_u16 (to_string c v) in
              Printf.printf "%s|G:%s|B:%s|N:n:%s|S:%s|F:%s|L:%s\n" id g
                (if to_boolean v then "b:1" else "b:0") (show_dbl (to_number c v)) s s
                (match v with VNodes l -> show_nodes l | _ -> "err")
        with e -> Printf.printf "%s|modelfail:%s\n" id (Printexc.to_string e))
      end
    end)
