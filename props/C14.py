"""C14 — result elements/attributes get the requested expanded names; prefixes resolve.

Legs:
  proof          coq/Properties_C14.v over coq/NsfixDefs.v / NsfixModel.v: model of the result-namespace
                 stack, the pending element/attribute list, the unique-prefix generator and the decision
                 trees of xsl:attribute, xsl:element and literal result elements (with
                 exclude-result-prefixes); specification = a namespace-aware reader of the emitted events
  correspondence generated stylesheets made only of result constructors -> flat op list -> extracted
                 model (ocaml/nsfix_driver.ml) predicts the complete serialized output (prefixes, order
                 of attributes and declarations, invented ns<N>); compared byte for byte with the output
                 of the rebuilt library (vlib/xsltrun.py)
  variants       translator/gen_nsfix.py reads off the tree whether the repairs of K17, KN6, KN10 (model flags in
                 GenNsfix.v) and KN7 (generator: re-binding an excluded prefix is then generated, oracle only,
                 residual finding KN11) are present; nothing has to be swapped when they are committed
  oracle         the library's output parsed by expat with namespace processing (rejects unbound
                 prefixes, duplicate expanded attribute names, reserved prefixes); every element and
                 attribute compared with the expanded name the GENERATOR intended (computed here from the
                 stylesheet tree by XSLT 1.0 7.1.1-7.1.3, no Coq model involved); excluded namespaces and
                 namespace-alias (stylesheet side must not appear) checked on the declarations seen.
                 Attribute sets (xsl:use-attribute-sets on literal result elements and xsl:element, nested
                 sets) are modelled: their xsl:attribute instructions run after the declarations and before the
                 literal attributes (ops LO ... LA); a dedicated stream generates ORDER-dependent shapes (a prefix
                 declared or inherited but not yet used on the pending start tag when a set's xsl:attribute with
                 the same prefix and another namespace arrives).
                 Additional oracle-only streams: namespace-alias, xsl:copy with use-attribute-sets, and xsl:copy / xsl:copy-of of
                 nodes of generated SOURCE documents that re-bind prefixes and the default namespace at several
                 depths (expected expanded names read off the source by the same expat reader).
"""
import re, os
import xml.parsers.expat
from vlib import core, xsltrun

LEVEL = "proof"
FAMILY = "nsfix"
XSL = "http://www.w3.org/1999/XSL/Transform"
XMLNS = "http://www.w3.org/XML/1998/namespace"
URI_FIXED = {0: "", 1: XMLNS, 2: "http://www.w3.org/2000/xmlns/", 3: XSL}
HAZARD_KEY = {"K17": "K17", "ElemEmptyNs": "KN6", "LateLiteral": "KN10"}
# hazards that mark an erroneous / unmodelled stylesheet rather than a defect: never generated in oracle streams
HAZARD_SKIP = {"DeclAttr", "Unsupported"}


# ---------------------------------------------------------------------------------------------
# names <-> atoms of the model

def unique_prefix():
    """the string getUniqueNamespaceValue prepends (s_uniqueNamespacePrefix), read from the working tree"""
    try:
        src = open(os.path.join(os.environ.get("VERIF_REPO", "/repo"), "src/xalanc/XSLT/XSLTEngineImpl.cpp"), encoding="utf-8", errors="replace").read()
        m = re.search(r's_uniqueNamespacePrefix\.reset\(\s*theManager\s*,\s*"([A-Za-z_][A-Za-z0-9_.-]*)"', src)
        return m.group(1) if m else "ns"
    except OSError:
        return "ns"


GENPFX = unique_prefix()


def kn7_repaired():
    """NamespacesHandler::getNamespace looks at the element's own declarations before the inherited excluded
    prefixes (fixes/C14/11-KN7): then re-binding an excluded prefix is an ordinary case and is generated"""
    try:
        src = open(os.path.join(os.environ.get("VERIF_REPO", "/repo"), "src/xalanc/XSLT/NamespacesHandler.cpp"), encoding="utf-8", errors="replace").read()
        return "theURI=findNamespace(m_namespaceDeclarations,thePrefix)" in re.sub(r"\s+", "", src)
    except OSError:
        return False


KN7_FIXED = kn7_repaired()


class Names:
    def __init__(self):
        self.user, self.xmlish = {}, {}
        self.ruser, self.rxmlish = {}, {}

    def atom(self, s):
        if s == "xmlns":
            return "x"
        if s == "xml":
            return "m"
        if s.startswith("xml"):
            if s not in self.xmlish:
                self.xmlish[s] = len(self.xmlish)
                self.rxmlish[self.xmlish[s]] = s
            return "X%d" % self.xmlish[s]
        m = re.match(r"^" + re.escape(GENPFX) + r"(0|[1-9][0-9]*)$", s)
        if m:
            return "G%s" % m.group(1)
        if s not in self.user:
            self.user[s] = len(self.user)
            self.ruser[self.user[s]] = s
        return "U%d" % self.user[s]

    def pfx(self, s):
        return "-" if not s else self.atom(s)

    def qname(self, q):
        p, _, l = q.rpartition(":")
        return "%s,%s" % (self.pfx(p), self.atom(l))

    def text(self, a):
        if a == "x":
            return "xmlns"
        if a == "m":
            return "xml"
        if a[0] == "X":
            return self.rxmlish[int(a[1:])]
        if a[0] == "G":
            return GENPFX + a[1:]
        return self.ruser[int(a[1:])]

    def qtext(self, q):
        p, l = q.split(",")
        return (self.text(p) + ":" if p != "-" else "") + self.text(l)


URIS = ["", None, None, None, "u4", "u5", "u6", "u7", "u8"]     # index = model uri number (>= 4 free)


def uri_num(u):
    if u == "":
        return 0
    if u == XMLNS:
        return 1
    if u == XSL:
        return 3
    return int(u[1:])


def uri_text(n):
    return URI_FIXED[n] if n in URI_FIXED else "u%d" % n


# ---------------------------------------------------------------------------------------------
# stylesheet trees
#   lre : {"k":"lre","name":"p:l","ns":[(pfx,uri)],"attrs":[(qname,val)],"excl":[pfx|"#default"],"kids":[..]}
#   elem: {"k":"elem","name":..,"nsattr":None|uri,"ns":[..],"avt":bool,"kids":[..]}
#   attr: {"k":"attr","name":..,"nsattr":None|uri,"ns":[..],"avt":bool,"val":int}
#   text: {"k":"text"}
#   lre / elem may carry "uas": [set names] (modelled: sets run after the declarations, before the literal attributes)
#   (oracle-only) copy / copyof
# sheet: {"ns":[(pfx,uri)], "excl":[..], "alias":[(sp,rp)], "body":[..],
#         "asets":{name: [attr..] | {"uas":[names], "attrs":[attr..]}}, "source": str}

def lookup(scope, p):
    """scope: list of (pfx, uri), innermost first"""
    if p == "xml":
        return XMLNS
    for q, u in scope:
        if q == p:
            return u
    return None


def split(q):
    p, _, l = q.rpartition(":")
    return p, l


def esc(s):
    return s.replace("&", "&amp;").replace("<", "&lt;").replace('"', "&quot;")


def nsattrs(ns):
    return "".join(' xmlns%s="%s"' % ((":" + p) if p else "", esc(u)) for p, u in ns)


class Sheet:
    """serialises a tree, computes the model program and the intended result"""

    def __init__(self, sh):
        self.sh = sh
        self.params = []
        self.names = Names()
        self.ops = []
        self.top_scope = list(sh["ns"]) + [("xsl", XSL)]
        self.top_excl = [lookup(self.top_scope, "" if p == "#default" else p) for p in sh.get("excl", [])]
        self.alias = {}
        for sp, rp in sh.get("alias", []):
            self.alias[lookup(self.top_scope, "" if sp == "#default" else sp) or ""] = \
                lookup(self.top_scope, "" if rp == "#default" else rp) or ""

    def avt(self, text):
        self.params.append(text)
        return "{$P%d}" % (len(self.params) - 1)

    # --- stylesheet text ---
    def node_text(self, n):
        k = n["k"]
        if k == "text":
            return "t"
        if k == "lre":
            s = "<" + n["name"] + nsattrs(n["ns"])
            for q, v in n["attrs"]:
                s += ' %s="u%d"' % (q, v)
            if n.get("excl"):
                s += ' xsl:exclude-result-prefixes="%s"' % " ".join(n["excl"])
            if n.get("uas"):
                s += ' xsl:use-attribute-sets="%s"' % " ".join(n["uas"])
            return s + ">" + "".join(self.node_text(c) for c in n["kids"]) + "</" + n["name"] + ">"
        if k in ("elem", "attr"):
            nm = self.avt(n["name"]) if n.get("avt") else n["name"]
            s = "<xsl:%s name=\"%s\"" % ("element" if k == "elem" else "attribute", nm)
            if n["nsattr"] is not None:
                s += ' namespace="%s"' % (self.avt(n["nsattr"]) if n.get("avt") and n["nsattr"] else n["nsattr"])
            s += nsattrs(n["ns"])
            if n.get("uas"):
                s += ' use-attribute-sets="%s"' % " ".join(n["uas"])
            if k == "attr":
                return s + ">u%d</xsl:attribute>" % n["val"]
            return s + ">" + "".join(self.node_text(c) for c in n["kids"]) + "</xsl:element>"
        if k == "copy":
            return "<xsl:for-each select=\"%s\"><xsl:copy>%s</xsl:copy></xsl:for-each>" % (
                n["select"], "".join(self.node_text(c) for c in n["kids"]))
        if k == "copyof":
            return "<xsl:copy-of select=\"%s\"/>" % n["select"]
        raise ValueError(k)

    def text(self):
        body = "".join(self.node_text(n) for n in self.sh["body"])
        sets = ""
        for name in self.sh.get("asets", {}):
            st = self.aset(name)
            sets += '<xsl:attribute-set name="%s"%s>%s</xsl:attribute-set>' % (
                name, (' use-attribute-sets="%s"' % " ".join(st["uas"])) if st["uas"] else "",
                "".join(self.node_text(a) for a in st["attrs"]))
        top = "".join('<xsl:param name="P%d" select="\'%s\'"/>' % (i, p) for i, p in enumerate(self.params))
        for sp, rp in self.sh.get("alias", []):
            top += '<xsl:namespace-alias stylesheet-prefix="%s" result-prefix="%s"/>' % (sp, rp)
        top += sets
        ex = (' exclude-result-prefixes="%s"' % " ".join(self.sh["excl"])) if self.sh.get("excl") else ""
        return '<xsl:stylesheet version="1.0" xmlns:xsl="%s"%s%s>%s<xsl:template match="/">%s</xsl:template></xsl:stylesheet>' % (
            XSL, nsattrs(self.sh["ns"]), ex, top, body)

    # --- attribute sets: {"uas": [names], "attrs": [attr nodes]} (a bare list = no nested sets) ---
    def aset(self, name):
        st = self.sh["asets"][name]
        return {"uas": [], "attrs": st} if isinstance(st, list) else st

    def set_attrs(self, names, depth=0):
        """the xsl:attribute instructions in the order they are instantiated: for each named set first the
        sets it uses itself, then its own attributes"""
        out = []
        for name in names:
            st = self.aset(name)
            if depth < 4:
                out += self.set_attrs(st["uas"], depth + 1)
            out += st["attrs"]
        return out

    # --- model program ---
    def ouri(self, u):
        return "-" if u is None else str(uri_num(u))

    def emit_ops(self, n, scope, excl, inset=False):
        N = self.names
        k = n["k"]
        if k == "text":
            self.ops.append("T")
            return
        sc = list(n.get("ns", [])) + scope
        if k == "attr":
            p, _ = split(n["name"])
            self.ops.append("%s|%s|%s|%s|%d" % ("SA" if inset else "A", N.qname(n["name"]), self.ouri(n["nsattr"]),
                                               self.ouri(lookup(sc, p) if p and p != "xml" else None), n["val"]))
            return
        if k == "elem":
            p, _ = split(n["name"])
            self.ops.append("M|%s|%s|%s|%s|%s" % (N.qname(n["name"]), self.ouri(n["nsattr"]),
                                                  self.ouri(lookup(sc, p) if p and p != "xml" else None),
                                                  self.ouri(lookup(sc, "")), uri_num(lookup(scope, "") or "")))
            ex2 = excl
            # use-attribute-sets: the sets' xsl:attribute instructions run before the children
            for a in self.set_attrs(n.get("uas", [])):
                self.emit_ops(a, self.top_scope, [], inset=True)
        else:
            ex2 = excl + [lookup(sc, "" if p == "#default" else p) for p in n.get("excl", [])]
            ins = "+".join("%s=%d" % (N.pfx(p), uri_num(u)) for p, u in sc) or "_"
            ats = "+".join("%s=%d" % (N.qname(q), v) for q, v in n["attrs"]) or "_"
            head = "%s|%s|%s|%s" % (N.qname(n["name"]), ins, "+".join(str(uri_num(u)) for u in ex2 if u is not None) or "_", ats)
            if n.get("uas"):
                # declarations, then the attribute sets, then the literal attributes
                self.ops.append("LO|" + head)
                for a in self.set_attrs(n["uas"]):
                    self.emit_ops(a, self.top_scope, [], inset=True)
                self.ops.append("LA|%s|%s" % (ins, ats))
            else:
                self.ops.append("L|" + head)
        for c in n["kids"]:
            self.emit_ops(c, sc, ex2)
        self.ops.append("E")

    def program(self):
        self.ops = []
        for n in self.sh["body"]:
            self.emit_ops(n, self.top_scope, self.top_excl)
        return ";".join(self.ops)

    # --- intended result (oracle side; XSLT 1.0 7.1.1 - 7.1.3) ---
    def intended(self, n, scope, excl, out, cur):
        """appends to out; cur = the intended element under construction (dict) or None; returns nothing.
        element: {"name": (uri, local), "attrs": {(uri,local): "vN"}, "kids": [...], "excl": set(uri), "lre": bool}"""
        k = n["k"]
        if k == "text":
            if out and isinstance(out[-1], str):
                out[-1] += "t"
            else:
                out.append("t")
            return
        sc = list(n.get("ns", [])) + scope
        if k == "attr":
            p, l = split(n["name"])
            if n["nsattr"] is not None:
                u = n["nsattr"]
            elif p:
                u = lookup(sc, p)
            else:
                u = ""
            if n["name"] == "xmlns" and n["nsattr"] is None:
                return                       # creating an attribute called xmlns is an error; dropping it is a legal recovery
            if cur is not None and cur["open"]:
                cur["attrs"][(u, l)] = "u%d" % n["val"]
            return
        if k == "elem":
            p, l = split(n["name"])
            if n["nsattr"] is not None:
                u = n["nsattr"]
            else:
                u = lookup(sc, p) or ""
            e = {"name": (u, l), "attrs": {}, "kids": [], "excl": set(), "lre": False, "open": True}
            ex2 = excl
            for a in self.set_attrs(n.get("uas", [])):
                self.intended(a, self.top_scope, [], None, e)
        else:
            p, l = split(n["name"])
            u = lookup(sc, p) or ""
            u = self.alias.get(u, u)
            ex2 = excl + [lookup(sc, "" if x == "#default" else x) for x in n.get("excl", [])]
            e = {"name": (u, l), "attrs": {}, "kids": [], "excl": set(x for x in ex2 if x), "lre": True, "open": True}
            for q, v in n["attrs"]:
                ap, al = split(q)
                au = lookup(sc, ap) if ap else ""
                if ap:
                    au = self.alias.get(au, au)
                e["attrs"][(au, al)] = "u%d" % v
            if n.get("uas"):
                for a in self.set_attrs(n["uas"]):
                    self.intended(a, self.top_scope, [], None, e)
                # literal attributes win over attribute sets
                for q, v in n["attrs"]:
                    ap, al = split(q)
                    au = lookup(sc, ap) if ap else ""
                    e["attrs"][(self.alias.get(au, au) if ap else au, al)] = "u%d" % v
        out.append(e)
        for c in n["kids"]:
            before = len(e["kids"])
            self.intended(c, sc, ex2, e["kids"], e)
            if len(e["kids"]) != before:
                e["open"] = False

    def intended_tree(self):
        out = []
        for n in self.sh["body"]:
            self.intended(n, self.top_scope, self.top_excl, out, None)
        return out


# ---------------------------------------------------------------------------------------------
# rendering the model's events as the serializer would write them

def render(events, names):
    s = []
    open_names = []
    i = 0
    while i < len(events):
        e = events[i]
        if e == "T":
            s.append("t")
        elif e == "E":
            s.append("</%s>" % open_names.pop())
        else:
            _, q, _req, attrs = e.split("|")
            name = names.qtext(q)
            t = "<" + name
            if attrs != "_":
                for a in attrs.split("&"):
                    an, av, _ = a.split("=")
                    p, l = an.split(",")
                    isdecl = (p == "-" and l == "x") or p == "x"
                    t += ' %s="%s"' % (names.qtext(an), uri_text(int(av)))
            if i + 1 < len(events) and events[i + 1] == "E":
                s.append(t + "/>")
                i += 1
            else:
                s.append(t + ">")
                open_names.append(name)
        i += 1
    return "".join(s)


def model_requested(events):
    """ghost expanded names carried by the model's events: [(elem req, [attr req...])] in document order"""
    out = []
    for e in events:
        if e.startswith("S|"):
            _, q, req, attrs = e.split("|")
            out.append(req)
    return out


# ---------------------------------------------------------------------------------------------
# oracle: namespace-aware parse of the library's output (expat), comparison with the intended tree

def parse_ns(xml_bytes):
    """returns (tree, error). tree: list of elements {"name":(uri,local),"attrs":{(uri,local):v},"decls":[(pfx,uri)],"kids":[...]} / "t" """
    p = xml.parsers.expat.ParserCreate(namespace_separator="\x01")
    p.ordered_attributes = True
    root = {"kids": []}
    stack = [root]
    pending_decls = []

    def en(name):
        if "\x01" in name:
            u, l = name.split("\x01")[:2]
            return (u, l)
        return ("", name)

    def start(name, attrs):
        e = {"name": en(name), "attrs": {}, "decls": list(pending_decls), "kids": []}
        del pending_decls[:]
        for i in range(0, len(attrs), 2):
            e["attrs"][en(attrs[i])] = attrs[i + 1]
        stack[-1]["kids"].append(e)
        stack.append(e)

    def end(name):
        stack.pop()

    def chars(data):
        if stack[-1]["kids"] and isinstance(stack[-1]["kids"][-1], str):
            stack[-1]["kids"][-1] += data
        else:
            stack[-1]["kids"].append(data)

    def nsdecl(prefix, uri):
        pending_decls.append((prefix or "", uri or ""))

    p.StartElementHandler = start
    p.EndElementHandler = end
    p.CharacterDataHandler = chars
    p.StartNamespaceDeclHandler = nsdecl
    try:
        p.Parse(xml_bytes, True)
    except xml.parsers.expat.ExpatError as ex:
        return None, str(ex)
    return root["kids"][0]["kids"], None


RESERVED = re.compile(rb'xmlns:xmlns=|xmlns:xml=|xmlns:[A-Za-z0-9_.-]+=""')


def compare_trees(want, got, path, alias_sources):
    """returns list of problems"""
    probs = []
    w2 = [w for w in want]
    g2 = [g for g in got]
    if len(w2) != len(g2) or any(isinstance(a, str) != isinstance(b, str) for a, b in zip(w2, g2)):
        return ["%s: child list differs: intended %s, result %s" % (
            path, ["t" if isinstance(a, str) else a["name"] for a in w2], ["t" if isinstance(b, str) else b["name"] for b in g2])]
    for i, (w, g) in enumerate(zip(w2, g2)):
        if isinstance(w, str):
            continue
        here = "%s/%s[%d]" % (path, w["name"][1], i)
        if tuple(w["name"]) != tuple(g["name"]):
            probs.append("%s: element is {%s}%s, the instruction asked for {%s}%s" % (here, g["name"][0], g["name"][1], w["name"][0], w["name"][1]))
        if w["attrs"] != g["attrs"]:
            probs.append("%s: attributes are %s, the instructions asked for %s" % (
                here, sorted(g["attrs"].items(), key=str), sorted(w["attrs"].items(), key=str)))
        used = set([g["name"][0]] + [a[0] for a in g["attrs"]])
        for pf, u in g["decls"]:
            if w["lre"] and u in w["excl"] and u not in used:
                probs.append("%s: declares excluded namespace %s (prefix %r) although nothing on the element needs it" % (here, u, pf))
            if u in alias_sources:
                probs.append("%s: declares the stylesheet side %s of a namespace-alias" % (here, u))
        probs += compare_trees(w["kids"], g["kids"], here, alias_sources)
    return probs


def oracle(sheet, out_bytes):
    """returns list of problem strings (empty = fine)"""
    body = re.sub(rb'^<\?xml[^>]*\?>', b'', out_bytes)
    m = RESERVED.search(body)
    probs = []
    if m:
        probs.append("illegal namespace declaration %r" % m.group(0).decode())
    tree, err = parse_ns(b"<W>" + body + b"</W>")
    if err:
        return probs + ["namespace-aware parse of the result fails: %s" % err]
    want = sheet.intended_tree()
    srcs = set(k for k in sheet.alias if k)
    return probs + compare_trees(want, tree, "", srcs)


# ---------------------------------------------------------------------------------------------
# generators (every choice from ctx.rng)

PREFIXES = ["p", "q", "r", GENPFX + "0", GENPFX + "2", "w"]   # not ns1: "ns1" is a proper prefix of an invented ns1N (loose comparison in ElemAttribute)
LOCALS = ["a", "b", "c", "e", "f"]
UPOOL = ["u4", "u5", "u6", "u7"]


class TreeGen:
    def __init__(self, r, style):
        self.r = r
        self.style = style        # "plain" | "weird" | "late"
        self.budget = r.choice([3, 5, 8, 12])
        # "xml" and "xmlq" never in one sheet: ElemAttribute compares only the first n characters of the found prefix
        self.weird_pool = r.choice([["xml", "xmlns"], ["xmlns", "xmlq"]])
        self.setnames = []            # names of the attribute sets of this sheet
        self.rebound = False          # an excluded prefix was re-bound inside the scope of the exclusion

    def pfx(self):
        r = self.r
        if self.style == "weird" and r.random() < 0.12:
            return r.choice(self.weird_pool)
        return r.choice(PREFIXES)

    def uri(self):
        return self.r.choice(UPOOL)

    def decls(self, maxn=2, allow_default=True, frozen=()):
        """frozen: prefixes whose in-scope binding is excluded by an enclosing exclude-result-prefixes;
        re-binding them is the class of finding KN7 (the excluded binding shadows the inner one)"""
        r = self.r
        out = []
        for _ in range(r.choice([0, 0, 1, 1, 2][:maxn + 3])):
            p = r.choice(PREFIXES + ([""] if allow_default else []))
            if p in [x for x, _ in out] or (p in frozen and (not KN7_FIXED or self.style == "weird")):
                continue
            if p in frozen:
                self.rebound = True      # class of KN11 (and of KN7 before its repair)
            u = self.uri()
            if p == "" and r.random() < 0.25:
                u = ""
            out.append((p, u))
        return out

    def attr(self, scope, frozen=()):
        r = self.r
        ns = self.decls(1, False, frozen) if r.random() < 0.3 else []
        sc = ns + scope
        c = r.random()
        l = r.choice(LOCALS[:3])
        if c < 0.25:
            name, nsattr = l, None
        elif c < 0.5:
            # prefixed, namespace from the stylesheet
            cands = [p for p, u in sc if p and u and p != "xsl"]
            if not cands:
                p = r.choice([x for x in PREFIXES if x not in frozen])
                ns.append((p, self.uri()))
                cands = [p]
            name, nsattr = r.choice(cands) + ":" + l, None
        elif c < 0.75:
            name, nsattr = l, self.uri()
        else:
            name, nsattr = self.pfx() + ":" + l, (self.uri() if r.random() < 0.9 else "")
        if self.style == "weird" and r.random() < 0.05:
            name = r.choice(["xmlns", "xml:lang" if "xml" in self.weird_pool else "xmlq", "xmlns:" + l])
        if self.style == "weird" and "xml" in self.weird_pool and r.random() < 0.06:
            # the generic re-creation idiom name="{name()}" namespace="{namespace-uri()}" applied to xml:lang / xml:space:
            # the reserved prefix asked for together with ITS namespace
            name, nsattr = r.choice(["xml:lang", "xml:space", "xml:" + l]), XMLNS
        return {"k": "attr", "name": name, "nsattr": nsattr, "ns": ns, "avt": r.random() < 0.3, "val": r.randrange(4, 13)}

    def node(self, scope, depth, frozen=frozenset(), exuris=frozenset()):
        r = self.r
        self.budget -= 1
        c = r.random()
        l = r.choice(LOCALS)
        if c < 0.5:
            ns = self.decls(frozen=frozen)
            sc = ns + scope
            if r.random() < 0.5:
                cands = [p for p, u in sc if p and u and p != "xsl"]
                if not cands:
                    p = r.choice([x for x in PREFIXES if x not in frozen])
                    ns.append((p, self.uri()))
                    sc = ns + scope
                    cands = [p]
                name = r.choice(cands) + ":" + l
            else:
                name = l
            attrs = []
            for _ in range(r.choice([0, 0, 1, 2])):
                cands = [p for p, u in sc if p and u and p != "xsl"]
                an = (r.choice(cands) + ":" if cands and r.random() < 0.6 else "") + r.choice(LOCALS[:3])
                if an not in [a for a, _ in attrs]:
                    attrs.append((an, r.randrange(4, 13)))
            excl = []
            if r.random() < 0.25:
                cands = [p for p, u in sc if p != "xsl" and (p or u)]
                if cands:
                    excl = [(x or "#default") for x in r.sample(cands, min(len(cands), r.choice([1, 1, 2])))]
            n = {"k": "lre", "name": name, "ns": ns, "attrs": attrs, "excl": excl, "kids": []}
            exuris = exuris | set(lookup(sc, "" if x == "#default" else x) for x in excl)
        else:
            ns = self.decls(1, frozen=frozen)
            sc = ns + scope
            cc = r.random()
            if cc < 0.2:
                name, nsattr = l, None
            elif cc < 0.4:
                cands = [p for p, u in sc if p and u and p != "xsl"]
                if not cands:
                    p = r.choice([x for x in PREFIXES if x not in frozen])
                    ns.append((p, self.uri()))
                    sc = ns + scope
                    cands = [p]
                name, nsattr = r.choice(cands) + ":" + l, None
            elif cc < 0.65:
                name, nsattr = l, (self.uri() if r.random() < 0.75 else "")
            else:
                name, nsattr = self.pfx() + ":" + l, (self.uri() if r.random() < 0.93 or self.style != "weird" else "")
            n = {"k": "elem", "name": name, "nsattr": nsattr, "ns": ns, "avt": r.random() < 0.3, "kids": []}
        frozen = frozenset(frozen) | set(p for p, u in sc if u in exuris)
        if self.setnames and r.random() < 0.35:
            n["uas"] = r.sample(self.setnames, r.choice([1, 1, min(2, len(self.setnames))]))
        # children: attributes first, then content
        for _ in range(r.choice([0, 1, 1, 2, 3, 4])):
            n["kids"].append(self.attr(sc, frozen))
        while self.budget > 0 and depth < 4 and r.random() < 0.6:
            if r.random() < 0.2:
                n["kids"].append({"k": "text"})
                if self.style == "late" and r.random() < 0.5:
                    n["kids"].append(self.attr(sc, frozen))
            else:
                n["kids"].append(self.node(sc, depth + 1, frozen, exuris))
                if self.style == "late" and r.random() < 0.3:
                    n["kids"].append(self.attr(sc, frozen))
        return n

    def sheet(self):
        r = self.r
        ns = []
        for _ in range(r.choice([0, 1, 2, 3])):
            p = r.choice(PREFIXES + [""])
            if p not in [x for x, _ in ns]:
                ns.append((p, self.uri()))
        excl = []
        if ns and r.random() < 0.3:
            excl = [(x or "#default") for x, _ in r.sample(ns, r.choice([1, len(ns)]))]
        top = ns + [("xsl", XSL)]
        exuris = frozenset(lookup(top, "" if x == "#default" else x) for x in excl)
        frozen = frozenset(p for p, u in top if u in exuris)
        asets = {}
        if self.style != "late" and r.random() < 0.4:
            for i in range(r.choice([1, 2, 3])):
                name = "s%d" % i
                asets[name] = {"uas": ([r.choice(list(asets))] if asets and r.random() < 0.4 else []),
                               "attrs": [self.attr(top, frozen) for _ in range(r.choice([1, 1, 2]))]}
            self.setnames = list(asets)
        body = [self.node(top, 0, frozen, exuris)]
        if r.random() < 0.2:
            self.budget = max(self.budget, 2)
            body.append(self.node(top, 0, frozen, exuris))
        sh = {"ns": ns, "excl": excl, "body": body}
        if asets:
            sh["asets"] = asets
        if self.rebound:
            sh["kn11"] = True
        return sh


def gen_aset_shape(r):
    """ORDER-dependent shapes: an element declares (or inherits) prefix p for URI1 without using it in its own
    name, an attribute set used by it contains xsl:attribute name="p:z" namespace="URI2", and p is used only by
    what comes later (literal attributes, child xsl:attribute, descendants).  Modelled (LO ... LA / M ...)."""
    u1, u2, u3 = r.sample(UPOOL, 3)
    p = r.choice(["p", "q", GENPFX + "0"])
    A = lambda name, nsattr, ns=(): {"k": "attr", "name": name, "nsattr": nsattr, "ns": list(ns), "avt": r.random() < 0.3,
                                     "val": r.randrange(4, 13)}
    inner = {"uas": [], "attrs": [A(r.choice(["q:y", "y", p + ":y"]), r.choice([u3, u2, u1]))]}
    sets = {"s1": {"uas": [], "attrs": [A(p + ":z", r.choice([u2, u2, u1]))] + ([A(p + ":w", u3)] if r.random() < 0.3 else [])}}
    if r.random() < 0.4:
        sets["s0"] = inner
        sets["s1"]["uas"] = ["s0"]
    if r.random() < 0.3:
        sets["s2"] = {"uas": [], "attrs": [A("z", u2), A(p + ":z", None, [(p, r.choice([u1, u2]))])]}
    uas = ["s1"] + (["s2"] if "s2" in sets and r.random() < 0.7 else [])
    where = r.choice(["self", "self", "parent", "sheet"])          # where p -> URI1 is declared
    later = [(p + ":a", r.randrange(4, 13))] + ([("b", r.randrange(4, 13))] if r.random() < 0.4 else [])
    kids = []
    if r.random() < 0.4:
        kids.append(A(p + ":c", None))
    if r.random() < 0.4:
        kids.append({"k": "lre", "name": p + ":d", "ns": [], "attrs": [], "excl": [], "kids": []})
    kind = r.choice(["lre", "lre", "lre", "elem"])
    if kind == "lre":
        e = {"k": "lre", "name": r.choice(["e", "r:e"]), "ns": [("r", u3)] + ([(p, u1)] if where == "self" else []),
             "attrs": later, "excl": [], "uas": uas, "kids": kids}
    else:
        e = {"k": "elem", "name": r.choice(["e", "r:e"]), "nsattr": r.choice([None, u3]),
             "ns": [("r", u3)] + ([(p, u1)] if where == "self" else []), "avt": False, "uas": uas,
             "kids": [A(p + ":a", None)] + kids}
    body = [e]
    if where == "parent":
        body = [{"k": "lre", "name": "o", "ns": [(p, u1)], "attrs": [], "excl": [], "kids": [e]}]
    return {"ns": [(p, u1)] if where == "sheet" else [], "excl": [], "asets": sets, "body": body}


def gen_oracle_only(r):
    """namespace-alias, xsl:copy, xsl:copy-of, attribute sets: no Coq model, oracle only"""
    kind = r.choice(["alias", "alias", "copy", "copyof", "aset"])
    u1, u2, u3 = r.sample(UPOOL, 3)
    l = r.choice(LOCALS)
    if kind == "alias":
        sp = r.choice(["p", "#default"])
        ns = [("p", u1), ("r", u2)] if sp == "p" else [("", u1), ("r", u2)]
        nm = "p:" + l if sp == "p" else l
        attrs = [("p:a", 4)] if sp == "p" and r.random() < 0.5 else []
        kid = {"k": "lre", "name": r.choice([nm, "r:" + l, nm]), "ns": [], "attrs": [], "excl": [], "kids": []}
        body = [{"k": "lre", "name": nm, "ns": [], "attrs": attrs, "excl": r.choice([[], ["r"]]), "kids": [kid]}]
        return {"ns": ns, "excl": [], "alias": [(sp, "r")], "body": body}, None
    if kind == "aset":
        aset = [{"k": "attr", "name": "a", "nsattr": u1, "ns": [], "avt": False, "val": 4},
                {"k": "attr", "name": r.choice(["b", "q:b"]), "nsattr": r.choice([u1, u2]), "ns": [], "avt": False, "val": 5}]
        body = [{"k": "lre", "name": r.choice(["e", "q:e"]), "ns": [("q", u3)], "attrs": [("c", 6)], "excl": [], "uas": ["s1"], "kids": []}]
        return {"ns": [("q", u3)], "excl": [], "asets": {"s1": aset}, "body": body}, None
    # copy / copy-of of source elements carrying their own namespace nodes
    src = '<d xmlns="%s" xmlns:p="%s"><p:x a="v1" p:b="v2" xmlns:q="%s"><y xmlns=""/></p:x></d>' % (u1, u2, u3)
    if kind == "copyof":
        wrap = {"k": "lre", "name": r.choice(["o", "p:o"]), "ns": [("p", r.choice([u2, u3]))], "attrs": [], "excl": [],
                "kids": [{"k": "copyof", "select": "/*/*"}]}
        want = [{"name": ((u2 if False else wrap["ns"][0][1]) if wrap["name"].startswith("p:") else "", "o"), "attrs": {}, "lre": False, "excl": set(),
                 "kids": [{"name": (u2, "x"), "attrs": {("", "a"): "v1", (u2, "b"): "v2"}, "lre": False, "excl": set(),
                           "kids": [{"name": ("", "y"), "attrs": {}, "kids": [], "lre": False, "excl": set()}]}]}]
    else:
        wrap = {"k": "lre", "name": "o", "ns": [], "attrs": [], "excl": [],
                "kids": [{"k": "copy", "select": "/*/*", "kids": [{"k": "attr", "name": "c", "nsattr": u3, "ns": [], "avt": False, "val": 6}]}]}
        want = [{"name": ("", "o"), "attrs": {}, "lre": False, "excl": set(),
                 "kids": [{"name": (u2, "x"), "attrs": {(u3, "c"): "u6"}, "kids": [], "lre": False, "excl": set()}]}]
    return {"ns": [], "excl": [], "body": [wrap], "source": src}, want


# ---------------------------------------------------------------------------------------------
# xsl:copy / xsl:copy-of of nodes of a SOURCE document whose namespaces are re-bound at several depths
# (oracle only; expected expanded names are read off the source by the same expat reader)

SRC_URIS = ["u4", "u5", "u6", "u7"]


def gen_source(r):
    """returns (xml text, number of elements). Element local names e0, e1, ... are unique."""
    cnt = [0]

    def el(scope, depth):
        sc = dict(scope)
        decls = []
        for p in r.sample(["p", "q", ""], r.choice([0, 1, 1, 2, 3])):
            u = r.choice(SRC_URIS)
            if p == "" and r.random() < 0.3:
                u = ""                                   # xmlns="" (undeclaration, or a no-op at the top)
            decls.append((p, u))
            sc[p] = u
        cands = [p for p in ("p", "q") if sc.get(p)]
        pref = r.choice(cands) if cands and r.random() < 0.5 else ""
        name = (pref + ":" if pref else "") + "e%d" % cnt[0]
        cnt[0] += 1
        attrs, seen = [], set()
        if r.random() < 0.6:
            attrs.append(("a", "u%d" % r.randrange(4, 13)))
        for p in cands:
            if r.random() < 0.5 and sc[p] not in seen:
                seen.add(sc[p])
                attrs.append((p + ":b", "u%d" % r.randrange(4, 13)))
        body = ""
        nk = 0 if depth >= 4 else r.choice([0, 1, 1, 2] if depth else [1, 2])
        for _ in range(nk):
            if r.random() < 0.2:
                body += "t"
            body += el(sc, depth + 1)
        if r.random() < 0.2:
            body += "t"
        return "<%s%s%s>%s</%s>" % (name, nsattrs(decls), "".join(' %s="%s"' % a for a in attrs), body, name)

    return el({}, 0), cnt[0]


def want_of(e, deep=True):
    return {"name": e["name"], "attrs": dict(e["attrs"]), "lre": False, "excl": set(),
            "kids": [k if isinstance(k, str) else want_of(k) for k in e["kids"]] if deep else []}


def find_local(tree, local):
    for e in tree:
        if isinstance(e, str):
            continue
        if e["name"][1] == local:
            return e
        f = find_local(e["kids"], local)
        if f is not None:
            return f
    return None


def src_prefixes(src, k):
    """{(uri, local): prefix} of the prefixed attributes on element e<k> of the generated source text"""
    m = re.search(r"<(?:[a-z]+:)?e%d\b([^>]*)>" % k, src)
    out = {}
    scope = {}
    # prefixes in scope at e<k>: replay the declarations of the ancestors-or-self textually
    pos = m.start()
    stack, depth_decls = [], []
    for t in re.finditer(r"<(/?)((?:[a-z]+:)?e\d+)([^>]*)>", src[:m.end()]):
        if t.group(1):
            stack.pop()
        else:
            stack.append(dict(re.findall(r'xmlns:([a-z]+)="([^"]*)"', t.group(3))))
    for d in stack:
        scope.update(d)
    for pfx, l in re.findall(r'\b([a-z]+):([a-z]+)="', re.sub(r'xmlns:[a-z]+="[^"]*"', "", m.group(1))):
        out[(scope.get(pfx), l)] = pfx
    return out


def gen_copy_case(r, cid):
    src, n = gen_source(r)
    tree, err = parse_ns(("<W>" + src + "</W>").encode())
    assert err is None, (err, src)
    k = r.randrange(n) if r.random() < 0.3 else r.randrange(n // 2, n)      # mostly inner elements
    target = find_local(tree, "e%d" % k)
    sel = "//*[local-name()='e%d']" % k
    # the result context: nothing, the same prefixes bound identically or differently, a default namespace
    w = r.choice(["plain", "p", "p", "default", "pname", "both"])
    wns, wname = [], "o"
    if w in ("p", "pname", "both"):
        wns.append(("p", r.choice(SRC_URIS)))
    if w in ("default", "both"):
        wns.append(("", r.choice(SRC_URIS)))
    if w == "both" and r.random() < 0.5:
        wns.append(("q", r.choice(SRC_URIS)))
    if w == "pname":
        wname = "p:o"
    wuri = dict(wns).get("p" if w == "pname" else "", "")
    wrap = {"name": (wuri, "o"), "attrs": {}, "lre": False, "excl": set(), "kids": []}
    mode = r.choice(["copyof", "copyof", "identity", "identity", "shallow", "attrs"])
    top = ""
    force = None
    if mode == "copyof":
        inner = '<xsl:copy-of select="%s"/>' % sel
        wrap["kids"] = [want_of(target)]
    elif mode == "identity":
        inner = '<xsl:apply-templates select="%s" mode="i"/>' % sel
        top = '<xsl:template match="@*|node()" mode="i"><xsl:copy><xsl:apply-templates select="@*|node()" mode="i"/></xsl:copy></xsl:template>'
        wrap["kids"] = [want_of(target)]
    elif mode == "shallow":
        u = r.choice(SRC_URIS)
        if r.random() < 0.5:
            a = '<xsl:attribute name="c" namespace="%s">u9</xsl:attribute>' % u
        else:
            a = '<xsl:attribute name="%s:c" xmlns:%s="%s">u9</xsl:attribute>' % ((r.choice(["p", "q", "r"]),) * 2 + (u,))
        e = want_of(target, deep=False)
        if r.random() < 0.5:
            # xsl:copy with use-attribute-sets: the set runs first (the copied element's namespace nodes are
            # pending declarations then), then the source attributes are copied, then the xsl:attribute
            u2, pz = r.choice(SRC_URIS), r.choice(["p", "q"])
            top += '<xsl:attribute-set name="cs"><xsl:attribute name="%s:z" namespace="%s">u8</xsl:attribute></xsl:attribute-set>' % (pz, u2)
            inner = '<xsl:for-each select="%s"><xsl:copy use-attribute-sets="cs"><xsl:copy-of select="@*"/>%s</xsl:copy></xsl:for-each>' % (sel, a)
            e["attrs"] = dict(target["attrs"])
            e["attrs"][(u2, "z")] = "u8"
            e["attrs"][(u, "c")] = "u9"
            mode = "shallow+set"
        else:
            inner = '<xsl:for-each select="%s"><xsl:copy>%s</xsl:copy></xsl:for-each>' % (sel, a)
            e["attrs"] = {(u, "c"): "u9"}
        wrap["kids"] = [e]
    else:
        inner = '<xsl:copy-of select="%s/@*"/>' % sel
        wrap["attrs"] = dict(target["attrs"])
        # repaired finding KN9 (a copied attribute node kept its prefix and nothing declared it in the new parent);
        # class: some attribute has a namespace that the result element does not bind to the SAME prefix
        srcp = src_prefixes(src, k)
        if any(u and dict(wns).get(srcp.get((u, l))) != u for (u, l) in target["attrs"]):
            force = KN9_KEY
    sheet = '<xsl:stylesheet version="1.0" xmlns:xsl="%s">%s<xsl:template match="/"><%s%s>%s</%s></xsl:template></xsl:stylesheet>' % (
        XSL, top, wname, nsattrs(wns), inner, wname)
    c = {"id": cid, "sheet": sheet, "source": src, "cls": "copy:" + mode, "want": [wrap], "sheet_obj": None}
    if force:
        c["force_known"] = force
    return c



def fixed_copy_cases():
    """stored copy / copy-of replays with their own source documents (corpus/C14/kn9_copied_attribute.xsl,
    seeded/C14_a): (id, source, body of the template, wanted tree, known key or None)"""
    W = lambda name, attrs=None, kids=(): {"name": name, "attrs": dict(attrs or {}), "lre": False, "excl": set(), "kids": list(kids)}
    src_a = '<a xmlns:p="urn:outer" xmlns="urn:d-outer"><b xmlns:p="urn:inner" xmlns="urn:d-inner"><p:c><d/></p:c></b></a>'
    pc = W(("urn:inner", "c"), kids=[W(("urn:d-inner", "d"))])
    return [
        ("c_kn9_copied_attribute", '<e0 xmlns:p="u4"><e2 p:b="u5"/></e0>',
         '<o><xsl:copy-of select="//*[local-name()=\'e2\']/@*"/></o>', [W(("", "o"), {("u4", "b"): "u5"})], KN9_KEY),
        ("c_kn9_rebound", '<e0 xmlns:p="u4"><e2 p:b="u5"/></e0>',
         '<o xmlns:p="u7"><xsl:copy-of select="//*[local-name()=\'e2\']/@*"/></o>', [W(("", "o"), {("u4", "b"): "u5"})], KN9_KEY),
        ("c_seed_a_copyof", src_a, '<o><xsl:copy-of select="//*[local-name()=\'c\']"/></o>', [W(("", "o"), kids=[pc])], None),
        ("c_seed_a_copy", src_a,
         '<o><xsl:for-each select="//*[local-name()=\'c\']"><xsl:copy><xsl:for-each select="*"><xsl:copy/></xsl:for-each></xsl:copy></xsl:for-each></o>',
         [W(("", "o"), kids=[pc])], None),
    ]


KN9_KEY = None       # KN9 repaired (fixes/C14/KN9.diff): the class is generated and must pass, the replays are regression cases

# ---------------------------------------------------------------------------------------------
# corpus: replays of the findings (stylesheet bodies; source <doc/>)

def body_sheet(body, attrs=""):
    return '<xsl:stylesheet version="1.0" xmlns:xsl="%s"%s><xsl:template match="/">%s</xsl:template></xsl:stylesheet>' % (XSL, attrs, body)


def corpus_dir():
    return os.path.join(core.VERIF, "corpus", "C14")


def load_corpus():
    """corpus/C14/<key>.xsl : a stylesheet; first line comment '<!-- expect: ... -->' is informative"""
    out = []
    d = corpus_dir()
    if os.path.isdir(d):
        for f in sorted(os.listdir(d)):
            if f.endswith(".xsl"):
                out.append((f[:-4], open(os.path.join(d, f)).read()))
    return out


# corpus entries as trees (so that the model and the oracle see them too): key -> sheet
def corpus_trees():
    A = lambda name, nsattr, val, ns=(): {"k": "attr", "name": name, "nsattr": nsattr, "ns": list(ns), "avt": False, "val": val + 3}
    L = lambda name, ns=(), kids=(), attrs=(): {"k": "lre", "name": name, "ns": list(ns), "attrs": list(attrs), "excl": [], "kids": list(kids)}
    M = lambda name, nsattr, kids=(), ns=(): {"k": "elem", "name": name, "nsattr": nsattr, "ns": list(ns), "avt": False, "kids": list(kids)}
    S = lambda body, ns=(), excl=(): {"ns": list(ns), "excl": list(excl), "body": list(body)}
    return [
        ("k3", None, S([M("a:e", "u4", [A("b:x", None, 1, [("b", "u4")])])])),
        ("k16", None, S([M("xmlns:e", "u9")])),
        ("k17", "K17", S([L("e", kids=[A("a", "u4", 1), A("a", "u5", 2), A("x:a", "u4", 3)])])),
        ("kn1_shadow", None, S([L("p:a", [("p", "u4")], [L("p:b", [("p", "u5")], [A("x", "u4", 1)])])])),
        ("kn2_leak", None, S([L("e", kids=[{"k": "text"}, A("a", "u4", 1), L("f")])])),
        ("kn3_xmlish", None, S([L("e", kids=[A("xmlq:a", None, 1, [("xmlq", "u4")])])])),
        ("kn4_elem_undecl", None, S([M("zz:e", "")])),
        ("kn5_xml_prefix", None, S([L("e", kids=[A("xml:a", "u4", 1)])])),
        ("kn6_elem_empty_ns", "KN6", S([M("p:e", "", ns=[("p", "u4")])])),
        ("kn7_excluded_rebound", "KN7", S([L("e", [("p", "u5")], [A("p:a", None, 3)])], ns=[("p", "u4")], excl=["p"])),
        ("kn8_excl_default", None, S([L("o", kids=[{"k": "lre", "name": "w:b", "ns": [("w", "u5"), ("", "u4")], "attrs": [],
                                                      "excl": ["#default"], "kids": []}])])),
        # (the entries above with key None are the replays of the repaired defects K3, K16, KN1-KN5, KN8:
        #  regression cases, a recurrence is a VIOLATION)
        # order-dependent: attribute sets run between the declarations and the literal attributes
        ("kn10_set_rebinds_prefix", "KN10",
         dict(S([L("o", [("p", "u4")], [dict(L("e", attrs=[("p:a", 7)]), uas=["s"])])]),
              asets={"s": [A("p:z", "u6", 2)]})),
        ("ok_set_declared_prefix", None,          # the shape of seeded/C14_b: p is declared on the element itself
         dict(S([dict(L("e", [("p", "u4")], attrs=[("p:a", 7)]), uas=["s"])]),
              asets={"s": {"uas": ["t"], "attrs": [A("p:z", "u6", 2)]}, "t": [A("q:y", "u7", 1)]})),
        ("ok_set_on_element", None,
         dict(S([dict(M("e", None, [A("p:a", None, 4)], ns=[("p", "u4")]), uas=["s"])]),
              asets={"s": [A("p:z", "u6", 2)]})),
        # probed and fine
        ("ok_rebind", None, S([L("p:a", [("p", "u4")], [L("p:b", [("p", "u5")], [A("q:x", "u6", 1)])])])),
        ("ok_undeclare_default", None, S([L("e", [("", "u4")], [M("f", "")])])),
        ("ok_invent", None, S([L("e", kids=[A("a", "u4", 1), A("a", "u5", 2)])])),
        ("ok_excluded_needed", None, S([L("e", kids=[A("p:a", None, 1)])], ns=[("p", "u4")], excl=["p"])),
        ("ok_same_ns_other_prefix", None, S([M("a:e", "u4", [A("b:x", "u4", 1)])])),
    ]


# ---------------------------------------------------------------------------------------------

def run_model(model, cases):
    lines = ["%s %s" % (c["id"], c["program"]) for c in cases if c.get("program")]
    if not model or not lines:
        return {}
    rc, res, raw = core.run_lines_parallel(model, lines)
    out = {}
    for cid, rest in res.items():
        f = rest.split(" ")
        if f[0] == "error":
            out[cid] = {"error": rest}
            continue
        out[cid] = {"hz": [] if f[0] == "-" else f[0].split("+"), "wf": f[1] == "1", "events": f[2:]}
    return out


def make_case(cid, sh, cls, want=None, modelled=True):
    s = Sheet(sh)
    text = s.text()
    c = {"id": cid, "sheet_obj": s, "sheet": text, "source": sh.get("source", "<doc/>"), "cls": cls, "want": want}
    if modelled:
        c["program"] = s.program()
    return c


def evaluate(ctx, cases, exe, model, known):
    res = xsltrun.run([{"id": c["id"], "sheet": c["sheet"], "source": c["source"]} for c in cases], exe=exe)
    mres = run_model(model, cases)
    corr, orc = [], []
    seen = ctx.notes.setdefault("_seen", set())
    for c in cases:
        ctx.cov["evaluations"] += 1
        ctx.count(c["cls"])
        r = res.get(c["id"])
        m = mres.get(c["id"])
        hz = (m or {}).get("hz", [])
        if r is None or r[0] != "ok":
            what = "transformation failed: %r" % (r,)
            # an erroneous stylesheet class (declaration attributes, illegal names) may be rejected
            if not (set(hz) & HAZARD_SKIP):
                orc.append({"case": c, "what": what, "known": None})
            continue
        outb = r[1]
        body = re.sub(rb'^<\?xml[^>]*\?>', b'', outb).decode("utf-8", "replace")
        # correspondence: the model predicts the serialized result byte for byte
        if c.get("program") and model:
            if m is None or "error" in m:
                corr.append({"id": c["id"], "sheet": c["sheet"], "impl": body, "model": str(m)})
            else:
                ctx.cov["traces_validated_against_impl"] += 1
                pred = render(m["events"], c["sheet_obj"].names)
                if pred != body:
                    corr.append({"id": c["id"], "sheet": c["sheet"], "program": c["program"], "impl": body, "model": pred})
                key = (pred, tuple(hz))
                if key not in seen and len(m["events"]) > 2:
                    seen.add(key)
        # oracle (no model): parse + intended names
        if set(hz) & HAZARD_SKIP:
            continue
        if c["want"] is not None:
            tree, err = parse_ns(b"<W>" + body.encode() + b"</W>")
            probs = ["namespace-aware parse of the result fails: %s" % err] if err else compare_trees(c["want"], tree, "", set())
        else:
            probs = oracle(c["sheet_obj"], outb)
        if m is not None and "error" not in m and c.get("program"):
            # the model's own verdict must agree with the oracle's on hazard-free programs (theorem tie)
            if not hz and not m["wf"]:
                corr.append({"id": c["id"], "sheet": c["sheet"], "impl": body, "model": "guard holds but the model's events are not well-formed (contradicts result_ns_wellformed_partial)"})
        if probs and c.get("kn11"):
            other = [x for x in probs if "declares excluded namespace" not in x]
            if other:
                probs = other
            else:
                c["force_known"] = "KN11"
        if probs:
            keys = sorted(set(HAZARD_KEY[h] for h in hz if h in HAZARD_KEY)) + ([c["force_known"]] if c.get("force_known") else [])
            kn = [k for k in keys if k in known]
            orc.append({"case": c, "what": "; ".join(probs[:3]), "known": kn[0] if kn else None, "out": body})
    ctx.cov["distinct_nontrivial"] = len(seen)
    return corr, orc


def replay_text(o):
    c = o["case"]
    return "# C14 oracle failure: %s\n# result: %s\n# replay: python3 check.py C14 --replay <this file> (the stylesheet below is applied to the source)\n#source: %s\n%s\n" % (
        o["what"], o.get("out", ""), c["source"], c["sheet"])


def run(ctx):
    ctx.assumptions += [
        "strings are abstracted to atoms (xmlns, xml, starts-with-xml, ns<N>, other): the modelled code only compares prefixes/URIs for equality and against these literals; one loose comparison (ElemAttribute: equals(prefix, attrName, n) compares n characters only) is outside the abstraction - generated prefixes are never proper prefixes of each other",
        "the serializer (FormatterToXML) writes the pending element name and attribute list verbatim and in order (C04 is about escaping); checked on every run because the correspondence compares bytes",
        "stylesheet-side facts (in-scope namespaces of each instruction, URIs designated by exclude-result-prefixes) are computed by the generator and given to the model as op arguments; the compile-time NamespacesHandler filtering itself is modelled (lre_decls)",
        "namespace-alias, attribute sets, xsl:copy and xsl:copy-of are outside the Coq model: oracle-only streams",
    ]
    ctx.notes["rule"] = "distinct/non-trivial = distinct (predicted serialized result, hazard set) with at least one element and one further event"
    ok_lib, liblog = core.build_lib("plain")
    if not ok_lib:
        ctx.broken.append("library does not build from the working tree: " + liblog[-500:])
        return ctx.finish(LEVEL)
    proved = ctx.prove(["Properties_C14.v"], ["GenNsfix"])
    model, ok_m, mlog = core.build_model(FAMILY)
    if not ok_m:
        ctx.broken.append("model extraction/build failed: " + mlog[-500:])
        model = None
    exe, ok_h, hlog = xsltrun.build()
    if not ok_h:
        ctx.broken.append("xslt driver does not compile against the working tree: " + hlog[-500:])
        return ctx.finish(LEVEL)
    known = {k["key"]: k for k in ctx.known.for_property("C14")}

    # corpus first
    cases = []
    expect_known = {}
    for name, key, sh in corpus_trees():
        cases.append(make_case("c_" + name, sh, "corpus", modelled=(key != "KN7" or KN7_FIXED)))
        if key:
            expect_known["c_" + name] = key
            if key == "KN7" and not KN7_FIXED:   # class decided syntactically by the generator (never generated), not by a model hazard
                cases[-1]["force_known"] = key
    # stored replays that are plain stylesheets (minimised past failures)
    for name, text in load_corpus():
        if not any(name == n for n, _, _ in corpus_trees()):
            cases.append({"id": "f_" + name, "sheet": text, "source": "<doc/>", "cls": "corpus-file", "want": None,
                          "sheet_obj": None})
    cases = [c for c in cases if c["sheet_obj"] is not None]
    for cid, src, body, want, key in fixed_copy_cases():
        c = {"id": cid, "sheet": body_sheet(body), "source": src, "cls": "corpus", "want": want, "sheet_obj": None}
        if key:
            c["force_known"] = key
            expect_known[cid] = key
        cases.append(c)

    def generate(n, tag):
        out = []
        for i in range(n):
            style = ctx.rng.choice(["plain", "plain", "plain", "weird", "late"])
            sh = TreeGen(ctx.rng, style).sheet()
            if sh.get("kn11"):
                # an excluded prefix is re-bound: the expanded names must be right (KN7 repaired), but which
                # namespaces count as excluded below that point is finding KN11; not compared with the model
                c = make_case("%s%d" % (tag, i), sh, "gen:rebound-excluded", modelled=False)
                c["kn11"] = True
                out.append(c)
            else:
                out.append(make_case("%s%d" % (tag, i), sh, "gen:" + style))
        for i in range(n // 10):
            sh, want = gen_oracle_only(ctx.rng)
            out.append(make_case("%so%d" % (tag, i), sh, "oracle-only", want=want, modelled=False))
        for i in range(n // 5):
            out.append(gen_copy_case(ctx.rng, "%sy%d" % (tag, i)))
        for i in range(n // 6):
            out.append(make_case("%ss%d" % (tag, i), gen_aset_shape(ctx.rng), "gen:aset-shape"))
        return out

    n = 1500 if not ctx.thorough else 12000
    cases += generate(n, "g")
    ctx.cov["samples"] = [c["sheet"] for c in cases[:3] + cases[len(cases) // 2: len(cases) // 2 + 3]]
    corr, orc = evaluate(ctx, cases, exe, model, known)
    new = [o for o in orc if not o["known"]]
    if (corr or not proved or not model) and not new and not ctx.thorough:
        ctx.escalated = True
        c2, o2 = evaluate(ctx, generate(8000, "w"), exe, model, known)
        corr += c2
        orc += o2
        new = [o for o in orc if not o["known"]]
    ctx.notes.pop("_seen", None)
    hits = {}
    for o in orc:
        if o["known"]:
            hits[o["known"]] = hits.get(o["known"], 0) + 1
    for k in sorted(hits):
        ctx.known_finding("%s %s" % (k, known[k]["what"]))
    ctx.notes["known_class_hits"] = hits
    # a stored finding that no longer fails is worth a note (not a verdict)
    failing = set(o["case"]["id"] for o in orc)
    ctx.notes["corpus_findings_still_failing"] = {cid: (cid in failing) for cid in expect_known}
    if corr:
        ctx.broken.append("correspondence nsfix: %d of %d cases differ between model and library, e.g. %s" % (
            len(corr), ctx.cov["traces_validated_against_impl"], {k: v for k, v in corr[0].items()}))
        ctx.notes["correspondence_mismatches"] = corr[:10]
    if new:
        new.sort(key=lambda o: len(o["case"]["sheet"]))
        for o in new[:5]:
            ctx.violation("oracle", replay_text(o))
    ctx.notes["oracle_failures"] = len(new)
    return ctx.finish(LEVEL, explanation="theorems over the Gallina model of the result-namespace fix-up + byte-for-byte correspondence of the extracted model with the rebuilt library on generated constructor stylesheets + independent namespace-aware parse of the library's output against the generator's intended expanded names")


def replay(ctx, path):
    core.build_lib("plain")
    lines = open(path).read().split("\n")
    text = "".join(l for l in lines if not l.startswith("#"))
    src = ([l[len("#source:"):].strip() for l in lines if l.startswith("#source:")] or ["<doc/>"])[0]
    r = xsltrun.run([{"id": "replay", "sheet": text.strip(), "source": src}])["replay"]
    print(r)
    if r[0] == "ok":
        body = re.sub(rb'^<\?xml[^>]*\?>', b'', r[1])
        tree, err = parse_ns(b"<W>" + body + b"</W>")
        print("namespace-aware parse:", err or "ok")
        m = RESERVED.search(body)
        if m:
            print("illegal declaration:", m.group(0))
        return 1 if (err or m) else 0
    return 1
