"""gen_thr — regenerates coq/GenThr.v: the census of *direct* shared-write capabilities in the
library sources of /repo (C07, threads sharing compiled stylesheets / parsed sources).

For every .hpp/.cpp of the library directories (see DIRS) the census lists
  (a) KMutable      every `mutable` data member                        (file, class, member)
  (b) KConstCast    every `const_cast<T>` site                         (file, enclosing function, T, #occurrences)
  (c) KStatic       every non-const static data member / namespace-scope variable, with ALL
                    functions that mention the object (flag w = a direct-write pattern was seen,
                    m = other mention)                                 (file, class-or-"", name, [fn:flag])
  (d) KLocalStatic  every non-const function-local static              (file, function, name)
and the `owners` facts: where the per-transformation state of the lazily built facilities lives
(member name, declaring class), so that moving e.g. the key tables out of the execution context
breaks the tie.

Method: anchored text scan (comments, literals and preprocessor lines blanked; brace structure
-> namespace / class / function scopes).  Sound for *direct, syntactically visible* write
capabilities only: writes through pointers/references obtained elsewhere (aliases), writes by
non-const member functions reached through a non-const pointer stored at construction time, and
anything hidden behind macros are out of reach; ThreadSanitizer sampling (props/C07.py) is the
complement.  Fail closed: unknown top-level source directory, unbalanced braces, an ambiguous
static declaration or a missing owner anchor raise AnchorError.
Identities carry no line numbers, so moving code inside a file does not disturb the audit."""
import os, re
import srcfacts
from srcfacts import AnchorError, HEADER

DIRS = ["DOMSupport", "ICUBridge", "Include", "PlatformSupport", "XMLSupport", "XPath", "XSLT", "XalanDOM",
        "XalanEXSLT", "XalanExtensions", "XalanSourceTree", "XalanTransformer", "XercesParserLiaison"]
# not part of libxalan-c as built (tests, tools, message-catalogue tooling) or not compiled
# (XercesParserLiaison/Deprecated is guarded by XALAN_BUILD_DEPRECATED_DOM_BRIDGE, off by default)
NOT_LIBRARY = ["Harness", "TestXPath", "TestXSLT", "Utils", "XalanExe", "XPathCAPI", "NLS"]
SKIP_SUBDIRS = [os.path.join("XercesParserLiaison", "Deprecated")]

# (facility, member, declaring class, header) — per-transformation state of lazily built facilities
OWNERS = [
    ("keys", "m_keyTables", "StylesheetExecutionContextDefault", "XSLT/StylesheetExecutionContextDefault.hpp"),
    ("counters", "m_countersTable", "StylesheetExecutionContextDefault", "XSLT/StylesheetExecutionContextDefault.hpp"),
    ("variables", "m_variablesStack", "StylesheetExecutionContextDefault", "XSLT/StylesheetExecutionContextDefault.hpp"),
    ("document", "m_sourceDocs", "XPathEnvSupportDefault", "XPath/XPathEnvSupportDefault.hpp"),
    ("sortcollator", "m_collatorCache", "ICUBridgeCollationCompareFunctorImpl", "ICUBridge/ICUBridgeCollationCompareFunctorImpl.hpp"),
    ("formatnumber", "m_decimalFormatCache", "ICUFormatNumberFunctor", "ICUBridge/ICUFormatNumberFunctor.hpp"),
    ("rtf", "m_sourceTreeResultTreeFactory", "StylesheetExecutionContextDefault", "XSLT/StylesheetExecutionContextDefault.hpp"),
    ("nodelistcache", "m_cachedPosition", "XPathExecutionContextDefault", "XPath/XPathExecutionContextDefault.hpp"),
]


# configuration of the library as built by /verif (vlib/core.py: Linux, ICU transcoder/collation,
# in-memory message loader, Xerces-C 3.x); conditional sections are resolved for this configuration
PP_DEFINED = {"XALAN_BUILD_DLL", "XALAN_USE_ICU", "XALAN_INMEM_MSG_LOADER", "__cplusplus", "XALAN_HAVE_STD_ISNAN",
              "XALAN_HAVE_LOCALTIME_R", "XALAN_HAVE_GMTIME_R", "NDEBUG", "_THREAD_SAFE", "APACHE_XALAN_C_VERIF"}
PP_VALUES = {"XERCES_VERSION_MAJOR": 3, "_XERCES_VERSION": 30200, "__cplusplus": 201402}


def pp_eval(rel, expr):
    e = re.sub(r"defined\s*\(\s*(\w+)\s*\)|defined\s+(\w+)",
               lambda m: " 1 " if (m.group(1) or m.group(2)) in PP_DEFINED else " 0 ", expr)
    e = re.sub(r"\b[A-Za-z_]\w*\b", lambda m: str(PP_VALUES.get(m.group(0), 0)), e)
    e = re.sub(r"(\d+)[uUlL]+", r"\1", e)
    e = e.replace("&&", " and ").replace("||", " or ")
    e = re.sub(r"!(?!=)", " not ", e)
    if not re.fullmatch(r"[\s\dxXa-fA-F()<>=!+\-*andort]*", e):
        raise AnchorError("gen_thr: %s: cannot evaluate preprocessor condition %r" % (rel, expr))
    try:
        return bool(eval(e, {"__builtins__": {}}, {}))
    except Exception:
        raise AnchorError("gen_thr: %s: cannot evaluate preprocessor condition %r" % (rel, expr))


def preprocess(rel, text):
    """resolve #if/#ifdef/#ifndef/#elif/#else/#endif for the built configuration; inactive lines
    are blanked (newlines kept); directives themselves are blanked later by blank()"""
    # comments must not hide directives / contain them
    lines = text.split("\n")
    out = []
    stack = []          # [active_parent, taken_already, active_now]
    in_block_comment = False
    for ln in lines:
        probe = ln
        if in_block_comment:
            k = probe.find("*/")
            if k < 0:
                out.append(ln if all(f[2] for f in stack) else "")
                continue
            probe = " " * (k + 2) + probe[k + 2:]
            in_block_comment = False
        probe2 = re.sub(r"/\*.*?\*/", " ", probe)
        probe2 = re.sub(r"//.*$", "", probe2)
        if "/*" in re.sub(r'"(?:[^"\\]|\\.)*"', '""', probe2):
            in_block_comment = True
            probe2 = probe2[:probe2.index("/*")]
        m = re.match(r"\s*#\s*(if|ifdef|ifndef|elif|else|endif)\b(.*)$", probe2)
        active = all(f[2] for f in stack)
        if m:
            d, rest = m.group(1), m.group(2).strip()
            if d in ("if", "ifdef", "ifndef"):
                if d == "ifdef":
                    v = rest.split()[0] in PP_DEFINED if rest else False
                elif d == "ifndef":
                    v = rest.split()[0] not in PP_DEFINED if rest else True
                else:
                    v = pp_eval(rel, rest) if active else False
                stack.append([active, v, active and v])
            elif d == "elif":
                if not stack:
                    raise AnchorError("gen_thr: %s: #elif without #if" % rel)
                f = stack[-1]
                v = (not f[1]) and f[0] and pp_eval(rel, rest)
                f[2] = bool(v)
                f[1] = f[1] or bool(v)
            elif d == "else":
                if not stack:
                    raise AnchorError("gen_thr: %s: #else without #if" % rel)
                f = stack[-1]
                f[2] = f[0] and not f[1]
                f[1] = True
            else:
                if not stack:
                    raise AnchorError("gen_thr: %s: #endif without #if" % rel)
                stack.pop()
            out.append("")
            continue
        out.append(ln if active else "")
    if stack:
        raise AnchorError("gen_thr: %s: unterminated #if" % rel)
    return "\n".join(out)


def blank(text):
    """comments, string/char literals, preprocessor lines -> spaces (newlines kept)"""
    out = []
    i, n = 0, len(text)
    bol = True
    while i < n:
        c = text[i]
        if c == "/" and text[i:i + 2] == "//":
            j = text.find("\n", i)
            j = n if j < 0 else j
            out.append(" " * (j - i)); i = j; continue
        if c == "/" and text[i:i + 2] == "/*":
            j = text.find("*/", i + 2)
            j = n if j < 0 else j + 2
            out.append(re.sub(r"[^\n]", " ", text[i:j])); i = j; continue
        if c == '"' or c == "'":
            j = i + 1
            while j < n and text[j] != c:
                if text[j] == "\\":
                    j += 1
                if j < n and text[j] == "\n":
                    break
                j += 1
            out.append(c + " " * (j - i - 1) + (c if j < n else "")); i = j + 1; bol = False; continue
        if c == "#" and bol:
            j = i
            while True:
                k = text.find("\n", j)
                if k < 0:
                    k = n; break
                if text[k - 1] == "\\":
                    j = k + 1; continue
                break
            out.append(re.sub(r"[^\n]", " ", text[i:k])); i = k; continue
        if c == "\n":
            bol = True
        elif not c.isspace():
            bol = False
        out.append(c); i += 1
    return "".join(out)


QNAME = r"(?:~?\w+(?:\s*<[^<>()]*>)?\s*::\s*)*(?:~?\w+|operator\s*(?:\(\s*\)|\[\s*\]|[^\s\w(]+|\s\w+[\s*&]*))"
MACROS = re.compile(r"\bXALAN_\w*EXPORT\w*\b|\bXALAN_USES_MEMORY_MANAGER\s*\(\s*\w+\s*\)|\bXALAN_STATIC_ASSERT\s*\([^;]*\)\s*;?")


def fn_name(header):
    """qualified name of the function whose definition header (text before '{') is given"""
    h = MACROS.sub(" ", header)
    # first '(' at angle depth 0 that follows an identifier/operator
    m = re.search(r"(" + QNAME + r")\s*\(", h)
    if not m:
        return None
    return re.sub(r"\s+", "", m.group(1))


def is_const_method(header):
    depth, last = 0, -1
    for i, c in enumerate(header):
        if c == "(":
            depth += 1
        elif c == ")":
            depth -= 1
            if depth == 0 and last < 0:
                last = i
    if last < 0:
        return False
    tail = header[last + 1:]
    tail = tail.split(":")[0] if not tail.strip().startswith("const") else tail
    return bool(re.match(r"\s*const\b", tail))


class Scope:
    __slots__ = ("kind", "name", "const", "start")

    def __init__(self, kind, name, const=False, start=0):
        self.kind, self.name, self.const, self.start = kind, name, const, start


def scan(rel, text):
    """Yield (scopes, stmt_text, stmt_pos) for every ';'-terminated statement outside functions,
    and (scopes, body_text, body_pos) records for function bodies via the `functions` list."""
    t = MACROS.sub(lambda m: " " * len(m.group(0)), blank(preprocess(rel, text)))
    stack = []           # Scope
    stmts = []           # (class chain tuple, kind of innermost scope, statement text)
    funcs = []           # (qualified name, const?, body text)
    i, n = 0, len(t)
    start = 0
    paren = 0
    pending_class = False
    last_class_header = ""
    while i < n:
        c = t[i]
        if c == "(":
            paren += 1
        elif c == ")":
            paren -= 1
        elif c == ";" and paren == 0:
            if pending_class:
                pending_class = False
                tail = t[start:i].strip()
                if tail and not re.fullmatch(r"[\w\s,*]*", tail):
                    raise AnchorError("gen_thr: %s: unrecognised text after a class body: %r" % (rel, tail[:80]))
                if tail and not re.search(r"\btypedef\b", last_class_header):
                    raise AnchorError("gen_thr: %s: object %r declared together with its class is not censused" % (rel, tail[:80]))
                start = i + 1
                i += 1
                continue
            if not stack or stack[-1].kind in ("ns", "class"):
                stmts.append((tuple(s.name for s in stack if s.kind == "class"),
                              stack[-1].kind if stack else "ns", t[start:i].strip()))
            start = i + 1
        elif c == "{" and paren == 0:
            header = t[start:i]
            hs = header.strip()
            infn = any(s.kind == "fn" for s in stack)
            if infn:
                stack.append(Scope("block", ""))
            elif stack and stack[-1].kind in ("init", "enum"):
                stack.append(Scope("init", "", False, start))
                i += 1
                continue
            elif re.search(r"\bnamespace\b", hs) or re.search(r"\bextern\s*\"\s*\"\s*$", hs):
                stack.append(Scope("ns", ""))
            elif re.search(r"\benum\b", hs) and "(" not in hs:
                stack.append(Scope("enum", "", False, start))
            elif "(" in hs:
                nm = fn_name(hs)
                if nm is None:
                    raise AnchorError("gen_thr: %s: cannot name the function defined by %r" % (rel, hs[-120:]))
                chain = [s.name for s in stack if s.kind == "class"]
                q = "::".join(chain + [nm]) if chain else nm
                stack.append(Scope("fn", q, is_const_method(hs), start))
            elif re.search(r"\b(class|struct|union)\b", hs):
                h2 = MACROS.sub(" ", hs)
                h2 = re.sub(r"\btemplate\s*<[^{}]*?>\s*(?=class|struct|union)", " ", h2)
                head = re.split(r"(?<!:):(?!:)", h2)[0]
                ids = re.findall(r"\w+", re.sub(r"<[^<>]*>", " ", head))
                ids = [x for x in ids if x not in ("class", "struct", "union", "final", "typedef", "static", "const")]
                stack.append(Scope("class", ids[-1] if ids else "(anonymous)"))
                last_class_header = hs
            else:
                stack.append(Scope("init", "", False, start))
            start = i + 1
        elif c == "}" and paren == 0:
            if not stack:
                raise AnchorError("gen_thr: %s: unbalanced '}' (preprocessor-dependent braces?)" % rel)
            s = stack.pop()
            if s.kind == "fn":
                funcs.append((s.name, s.const, t[s.start:i + 1]))
                start = i + 1
            elif s.kind == "ns":
                start = i + 1
            elif s.kind == "class":
                start = i + 1
                pending_class = not any(x.kind == "class" for x in stack)
            elif s.kind in ("enum", "init"):
                start = s.start          # the whole declaration `T x[] = {...}` is one statement
        i += 1
    if stack:
        raise AnchorError("gen_thr: %s: unbalanced '{' at end of file (%s)" % (rel, stack[-1].kind))
    return t, stmts, funcs


BUILTIN = {"void", "bool", "char", "short", "int", "long", "unsigned", "signed", "float", "double", "size_t",
           "size_type", "XalanDOMChar", "XalanSize_t"}


def top_const(decl_type):
    """is the declared object itself const?  `decl_type` is the text before the declared name."""
    ty = decl_type.strip()
    if "&" in ty:
        # a reference: cannot be reseated; what matters is whether it refers to const
        return bool(re.search(r"\bconst\b", ty))
    if "*" in ty:
        return bool(re.search(r"\bconst\s*$", ty[ty.rindex("*") + 1:].strip() or " ")) or \
            bool(re.match(r"^\s*const\s*$", ty[ty.rindex("*") + 1:]))
    return bool(re.search(r"\bconst(expr)?\b", ty))


THREAD_LOCAL = set()


def parse_var(rel, stmt, want_static):
    """If `stmt` (no trailing ';') declares a variable return (type_text, qualified name), else None."""
    s = MACROS.sub(" ", stmt)
    s = re.sub(r"\s+", " ", s).strip()
    if not s or re.match(r"(typedef|using|friend|template|class|struct|union|enum|namespace|public|private|protected|return|delete|throw|case|goto|break|continue)\b", s):
        return None
    if re.match(r"(static\s+)?(const\s+)?(class|struct|union|enum)\b[^=(]*\{", s):
        return None
    is_static = bool(re.match(r"(inline\s+)?static\b", s))
    if want_static and not is_static:
        return None
    if "operator" in s.split("=")[0].split("(")[0]:
        return None
    s1 = re.sub(r"^(inline\s+)?static\s+", "", s)
    s1 = re.sub(r"^extern\s+", "extern ", s1)
    if s1.startswith("extern "):
        return None                       # a declaration; the definition is censused where it is
    # cut initialiser
    core = re.split(r"=(?!=)", s1, 1)[0].strip()
    core = re.sub(r"\{.*$", "", core).strip()            # brace initialiser / array body
    paren = None
    if "(" in core:
        k = core.index("(")
        paren = core[k + 1: core.rindex(")")] if ")" in core else core[k + 1:]
        core = core[:k].strip()
    core = re.sub(r"\[[^\]]*\]", "", core).strip()
    m = re.match(r"^(.*?[\s*&>])((?:\w+\s*::\s*)*\w+)$", core)
    if not m:
        return None
    ty, name = m.group(1).strip(), re.sub(r"\s+", "", m.group(2))
    if not ty or re.fullmatch(r"(const|volatile|unsigned|signed|\s)*", ty) and ty.strip() in ("",):
        return None
    if paren is not None:
        p = paren.strip()
        if p == "":
            return None                                   # function declaration `T f()`
        if "(" in p or re.fullmatch(r"[\d.]+[uUlLfF]*|0x[0-9a-fA-F]+|true|false", p):
            pass                                          # constructor arguments: an object
        else:
            toks = re.findall(r"[\w:]+|\S", p)
            looks_decl = ("&" in p or "*" in p or " " in p.strip() or p in BUILTIN or
                          re.fullmatch(r"(\w+::)*\w+", p) and (p[0].isupper() or p in BUILTIN))
            if looks_decl:
                return None                               # function declaration with parameters
            raise AnchorError("gen_thr: %s: ambiguous static declaration %r" % (rel, stmt[:120]))
    return ty, name


WRITE_AFTER = re.compile(
    r"\s*(?:=(?!=)|\+=|-=|\*=|/=|\|=|&=|\^=|<<=|>>=|\+\+|--|\[[^\]]*\]\s*(?:=(?!=)|\.|->)|"
    r"(?:\.|->)\s*(?:assign|append|clear|swap|reserve|resize|push_back|pop_back|insert|erase|reset|release|"
    r"set\w*|add\w*|remove\w*|install\w*|uninstall\w*|Install\w*|UninstallFunction|Create\w*|Destroy\w*|"
    r"initialize|terminate|create\w*|destroy\w*|load\w*|open|close|lock|unlock|operator)\b)")
WRITE_BEFORE = re.compile(r"(?:\+\+|--|&|delete(?:\s*\[\s*\])?|(?:^|[(,])\s*)\s*$")


def flag_of(body, a, b):
    after = body[b:b + 80]
    before = body[max(0, a - 40):a]
    if WRITE_AFTER.match(after):
        return "w"
    if re.search(r"(\+\+|--|&|\bdelete\b(\s*\[\s*\])?)\s*$", before):
        return "w"
    # passed as a whole argument (may bind to a non-const reference)
    if re.search(r"[(,]\s*$", before) and re.match(r"\s*[,)]", after):
        return "w"
    return "m"


def coq_str(s):
    return '"' + s.replace('"', '""') + '"'


def norm_ty(t):
    return re.sub(r"\s+", " ", t).strip().replace(" *", "*").replace(" &", "&").replace("< ", "<").replace(" >", ">")


def census():
    src = srcfacts.SRC
    try:
        tops = sorted(d for d in os.listdir(src) if os.path.isdir(os.path.join(src, d)))
    except OSError as e:
        raise AnchorError("gen_thr: cannot list %s: %s" % (src, e))
    unknown = [d for d in tops if d not in DIRS and d not in NOT_LIBRARY]
    missing = [d for d in DIRS if d not in tops]
    if unknown or missing:
        raise AnchorError("gen_thr: source directories changed: unknown %s missing %s" % (unknown, missing))
    files = []
    for d in DIRS:
        for root, dirs, fs in os.walk(os.path.join(src, d)):
            relroot = os.path.relpath(root, src)
            if any(relroot == s or relroot.startswith(s + os.sep) for s in SKIP_SUBDIRS):
                continue
            for f in sorted(fs):
                if f.endswith((".hpp", ".cpp", ".h", ".c", ".hxx", ".cxx", ".cc", ".inl")):
                    files.append(os.path.join(relroot, f))
    files.sort()
    parsed = {}
    for rel in files:
        parsed[rel] = scan(rel, srcfacts.read(rel))

    mutables, casts, statics, lstatics = [], {}, [], []
    class_static_names = set()
    for rel in files:
        for chain, kind, st in parsed[rel][1]:
            if kind == "class" and chain:
                m = re.match(r"(?:(?:public|private|protected)\s*:\s*)*static\b[^()]*?(\w+)\s*(?:\[[^\]]*\])?\s*(?:=.*)?$", st, re.S)
                if m:
                    class_static_names.add((chain[-1], m.group(1)))
    all_funcs = []        # (rel, qname, const, body)
    for rel in files:
        t, stmts, funcs = parsed[rel]
        for q, cst, body in funcs:
            all_funcs.append((rel, q, cst, body))
        # (a) mutable members
        for chain, kind, st in stmts:
            if re.match(r"(?:\w+\s*:\s*)?mutable\b", st):
                pv = parse_var(rel, re.sub(r"^(?:\w+\s*:\s*)?mutable\s+", "", st), False)
                if pv is None:
                    raise AnchorError("gen_thr: %s: cannot parse mutable member %r" % (rel, st[:100]))
                mutables.append((rel, "::".join(chain), pv[1]))
            elif re.search(r"\bmutable\b", st):
                raise AnchorError("gen_thr: %s: `mutable` in an unrecognised position: %r" % (rel, st[:100]))
        n_mut_text = len(re.findall(r"\bmutable\b", t))
        n_mut_fn = sum(len(re.findall(r"\bmutable\b", body)) for _, _, body in funcs)
        if n_mut_text - n_mut_fn != sum(1 for m in mutables if m[0] == rel):
            raise AnchorError("gen_thr: %s: %d `mutable` keywords but %d members recognised" % (
                rel, n_mut_text - n_mut_fn, sum(1 for m in mutables if m[0] == rel)))
        if n_mut_fn:
            raise AnchorError("gen_thr: %s: `mutable` inside a function body (lambda?) is not censused" % rel)
        # (b) const_cast sites
        n_cc = 0
        for q, cst, body in funcs:
            for m in re.finditer(r"\bconst_cast\s*<", body):
                depth, j = 1, m.end()
                while j < len(body) and depth:
                    depth += {"<": 1, ">": -1}.get(body[j], 0)
                    j += 1
                cls = q.rsplit("::", 1)[0] if "::" in q else ""
                key = (rel, cls, q + (" const" if cst else ""), norm_ty(body[m.end():j - 1]))
                casts[key] = casts.get(key, 0) + 1
                n_cc += 1
        if n_cc != len(re.findall(r"\bconst_cast\s*<", t)):
            raise AnchorError("gen_thr: %s: a const_cast outside any function body" % rel)
        # C-style / functional casts that strip const from `this` are not censused: fail closed
        if re.search(r"\(\s*[\w:<>]+\s*[*&]\s*\)\s*\(?\s*\*?\s*this\b", t):
            raise AnchorError("gen_thr: %s: C-style cast applied to `this` (const stripped without const_cast?)" % rel)
        # (c) static members and namespace-scope variables
        for chain, kind, st in stmts:
            if not st or "mutable" in st:
                continue
            stm = st
            if kind == "class":
                stm = re.sub(r"^(?:(?:public|private|protected)\s*:\s*)+", "", stm)
                pv = parse_var(rel, stm, True)
            else:
                if re.search(r"\}\s*\w*$", stm) and not re.match(r"\s*(static\b|[\w:<>\s*&]+\w\s*(\[[^\]]*\])?\s*=)", stm):
                    continue
                pv = parse_var(rel, stm, False)
            if pv is None:
                continue
            ty, name = pv
            if top_const(ty):
                continue
            cls = "::".join(chain)
            if kind != "class" and "::" in name:
                cls, name = name.rsplit("::", 1)      # out-of-class definition of a static member
                if any(s[1] == cls.split("::")[-1] and s[2] == name for s in statics) or True:
                    # recorded once, under the class; definitions are found again below
                    statics.append((rel, cls.split("::")[-1], name, "def"))
                    continue
            statics.append((rel, cls.split("::")[-1] if cls else "", name, "decl" if kind == "class" else "file"))
            if re.search(r"\bthread_local\b", ty):
                THREAD_LOCAL.add((rel, name))     # one object per thread: recorded in the census entry (see out_statics)
        # (d) function-local statics
        for q, cst, body in funcs:
            body = body[body.index("{"):]
            for m in re.finditer(r"(?:(?<=[;{}])|(?<=[;{}]\s)|(?<=\n))\s*static\s+([^;{}()]*?[\s*&])(\w+)\s*(\[[^\]]*\])?\s*(=|;|\()", body):
                if not top_const(m.group(1)):
                    lstatics.append((rel, q, m.group(2)))
            n_ls = len(re.findall(r"\bstatic\b(?!_cast)", body))
            n_rec = len(re.findall(r"(?:(?<=[;{}])|(?<=[;{}]\s)|(?<=\n))\s*static\s+([^;{}()]*?[\s*&])(\w+)\s*(\[[^\]]*\])?\s*(=|;|\()", body))
            if n_ls != n_rec:
                raise AnchorError("gen_thr: %s: %s: a `static` in the body is not recognised as a local variable" % (rel, q))

    # merge class statics: a member is identified by (class, name); its home file is the declaring header
    merged = {}
    for rel, cls, name, how in statics:
        k = (cls, name) if cls else (rel, name)
        e = merged.setdefault(k, {"cls": cls, "name": name, "file": None, "filescope": not cls})
        if how in ("decl", "file") or e["file"] is None:
            e["file"] = rel if (how != "def" or e["file"] is None) else e["file"]
    out_statics = []
    for k, e in sorted(merged.items(), key=lambda kv: (kv[1]["file"], kv[1]["cls"], kv[1]["name"])):
        name, cls = e["name"], e["cls"]
        users = {}
        for rel, q, cst, body in all_funcs:
            if e["filescope"]:
                if rel != e["file"]:
                    continue
                rx = r"(?<![\w:>])::" + re.escape(name) + r"\b"
                # an unqualified mention inside a member function of a class that declares a static
                # member of the same name denotes that member (class scope is searched first)
                owner = q.rsplit("::", 1)[0].split("::")[-1] if "::" in q else ""
                if not (owner and (owner, name) in class_static_names):
                    rx = rx + r"|(?<![\w.>:])" + re.escape(name) + r"\b"
            else:
                own = q.startswith(cls + "::") or ("::" + cls + "::") in q
                rx = (r"(?<![\w.>])(?:\w+::)*" + re.escape(cls) + r"::" + re.escape(name) + r"\b")
                if own:
                    rx = rx + r"|(?<![\w:.>])" + re.escape(name) + r"\b"
            for m in re.finditer(rx, body):
                f = flag_of(body, m.start(), m.end())
                key = q
                if users.get(key) != "w":
                    users[key] = f
        us = sorted(users.items())
        if (e["file"], name) in THREAD_LOCAL:
            us = [("storage class: thread_local", "t")] + us
        out_statics.append((e["file"], cls, name, us))

    owners = []
    for fac, member, cls, hdr in OWNERS:
        if hdr not in parsed:
            raise AnchorError("gen_thr: owner anchor: %s not found" % hdr)
        _, stmts, _ = parsed[hdr]
        hit = [1 for chain, kind, st in stmts if kind == "class" and chain and chain[-1] == cls and
               re.search(r"\b" + member + r"\s*$", st)]
        if len(hit) != 1:
            raise AnchorError("gen_thr: owner anchor: member %s is not declared (once) in class %s (%s)" % (member, cls, hdr))
        owners.append((fac, member, cls))
    # the same member names must not appear in any other class (moved/duplicated state)
    for fac, member, cls, hdr in OWNERS:
        for rel in files:
            for chain, kind, st in parsed[rel][1]:
                if kind == "class" and chain and chain[-1] != cls and re.search(r"\b" + member + r"\s*$", st) and "(" not in st and "&" not in st and "*" not in st:
                    raise AnchorError("gen_thr: owner anchor: %s also declared in class %s (%s)" % (member, chain[-1], rel))
    lookups = const_lookups(parsed, all_funcs)
    return {"files": files, "lookups": lookups, "mutables": sorted(set(mutables)), "casts": sorted(casts.items()),
            "statics": out_statics, "lstatics": sorted(set(lstatics)), "owners": owners}


def const_lookups(parsed, all_funcs):
    """(e) every const (or static-member) lookup on a data member whose type is XalanMap / XalanSet / XalanList
    (directly or through a typedef): XalanList::begin()/end() const - hence XalanMap::begin()/end()/find() const
    and XalanSet - allocate the list head on first use when the container was never touched.  Entries:
    (class, member, kind, function, operations, guarded) where guarded = the body tests member.empty() before
    the first lookup (XalanMap::empty() reads m_size only)."""
    tdefs = {}
    PFX = r"(?:(?:public|private|protected)\s*:\s*)*"
    for f, (t, stmts, funcs) in parsed.items():
        for chain, kind, st in stmts:
            m = re.match(PFX + r"typedef\s+(?:typename\s+)?Xalan(Map|List|Set)\s*<.*>\s*(\w+)$", st, re.S)
            if m:
                tdefs[m.group(2)] = m.group(1)
    for _ in range(3):
        for f, (t, stmts, funcs) in parsed.items():
            for chain, kind, st in stmts:
                m = re.match(PFX + r"typedef\s+(?:typename\s+)?(?:\w+::)*(\w+)\s+(\w+)$", st, re.S)
                if m and m.group(1) in tdefs and m.group(2) not in tdefs:
                    tdefs[m.group(2)] = tdefs[m.group(1)]
    if len(tdefs) < 10:
        raise AnchorError("gen_thr: container typedefs not recognised any more (%d found)" % len(tdefs))
    members = {}
    for f, (t, stmts, funcs) in parsed.items():
        for chain, kind, st in stmts:
            if kind != "class" or not chain or "(" in st:
                continue
            s2 = re.sub(r"^" + PFX, "", st)
            m = re.match(r"(?:mutable\s+|const\s+|static\s+)*(?:\w+::)*(\w+)(\s*<.*>)?\s+(\w+)$", s2, re.S)
            if not m:
                continue
            ty, name = m.group(1), m.group(3)
            k = tdefs.get(ty) if not m.group(2) else (ty[5:] if re.match(r"Xalan(Map|List|Set)$", ty) else None)
            if k:
                members[(chain[-1], name)] = k
    out = []
    for (cls, name), k in sorted(members.items()):
        ops = r"find|begin|end|rbegin|rend|count" if k != "List" else r"find|begin|end|rbegin|rend|front|back|empty|size"
        rx = re.compile(r"(?<![\w.>])(?:\w+::)?" + re.escape(name) + r"\s*\.\s*(" + ops + r")\s*\(")
        rx_arg = re.compile(r"[(,]\s*" + re.escape(name) + r"\s*[,)]")
        for rel, q, cst, body in all_funcs:
            parts = q.split("::")
            if cls not in parts[:-1]:
                continue
            if not cst and not name.startswith("s_"):
                continue
            b = body[body.index("{"):] if "{" in body else body
            hits = [(m.start(), m.group(1)) for m in rx.finditer(b)] + [(m.start(), "arg") for m in rx_arg.finditer(b)]
            if not hits:
                continue
            first = min(h[0] for h in hits)
            g = re.search(r"(?<![\w.>])" + re.escape(name) + r"\s*\.\s*empty\s*\(\s*\)", b[:first]) if k != "List" else None
            # primed: a constructor or postConstruction of the class already takes begin()/end() or inserts
            primed = False
            for rel2, q2, cst2, body2 in all_funcs:
                p2 = q2.split("::")
                if cls in p2[:-1] and (p2[-1] == cls or p2[-1] == "postConstruction") and \
                        re.search(r"(?<![\w.>])" + re.escape(name) + r"\s*(\.\s*(begin|end|insert|addAssociation)\s*\(|\[)", body2):
                    primed = True
            fn = parts[-1]
            callers = "-"
            if fn not in ("begin", "end", "find", "operator", "size", "empty"):
                cs = sorted({q2 for rel2, q2, cst2, body2 in all_funcs
                             if q2 != q and re.search(r"(?<![\w~])" + re.escape(fn) + r"\s*\(", body2[body2.index("{"):] if "{" in body2 else "")})
                callers = ";".join(cs) if len(cs) <= 4 else "many(%d)" % len(cs)
            out.append((cls, name, k, q + (" const" if cst else ""), ",".join(sorted(set(h[1] for h in hits))),
                        ("guarded" if g else "unguarded") + ("+primed" if primed else ""), callers))
    return sorted(set(out))


def gen_thr():
    c = census()
    o = [HEADER.replace("srcfacts.py", "gen_thr.py")]
    o.append("(* census of direct shared-write capabilities over %d library source files; see translator/gen_thr.py *)\n" % len(c["files"]))
    o.append("From Coq Require Import String List.\nImport ListNotations.\nOpen Scope string_scope.\n\n")
    o.append("(* (file, class, member) *)\nDefinition census_mutable : list (string * string * string) :=\n  [ ")
    o.append(";\n    ".join("(%s, %s, %s)" % (coq_str(a), coq_str(b), coq_str(n)) for a, b, n in c["mutables"]))
    o.append(" ].\n\n(* (file, class of the enclosing function, enclosing function [const], target type, occurrences) *)\n"
             "Definition census_constcast : list (string * string * string * string * nat) :=\n  [ ")
    o.append(";\n    ".join("(%s, %s, %s, %s, %d)" % (coq_str(k[0]), coq_str(k[1]), coq_str(k[2]), coq_str(k[3]), n) for k, n in c["casts"]))
    o.append(" ].\n\n(* (file, class or \"\", name, functions mentioning the object with flag w = direct-write pattern, m = other mention) *)\n"
             "Definition census_static : list (string * string * string * list (string * string)) :=\n  [ ")
    o.append(";\n    ".join("(%s, %s, %s, [%s])" % (coq_str(f), coq_str(cl), coq_str(n), "; ".join("(%s, %s)" % (coq_str(q), coq_str(fl)) for q, fl in us))
                            for f, cl, n, us in c["statics"]))
    o.append(" ].\n\n(* (file, function, name) *)\nDefinition census_localstatic : list (string * string * string) :=\n  [ ")
    o.append(";\n    ".join("(%s, %s, %s)" % (coq_str(a), coq_str(b), coq_str(n)) for a, b, n in c["lstatics"]))
    o.append(" ].\n\n(* (facility, member, declaring class): where per-transformation state lives *)\n"
             "Definition census_owner : list (string * string * string) :=\n  [ ")
    o.append(";\n    ".join("(%s, %s, %s)" % (coq_str(a), coq_str(b), coq_str(n)) for a, b, n in c["owners"]))
    o.append(" ].\n\n(* (class, container member, kind, const/static-member function, operations, guarded by member.empty()? / primed by ctor|postConstruction?, callers of the function) *)\n"
             "Definition census_constlookup : list (string * string * string * string * string * string * string) :=\n  [ ")
    o.append(";\n    ".join("(" + ", ".join(coq_str(x) for x in e) + ")" for e in c["lookups"]))
    o.append(" ].\n")
    facts = {"files": len(c["files"]), "mutable": len(c["mutables"]), "const_cast": len(c["casts"]),
             "static": len(c["statics"]), "localstatic": len(c["lstatics"])}
    return "".join(o), facts


GENERATORS = {"GenThr": gen_thr}

if __name__ == "__main__":
    import sys, json
    c = census()
    if len(sys.argv) > 1 and sys.argv[1] == "dump":
        for k in ("mutables", "casts", "statics", "lstatics", "owners", "lookups"):
            print("==", k, len(c[k]))
            for e in c[k]:
                print("  ", e)
    else:
        print(json.dumps({k: len(v) for k, v in c.items()}))
