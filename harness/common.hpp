// Shared helpers for the correspondence drivers (public Xalan-C / Xerces-C headers only).
#ifndef VERIF_COMMON_HPP
#define VERIF_COMMON_HPP
#include <cstdio>
#include <cstdlib>
#include <cstring>
#include <cstdint>
#include <string>
#include <vector>
#include <sstream>
#include <iostream>
#include <fstream>

#include <xercesc/util/PlatformUtils.hpp>
#include <xalanc/Include/PlatformDefinitions.hpp>
#include <xalanc/XalanDOM/XalanDOMString.hpp>
#include <xalanc/XalanTransformer/XalanTransformer.hpp>

namespace verif {

using xalanc::XalanDOMString;
using xalanc::XalanDOMChar;

struct Init {
    Init()  { xercesc::XMLPlatformUtils::Initialize(); xalanc::XalanTransformer::initialize(); }
    ~Init() { xalanc::XalanTransformer::terminate(); xercesc::XMLPlatformUtils::Terminate(); }
};

inline std::vector<std::string> split(const std::string& s)
{
    std::vector<std::string> out; std::istringstream is(s); std::string t;
    while (is >> t) out.push_back(t);
    return out;
}

inline uint64_t hex64(const std::string& s) { return std::strtoull(s.c_str(), 0, 16); }

inline double dbl_of_bits(uint64_t b) { double d; std::memcpy(&d, &b, 8); return d; }
inline uint64_t bits_of_dbl(double d) { uint64_t b; std::memcpy(&b, &d, 8); return b; }

// canonical number print: nan, else 16 hex digits
inline std::string show_dbl(double d)
{
    if (d != d) return "nan";
    char buf[32]; std::snprintf(buf, sizeof buf, "%016llx", (unsigned long long) bits_of_dbl(d));
    return buf;
}

// "u:41,42" (comma separated hex UTF-16 code units; "u:" alone is the empty string)
inline XalanDOMString u16_of_token(const std::string& t)
{
    XalanDOMString r;
    size_t i = 2;
    while (i < t.size()) {
        size_t j = t.find(',', i);
        if (j == std::string::npos) j = t.size();
        r.append(1, (XalanDOMChar) std::strtoul(t.substr(i, j - i).c_str(), 0, 16));
        i = j + 1;
    }
    return r;
}

inline std::string token_of_u16(const XalanDOMChar* p, size_t n)
{
    std::string r = "u:";
    char buf[8];
    for (size_t i = 0; i < n; ++i) {
        std::snprintf(buf, sizeof buf, i ? ",%x" : "%x", (unsigned) p[i]);
        r += buf;
    }
    return r;
}

inline std::string token_of_u16(const XalanDOMString& s) { return token_of_u16(s.c_str(), s.length()); }

} // namespace verif
#endif
