(* XpModel.v — lemmas and proofs about the interpreter model of XpDefs.v (property C02).
   Part 1: node-set results (document order, duplicate freedom, union laws, predicates only filter)
   Part 2: the comparison decision tree against the rules of XPath 1.0 section 3.4
   Part 3: string functions against their definitions (section 4.2)
   Part 4: boolean operators *)
From Coq Require Import ZArith NArith List Bool Arith Lia Sorted SpecFloat.
Require Import XV.GenNum XV.NumDefs XV.XpAst XV.DomDefs XV.XpDefs.
Import ListNotations.

(** * Part 1: sorted, duplicate-free node lists *)

Definition ordered (l : list nat) : Prop := StronglySorted lt l.

Lemma insert_sorted_In n l x : In x (insert_sorted n l) <-> x = n \/ In x l.
Proof.
  induction l as [|a r IH]; cbn [insert_sorted].
  - simpl. intuition.
  - destruct (Nat.ltb n a) eqn:Hlt.
    + simpl. intuition.
    + destruct (Nat.eqb n a) eqn:Heq.
      * apply Nat.eqb_eq in Heq. subst a. simpl. intuition.
      * simpl. rewrite IH. intuition.
Qed.

Lemma insert_sorted_ordered n l : ordered l -> ordered (insert_sorted n l).
Proof.
  unfold ordered. induction 1 as [|a r Hs IH Hall]; cbn [insert_sorted].
  - constructor; constructor.
  - destruct (Nat.ltb n a) eqn:Hlt.
    + apply Nat.ltb_lt in Hlt. constructor.
      * constructor; assumption.
      * constructor; [assumption|]. eapply Forall_impl; [|exact Hall]. intros y Hy. lia.
    + destruct (Nat.eqb n a) eqn:Heq.
      * constructor; assumption.
      * apply Nat.ltb_ge in Hlt. apply Nat.eqb_neq in Heq.
        constructor; [exact IH|].
        apply Forall_forall. intros y Hy. apply insert_sorted_In in Hy.
        destruct Hy as [->|Hy]; [lia|]. rewrite Forall_forall in Hall. auto.
Qed.

Lemma merge_In acc l x : In x (merge_doc_order acc l) <-> In x acc \/ In x l.
Proof.
  unfold merge_doc_order. revert acc. induction l as [|n r IH]; intros acc; cbn [fold_left].
  - simpl. intuition.
  - rewrite IH, insert_sorted_In. simpl. intuition.
Qed.

Lemma merge_ordered acc l : ordered acc -> ordered (merge_doc_order acc l).
Proof.
  unfold merge_doc_order. revert acc. induction l as [|n r IH]; intros acc H; cbn [fold_left].
  - exact H.
  - apply IH. apply insert_sorted_ordered. exact H.
Qed.

Lemma ordered_nil : ordered []. Proof. constructor. Qed.
Lemma ordered_one x : ordered [x]. Proof. constructor; constructor. Qed.

(* a strictly sorted list is determined by its elements *)
Lemma ordered_ext l1 l2 : ordered l1 -> ordered l2 -> (forall x, In x l1 <-> In x l2) -> l1 = l2.
Proof.
  unfold ordered. intros H1. revert l2. induction H1 as [|a r Hs IH Hall]; intros l2 H2 Hext.
  - destruct l2 as [|b s]; [reflexivity|]. exfalso. apply (proj2 (Hext b)). left. reflexivity.
  - destruct H2 as [|b s Hs2 Hall2].
    + exfalso. apply (proj1 (Hext a)). left. reflexivity.
    + rewrite Forall_forall in Hall, Hall2.
      assert (a = b).
      { destruct (proj1 (Hext a) (or_introl eq_refl)) as [E|Hin]; [auto|].
        destruct (proj2 (Hext b) (or_introl eq_refl)) as [E|Hin2]; [auto|].
        specialize (Hall2 _ Hin). specialize (Hall _ Hin2). lia. }
      subst b. f_equal. apply IH; [exact Hs2|].
      intros x. split; intros Hx.
      * destruct (proj1 (Hext x) (or_intror Hx)) as [E|Hin]; [|exact Hin].
        subst x. specialize (Hall _ Hx). lia.
      * destruct (proj2 (Hext x) (or_intror Hx)) as [E|Hin]; [|exact Hin].
        subst x. specialize (Hall2 _ Hx). lia.
Qed.

(* the value of a union: the sorted duplicate-free list of the operands' nodes *)
Definition union_of (a b : list nat) : list nat := merge_doc_order (merge_doc_order [] a) b.

Lemma union_of_ordered a b : ordered (union_of a b).
Proof. apply merge_ordered, merge_ordered, ordered_nil. Qed.

Lemma union_of_In a b x : In x (union_of a b) <-> In x a \/ In x b.
Proof. unfold union_of. rewrite !merge_In. simpl. intuition. Qed.

Lemma union_of_comm a b : union_of a b = union_of b a.
Proof.
  apply ordered_ext; try apply union_of_ordered.
  intros x. rewrite !union_of_In. intuition.
Qed.

Lemma union_of_assoc a b c : union_of (union_of a b) c = union_of a (union_of b c).
Proof.
  apply ordered_ext; try apply union_of_ordered.
  intros x. rewrite !union_of_In. intuition.
Qed.

Lemma union_of_idem a : union_of a a = merge_doc_order [] a.
Proof.
  apply ordered_ext; [apply union_of_ordered | apply merge_ordered, ordered_nil |].
  intros x. rewrite union_of_In, merge_In. simpl. intuition.
Qed.

(** sublists: predicates only ever remove nodes and keep the order *)
Inductive sublist : list nat -> list nat -> Prop :=
  | sub_nil : sublist [] []
  | sub_skip x l1 l2 : sublist l1 l2 -> sublist l1 (x :: l2)
  | sub_keep x l1 l2 : sublist l1 l2 -> sublist (x :: l1) (x :: l2).

Lemma sublist_refl l : sublist l l.
Proof. induction l; constructor; assumption. Qed.

Lemma sublist_nil l : sublist [] l.
Proof. induction l; constructor; assumption. Qed.

Lemma sublist_In l1 l2 x : sublist l1 l2 -> In x l1 -> In x l2.
Proof. induction 1; simpl; intuition. Qed.

Lemma sublist_trans l1 l2 l3 : sublist l1 l2 -> sublist l2 l3 -> sublist l1 l3.
Proof.
  intros H12 H23. revert l1 H12. induction H23 as [|x m n H IH|x m n H IH]; intros l1 H12.
  - exact H12.
  - constructor. apply IH. exact H12.
  - inversion H12; subst.
    + apply sub_skip. apply IH. assumption.
    + apply sub_keep. apply IH. assumption.
Qed.

Lemma sublist_ordered l1 l2 : sublist l1 l2 -> ordered l2 -> ordered l1.
Proof.
  unfold ordered. induction 1 as [|x l1 l2 H IH|x l1 l2 H IH]; intros Ho.
  - constructor.
  - inversion Ho; subst. auto.
  - inversion Ho as [|? ? Hs Hall]; subst. constructor; [auto|].
    rewrite Forall_forall in *. intros y Hy. apply Hall. eapply sublist_In; eauto.
Qed.

Lemma nth_error_sublist (l : list nat) k n : nth_error l k = Some n -> sublist [n] l.
Proof.
  revert k. induction l as [|a r IH]; intros [|k] H; simpl in H; try discriminate.
  - inversion H; subst. apply sub_keep. apply sublist_nil.
  - apply sub_skip. eapply IH; eauto.
Qed.

Section StepsFacts.
  Variable ev : ctx -> expr -> res value.

  Lemma pred_filter_sublist c l pe rest i r :
    pred_filter ev c l pe rest i = Ok r -> sublist r rest.
  Proof.
    revert i r. induction rest as [|n rest IH]; intros i r H; cbn [pred_filter] in H.
    - inversion H. constructor.
    - unfold bind in H. destruct (ev (with_node c n l) pe) as [v|e]; [|discriminate].
      destruct (pred_filter ev c l pe rest (S i)) as [r'|e] eqn:E; [|discriminate].
      specialize (IH _ _ E).
      match type of H with Ok (if ?b then _ else _) = _ => destruct b end; inversion H; subst;
        [apply sub_keep | apply sub_skip]; assumption.
  Qed.

  Lemma apply_pred_sublist c l p r : apply_pred ev c l p = Ok r -> sublist r l.
  Proof.
    unfold apply_pred. destruct l as [|a l']; [intros H; inversion H; constructor|].
    set (l := a :: l'). intros H.
    assert (G : forall pe, pred_filter ev c l pe l 0 = Ok r -> sublist r l)
      by (intros pe; apply pred_filter_sublist).
    revert H. destruct (snd p) as [| | | | | | | | | | | | | | | | | | tk | | |]; intros H; try (exact (G _ H)).
    destruct (d_index (string_to_number tk) (length l)) as [k|]; inversion H; subst.
    - destruct (nth_error l (k - 1)) eqn:E; [eapply nth_error_sublist; eauto | apply sublist_nil].
    - apply sublist_nil.
  Qed.

  Lemma apply_preds_sublist c ps : forall l r, apply_preds ev c l ps = Ok r -> sublist r l.
  Proof.
    unfold apply_preds. induction ps as [|p ps IH]; intros l r H; cbn [fold_left] in H.
    - inversion H. apply sublist_refl.
    - cbn [bind] in H. destruct (apply_pred ev c l p) as [l1|e] eqn:E.
      + eapply sublist_trans; [apply IH; exact H | eapply apply_pred_sublist; eauto].
      + exfalso. clear -H. induction ps as [|q ps IHp]; cbn [fold_left] in H; [discriminate|].
        cbn [bind] in H. auto.
  Qed.

  (* every result of a location path walk is in document order without duplicates *)
  Lemma fold_res_inv {A B} (P : A -> Prop) (F : res A -> B -> res A) :
    (forall e b, F (Err e) b = Err e) ->
    (forall q b r, P q -> F (Ok q) b = Ok r -> P r) ->
    forall l q r, P q -> fold_left F l (Ok q) = Ok r -> P r.
  Proof.
    intros Herr Hok. induction l as [|b l IH]; intros q r Pq H; cbn [fold_left] in H.
    - inversion H; subst; assumption.
    - destruct (F (Ok q) b) as [q'|e] eqn:E.
      + eapply IH; [|exact H]. eapply Hok; eauto.
      + exfalso. clear -H Herr. induction l as [|b' l IHl]; cbn [fold_left] in H; [discriminate|].
        rewrite Herr in H. auto.
  Qed.

  Lemma steps_from_ordered c sfuel sub rv rest r :
    rest <> [] -> steps_from ev c sfuel sub rv rest = Ok r -> ordered r.
  Proof.
    destruct sfuel as [|sf]; cbn [steps_from]; [discriminate|].
    destruct rest as [|[[ax t] ps] rest']; [congruence|]. intros _ H.
    eapply (fold_res_inv ordered) in H; [exact H| | |exact ordered_nil].
    - intros e b. reflexivity.
    - intros q b r0 Hq Hb. cbn [bind] in Hb.
      destruct (axis_nodes c ax t b) as [[l0 rv0]|e]; cbn [bind] in Hb; [|discriminate].
      destruct (apply_preds ev c l0 ps) as [l1|e]; cbn [bind] in Hb; [|discriminate].
      destruct (steps_from ev c sf l1 rv0 rest') as [r1|e]; cbn [bind] in Hb; [|discriminate].
      inversion Hb; subst. apply merge_ordered. exact Hq.
  Qed.
End StepsFacts.

(** * Part 2: comparisons (XPath 1.0 section 3.4) *)

Lemma str_eqb_sym a b : str_eqb a b = str_eqb b a.
Proof.
  revert b. induction a as [|x a IH]; destruct b as [|y b]; simpl; try reflexivity.
  rewrite N.eqb_sym, IH. reflexivity.
Qed.

Lemma str_eqb_eq a b : str_eqb a b = true <-> a = b.
Proof.
  revert b. induction a as [|x a IH]; destruct b as [|y b]; simpl; split; intros H; try discriminate; auto.
  - apply andb_true_iff in H. destruct H as [H1 H2]. apply N.eqb_eq in H1. apply IH in H2. congruence.
  - inversion H; subst. rewrite N.eqb_refl. simpl. apply IH. reflexivity.
Qed.

Lemma SFcompare_antisym x y : SFcompare y x = option_map CompOpp (SFcompare x y).
Proof.
  destruct x as [sx| sx| |sx mx ex], y as [sy|sy| |sy my ey]; simpl; try reflexivity;
    try (destruct sx, sy; reflexivity); try (destruct sx; reflexivity); try (destruct sy; reflexivity).
  assert (E : Pos.compare_cont Eq my mx = CompOpp (Pos.compare_cont Eq mx my))
    by (rewrite Pos.compare_cont_antisym; reflexivity).
  destruct sx, sy; simpl; try reflexivity;
    rewrite (Z.compare_antisym ex ey); destruct (ex ?= ey)%Z; simpl; try reflexivity;
    rewrite E, ?CompOpp_involutive; reflexivity.
Qed.

Lemma d_eq_sym x y : d_eq x y = d_eq y x.
Proof.
  unfold d_eq, SFeqb. rewrite (SFcompare_antisym x y).
  destruct (SFcompare x y) as [[]|]; reflexivity.
Qed.

Lemma d_lt_gt x y : SFltb y x = match SFcompare x y with Some Gt => true | _ => false end.
Proof. unfold SFltb. rewrite (SFcompare_antisym x y). destruct (SFcompare x y) as [[]|]; reflexivity. Qed.

Lemma d_le_ge x y : SFleb y x = match SFcompare x y with Some Gt | Some Eq => true | _ => false end.
Proof. unfold SFleb. rewrite (SFcompare_antisym x y). destruct (SFcompare x y) as [[]|]; reflexivity. Qed.

Lemma cmp_num_swap op x y : cmp_num (swap_op op) y x = cmp_num op x y.
Proof. destruct op; simpl; unfold d_lt, d_le; try reflexivity; rewrite d_eq_sym; reflexivity. Qed.

Lemma cmp_str_swap op a b : cmp_str (swap_op op) b a = cmp_str op a b.
Proof.
  destruct op; cbn [swap_op cmp_str]; try (rewrite str_eqb_sym; reflexivity).
  - exact (cmp_num_swap CLt _ _).
  - exact (cmp_num_swap CLe _ _).
  - exact (cmp_num_swap CGt _ _).
  - exact (cmp_num_swap CGe _ _).
Qed.

(* the rules of section 3.4, written as the Recommendation words them *)
Definition bool_num (b : bool) : dbl := if b then d_one else d_zero.

Definition scalar_rule (c : ctx) (op : cmpop) (a b : value) : bool :=
  match op with
  | CEq | CNe =>
      let eq :=
        if is_bool a || is_bool b then Bool.eqb (to_boolean a) (to_boolean b)
        else if is_num a || is_num b then d_eq (to_number c a) (to_number c b)
        else str_eqb (to_string c a) (to_string c b) in
      match op with CEq => eq | _ => negb eq end
  | _ => cmp_num op (to_number c a) (to_number c b)
  end.

Definition cmp_rule (c : ctx) (op : cmpop) (a b : value) : Prop :=
  match a, b with
  | VNodes l, VNodes r =>
      exists x y, In x l /\ In y r /\ cmp_str op (node_string c x) (node_string c y) = true
  | VNodes l, VNum y => exists x, In x l /\ cmp_num op (string_to_number (node_string c x)) y = true
  | VNum x, VNodes r => exists y, In y r /\ cmp_num op x (string_to_number (node_string c y)) = true
  | VNodes l, VStr s => exists x, In x l /\ cmp_str op (node_string c x) s = true
  | VStr s, VNodes r => exists y, In y r /\ cmp_str op s (node_string c y) = true
  | VNodes l, VBool _ => scalar_rule c op (VBool (to_boolean a)) b = true
  | VBool _, VNodes r => scalar_rule c op a (VBool (to_boolean b)) = true
  | _, _ => scalar_rule c op a b = true
  end.

Lemma bool_cmp_num op x y :
  cmp_num op (bool_num x) (bool_num y) = scalar_rule (mkCtx [] 0 [] [] (fun _ _ => false)) op (VBool x) (VBool y).
Proof. destruct op, x, y; vm_compute; reflexivity. Qed.

Lemma scalar_rule_bools c c' op x y : scalar_rule c op (VBool x) (VBool y) = scalar_rule c' op (VBool x) (VBool y).
Proof. destruct op; reflexivity. Qed.

Lemma existsb_exists_nat (f : nat -> bool) l : existsb f l = true <-> exists x, In x l /\ f x = true.
Proof. apply existsb_exists. Qed.

Lemma cmp_str_rel op a b :
  match op with CEq | CNe => False | _ => True end ->
  cmp_str op a b = cmp_num op (string_to_number a) (string_to_number b).
Proof. destruct op; simpl; intuition. Qed.

Lemma cmp_nodeset_rule c op l rhs : cmp_nodeset c op l rhs = true <-> cmp_rule c op (VNodes l) rhs.
Proof.
  destruct rhs as [bb|y|s|r]; cbn [cmp_nodeset cmp_rule].
  - change (if to_boolean (VNodes l) then d_one else d_zero) with (bool_num (to_boolean (VNodes l))).
    change (to_number c (VBool bb)) with (bool_num bb).
    rewrite bool_cmp_num. rewrite (scalar_rule_bools _ c). reflexivity.
  - rewrite existsb_exists. reflexivity.
  - destruct op; rewrite existsb_exists; cbn [cmp_str]; reflexivity.
  - rewrite existsb_exists. split.
    + intros [x [Hx H]]. apply existsb_exists in H. destruct H as [y [Hy H]]. eauto.
    + intros [x [y [Hx [Hy H]]]]. exists x. split; [exact Hx|]. apply existsb_exists. eauto.
Qed.

Lemma compare_rule c op a b : compare c op a b = true <-> cmp_rule c op a b.
Proof.
  destruct a as [x|x|s|l].
  - destruct b as [y|y|t|r]; cbn [compare cmp_rule].
    + destruct op; reflexivity.
    + destruct op; reflexivity.
    + destruct op; reflexivity.
    + rewrite cmp_nodeset_rule. cbn [cmp_rule].
      rewrite <- !(scalar_rule_bools (mkCtx [] 0 [] [] (fun _ _ => false)) c).
      rewrite <- !bool_cmp_num. rewrite cmp_num_swap. reflexivity.
  - destruct b as [y|y|t|r]; cbn [compare cmp_rule].
    + destruct op; reflexivity.
    + destruct op; reflexivity.
    + destruct op; reflexivity.
    + rewrite cmp_nodeset_rule. cbn [cmp_rule]. split; intros [z [Hz H]]; exists z; (split; [exact Hz|]).
      * rewrite <- cmp_num_swap. exact H.
      * rewrite cmp_num_swap. exact H.
  - destruct b as [y|y|t|r]; cbn [compare cmp_rule].
    + destruct op; reflexivity.
    + destruct op; reflexivity.
    + destruct op; reflexivity.
    + rewrite cmp_nodeset_rule. cbn [cmp_rule]. split; intros [z [Hz H]]; exists z; (split; [exact Hz|]).
      * rewrite <- cmp_str_swap. exact H.
      * rewrite cmp_str_swap. exact H.
  - cbn [compare]. apply cmp_nodeset_rule.
Qed.

(** * Part 3: string functions *)

Lemma starts_with_spec s p : starts_with s p = true <-> exists r, s = p ++ r.
Proof.
  revert s. induction p as [|y p IH]; intros s; simpl.
  - split; [intros _; exists s; reflexivity | destruct s; reflexivity].
  - destruct s as [|x s].
    + split; [discriminate | intros [r H]; discriminate].
    + split.
      * intros H. apply andb_true_iff in H. destruct H as [H1 H2]. apply N.eqb_eq in H1. subst y.
        apply IH in H2. destruct H2 as [r ->]. exists r. reflexivity.
      * intros [r H]. inversion H; subst. cbn [starts_with]. rewrite N.eqb_refl. simpl. apply IH. exists r. reflexivity.
Qed.

(* index_of_sub finds the FIRST occurrence *)
Lemma index_of_sub_some s p i :
  index_of_sub s p = Some i ->
  exists a b, s = a ++ p ++ b /\ length a = i /\
              forall j, j < i -> starts_with (skipn j s) p = false.
Proof.
  revert i. induction s as [|x s IH]; intros i H; cbn [index_of_sub] in H.
  - destruct (starts_with [] p) eqn:E; [|discriminate]. inversion H; subst.
    apply starts_with_spec in E. destruct E as [r E]. exists [], r. repeat split; auto. intros j Hj. lia.
  - destruct (starts_with (x :: s) p) eqn:E.
    + inversion H; subst. apply starts_with_spec in E. destruct E as [r E]. exists [], r.
      repeat split; auto. intros j Hj. lia.
    + destruct (index_of_sub s p) as [k|] eqn:Ek; [|discriminate]. inversion H; subst.
      destruct (IH _ eq_refl) as [a [b [Hs [Hl Hmin]]]]. exists (x :: a), b. repeat split.
      * simpl. rewrite Hs. reflexivity.
      * simpl. rewrite Hl. reflexivity.
      * intros [|j] Hj; [exact E|]. simpl. apply Hmin. lia.
Qed.

Lemma index_of_sub_none s p : index_of_sub s p = None -> forall a b, s <> a ++ p ++ b.
Proof.
  induction s as [|x s IH]; intros H a b Hs; cbn [index_of_sub] in H.
  - destruct (starts_with [] p) eqn:E; [discriminate|].
    destruct a; [|discriminate]. simpl in Hs.
    assert (starts_with [] p = true) by (apply starts_with_spec; exists b; exact Hs). congruence.
  - destruct (starts_with (x :: s) p) eqn:E; [discriminate|].
    destruct (index_of_sub s p) eqn:Ek; [discriminate|].
    destruct a as [|y a].
    + simpl in Hs. assert (starts_with (x :: s) p = true) by (apply starts_with_spec; exists b; exact Hs).
      congruence.
    + inversion Hs; subst. eapply IH; eauto.
Qed.

Definition contains (s p : str) : bool := match index_of_sub s p with Some _ => true | None => false end.

Lemma contains_spec s p : contains s p = true <-> exists a b, s = a ++ p ++ b.
Proof.
  unfold contains. destruct (index_of_sub s p) eqn:E.
  - split; [intros _|reflexivity]. destruct (index_of_sub_some _ _ _ E) as [a [b [H _]]]. eauto.
  - split; [discriminate|]. intros [a [b H]]. exfalso. eapply index_of_sub_none; eauto.
Qed.

(* substring-before / substring-after split the string around the first occurrence *)
Lemma before_after_spec s p i :
  index_of_sub s p = Some i -> s = firstn i s ++ p ++ skipn (i + length p) s.
Proof.
  intros H. destruct (index_of_sub_some _ _ _ H) as [a [b [Hs [Hl _]]]]. subst i.
  rewrite Hs at 1. rewrite Hs.
  rewrite firstn_app, Nat.sub_diag, firstn_all. simpl. rewrite app_nil_r.
  f_equal. f_equal.
  rewrite skipn_app. rewrite skipn_all2 by lia. simpl.
  replace (length a + length p - length a) with (length p) by lia.
  rewrite skipn_app, skipn_all, Nat.sub_diag. reflexivity.
Qed.

(* translate: each character is kept, replaced or removed according to its first position in [from] *)
Lemma index_of_char_first from ch i :
  index_of_char from ch = Some i -> nth_error from i = Some ch /\ forall j, j < i -> nth_error from j <> Some ch.
Proof.
  revert i. induction from as [|x r IH]; intros i H; cbn [index_of_char] in H; [discriminate|].
  destruct (N.eqb x ch) eqn:E.
  - inversion H; subst. apply N.eqb_eq in E. subst. split; [reflexivity|]. intros j Hj. lia.
  - destruct (index_of_char r ch) as [k|] eqn:Ek; [|discriminate]. inversion H; subst.
    destruct (IH _ eq_refl) as [H1 H2]. split; [exact H1|].
    intros [|j] Hj; simpl.
    + intros Hc. inversion Hc; subst. rewrite N.eqb_refl in E. discriminate.
    + apply H2. lia.
Qed.

Lemma index_of_char_none from ch : index_of_char from ch = None -> ~ In ch from.
Proof.
  induction from as [|x r IH]; intros H; cbn [index_of_char] in H; [intros []|].
  destruct (N.eqb x ch) eqn:E; [discriminate|].
  destruct (index_of_char r ch) eqn:Ek; [discriminate|].
  intros [Hx|Hin]; [subst; rewrite N.eqb_refl in E; discriminate | exact (IH eq_refl Hin)].
Qed.

Definition translate_char (from to : str) (ch : N) : list N :=
  match index_of_char from ch with
  | None => [ch]
  | Some i => match nth_error to i with Some r => [r] | None => [] end
  end.

Lemma f_translate_spec s from to : f_translate s from to = flat_map (translate_char from to) s.
Proof. reflexivity. Qed.

Lemma translate_untouched s from to : (forall ch, In ch s -> ~ In ch from) -> f_translate s from to = s.
Proof.
  unfold f_translate. induction s as [|ch s IH]; intros H; simpl; [reflexivity|].
  destruct (index_of_char from ch) as [i|] eqn:E.
  - exfalso. destruct (index_of_char_first _ _ _ E) as [H1 _]. apply nth_error_In in H1.
    exact (H ch (or_introl eq_refl) H1).
  - simpl. f_equal. apply IH. intros c Hc. apply H. right. exact Hc.
Qed.

(* normalize-space: the result has no leading, trailing or doubled white space, contains only the
   space character as white space, and keeps every non-white-space character in order *)
Definition non_ws (s : str) : str := filter (fun ch => negb (is_ws_char ch)) s.

Lemma normalize_go_non_ws s b : non_ws (normalize_go s b) = non_ws s.
Proof.
  revert b. induction s as [|ch s IH]; intros b; cbn [normalize_go]; [reflexivity|].
  assert (Hc : forall t, non_ws (ch :: t) = if is_ws_char ch then non_ws t else ch :: non_ws t).
  { intros t. unfold non_ws. cbn [filter]. destruct (is_ws_char ch); reflexivity. }
  assert (H32 : forall t, non_ws (32%N :: t) = non_ws t) by reflexivity.
  rewrite (Hc s). destruct (is_ws_char ch) eqn:E.
  - destruct b; rewrite ?H32; apply IH.
  - rewrite (Hc (normalize_go s true)), ?E, IH. reflexivity.
Qed.

Lemma is_ws_32 : is_ws_char 32 = true. Proof. reflexivity. Qed.

Lemma non_ws_rev s : non_ws (rev s) = rev (non_ws s).
Proof.
  unfold non_ws. induction s as [|x s IH]; simpl; [reflexivity|].
  rewrite filter_app, IH. simpl. destruct (is_ws_char x); simpl; [rewrite app_nil_r|]; reflexivity.
Qed.

Lemma f_normalize_space_non_ws s : non_ws (f_normalize_space s) = non_ws s.
Proof.
  unfold f_normalize_space.
  pose proof (normalize_go_non_ws s false) as H.
  destruct (rev (normalize_go s false)) as [|ch t] eqn:E.
  - rewrite <- H. rewrite <- (rev_involutive (normalize_go s false)), E. reflexivity.
  - destruct (N.eqb ch 32) eqn:E32; [|exact H].
    apply N.eqb_eq in E32. subst ch.
    rewrite <- H. rewrite <- (rev_involutive (normalize_go s false)), E.
    rewrite !non_ws_rev. f_equal.
Qed.

(** * Part 4: boolean operators and the shape of function results *)

Lemma call_function_scalar ev c name args v :
  call_function ev c name args = Ok v -> is_nodes v = false.
Proof.
  unfold call_function, ev_num, ev_bool, as_nodes, bind. intros H.
  repeat match type of H with
         | (if ?b then _ else _) = _ => destruct b
         end;
  repeat match type of H with
         | match ?x with _ => _ end = _ => destruct x; try discriminate
         end;
  try (inversion H; subst; reflexivity); try discriminate.
Qed.

(** every node-set the interpreter delivers is in document order and duplicate-free, provided the
    node-set variables it is given are *)
Definition vars_ordered (c : ctx) : Prop :=
  forall ns l v, lookup_var (cx_vars c) ns l = Some (VNodes v) -> ordered v.

Ltac scalar_result H :=
  unfold ev_bool, ev_num, bind in H;
  repeat match type of H with
         | match ?x with _ => _ end = _ => destruct x; try discriminate
         | (if ?b then _ else _) = _ => destruct b; try discriminate
         end;
  try discriminate.

Lemma steps_result_ordered ev c l steps r :
  ordered l -> steps_from ev c (S (length steps)) l false steps = Ok r -> ordered r.
Proof.
  intros Hl H. destruct steps as [|s steps].
  - cbn [steps_from] in H. inversion H; subst. exact Hl.
  - eapply steps_from_ordered; [|exact H]. discriminate.
Qed.

Theorem eval_nodes_ordered : forall fuel c e r,
  vars_ordered c -> eval fuel c e = Ok (VNodes r) -> ordered r.
Proof.
  induction fuel as [|f IH]; intros c e r Hv H; [discriminate|].
  cbn [eval] in H. destruct e.
  1-14: scalar_result H.
  - (* union *)
    cbn [bind] in H.
    match type of H with (do r <- ?F; _) = _ => destruct F as [q|] eqn:E end; cbn [bind] in H; [|discriminate].
    inversion H; subst.
    eapply (fold_res_inv ordered) in E; [exact E| | |exact ordered_nil].
    + intros e0 b. reflexivity.
    + intros q0 b r0 Hq Hb. cbn [bind] in Hb.
      destruct (eval f c b) as [v|]; cbn [bind] in Hb; [|discriminate].
      destruct (as_nodes v) as [nsl|]; cbn [bind] in Hb; [|discriminate].
      inversion Hb; subst. apply merge_ordered. exact Hq.
  - discriminate.
  - destruct (lookup_var (cx_vars c) ns local) as [v|] eqn:E; [|discriminate].
    inversion H; subst. eapply Hv; eauto.
  - eapply IH; eauto.
  - discriminate.
  - apply call_function_scalar in H. discriminate.
  - discriminate.
  - (* location path *)
    destruct head as [h|].
    + destruct h; try discriminate;
        (match type of H with (do v <- ?E; _) = _ => destruct E as [v|]; cbn [bind] in H; [|discriminate] end;
         destruct (as_nodes v) as [nsl|]; cbn [bind] in H; [|discriminate];
         match type of H with (do l1 <- ?A; _) = _ => destruct A as [l1|] eqn:EA; cbn [bind] in H; [|discriminate] end;
         match type of H with (do r <- ?S; _) = _ => destruct S as [r1|] eqn:ES; cbn [bind] in H; [|discriminate] end;
         inversion H; subst;
         eapply steps_result_ordered; [|exact ES];
         eapply sublist_ordered; [eapply apply_preds_sublist; exact EA | apply merge_ordered, ordered_nil]).
    + cbn [bind] in H.
      match type of H with (do r <- ?S; _) = _ => destruct S as [r1|] eqn:ES; cbn [bind] in H; [|discriminate] end.
      inversion H; subst. eapply steps_result_ordered; [apply ordered_one | exact ES].
Qed.

(** or / and: short-circuit evaluation gives the logical connective (when both operands evaluate) *)
Lemma eval_or f c a b x y :
  eval f c a = Ok x -> eval f c b = Ok y ->
  eval (S f) c (EOr a b) = Ok (VBool (to_boolean x || to_boolean y)).
Proof.
  intros Ha Hb. cbn [eval]. unfold ev_bool. rewrite Ha. cbn [bind].
  destruct (to_boolean x); cbn [orb]; [reflexivity|]. rewrite Hb. reflexivity.
Qed.

Lemma eval_and f c a b x y :
  eval f c a = Ok x -> eval f c b = Ok y ->
  eval (S f) c (EAnd a b) = Ok (VBool (to_boolean x && to_boolean y)).
Proof.
  intros Ha Hb. cbn [eval]. unfold ev_bool. rewrite Ha. cbn [bind].
  destruct (to_boolean x); cbn [andb]; [|reflexivity]. rewrite Hb. reflexivity.
Qed.

(* a comparison expression evaluates to the comparison rule applied to the operand values *)
Lemma eval_eq_rule f c a b x y :
  eval f c a = Ok x -> eval f c b = Ok y ->
  exists r, eval (S f) c (EEq a b) = Ok (VBool r) /\ (r = true <-> cmp_rule c CEq x y).
Proof.
  intros Ha Hb. exists (compare c CEq x y). split.
  - cbn [eval]. rewrite Ha. cbn [bind]. rewrite Hb. reflexivity.
  - apply compare_rule.
Qed.
