(* C01 core3: top-level variables / params composed with the interpreter of XsltCore2Defs.v.

   The references to top-level bindings happen INSIDE the evaluation of an expression, which is an abstract mechanism of
   the machine; XsltCore3Model.v shows that such a reference - VariablesStack::findXObject, lazily, through the guard stack -
   returns the reference value gval from any consistent state, whatever local frames the place of reference has, and
   leaves the VariablesStack and the guard stack exactly as they were.  So the program with top-level bindings runs on the
   machine of XsltCore2Defs.v with every expression closed over the values of the top-level bindings it mentions
   (mech3_to_2), and the reference semantics is sem2 over the same closed expressions (XSLT 1.0 11.4: evaluated once, in
   the context of the root, visible everywhere they are not shadowed), undefined when a binding is circular.
   NOT formalised as machine transitions: the interleaving of the forcing steps with the steps of the instruction machine
   (they are inside the abstract XPath evaluation); what is proved of them is lazy_references_give_the_constants. *)
From Coq Require Import List NArith Bool Arith Lia.
Require Import XV.XsltEventsDefs XV.XsltVarsDefs XV.XsltVarsModel XV.XsltCoreDefs XV.XsltCoreModel XV.XsltCoreSim.
Require Import XV.XsltCore2Defs XV.XsltCore2Model XV.XsltCore2Sim XV.XsltCore2Pkg XV.XsltCore3Defs XV.XsltCore3Model.
Import ListNotations.

Record mech3 := mkMech3 {
  m3_base : mech2;                  (* the mechanisms and the templates; an expression's xvars are its LOCAL variables *)
  m3_root : N;                      (* the root node: the context of every top-level expression *)
  m3_gdefs : list gdef;             (* the top-level bindings in push order *)
  m3_ext : list (N * value);        (* external params *)
  m3_gmention : N -> list N }.      (* expression identity -> the top-level names it mentions (not bound locally there) *)

Definition GVal (m : mech3) := gval (m2c_value (m3_base m)) (m3_root m) (m3_gdefs m) (m3_ext m).
Definition GValue (m : mech3) := gvalue (m2c_value (m3_base m)) (m3_root m) (m3_gdefs m) (m3_ext m).
Definition AllDefined (m : mech3) := all_defined (m2c_value (m3_base m)) (m3_root m) (m3_gdefs m) (m3_ext m).

(* the values of the top-level bindings an expression mentions *)
Definition gvals (m : mech3) (id : N) : list value :=
  map (fun n => match lookup n (genv (m3_gdefs m)) with
                | Some k => match GValue m k with Some v => v | None => empty_string_value end
                | None => empty_string_value
                end) (m3_gmention m id).

Definition mech3_to_2 (m : mech3) : mech2 :=
  let b := m3_base m in
  mkMech2 (fun id vs => m2c_value b id (vs ++ gvals m id)) (fun id vs => m2c_string b id (vs ++ gvals m id))
          (fun id vs => m2c_bool b id (vs ++ gvals m id)) (fun id vs => m2c_nodes b id (vs ++ gvals m id))
          (fun id vs => m2c_sort b id (vs ++ gvals m id)) (m2c_template b) (m2c_copy b) (m2c_shallow b) (m2c_program b)
          (m2c_name_ok b) (m2c_pi_ok b).

(* reference semantics: a circular (or unbound) top-level definition is an error of the stylesheet *)
Definition SemMain3 (m : mech3) (f : nat) : option (list item) :=
  if AllDefined m then SemMain2 false (mech3_to_2 m) f (m3_root m) else None.

Definition MachineMain3 (fxf fxc : bool) (m : mech3) (fuel : nat) : res2 := MachineMain2 fxf fxc (mech3_to_2 m) fuel (m3_root m).

Lemma mech3_ok : forall m, mech2_ok (m3_base m) -> mech2_ok (mech3_to_2 m).
Proof.
  intros m (H1 & H2 & H3 & H4 & H5 & H6). unfold mech2_ok, mech3_to_2. cbn [m2c_nodes m2c_sort m2c_copy m2c_shallow m2c_name_ok m2c_value].
  repeat split; auto. intros id vs n p z t. apply H6.
Qed.

Lemma machine3_refines_sem3_pkg : forall fxc m, mech2_ok (m3_base m) -> forall f items,
  SemMain3 m f = Some items ->
  exists k s, (forall j, MachineMain3 true fxc m (k + j) = Done2 s) /\ result_tree2 s = Some (result_of items).
Proof.
  intros fxc m Hm f items H. unfold SemMain3 in H. destruct (AllDefined m); try discriminate.
  exact (machine2_refines_sem2_pkg fxc (mech3_to_2 m) (mech3_ok m Hm) f (m3_root m) items H).
Qed.

(* what an expression is closed over is what its references return: at ANY point of the run (any local frames F above the
   frame the references start from, any consistent contents sl of the global entries - i.e. whatever was forced before, in
   whatever order), forcing the top-level names the expression mentions, left to right, returns exactly gvals, restores
   the VariablesStack and the guard stack, and keeps the entries consistent *)
Lemma lazy_references_give_the_constants_pkg : forall m id F R sl,
  (forall n, In n (m3_gmention m id) -> loc n F = None /\ exists k v, lookup n (genv (m3_gdefs m)) = Some k /\ GValue m k = Some v) ->
  Good (genv (m3_gdefs m)) F R ->
  Cons (m2c_value (m3_base m)) (m3_root m) (m3_gdefs m) (m3_ext m) sl ->
  exists sl', force_all (m2c_value (m3_base m)) (m3_root m) (m3_gdefs m) (gfuel (m3_gdefs m)) (m3_gmention m id)
                        (mkL (st (F ++ ECtx :: R) (gl (m3_gdefs m))) sl [])
              = FOk (gvals m id, mkL (st (F ++ ECtx :: R) (gl (m3_gdefs m))) sl' [])
              /\ Cons (m2c_value (m3_base m)) (m3_root m) (m3_gdefs m) (m3_ext m) sl'.
Proof.
  intros m id F R sl Hn HG HC. unfold gvals.
  assert (Hm : forall names, (forall n, In n names -> exists k v, lookup n (genv (m3_gdefs m)) = Some k /\ GValue m k = Some v) ->
            map_opt (dep (m2c_value (m3_base m)) (m3_root m) (m3_gdefs m) (m3_ext m) (gfuel (m3_gdefs m))) names =
            Some (map (fun n => match lookup n (genv (m3_gdefs m)) with
                                | Some k => match GValue m k with Some v => v | None => empty_string_value end
                                | None => empty_string_value
                                end) names)).
  { induction names as [|x r IH]; intros H. reflexivity.
    cbn [map_opt map]. destruct (H x (or_introl eq_refl)) as [k [v [Hk Hv]]]. rewrite (IH (fun n Hi => H n (or_intror Hi))).
    unfold dep at 1. rewrite Hk. rewrite Hv. change (gval (m2c_value (m3_base m)) (m3_root m) (m3_gdefs m) (m3_ext m) (gfuel (m3_gdefs m)) k) with (GValue m k).
    rewrite Hv. reflexivity. }
  destruct (force_all_complete (m2c_value (m3_base m)) (m3_root m) (m3_gdefs m) (m3_ext m) (gfuel (m3_gdefs m)) (m3_gmention m id) _
              (mkL (st (F ++ ECtx :: R) (gl (m3_gdefs m))) sl []) F R (gfuel (m3_gdefs m)) HG eq_refl
              (fun n Hi => proj1 (Hn n Hi)) (Hm _ (fun n Hi => proj2 (Hn n Hi))) eq_refl HC (le_n _)) as [sl' [Hr [HC' _]]].
  exists sl'. split; [exact Hr|exact HC'].
Qed.
