(* C16 — the key-value caches of NodeSorter are transparent: a slot holds either something the
   dummy test accepts (then the key is evaluated again) or the real value of the key. *)
From Coq Require Import ZArith List Bool Arith Lia.
Import ListNotations.
Require Import XV.GenSort XV.SortDefs.

Section CacheFacts.
  Variable V : Type.
  Variable dummy : V.
  Variable is_dummy : V -> bool.
  Variable dflt : V.
  Variable nkeys nnodes : nat.
  Variable ev : nat -> nat -> V.
  Hypothesis DUMMY : is_dummy dummy = true.

  Lemma upd_length : forall p v (l : list V), length (upd V p v l) = length l.
  Proof. induction p; destruct l; simpl; auto. Qed.

  Lemma upd_nth_same : forall p v (l : list V) d, p < length l -> nth p (upd V p v l) d = v.
  Proof. induction p; destruct l; simpl; intros; try lia; auto. apply IHp. lia. Qed.

  Lemma upd_nth_other : forall p q v (l : list V) d, q <> p -> nth q (upd V p v l) d = nth q l d.
  Proof. induction p; destruct l; destruct q; simpl; intros; try lia; auto. Qed.

  Lemma upd_row_length : forall k f (c : list (list V)), length (upd_row V k f c) = length c.
  Proof. induction k; destruct c; simpl; auto. Qed.

  Lemma upd_row_nth_same : forall k f (c : list (list V)) d, k < length c -> nth k (upd_row V k f c) d = f (nth k c d).
  Proof. induction k; destruct c; simpl; intros; try lia; auto. apply IHk. lia. Qed.

  Lemma upd_row_nth_other : forall k q f (c : list (list V)) d, q <> k -> nth q (upd_row V k f c) d = nth q c d.
  Proof. induction k; destruct c; destruct q; simpl; intros; try lia; auto. Qed.

  Lemma nth_repeat_lt : forall (a d : V) n q, q < n -> nth q (repeat a n) d = a.
  Proof. induction n; destruct q; simpl; intros; try lia; auto. apply IHn. lia. Qed.

  Definition slot_ok (k p : nat) (v : V) : Prop := is_dummy v = true \/ v = ev k p.
  Definition row_ok (k : nat) (row : list V) : Prop :=
    row = [] \/ (length row = nnodes /\ forall p, p < nnodes -> slot_ok k p (nth p row dflt)).
  Definition cache_ok (c : list (list V)) : Prop :=
    c = [] \/ (length c = nkeys /\ forall k, k < nkeys -> row_ok k (nth k c [])).

  Lemma repeat_nil_rows_ok : forall k, row_ok k (nth k (repeat (@nil V) nkeys) []).
  Proof.
    intros k. left. destruct (Nat.lt_ge_cases k nkeys).
    - apply nth_repeat.
    - apply nth_overflow. rewrite repeat_length. exact H.
  Qed.

  Theorem cache_get_transparent : forall c k p,
      cache_ok c -> k < nkeys -> p < nnodes ->
      fst (cache_get V dummy is_dummy dflt nkeys nnodes ev c k p) = ev k p /\
      cache_ok (snd (cache_get V dummy is_dummy dflt nkeys nnodes ev c k p)).
  Proof.
    intros c k p OK Hk Hp. unfold cache_get.
    set (c1 := match c with [] => repeat [] nkeys | _ => c end).
    assert (L1 : length c1 = nkeys).
    { unfold c1. destruct OK as [->|[L _]]; [apply repeat_length|]. destruct c; [simpl in L; subst; reflexivity | exact L]. }
    assert (R1 : forall k', k' < nkeys -> row_ok k' (nth k' c1 [])).
    { intros k' Hk'. unfold c1. destruct OK as [->|[_ R]]; [apply repeat_nil_rows_ok|].
      destruct c; [apply repeat_nil_rows_ok | apply R; exact Hk']. }
    set (row := nth k c1 []).
    set (row' := match row with
                 | [] => upd V p (ev k p) (repeat dummy nnodes)
                 | _ :: _ => if is_dummy (nth p row dflt) then upd V p (ev k p) row else row
                 end).
    assert (ROW : length row' = nnodes /\ nth p row' dflt = ev k p /\
                  forall q, q < nnodes -> slot_ok k q (nth q row' dflt)).
    { pose proof (R1 k Hk) as RK. fold row in RK. unfold row'. destruct row as [|r0 rt] eqn:ER.
      - split; [rewrite upd_length; apply repeat_length|].
        split; [apply upd_nth_same; rewrite repeat_length; exact Hp|].
        intros q Hq. destruct (Nat.eq_dec q p) as [->|NE].
        + right. apply upd_nth_same. rewrite repeat_length. exact Hp.
        + left. rewrite upd_nth_other by exact NE. rewrite nth_repeat_lt by exact Hq. exact DUMMY.
      - destruct RK as [RK|[LR SR]]; [discriminate|].
        destruct (is_dummy (nth p (r0 :: rt) dflt)) eqn:D.
        + split; [rewrite upd_length; exact LR|].
          split; [apply upd_nth_same; rewrite LR; exact Hp|].
          intros q Hq. destruct (Nat.eq_dec q p) as [->|NE].
          * right. apply upd_nth_same. rewrite LR. exact Hp.
          * rewrite upd_nth_other by exact NE. apply SR. exact Hq.
        + split; [exact LR|]. split; [|exact SR].
          destruct (SR p Hp) as [Hd|Hv]; [congruence | exact Hv]. }
    destruct ROW as (LR & VR & SR). cbn [fst snd]. split; [exact VR|].
    right. split; [rewrite upd_row_length; exact L1|].
    intros k' Hk'. destruct (Nat.eq_dec k' k) as [->|NE].
    - rewrite upd_row_nth_same by (rewrite L1; exact Hk). right. split; [exact LR | exact SR].
    - rewrite upd_row_nth_other by exact NE. apply R1. exact Hk'.
  Qed.

  Lemma cache_ok_empty : cache_ok [].
  Proof. left. reflexivity. Qed.
End CacheFacts.

Lemma num_dummy_ok : num_dummy_test sentinel_bits = true.
Proof. vm_compute. reflexivity. Qed.

Lemma str_dummy_ok : str_dummy_test [] = true.
Proof. reflexivity. Qed.
