// C07 driver: T threads, each with its own XalanTransformer, share ONE compiled stylesheet and/or
// ONE parsed source and transform R times each, barrier-started.  Built twice: against the
// ThreadSanitizer variant of the library (reports on stderr) and plain.
//
// stdin: one case per line
//   <id> <srcmode> <sharexsl> <T> <R> <yieldseed> <outdir> <xsl path> <xml path>
//     srcmode  native   shared XalanDefaultParsedSource        (parseSource(in, ps, false))
//              xdom     shared XercesDOMParsedSource           (parseSource(in, ps, true))
//              wrap     shared XercesDOMWrapperParsedSource over a DOM built by the driver
//              own      no shared source: every thread parses the file itself
//     sharexsl 1 = one XalanCompiledStylesheet for all threads, 0 = every thread compiles its own
//     yieldseed 0 = no perturbation, else seed of per-thread random yields/sleeps between and
//              before transformations
// Every thread k passes the top-level parameter tid='k' (so a leak between per-thread contexts
// changes bytes).  Reference outputs (one per k) are produced single-threaded, before any thread
// starts, on SEPARATE compiled-stylesheet / parsed-source instances, so that the shared
// instances are cold (lazily built state not yet built) when the threads start.
// stdout: "<id> <status> T=<T> R=<R> runs=<n> mismatches=<m> errors=<e> reflen=<len> refhash=<fnv64 of k=0 ref> <msg>"
//   status: ok | mismatch | error | referr (sequential reference failed: not a threading case)
// files:  <outdir>/<id>.ref (k=0 reference), <outdir>/<id>.ref<k>, <outdir>/<id>.bad.t<k>.r<j>
#include "common.hpp"
#include <pthread.h>
#include <sched.h>
#include <unistd.h>
#include <xercesc/parsers/XercesDOMParser.hpp>
#include <xercesc/dom/DOM.hpp>
#include <xercesc/framework/LocalFileInputSource.hpp>
#include <xalanc/XSLT/XSLTInputSource.hpp>
#include <xalanc/XSLT/XSLTResultTarget.hpp>
#include <xalanc/XalanTransformer/XalanCompiledStylesheet.hpp>
#include <xalanc/XalanTransformer/XalanParsedSource.hpp>
#include <xalanc/XalanTransformer/XercesDOMWrapperParsedSource.hpp>
#include <xalanc/XercesParserLiaison/XercesParserLiaison.hpp>
#include <xalanc/XercesParserLiaison/XercesDOMSupport.hpp>

using namespace xalanc;
using namespace verif;

static uint64_t fnv(const std::string& s)
{
    uint64_t h = 1469598103934665603ULL;
    for (size_t i = 0; i < s.size(); ++i) { h ^= (unsigned char)s[i]; h *= 1099511628211ULL; }
    return h;
}

struct DomSource {                 // driver-built Xerces DOM + the documented wrapper parsed source
    xercesc::XercesDOMParser      parser;
    XercesParserLiaison           liaison;
    XercesDOMSupport              support;
    XercesDOMWrapperParsedSource* ps;
    DomSource(const std::string& path) : liaison(), support(liaison), ps(0)
    {
        parser.setDoNamespaces(true);
        parser.setCreateEntityReferenceNodes(false);
        parser.parse(path.c_str());
        xercesc::DOMDocument* d = parser.getDocument();
        if (d == 0) throw std::string("DOM parse failed");
        XalanDOMString uri(("file://" + path).c_str());
        ps = new XercesDOMWrapperParsedSource(d, liaison, support, uri);
    }
    ~DomSource() { delete ps; }
};

struct Sources {                   // one instance of (compiled stylesheet, parsed source)
    XalanTransformer                owner;
    const XalanCompiledStylesheet*  cs;
    const XalanParsedSource*        ps;
    DomSource*                      dom;
    std::string                     err;
    Sources() : cs(0), ps(0), dom(0) {}
    bool build(const std::string& mode, const std::string& xsl, const std::string& xml)
    {
        if (owner.compileStylesheet(XSLTInputSource(xsl.c_str()), cs) != 0) { err = std::string("compile: ") + owner.getLastError(); return false; }
        if (mode == "native" || mode == "xdom") {
            if (owner.parseSource(XSLTInputSource(xml.c_str()), ps, mode == "xdom") != 0) { err = std::string("parse: ") + owner.getLastError(); return false; }
        } else if (mode == "wrap") {
            try { dom = new DomSource(xml); } catch (...) { err = "DOM build failed"; return false; }
            ps = dom->ps;
        }
        return true;
    }
    ~Sources() { delete dom; }
};

static int run_one(XalanTransformer& t, const Sources* sh, const XalanCompiledStylesheet* cs,
                   const std::string& xml, int k, std::string& out, std::string& err)
{
    std::ostringstream os;
    char pv[32];
    std::snprintf(pv, sizeof pv, "'%d'", k);
    t.setStylesheetParam("tid", pv);
    int rc;
    if (sh->ps != 0) rc = t.transform(*sh->ps, cs, XSLTResultTarget(os));
    else             rc = t.transform(XSLTInputSource(xml.c_str()), cs, XSLTResultTarget(os));
    t.clearStylesheetParams();
    out = os.str();
    if (rc != 0) err = t.getLastError();
    return rc;
}

struct Shared {
    const Sources* sh; std::string xsl, xml; int T, R; unsigned yieldseed; bool sharexsl;
    pthread_barrier_t barrier;
    std::vector<std::string> ref;
};

struct Worker {
    Shared* s; int k; pthread_t th;
    int mismatches, errors, runs; std::string msg; std::vector<std::pair<int, std::string> > bad;
};

static void perturb(unsigned& st)
{
    st = st * 1103515245u + 12345u;
    unsigned v = (st >> 16) & 7;
    if (v == 0) usleep(((st >> 8) & 255) + 1);
    else if (v < 4) sched_yield();
}

static void* worker(void* p)
{
    Worker* w = (Worker*)p;
    Shared* s = w->s;
    XalanTransformer t;                       // own transformer
    const XalanCompiledStylesheet* cs = s->sh->cs;
    bool compiled = true;
    unsigned st = s->yieldseed * 2654435761u + w->k * 40503u + 1;
    pthread_barrier_wait(&s->barrier);
    if (!s->sharexsl) {
        if (t.compileStylesheet(XSLTInputSource(s->xsl.c_str()), cs) != 0) { compiled = false; w->errors++; w->msg = std::string("compile: ") + t.getLastError(); }
    }
    for (int j = 0; compiled && j < s->R; ++j) {
        if (s->yieldseed) perturb(st);
        std::string out, err;
        int rc = run_one(t, s->sh, cs, s->xml, w->k, out, err);
        w->runs++;
        if (rc != 0) { w->errors++; if (w->msg.empty()) w->msg = "transform: " + err; }
        else if (out != s->ref[w->k]) { w->mismatches++; if (w->bad.size() < 2) w->bad.push_back(std::make_pair(j, out)); }
    }
    return 0;
}

static void put(const std::string& path, const std::string& data)
{
    std::ofstream f(path.c_str(), std::ios::binary);
    f << data;
}

static std::string oneline(std::string s)
{
    for (size_t i = 0; i < s.size(); ++i) if (s[i] == '\n' || s[i] == '\r') s[i] = ' ';
    return s.substr(0, 300);
}

int main()
{
    Init init;
    std::string line;
    while (std::getline(std::cin, line)) {
        std::vector<std::string> f = split(line);
        if (f.size() < 9 || f[0][0] == '#') continue;
        const std::string id = f[0], mode = f[1], outdir = f[6], xsl = f[7], xml = f[8];
        Shared s;
        s.sharexsl = f[2] == "1"; s.T = std::atoi(f[3].c_str()); s.R = std::atoi(f[4].c_str());
        s.yieldseed = (unsigned)std::strtoul(f[5].c_str(), 0, 10); s.xsl = xsl; s.xml = xml;
        // 1. sequential references on separate instances
        bool refok = true; std::string msg;
        {
            Sources refsrc;
            if (!refsrc.build(mode, xsl, xml)) { refok = false; msg = refsrc.err; }
            for (int k = 0; refok && k < s.T; ++k) {
                XalanTransformer t;
                std::string out, err;
                if (run_one(t, &refsrc, refsrc.cs, xml, k, out, err) != 0) { refok = false; msg = "k=" + std::to_string(k) + " " + err; break; }
                s.ref.push_back(out);
                // and once more on the same (now warm) instances: sequential determinism
                std::string out2, err2;
                if (run_one(t, &refsrc, refsrc.cs, xml, k, out2, err2) != 0 || out2 != out) { refok = false; msg = "sequential re-run differs for k=" + std::to_string(k); break; }
            }
        }
        if (!refok) {
            std::cout << id << " referr T=" << s.T << " R=" << s.R << " runs=0 mismatches=0 errors=1 reflen=0 refhash=0 " << oneline(msg) << std::endl;
            continue;
        }
        put(outdir + "/" + id + ".ref", s.ref[0]);
        for (int k = 1; k < s.T; ++k) put(outdir + "/" + id + ".ref" + std::to_string(k), s.ref[k]);
        // 2. the shared (cold) instances
        Sources shared;
        if (!shared.build(mode, xsl, xml)) {
            std::cout << id << " error T=" << s.T << " R=" << s.R << " runs=0 mismatches=0 errors=1 reflen=0 refhash=0 second build failed: " << oneline(shared.err) << std::endl;
            continue;
        }
        s.sh = &shared;
        pthread_barrier_init(&s.barrier, 0, s.T);
        std::vector<Worker> ws(s.T);
        for (int k = 0; k < s.T; ++k) { ws[k].s = &s; ws[k].k = k; ws[k].mismatches = ws[k].errors = ws[k].runs = 0; }
        for (int k = 0; k < s.T; ++k) pthread_create(&ws[k].th, 0, worker, &ws[k]);
        for (int k = 0; k < s.T; ++k) pthread_join(ws[k].th, 0);
        pthread_barrier_destroy(&s.barrier);
        int mm = 0, ee = 0, runs = 0;
        for (int k = 0; k < s.T; ++k) {
            mm += ws[k].mismatches; ee += ws[k].errors; runs += ws[k].runs;
            if (msg.empty() && !ws[k].msg.empty()) msg = "thread " + std::to_string(k) + ": " + ws[k].msg;
            for (size_t b = 0; b < ws[k].bad.size(); ++b)
                put(outdir + "/" + id + ".bad.t" + std::to_string(k) + ".r" + std::to_string(ws[k].bad[b].first), ws[k].bad[b].second);
        }
        char hb[32]; std::snprintf(hb, sizeof hb, "%016llx", (unsigned long long)fnv(s.ref[0]));
        std::cout << id << " " << (ee ? "error" : mm ? "mismatch" : "ok") << " T=" << s.T << " R=" << s.R << " runs=" << runs
                  << " mismatches=" << mm << " errors=" << ee << " reflen=" << s.ref[0].size() << " refhash=" << hb << " " << oneline(msg) << std::endl;
    }
    return 0;
}
