(* XpSpecFunModel.v — the core function library as coded ([call_function] of XpDefs.v: dispatch on
   the name, then on the number of arguments, arguments evaluated by the given evaluator [ev]) is the
   declarative function library [fun_den] of XpSpecDenDefs.v applied to the VALUES of the arguments:
   a call answers [Ok v] exactly when every argument has a value and [fun_den] relates the name, the
   values and v.  Corollary: [fun_den] is deterministic. *)
From Coq Require Import ZArith NArith List Bool Arith Lia.
Require Import XV.GenNum XV.NumDefs XV.XpAst XV.DomDefs XV.XpDefs XV.XpModel XV.XpSpecDefs
  XV.XpSpecEvalModel XV.XpSpecDenDefs.
Import ListNotations.

(** * small facts *)
Lemma bool_iff_eq (b r : bool) (P : Prop) : (b = true <-> P) -> (r = true <-> P) -> b = r.
Proof.
  intros [A B] [C D]. destruct b, r; auto. symmetry. auto.
Qed.

Lemma Forall2_same_length {A B} (P : A -> B -> Prop) l l' : Forall2 P l l' -> length l = length l'.
Proof. induction 1; cbn [length]; congruence. Qed.

Section FunDen.
  Variable ev : ctx -> expr -> res value.
  Variable c : ctx.
  (* [ev_num] answers a number literal without calling [ev] *)
  Hypothesis ev_numlit : forall t, ev c (ENumLit t) = Ok (VNum (string_to_number t)).

  Lemma ev_num_eq x : ev_num ev c x = (do v <- ev c x; Ok (to_number c v)).
  Proof. destruct x; try reflexivity. cbn [ev_num]. rewrite ev_numlit. reflexivity. Qed.

  (** concat: the fold over the arguments, with an accumulator *)
  Lemma cat_fold_err args e :
    fold_left (fun acc x => do q <- acc; do s <- (do v <- ev c x; Ok (to_string c v)); Ok (q ++ s))
              args (Err e) = Err e.
  Proof. induction args as [|a r IH]; [reflexivity|]. cbn [fold_left bind]. exact IH. Qed.

  Lemma cat_fold args : forall q ss,
    fold_left (fun acc x => do q <- acc; do s <- (do v <- ev c x; Ok (to_string c v)); Ok (q ++ s))
              args (Ok q) = Ok ss <->
    exists vals, Forall2 (fun a va => ev c a = Ok va) args vals /\
                 ss = q ++ concat (map (to_string c) vals).
  Proof.
    induction args as [|a r IH]; intros q ss; cbn [fold_left].
    - split.
      + intros H. injection H as <-. exists []. split; [constructor|]. cbn. now rewrite app_nil_r.
      + intros [vals [HF ->]]. inversion HF; subst. cbn. now rewrite app_nil_r.
    - cbn [bind]. destruct (ev c a) as [va|e] eqn:Ea; cbn [bind].
      + rewrite IH. split.
        * intros [vals [HF ->]]. exists (va :: vals). split; [constructor; assumption|].
          cbn [map concat]. now rewrite app_assoc.
        * intros [vals [HF ->]]. inversion HF as [|a' y r' l' Hy HF']; subst.
          rewrite Ea in Hy. injection Hy as <-. exists l'. split; [assumption|].
          cbn [map concat]. now rewrite app_assoc.
      + rewrite cat_fold_err. split; [discriminate|].
        intros [vals [HF _]]. inversion HF; subst. congruence.
  Qed.

  (** * the code answers Ok only through [fun_den] *)
  (* walk the chain of name tests: in each branch the name is the literal *)
  Ltac chain :=
    lazymatch goal with
    | |- (if fn_is ?n ?l then _ else _) = _ -> _ =>
        let E := fresh "E" in
        destruct (fn_is n l) eqn:E;
        [unfold fn_is in E; apply str_eqb_eq in E; subst n | clear E; chain]
    | _ => idtac
    end.

  Ltac eval_args H :=
    rewrite ?ev_num_eq in H; unfold ev_bool, bind in H;
    repeat match type of H with
      | context [match ev c ?a with _ => _ end] =>
          let E := fresh "E" in
          revert H; destruct (ev c a) eqn:E; intros H; cbv beta iota in H; [|discriminate H]
      | context [as_nodes ?x] =>
          destruct x; cbn [as_nodes] in H; cbv beta iota in H; try discriminate H
      end.

  Ltac args_values :=
    repeat (first [apply Forall2_nil | apply Forall2_cons; [eassumption|]]).

  Lemma call_function_den_fwd name args v :
    call_function ev c name args = Ok v ->
    exists vals, Forall2 (fun a va => ev c a = Ok va) args vals /\ fun_den c name vals v.
  Proof.
    unfold call_function. cbv zeta. chain; intros H.
    27: discriminate H.
    18: { (* concat *)
      destruct args as [|a0 [|a1 r]]; try discriminate H.
      unfold bind at 1 in H.
      match type of H with match ?X with _ => _ end = _ => destruct X as [ss|] eqn:F end;
        [|discriminate H].
      injection H as <-. apply cat_fold in F. destruct F as [vals [HF ->]].
      exists vals. split; [exact HF|]. apply fd_concat.
      apply Forall2_same_length in HF. rewrite <- HF. cbn [length]. lia. }
    all: destruct args as [|? [|? [|? [|? ?]]]]; cbv beta iota in H; try discriminate H;
      eval_args H; injection H as <-; eexists; (split; [args_values|]).
    all: try solve [constructor].
    all: try solve [match goal with |- context [VNodes ?l] => destruct l end; constructor].
    - apply fd_contains. exact (contains_spec _ _).
    - apply fd_starts_with. exact (starts_with_spec _ _).
  Qed.

  (** * every [fun_den] fact is answered by the code *)
  Ltac reduce_chain :=
    repeat match goal with
    | |- context [fn_is ?a ?b] =>
        let r := eval vm_compute in (fn_is a b) in
        change (fn_is a b) with r; cbv beta iota
    end.

  Ltac invert_args :=
    repeat match goal with
    | H : Forall2 _ _ (_ :: _) |- _ => inversion H; clear H; subst
    | H : Forall2 _ _ [] |- _ => inversion H; clear H; subst
    end.

  (* the same argument expression twice has one value *)
  Ltac dedupe :=
    repeat match goal with
    | H1 : ev c ?a = Ok ?v1, H2 : ev c ?a = Ok ?v2 |- _ =>
        assert (v1 = v2) by congruence; subst v2; clear H2
    end.

  Ltac use_values :=
    rewrite ?ev_num_eq; unfold ev_bool;
    repeat match goal with H : ev c ?a = Ok _ |- _ => rewrite H; clear H end;
    cbn [bind as_nodes].

  Lemma call_function_den_bwd name args vals v :
    Forall2 (fun a va => ev c a = Ok va) args vals -> fun_den c name vals v ->
    call_function ev c name args = Ok v.
  Proof.
    intros HF HD. revert args HF. destruct HD; intros args HF; invert_args;
      unfold call_function; cbv zeta; reduce_chain; dedupe; use_values; try reflexivity.
    - destruct l; reflexivity.
    - destruct l; reflexivity.
    - destruct l; reflexivity.
    - (* concat *)
      pose proof (Forall2_same_length _ _ _ HF) as L.
      destruct args as [|a0 [|a1 r]]; cbn [length] in L; try lia.
      match goal with |- bind ?X _ = _ =>
        assert (X = Ok ([] ++ concat (map (to_string c) vals))) as ->
          by (apply cat_fold; exists vals; split; [exact HF | reflexivity]) end.
      reflexivity.
    - do 2 f_equal. eapply bool_iff_eq; [apply starts_with_spec | eassumption].
    - do 2 f_equal. eapply bool_iff_eq; [exact (contains_spec _ _) | eassumption].
  Qed.
End FunDen.

Theorem call_function_den : forall (ev : ctx -> expr -> res value) (c : ctx),
  (forall t, ev c (ENumLit t) = Ok (VNum (string_to_number t))) ->
  forall name args v,
  call_function ev c name args = Ok v <->
  exists vals, Forall2 (fun a va => ev c a = Ok va) args vals /\ fun_den c name vals v.
Proof.
  intros ev c Hn name args v. split.
  - apply call_function_den_fwd; assumption.
  - intros [vals [HF HD]]. eapply call_function_den_bwd; eassumption.
Qed.

(** * the function library is deterministic on values *)
Lemma fun_den_deterministic : forall c name vals v1 v2,
  fun_den c name vals v1 -> fun_den c name vals v2 -> v1 = v2.
Proof.
  intros c name vals v1 v2 H1 H2.
  destruct H1; inversion H2; subst; try reflexivity;
    try (match goal with H : _ = _ |- _ => discriminate H end).
  - f_equal. eapply bool_iff_eq; eassumption.
  - f_equal. eapply bool_iff_eq; eassumption.
Qed.

Print Assumptions call_function_den.
Print Assumptions fun_den_deterministic.
