"""C01: fixed regression cases that need several stylesheet modules (whole transformations with in-memory imports),
each a defect repaired in /repo whose replay must keep passing.  Oracle = the expected output written from the
Recommendation; no model involved."""
from vlib import core, xsltrun

X = 'version="1.0" xmlns:xsl="http://www.w3.org/1999/XSL/Transform"'

CASES = [
    # repaired by 9c1f5e3: xsl:call-template does not change the current template rule (XSLT 1.0, 6 and 5.6)
    {"id": "call-template-keeps-current-rule",
     "sheet": '<xsl:stylesheet %s><xsl:import href="imp1.xsl"/><xsl:output method="text"/>'
              '<xsl:template match="a">[main:<xsl:call-template name="t"/>]</xsl:template>'
              '<xsl:template match="b">[b:<xsl:for-each select="."><xsl:call-template name="u"/></xsl:for-each>]</xsl:template>'
              '<xsl:template name="u">u</xsl:template></xsl:stylesheet>' % X,
     "files": {"imp1.xsl": '<xsl:stylesheet %s><xsl:import href="imp2.xsl"/><xsl:template name="t"><xsl:apply-imports/></xsl:template>'
                           '<xsl:template match="a">[imp1]</xsl:template></xsl:stylesheet>' % X,
               "imp2.xsl": '<xsl:stylesheet %s><xsl:template match="a">[imp2]</xsl:template></xsl:stylesheet>' % X},
     "source": "<r><a/><b/></r>", "expect": b"[main:[imp1]][b:u]"},
    # the same through two levels of named templates, and apply-imports directly in the matched rule (control)
    {"id": "call-template-chain-keeps-current-rule",
     "sheet": '<xsl:stylesheet %s><xsl:import href="imp1.xsl"/><xsl:output method="text"/>'
              '<xsl:template match="a">[main:<xsl:call-template name="t1"/>|<xsl:apply-imports/>]</xsl:template>'
              '<xsl:template name="t1"><xsl:call-template name="t"/></xsl:template></xsl:stylesheet>' % X,
     "files": {"imp1.xsl": '<xsl:stylesheet %s><xsl:import href="imp2.xsl"/><xsl:template name="t"><xsl:apply-imports/></xsl:template>'
                           '<xsl:template match="a">[imp1:<xsl:apply-imports/>]</xsl:template></xsl:stylesheet>' % X,
               "imp2.xsl": '<xsl:stylesheet %s><xsl:template match="a">[imp2]</xsl:template></xsl:stylesheet>' % X},
     "source": "<a/>", "expect": b"[main:[imp1:[imp2]]|[imp1:[imp2]]]"},
]


def run_part(ctx):
    exe, ok, log = xsltrun.build()
    if not ok:
        ctx.broken.append("xslt driver does not compile against the working tree: " + log[-300:])
        return
    res = xsltrun.run([{k: c[k] for k in ("id", "sheet", "source", "files")} for c in CASES], exe=exe)
    for c in CASES:
        ctx.cov["evaluations"] += 1
        ctx.count("regress:" + c["id"])
        r = res.get(c["id"], ("crash",))
        if r[0] != "ok" or r[1] != c["expect"]:
            ctx.violation("regress_" + c["id"].replace("-", "_"),
                          "property C01, regression case %s\nexpected %r\nlibrary  %r\nSHEET %s\nFILES %r\nSOURCE %s\n"
                          % (c["id"], c["expect"], r[:3], c["sheet"], c["files"], c["source"]))
        else:
            ctx.cov["traces_validated_against_impl"] += 1
