(* C03, part "errors": proofs about the guards of SafeErrDefs.v. *)
From Coq Require Import List Arith Bool NArith Lia ZifyBool ZifyNat ZifyN.
Require Import XV.SafeErrDefs.
Import ListNotations.

Ltac splits := repeat match goal with |- _ /\ _ => split end.

(* ---------------------------------------------------------------------------------------------- *)
(* the inner loops *)

Lemma g_eval_unfold mode memo dlimit deps f s v :
  g_eval mode memo dlimit deps (S f) s v =
  if memo && mem v (g_cache s) then GOk s
  else if guard_hit mode (g_guard s) v then GCirc s v
  else if depth_hit dlimit (g_guard s) then GDeep s v
  else match g_args mode memo dlimit deps f (deps v) (g_push v s) with
       | GOk s2 => GOk (g_store memo v (g_pop s2))
       | e => e
       end.
Proof.
  cbn [g_eval].
  destruct (memo && mem v (g_cache s)); [reflexivity|].
  destruct (guard_hit mode (g_guard s) v); [reflexivity|].
  destruct (depth_hit dlimit (g_guard s)); [reflexivity|].
  generalize (g_push v s). generalize (deps v).
  assert (E : forall ds s0,
    (fix args (ds : list nat) (s : gstate) {struct ds} : gres :=
       match ds with
       | [] => GOk s
       | d :: r => match g_eval mode memo dlimit deps f s d with GOk s' => args r s' | e => e end
       end) ds s0 = g_args mode memo dlimit deps f ds s0).
  { induction ds as [|d r IH]; intros s0; cbn [g_args]; [reflexivity|].
    destruct (g_eval mode memo dlimit deps f s0 d); try reflexivity. apply IH. }
  intros ds s0. rewrite E. reflexivity.
Qed.

Lemma t_call_unfold cmp limit calls f s t :
  t_call cmp limit calls (S f) s t =
  if limit_hit cmp (t_size s) limit then TErr s
  else match t_body cmp limit calls f (calls t) (t_push s) with
       | TOk s2 => TOk (t_pop s2)
       | e => e
       end.
Proof.
  cbn [t_call].
  destruct (limit_hit cmp (t_size s) limit); [reflexivity|].
  generalize (t_push s). generalize (calls t).
  assert (E : forall cs s0,
    (fix body (cs : list nat) (s : tstate) {struct cs} : tres :=
       match cs with
       | [] => TOk s
       | c :: r => match t_call cmp limit calls f s c with TOk s' => body r s' | e => e end
       end) cs s0 = t_body cmp limit calls f cs s0).
  { induction cs as [|c r IH]; intros s0; cbn [t_body]; [reflexivity|].
    destruct (t_call cmp limit calls f s0 c); try reflexivity. apply IH. }
  intros cs s0. rewrite E. reflexivity.
Qed.

(* ---------------------------------------------------------------------------------------------- *)
(* reachability *)

Lemma reach_trans deps a b c : reach deps a b -> reach deps b c -> reach deps a c.
Proof.
  induction 1; intros; [assumption|]. eapply reach_step; eauto.
Qed.

Lemma reach_one deps a b : In b (deps a) -> reach deps a b.
Proof. intros. eapply reach_step; [eassumption|apply reach_refl]. Qed.

Lemma wf_from_reach deps a b : wf_from deps a -> reach deps a b -> wf_from deps b.
Proof.
  intros W R. induction R; [assumption|].
  apply IHR. inversion W; subst. auto.
Qed.

Lemma wf_from_not_on_cycle deps w : wf_from deps w -> ~ on_cycle deps w.
Proof.
  induction 1 as [v _ IH]. intros [d [Hd R]].
  apply (IH d Hd). inversion R; subst.
  - exists v. split; [assumption|apply reach_refl].
  - exists d0. split; [assumption|].
    eapply reach_trans; [eassumption|]. apply reach_one. assumption.
Qed.

Lemma wf_from_no_cycle deps v : wf_from deps v -> ~ reaches_cycle deps v.
Proof.
  intros W [w [R C]]. eapply wf_from_not_on_cycle; [|exact C].
  eapply wf_from_reach; eassumption.
Qed.

(* ---------------------------------------------------------------------------------------------- *)
(* the guard stack is a dependency path *)

Definition linked (deps : nat -> list nat) (g : list nat) (v : nat) : Prop :=
  match g with [] => True | t :: _ => In v (deps t) end.

Fixpoint chain (deps : nat -> list nat) (g : list nat) : Prop :=
  match g with
  | [] => True
  | a :: r => linked deps r a /\ chain deps r
  end.

Lemma chain_reach deps h t w : chain deps (h :: t) -> In w (h :: t) -> reach deps w h.
Proof.
  revert h. induction t as [|b t IH]; intros h C I.
  - destruct I as [<-|[]]. apply reach_refl.
  - destruct I as [<-|I]; [apply reach_refl|].
    destruct C as [L C]. cbn in L.
    eapply reach_trans; [apply (IH b C I)|]. apply reach_one. assumption.
Qed.

Lemma chain_cycle deps g w :
  chain deps g -> In w g -> linked deps g w -> on_cycle deps w.
Proof.
  destruct g as [|h t]; [intros _ []|]. intros C I L. cbn in L.
  pose proof (chain_reach deps h t w C I) as R.
  inversion R; subst.
  - exists h. split; [assumption|apply reach_refl].
  - exists d. split; [assumption|].
    eapply reach_trans; [eassumption|]. apply reach_one. assumption.
Qed.

Lemma last_of_chain deps g v : chain deps g -> g <> [] -> last g v = v -> forall w, In w g -> reach deps v w.
Proof.
  induction g as [|a r IH]; [intros _ H; congruence|].
  intros C _ L w I. destruct r as [|b r'].
  - cbn in L. subst. destruct I as [<-|[]]. apply reach_refl.
  - destruct C as [La C]. cbn in La.
    assert (Lr : last (b :: r') v = v) by exact L.
    destruct I as [<-|I].
    + eapply reach_trans; [apply (IH C ltac:(discriminate) Lr b (or_introl eq_refl))|].
      apply reach_one. assumption.
    + apply (IH C ltac:(discriminate) Lr w I).
Qed.

(* ---------------------------------------------------------------------------------------------- *)
(* invariant of the evaluation *)

Definition within (dlimit : option nat) (k : nat) : Prop :=
  match dlimit with Some L => k <= L | None => True end.

Record ginv (n : nat) (dlimit : option nat) (deps : nat -> list nat) (s : gstate) : Prop := {
  gi_nodup : NoDup (g_guard s);
  gi_range : forall x, In x (g_guard s) -> x < n;
  gi_chain : chain deps (g_guard s);
  gi_cache : forall c, In c (g_cache s) -> wf_from deps c;
  gi_hw : g_hw s <= n;
  gi_lim : within dlimit (g_hw s);
  gi_len : length (g_guard s) <= g_hw s
}.

Lemma depth_hit_true dl g : depth_hit dl g = true -> exists L, dl = Some L /\ L <= length g.
Proof.
  unfold depth_hit. destruct dl as [L|]; [|discriminate].
  intros E. apply Nat.leb_le in E. eauto.
Qed.

Lemma depth_hit_false dl g : depth_hit dl g = false -> within dl (S (length g)).
Proof.
  unfold depth_hit, within. destruct dl as [L|]; [|tauto].
  intros E. apply Nat.leb_gt in E. lia.
Qed.

Lemma within_max dl a b : within dl a -> within dl b -> within dl (Nat.max a b).
Proof. unfold within. destruct dl; [lia|tauto]. Qed.

Lemma within_le dl a b : a <= b -> within dl b -> within dl a.
Proof. unfold within. destruct dl; [lia|tauto]. Qed.

Lemma guard_length n l : NoDup l -> (forall x, In x l -> x < n) -> length l <= n.
Proof.
  intros ND R. rewrite <- (seq_length n 0).
  apply NoDup_incl_length; [assumption|].
  intros x I. apply in_seq. specialize (R x I). lia.
Qed.

Lemma mem_true v l : mem v l = true <-> In v l.
Proof.
  unfold mem. rewrite existsb_exists. split.
  - intros [x [I E]]. apply Nat.eqb_eq in E. subst. assumption.
  - intros I. exists v. split; [assumption|apply Nat.eqb_refl].
Qed.

Lemma mem_false v l : mem v l = false <-> ~ In v l.
Proof.
  rewrite <- mem_true. destruct (mem v l); split; intros; try congruence; try tauto.
Qed.

Lemma ginv_init n dlimit deps : ginv n dlimit deps g_init.
Proof.
  constructor; cbn; try tauto; try lia; [constructor|].
  destruct dlimit; cbn; lia.
Qed.

(* the guard stack as a chain of references: k further references below v exist *)
Lemma chain_deep deps : forall t h k v,
  chain deps (h :: t) -> last (h :: t) v = v -> deep deps k h -> deep deps (k + length t) v.
Proof.
  induction t as [|b t IH]; intros h k v C L D.
  - cbn in L. subst. rewrite Nat.add_0_r. assumption.
  - destruct C as [Lh C]. cbn in Lh.
    replace (k + length (b :: t)) with (S k + length t) by (cbn; lia).
    apply (IH b (S k) v C).
    + exact L.
    + exists h. split; assumption.
Qed.

Section GuardProofs.
  Variable n : nat.
  Variable memo : bool.
  Variable dlimit : option nat.
  Variable deps : nat -> list nat.
  Hypothesis Hclosed : closed n deps.

  Let ev := g_eval SearchWholeStack memo dlimit deps.
  Let ar := g_args SearchWholeStack memo dlimit deps.
  Let inv := ginv n dlimit deps.

  Definition eval_post (s : gstate) (v : nat) (r : gres) : Prop :=
    match r with
    | GOk s' => g_guard s' = g_guard s /\ inv s' /\ wf_from deps v /\ g_hw s <= g_hw s'
    | GCirc s' w => inv s' /\ reach deps v w /\ In w (g_guard s') /\ linked deps (g_guard s') w
                    /\ (exists p, g_guard s' = p ++ g_guard s) /\ g_hw s <= g_hw s'
    | GDeep s' w => inv s' /\ reach deps v w /\ ~ In w (g_guard s') /\ linked deps (g_guard s') w
                    /\ (exists p, g_guard s' = p ++ g_guard s /\ deep deps (length p) v) /\ g_hw s <= g_hw s'
                    /\ dlimit = Some (length (g_guard s'))
    | GFuel => False
    end.

  Definition args_post (s : gstate) (ds : list nat) (r : gres) : Prop :=
    match r with
    | GOk s' => g_guard s' = g_guard s /\ inv s' /\ (forall d, In d ds -> wf_from deps d) /\ g_hw s <= g_hw s'
    | GCirc s' w => inv s' /\ (exists d, In d ds /\ reach deps d w) /\ In w (g_guard s')
                    /\ linked deps (g_guard s') w /\ (exists p, g_guard s' = p ++ g_guard s) /\ g_hw s <= g_hw s'
    | GDeep s' w => inv s' /\ (exists d, In d ds /\ reach deps d w) /\ ~ In w (g_guard s')
                    /\ linked deps (g_guard s') w
                    /\ (exists d p, In d ds /\ g_guard s' = p ++ g_guard s /\ deep deps (length p) d) /\ g_hw s <= g_hw s'
                    /\ dlimit = Some (length (g_guard s'))
    | GFuel => False
    end.

  Lemma args_from_eval f :
    (forall s v, inv s -> v < n -> linked deps (g_guard s) v ->
                 n + 1 <= f + length (g_guard s) -> eval_post s v (ev f s v)) ->
    forall ds s, inv s -> (forall d, In d ds -> d < n /\ linked deps (g_guard s) d) ->
                 n + 1 <= f + length (g_guard s) -> args_post s ds (ar f ds s).
  Proof.
    intros IH. induction ds as [|d r IHr]; intros s I P F.
    - cbn. splits; auto. intros ? [].
    - unfold ar. cbn [g_args]. fold ev.
      destruct (P d (or_introl eq_refl)) as [Pd Ld].
      pose proof (IH s d I Pd Ld F) as E.
      destruct (ev f s d) as [s1|s1 w|s1 w|]; cbn [eval_post args_post] in E |- *; [| | |tauto].
      + destruct E as [G1 [I1 [W1 H1]]].
        assert (P1 : forall d0, In d0 r -> d0 < n /\ linked deps (g_guard s1) d0).
        { intros d0 I0. rewrite G1. apply P. right. assumption. }
        assert (F1 : n + 1 <= f + length (g_guard s1)) by (rewrite G1; assumption).
        pose proof (IHr s1 I1 P1 F1) as A. fold ar.
        destruct (ar f r s1) as [s2|s2 w|s2 w|]; cbn [args_post] in A |- *; [| | |tauto].
        * destruct A as [G2 [I2 [W2 H2]]]. splits; try assumption; try congruence; try lia.
          intros d0 [<-|I0]; auto.
        * destruct A as [I2 [[d0 [I0 R0]] [Iw [Lw [[p Hp] H2]]]]].
          splits; try assumption; try lia.
          -- exists d0. split; [right; assumption|assumption].
          -- exists p. congruence.
        * destruct A as [I2 [[d0 [I0 R0]] [Iw [Lw [[d1 [p [I1' [Hp Dp]]]] [H2 EL]]]]]].
          splits; try assumption; try lia.
          -- exists d0. split; [right; assumption|assumption].
          -- exists d1, p. splits; [right; assumption|congruence|assumption].
      + destruct E as [I1 [R1 [Iw [Lw [Hp H1]]]]].
        splits; try assumption. exists d. split; [left; reflexivity|assumption].
      + destruct E as [I1 [R1 [Iw [Lw [[p [Hp Dp]] [H1 EL]]]]]].
        splits; try assumption.
        * exists d. split; [left; reflexivity|assumption].
        * exists d, p. splits; [left; reflexivity|assumption|assumption].
  Qed.

  Lemma eval_spec f :
    forall s v, inv s -> v < n -> linked deps (g_guard s) v ->
                n + 1 <= f + length (g_guard s) -> eval_post s v (ev f s v).
  Proof.
    induction f as [|f IH]; intros s v I Pv Lv F.
    - exfalso. pose proof (guard_length n _ (gi_nodup _ _ _ _ I) (gi_range _ _ _ _ I)). lia.
    - unfold ev. rewrite g_eval_unfold.
      destruct (memo && mem v (g_cache s)) eqn:Ec.
      + apply andb_true_iff in Ec. destruct Ec as [_ Ec]. apply mem_true in Ec.
        cbn. splits; auto. apply (gi_cache _ _ _ _ I). assumption.
      + destruct (guard_hit SearchWholeStack (g_guard s) v) eqn:Eh.
        * cbn in Eh. fold (mem v (g_guard s)) in Eh. apply mem_true in Eh.
          cbn. splits; auto. apply reach_refl. exists []. reflexivity.
        * cbn in Eh. fold (mem v (g_guard s)) in Eh. apply mem_false in Eh.
          destruct (depth_hit dlimit (g_guard s)) eqn:Ed.
          { (* the nesting limit is reached *)
            destruct (depth_hit_true _ _ Ed) as [L [EL HL]].
            pose proof (gi_lim _ _ _ _ I) as HW. rewrite EL in HW. cbn in HW.
            pose proof (gi_len _ _ _ _ I) as HN.
            cbn [eval_post]. splits; auto.
            - apply reach_refl.
            - exists []. split; [reflexivity|exact Logic.I].
            - rewrite EL. f_equal. lia. }
          assert (ND : NoDup (v :: g_guard s)) by (constructor; [assumption|apply (gi_nodup _ _ _ _ I)]).
          assert (RG : forall x, In x (v :: g_guard s) -> x < n).
          { intros x [<-|Ix]; [assumption|apply (gi_range _ _ _ _ I); assumption]. }
          pose proof (guard_length n _ ND RG) as LEN. cbn [length] in LEN.
          assert (I1 : inv (g_push v s)).
          { constructor; cbn [g_push g_guard g_cache g_hw]; try assumption.
            - split; [assumption|apply (gi_chain _ _ _ _ I)].
            - apply (gi_cache _ _ _ _ I).
            - pose proof (gi_hw _ _ _ _ I). lia.
            - apply within_max; [apply (gi_lim _ _ _ _ I)|apply depth_hit_false; assumption].
            - cbn [length]. lia. }
          assert (P1 : forall d, In d (deps v) -> d < n /\ linked deps (g_guard (g_push v s)) d).
          { intros d Id. split; [exact (Hclosed v d Pv Id)|exact Id]. }
          assert (F1 : n + 1 <= f + length (g_guard (g_push v s))) by (cbn; lia).
          pose proof (args_from_eval f IH (deps v) (g_push v s) I1 P1 F1) as A. fold ar.
          destruct (ar f (deps v) (g_push v s)) as [s2|s2 w|s2 w|]; cbn [args_post eval_post] in A |- *; [| | |tauto].
          -- destruct A as [G2 [I2 [W2 H2]]]. cbn [g_push g_guard] in G2.
             assert (Wv : wf_from deps v) by (constructor; assumption).
             assert (Ip : inv (g_pop s2)).
             { destruct I2 as [a b c d e e' e'']. rewrite G2 in a, b, c, e''.
               constructor; cbn [g_pop g_guard g_cache g_hw]; rewrite ?G2; cbn [tl]; try assumption.
               - inversion a; assumption.
               - intros x Ix. apply b. right. assumption.
               - destruct c; assumption.
               - cbn [length] in e''. lia. }
             assert (Gp : g_guard (g_pop s2) = g_guard s) by (cbn; rewrite G2; reflexivity).
             cbn [g_push g_hw] in H2.
             unfold g_store. destruct memo; cbn [g_guard g_hw g_pop] in *.
             ++ splits; try assumption; try lia.
                destruct Ip as [a b c d e e' e'']. constructor; cbn [g_guard g_cache g_hw g_pop] in *; try assumption.
                intros c0 [<-|Ic]; auto.
             ++ splits; try assumption; try lia.
          -- destruct A as [I2 [[d [Id Rd]] [Iw [Lw [[p Hp] H2]]]]].
             cbn [g_push g_guard g_hw] in Hp, H2.
             splits; try assumption; try lia.
             ++ eapply reach_step; eassumption.
             ++ exists (p ++ [v]). rewrite <- app_assoc. exact Hp.
          -- destruct A as [I2 [[d [Id Rd]] [Iw [Lw [[d1 [p [I1' [Hp Dp]]]] [H2 EL]]]]]].
             cbn [g_push g_guard g_hw] in Hp, H2.
             splits; try assumption; try lia.
             ++ exact (reach_step deps v d w Id Rd).
             ++ exists (p ++ [v]). split; [rewrite <- app_assoc; exact Hp|].
                rewrite app_length. cbn [length]. replace (length p + 1) with (S (length p)) by lia.
                exists d1. split; assumption.
  Qed.
End GuardProofs.

(* ---------------------------------------------------------------------------------------------- *)
(* statements about one lazy evaluation started from an empty guard stack; dlimit = None is the code
   without a nesting limit, Some L the code with 'if (m_guardStack.size() >= L) error' *)

Section GuardTheorems.
  Variable n : nat.
  Variable memo : bool.
  Variable dlimit : option nat.
  Variable deps : nat -> list nat.
  Hypothesis Hclosed : closed n deps.
  Variable v : nat.
  Hypothesis Hv : v < n.

  Let r := g_eval SearchWholeStack memo dlimit deps (S n) g_init v.

  Lemma init_spec : eval_post n dlimit deps g_init v r.
  Proof.
    apply eval_spec; try assumption.
    - apply ginv_init.
    - exact I.
    - cbn. lia.
  Qed.

  Lemma guard_terminates_l : r <> GFuel.
  Proof. pose proof init_spec as P. destruct r; cbn in P; try discriminate; tauto. Qed.

  Lemma circ_sound s w : r = GCirc s w -> reach deps v w /\ on_cycle deps w.
  Proof.
    intros E. pose proof init_spec as P. rewrite E in P. cbn in P.
    destruct P as [I [R [Iw [Lw _]]]]. split; [assumption|].
    eapply chain_cycle; try eassumption. apply (gi_chain _ _ _ _ I).
  Qed.

  Lemma ok_sound s : r = GOk s -> wf_from deps v.
  Proof. intros E. pose proof init_spec as P. rewrite E in P. cbn in P. tauto. Qed.

  (* the nesting error: the stack holds exactly L variables, a duplicate-free chain of references that
     starts at v, and w (not among them) is referenced by the last one: L further references below v *)
  Lemma deep_sound s w :
    r = GDeep s w ->
    dlimit = Some (length (g_guard s)) /\ reach deps v w /\ deep deps (length (g_guard s)) v
    /\ NoDup (w :: g_guard s) /\ chain deps (w :: g_guard s).
  Proof.
    intros E. pose proof init_spec as P. rewrite E in P. cbn [eval_post] in P.
    destruct P as [I [R [Nw [Lw [[p [Hp Dp]] [_ EL]]]]]].
    cbn [g_init g_guard] in Hp. rewrite app_nil_r in Hp. subst p.
    splits; try assumption.
    - constructor; [assumption|apply (gi_nodup _ _ _ _ I)].
    - split; [assumption|apply (gi_chain _ _ _ _ I)].
  Qed.

  Lemma no_deep_unlimited s w : dlimit = None -> r <> GDeep s w.
  Proof. intros EN E. destruct (deep_sound s w E) as [EL _]. congruence. Qed.

  (* a reachable cycle always ends in one of the two errors *)
  Lemma cycle_is_error_l :
    reaches_cycle deps v -> (exists s w, r = GCirc s w) \/ (exists s w, r = GDeep s w).
  Proof.
    intros C. destruct r as [s|s w|s w|] eqn:E.
    - exfalso. eapply wf_from_no_cycle; [apply (ok_sound s); exact E|assumption].
    - left. eauto.
    - right. eauto.
    - exfalso. apply guard_terminates_l. exact E.
  Qed.

  (* when no chain of references from v is as long as the limit, the limit does not interfere *)
  Lemma short_chains_unaffected_l :
    (forall L, dlimit = Some L -> ~ deep deps L v) ->
    ((exists s w, r = GCirc s w) <-> reaches_cycle deps v) /\ ((exists s, r = GOk s) <-> wf_from deps v).
  Proof.
    intros Hs.
    assert (ND : forall s w, r <> GDeep s w).
    { intros s w E. destruct (deep_sound s w E) as [EL [_ [D _]]]. exact (Hs _ EL D). }
    split; split.
    - intros [s [w E]]. exists w. apply (circ_sound s). assumption.
    - intros C. destruct (cycle_is_error_l C) as [H|[s [w E]]]; [assumption|]. exfalso. exact (ND s w E).
    - intros [s E]. apply (ok_sound s). assumption.
    - intros W. destruct r as [s|s w|s w|] eqn:E.
      + eauto.
      + exfalso. eapply wf_from_no_cycle; [exact W|]. exists w. apply (circ_sound s). exact E.
      + exfalso. exact (ND s w eq_refl).
      + exfalso. apply guard_terminates_l. exact E.
  Qed.

  Lemma guard_stack_bounded_l :
    match r with
    | GOk s => g_hw s <= n /\ within dlimit (g_hw s)
    | GCirc s _ => g_hw s <= n /\ length (g_guard s) <= n /\ within dlimit (g_hw s)
    | GDeep s _ => g_hw s <= n /\ within dlimit (g_hw s)
    | GFuel => False
    end.
  Proof.
    pose proof init_spec as P. destruct r; cbn [eval_post] in P; [| | |tauto].
    - destruct P as [_ [I _]]. split; [apply (gi_hw _ _ _ _ I)|apply (gi_lim _ _ _ _ I)].
    - destruct P as [I _]. splits; [apply (gi_hw _ _ _ _ I)| |apply (gi_lim _ _ _ _ I)].
      apply guard_length; [apply (gi_nodup _ _ _ _ I)|apply (gi_range _ _ _ _ I)].
    - destruct P as [I _]. split; [apply (gi_hw _ _ _ _ I)|apply (gi_lim _ _ _ _ I)].
  Qed.

  Lemma guard_balanced_l :
    match r with
    | GOk s => g_guard s = []
    | GCirc s w => NoDup (g_guard s) /\ chain deps (g_guard s) /\ In w (g_guard s) /\ g_guard (g_reset s) = []
    | GDeep s w => NoDup (g_guard s) /\ chain deps (g_guard s) /\ ~ In w (g_guard s) /\ g_guard (g_reset s) = []
    | GFuel => False
    end.
  Proof.
    pose proof init_spec as P. destruct r; cbn [eval_post] in P; [| | |tauto].
    - cbn in P. tauto.
    - destruct P as [I [_ [Iw _]]]. splits; try assumption; try reflexivity.
      + apply (gi_nodup _ _ _ _ I).
      + apply (gi_chain _ _ _ _ I).
    - destruct P as [I [_ [Iw _]]]. splits; try assumption; try reflexivity.
      + apply (gi_nodup _ _ _ _ I).
      + apply (gi_chain _ _ _ _ I).
  Qed.
End GuardTheorems.

(* the code without a nesting limit *)
Lemma guard_detects_every_cycle_l n memo deps (C : closed n deps) v (Hv : v < n) :
  (exists s w, g_eval SearchWholeStack memo None deps (S n) g_init v = GCirc s w) <-> reaches_cycle deps v.
Proof. apply (short_chains_unaffected_l n memo None deps C v Hv). intros L E. discriminate. Qed.

Lemma guard_ok_iff_l n memo deps (C : closed n deps) v (Hv : v < n) :
  (exists s, g_eval SearchWholeStack memo None deps (S n) g_init v = GOk s) <-> wf_from deps v.
Proof. apply (short_chains_unaffected_l n memo None deps C v Hv). intros L E. discriminate. Qed.

(* balanced from ANY reachable state (not only the empty stack): a successful lazy evaluation leaves
   the guard stack exactly as it found it *)
Lemma guard_balanced_any n memo dlimit deps s v f :
  closed n deps -> ginv n dlimit deps s -> v < n -> linked deps (g_guard s) v -> n + 1 <= f + length (g_guard s) ->
  forall s', g_eval SearchWholeStack memo dlimit deps f s v = GOk s' -> g_guard s' = g_guard s.
Proof.
  intros C I Hv L F s' E. pose proof (eval_spec n memo dlimit deps C f s v I Hv L F) as P.
  rewrite E in P. cbn in P. tauto.
Qed.

(* the code with the nesting limit L: the native recursion is never deeper than L *)
Lemma native_recursion_bounded_l L n memo deps (C : closed n deps) v (Hv : v < n) :
  match g_eval SearchWholeStack memo (Some L) deps (S n) g_init v with
  | GOk s => g_hw s <= L
  | GCirc s _ => g_hw s <= L
  | GDeep s w => g_hw s <= L /\ length (g_guard s) = L /\ deep deps L v
  | GFuel => False
  end.
Proof.
  pose proof (guard_stack_bounded_l n memo (Some L) deps C v Hv) as B.
  destruct (g_eval SearchWholeStack memo (Some L) deps (S n) g_init v) as [s|s w|s w|] eqn:E; cbn [within] in B; try tauto.
  destruct (deep_sound n memo (Some L) deps C v Hv s w E) as [EL [_ [D _]]].
  injection EL as EL. splits; try tauto; try congruence.
Qed.

(* ---------------------------------------------------------------------------------------------- *)
(* comparing only the top of the stack (the shape the translator also recognises) does not
   terminate on a cycle of length two: for every amount of fuel the evaluation is still running *)

Definition two_cycle (v : nat) : list nat := [1 - v].

Lemma top_only_diverges memo : forall fuel s v,
  v < 2 -> g_cache s = [] -> (g_guard s = [] \/ exists r, g_guard s = (1 - v) :: r) ->
  g_eval SearchTopOnly memo None two_cycle fuel s v = GFuel.
Proof.
  induction fuel as [|f IH]; intros s v Hv Hc Hg; [reflexivity|].
  rewrite g_eval_unfold. rewrite Hc. cbn [mem existsb]. rewrite andb_false_r.
  assert (Eh : guard_hit SearchTopOnly (g_guard s) v = false).
  { destruct Hg as [->|[r ->]]; cbn [guard_hit]; [reflexivity|]. apply Nat.eqb_neq. lia. }
  rewrite Eh. cbn [depth_hit]. change (two_cycle v) with [1 - v]. cbn [g_args].
  rewrite IH; [reflexivity|lia|cbn; assumption|].
  right. exists (g_guard s). cbn [g_push g_guard]. f_equal. lia.
Qed.

(* ---------------------------------------------------------------------------------------------- *)
(* the depth of the guard stack (= depth of the native recursion findXObject -> getValue ->
   XPath::execute -> findXObject) is bounded by the number of variables only: a chain reaches it *)

Definition chain_deps (n : nat) (v : nat) : list nat := if v <? n then [S v] else [].

Lemma chain_closed n : closed (S n) (chain_deps n).
Proof.
  intros v d Hv. unfold chain_deps. destruct (v <? n) eqn:E; [|intros []].
  apply Nat.ltb_lt in E. intros [<-|[]]. lia.
Qed.

Lemma mem_small v l : (forall x, In x l -> x < v) -> mem v l = false.
Proof.
  intros H. apply mem_false. intros I. specialize (H v I). lia.
Qed.

Lemma chain_eval memo n : forall k v s f,
  v + k = n -> (forall x, In x (g_guard s) -> x < v) -> (forall x, In x (g_cache s) -> x < v) -> k + 1 <= f ->
  exists s', g_eval SearchWholeStack memo None (chain_deps n) f s v = GOk s'
             /\ g_guard s' = g_guard s /\ (forall x, In x (g_cache s') -> In x (g_cache s) \/ v <= x)
             /\ g_hw s' = Nat.max (g_hw s) (length (g_guard s) + k + 1).
Proof.
  induction k as [|k IH]; intros v s f E G C F; (destruct f as [|f]; [lia|]); rewrite g_eval_unfold;
    rewrite (mem_small v (g_cache s) C), andb_false_r;
    cbn [guard_hit depth_hit]; fold (mem v (g_guard s)); rewrite (mem_small v (g_guard s) G).
  - change (chain_deps n v) with (if v <? n then [S v] else []).
    replace (v <? n) with false by (symmetry; apply Nat.ltb_ge; lia).
    cbn [g_args]. eexists. split; [reflexivity|].
    unfold g_store. destruct memo; cbn [g_pop g_push g_guard g_cache g_hw tl]; splits; try reflexivity; try lia.
    + intros x [<-|Ix]; [right; lia|left; assumption].
    + intros x Ix. left; assumption.
  - change (chain_deps n v) with (if v <? n then [S v] else []).
    replace (v <? n) with true by (symmetry; apply Nat.ltb_lt; lia).
    cbn [g_args].
    destruct (IH (S v) (g_push v s) f) as [s1 [E1 [G1 [C1 H1]]]]; try lia.
    + cbn. intros x [<-|I]; [lia|]. specialize (G x I). lia.
    + cbn. intros x I. specialize (C x I). lia.
    + rewrite E1. eexists. split; [reflexivity|].
      cbn [g_push g_guard g_cache g_hw length] in *.
      unfold g_store. destruct memo; cbn [g_pop g_guard g_cache g_hw]; rewrite ?G1; cbn [tl];
        splits; try reflexivity; try lia.
      * intros x [<-|I]; [right; lia|]. destruct (C1 x I); [left; assumption|right; lia].
      * intros x I. destruct (C1 x I); [left; assumption|right; lia].
Qed.

Lemma guard_depth_reaches_count memo n :
  exists s, g_eval SearchWholeStack memo None (chain_deps n) (S (S n)) g_init 0 = GOk s /\ g_hw s = S n.
Proof.
  destruct (chain_eval memo n n 0 g_init (S (S n))) as [s [E [_ [_ H]]]]; cbn; try lia; try tauto.
  exists s. split; [assumption|]. cbn in H. lia.
Qed.

Lemma native_bound_refuted_l :
  ~ exists B, forall n deps v s, closed n deps -> v < n ->
      g_eval SearchWholeStack true None deps (S n) g_init v = GOk s -> g_hw s <= B.
Proof.
  intros [B HB].
  destruct (guard_depth_reaches_count true B) as [s [E H]].
  specialize (HB (S B) (chain_deps B) 0 s (chain_closed B) ltac:(lia) E). lia.
Qed.

Lemma native_bound_partial_l :
  forall B n deps v s, n <= B -> closed n deps -> v < n ->
    g_eval SearchWholeStack true None deps (S n) g_init v = GOk s -> g_hw s <= B.
Proof.
  intros B n deps v s HB C H E.
  pose proof (guard_stack_bounded_l n true None deps C v H) as P.
  rewrite E in P. lia.
Qed.

Lemma attset_balanced_l :
  forall n deps v, closed n deps -> v < n ->
    match g_eval SearchWholeStack false None deps (S n) g_init v with
    | GOk s => g_guard s = [] /\ g_hw s <= n
    | GCirc s w => NoDup (g_guard s) /\ In w (g_guard s) /\ g_hw s <= n
    | GDeep _ _ => False
    | GFuel => False
    end.
Proof.
  intros n deps v C H.
  pose proof (guard_balanced_l n false None deps C v H) as B.
  pose proof (guard_stack_bounded_l n false None deps C v H) as Bd.
  destruct (g_eval SearchWholeStack false None deps (S n) g_init v) as [s|s w|s w|] eqn:E; try tauto.
  exact (no_deep_unlimited n false None deps C v H s w eq_refl E).
Qed.

Lemma top_only_refuted_l memo :
  exists deps n v, closed n deps /\ v < n /\ reaches_cycle deps v /\
    forall fuel, g_eval SearchTopOnly memo None deps fuel g_init v = GFuel.
Proof.
  exists two_cycle, 2, 0. splits.
  - intros v d Hv [<-|[]]. lia.
  - lia.
  - exists 0. split; [apply reach_refl|]. exists 1. split; [left; reflexivity|].
    eapply reach_step; [left; reflexivity|apply reach_refl].
  - intros fuel. apply top_only_diverges; [lia|reflexivity|left; reflexivity].
Qed.

(* what holds about the depth of the native recursion in the tree at hand, by variant *)
Definition native_recursion_statement (dl : option nat) : Prop :=
  match dl with
  | Some L =>
      forall n deps v, closed n deps -> v < n ->
        match g_eval SearchWholeStack true (Some L) deps (S n) g_init v with
        | GOk s => g_hw s <= L
        | GCirc s _ => g_hw s <= L
        | GDeep s w => g_hw s <= L /\ length (g_guard s) = L /\ deep deps L v
        | GFuel => False
        end
  | None =>
      ~ exists B, forall n deps v s, closed n deps -> v < n ->
          g_eval SearchWholeStack true None deps (S n) g_init v = GOk s -> g_hw s <= B
  end.

Lemma native_recursion_this_tree_l dl : native_recursion_statement dl.
Proof.
  destruct dl as [L|]; cbn [native_recursion_statement].
  - intros n deps v C H. apply native_recursion_bounded_l; assumption.
  - exact native_bound_refuted_l.
Qed.

(* ---------------------------------------------------------------------------------------------- *)
(* template nesting limit *)

Lemma deep_mono calls : forall k t, deep calls (S k) t -> deep calls k t.
Proof.
  induction k as [|k IH]; intros t D; [exact I|].
  destruct D as [c [Ic Dc]]. exists c. split; [assumption|]. apply IH. assumption.
Qed.

Lemma deep_le calls k k' t : k <= k' -> deep calls k' t -> deep calls k t.
Proof.
  induction 1; [auto|]. intros D. apply IHle. apply deep_mono. assumption.
Qed.

Lemma deep_reach calls k a b : reach calls a b -> deep calls k b -> deep calls k a.
Proof.
  induction 1; intros D; [assumption|].
  apply deep_mono. exists d. split; [assumption|]. apply IHreach. assumption.
Qed.

Lemma cycle_deep calls w : on_cycle calls w -> forall k, deep calls k w.
Proof.
  intros [d [Id R]]. induction k as [|k IH]; [exact I|].
  exists d. split; [assumption|]. eapply deep_reach; eassumption.
Qed.

Lemma reaches_cycle_deep calls t : reaches_cycle calls t -> forall k, deep calls k t.
Proof.
  intros [w [R C]] k. eapply deep_reach; [eassumption|]. apply cycle_deep. assumption.
Qed.

Section TemplateProofs.
  Variable limit : N.
  Variable calls : nat -> list nat.

  Let tc := t_call CmpGe limit calls.
  Let tb := t_body CmpGe limit calls.

  Definition call_post (s : tstate) (t : nat) (r : tres) : Prop :=
    match r with
    | TOk s' => t_size s' = t_size s /\ (t_hw s <= t_hw s')%N /\ (t_hw s' <= N.max (t_hw s) limit)%N
                /\ ~ deep calls (N.to_nat (limit - t_size s)) t
    | TErr s' => t_size s' = limit /\ (t_hw s <= t_hw s')%N /\ (t_hw s' <= N.max (t_hw s) limit)%N
                 /\ deep calls (N.to_nat (limit - t_size s)) t
    | TFuel => False
    end.

  Definition body_post (s : tstate) (cs : list nat) (r : tres) : Prop :=
    match r with
    | TOk s' => t_size s' = t_size s /\ (t_hw s <= t_hw s')%N /\ (t_hw s' <= N.max (t_hw s) limit)%N
                /\ forall c, In c cs -> ~ deep calls (N.to_nat (limit - t_size s)) c
    | TErr s' => t_size s' = limit /\ (t_hw s <= t_hw s')%N /\ (t_hw s' <= N.max (t_hw s) limit)%N
                 /\ exists c, In c cs /\ deep calls (N.to_nat (limit - t_size s)) c
    | TFuel => False
    end.

  Lemma body_from_call f :
    (forall s t, (t_size s <= limit)%N -> N.to_nat limit + 1 <= f + N.to_nat (t_size s) -> call_post s t (tc f s t)) ->
    forall cs s, (t_size s <= limit)%N -> N.to_nat limit + 1 <= f + N.to_nat (t_size s) -> body_post s cs (tb f cs s).
  Proof.
    intros IH. induction cs as [|c r IHr]; intros s B F.
    - cbn. splits; try lia; try (intros ? []).
    - unfold tb. cbn [t_body]. fold tc.
      pose proof (IH s c B F) as E.
      destruct (tc f s c) as [s1|s1|]; cbn [call_post body_post] in E |- *; [| |tauto].
      + destruct E as [Z1 [H1 [H1' N1]]].
        assert (B1 : (t_size s1 <= limit)%N) by lia.
        assert (F1 : N.to_nat limit + 1 <= f + N.to_nat (t_size s1)) by lia.
        pose proof (IHr s1 B1 F1) as A. fold tb.
        destruct (tb f r s1) as [s2|s2|]; cbn [body_post] in A |- *; [| |tauto].
        * destruct A as [Z2 [H2 [H2' N2]]]. rewrite Z1 in N2. splits; try lia.
          intros c0 [<-|I0]; auto.
        * destruct A as [Z2 [H2 [H2' [c0 [I0 D0]]]]]. rewrite Z1 in D0. splits; try lia.
          exists c0. split; [right; assumption|assumption].
      + destruct E as [Z1 [H1 [H1' D1]]]. splits; try lia.
        exists c. split; [left; reflexivity|assumption].
  Qed.

  Lemma call_spec f :
    forall s t, (t_size s <= limit)%N -> N.to_nat limit + 1 <= f + N.to_nat (t_size s) -> call_post s t (tc f s t).
  Proof.
    induction f as [|f IH]; intros s t B F; [exfalso; lia|].
    unfold tc. rewrite t_call_unfold. cbn [limit_hit].
    destruct (limit <=? t_size s)%N eqn:E.
    - apply N.leb_le in E. cbn [call_post]. splits; try lia.
      replace (N.to_nat (limit - t_size s)) with 0 by lia. exact I.
    - apply N.leb_gt in E.
      assert (B1 : (t_size (t_push s) <= limit)%N) by (cbn [t_push t_size]; lia).
      assert (F1 : N.to_nat limit + 1 <= f + N.to_nat (t_size (t_push s))) by (cbn [t_push t_size]; lia).
      pose proof (body_from_call f IH (calls t) (t_push s) B1 F1) as A. fold tb.
      assert (K : N.to_nat (limit - t_size s) = S (N.to_nat (limit - N.succ (t_size s)))) by lia.
      destruct (tb f (calls t) (t_push s)) as [s2|s2|]; cbn [body_post call_post] in A |- *; [| |tauto].
      + destruct A as [Z2 [H2 [H2' N2]]]. cbn [t_push t_pop t_size t_hw] in *. splits; try lia.
        rewrite K. cbn [deep].
        intros [c [Ic Dc]]. apply (N2 c Ic). exact Dc.
      + destruct A as [Z2 [H2 [H2' D2]]]. cbn [t_push t_size t_hw] in *. splits; try lia.
        rewrite K. exact D2.
  Qed.
End TemplateProofs.

Section TemplateTheorems.
  Variable limit initial : N.
  Hypothesis Hinit : (initial <= limit)%N.
  Variable calls : nat -> list nat.
  Variable t : nat.

  Let r := t_call CmpGe limit calls (S (N.to_nat limit)) (t_init initial) t.

  Lemma t_init_spec : call_post limit calls (t_init initial) t r.
  Proof. apply call_spec; cbn [t_init t_size]; lia. Qed.

  Lemma template_limit_terminates_l : r <> TFuel.
  Proof. pose proof t_init_spec as P. destruct r; cbn in P; [discriminate|discriminate|tauto]. Qed.

  Lemma template_depth_bounded_l :
    match r with TOk s => (t_hw s <= limit)%N | TErr s => (t_hw s <= limit)%N | TFuel => False end.
  Proof. pose proof t_init_spec as P. destruct r; cbn [call_post t_init t_hw t_size] in P; [| |tauto]; lia. Qed.

  Lemma template_balanced_l :
    match r with TOk s => t_size s = initial | TErr s => t_size s = limit | TFuel => False end.
  Proof. pose proof t_init_spec as P. destruct r; cbn [call_post t_init t_hw t_size] in P; [| |tauto]; tauto. Qed.

  Lemma template_limit_reports_l : (exists s, r = TErr s) <-> deep calls (N.to_nat (limit - initial)) t.
  Proof.
    pose proof t_init_spec as P. split.
    - intros [s E]. rewrite E in P. cbn [call_post t_init t_size] in P. tauto.
    - intros D. destruct r as [s|s|]; cbn [call_post t_init t_size] in P; [tauto|eauto|tauto].
  Qed.

  Lemma template_recursion_reported_l : reaches_cycle calls t -> exists s, r = TErr s.
  Proof. intros C. apply template_limit_reports_l. apply reaches_cycle_deep. assumption. Qed.
End TemplateTheorems.

(* ---------------------------------------------------------------------------------------------- *)
(* XPath parser nesting counter: with '++depth > limit' exactly the depths 1..limit are accepted *)
Lemma nesting_accepts_iff limit depth : nesting_refused CmpGt limit depth = false <-> (depth <= limit)%N.
Proof. unfold nesting_refused, limit_hit. rewrite N.ltb_ge. tauto. Qed.
