"""C20, part "arena": ReusableArenaAllocator (the pool behind XObjects, result tree fragments, node lists ...) against the
trivial specification "a set of live objects": allocateBlock never hands out the address of a live object; destroyObject of
a live object returns true, runs its destructor exactly once and leaves every other live object owned and intact;
destroyObject of a foreign object returns false and destroys nothing; reset() and the allocator's destructor destroy
exactly the objects still alive; nothing is destroyed twice.  How many blocks exist is NOT judged (the library may open a
block although a slot is free).  Directed scripts fill blocks exactly and destroy objects of the first / a middle / the
last full block in non-LIFO order (seed C20_g), random scripts do the same with block sizes 1..8."""
import random
from vlib import core


def gen_scripts(r, n):
    scripts = []
    # directed: exactly full blocks, destroy in every block position
    for bs in (1, 2, 3, 4, 5, 8):
        for nblocks in (1, 2, 3):
            total = bs * nblocks
            for victim in sorted(set([0, 1, bs - 1, bs, total - 1, total // 2])):
                if 0 <= victim < total:
                    for db in (0, 1):
                        scripts.append((bs, db, ["a"] * total + ["d%d" % victim, "a", "a"]))
    for _ in range(n):
        bs = r.randrange(1, 9)
        db = r.randrange(2)
        ops, live = [], 0
        for _ in range(r.randrange(5, 80)):
            x = r.random()
            if x < 0.55 or live == 0:
                ops.append("a"); live += 1
            elif x < 0.93:
                ops.append("d%d" % r.randrange(live)); live -= 1
            elif x < 0.97:
                ops.append("x")
            else:
                ops.append("r"); live = 0
        scripts.append((bs, db, ops))
    return scripts


def expected(ops):
    live, out = 0, []
    for op in ops:
        if op == "a":
            live += 1; out.append("a11")
        elif op[0] == "d":
            live -= 1; out.append("d111")
        elif op == "x":
            out.append("x00")
        else:
            out.append("r%d" % live); live = 0
    out.append("e%d" % live)
    out.append("t0")
    return out


def run_part(ctx):
    r = random.Random(ctx.rng.getrandbits(64))
    exe, ok, log = core.build_harness("arena", "plain")
    if not ok:
        ctx.broken.append("arena harness does not compile against the working tree: " + log[-500:])
        return
    scripts = gen_scripts(r, 400 if not (ctx.thorough or ctx.escalated) else 20000)
    lines = ["s%d %d %d %s" % (i, bs, db, " ".join(ops)) for i, (bs, db, ops) in enumerate(scripts)]
    # XalanDeque copied into a container of ANOTHER memory manager: nothing may be allocated on the source's manager
    copies = [(n, bs) for n in (0, 1, 9, 10, 11, 35, 100) for bs in (1, 3, 10)]
    lines += ["k%d copy %d %d" % (i, n, bs) for i, (n, bs) in enumerate(copies)]
    # XalanArrayAllocator::clear() "releases all allocated memory": nothing outstanding after clear(), reuse and destruction
    arrs = [(bs, cs) for bs in (1, 4, 10) for cs in ([1], [3, 3, 3], [10, 1, 12], [4, 4, 4, 4, 4, 25])]
    lines += ["r%d arr %d %s" % (i, bs, " ".join(map(str, cs))) for i, (bs, cs) in enumerate(arrs)]
    rc, res, raw = core.run_lines_parallel(exe, lines, sep=" ")
    bad = []
    for i, (bs, cs) in enumerate(arrs):
        ctx.cov["evaluations"] += 1
        got = res.get("r%d" % i)
        if got != "r0":
            bad.append((0, "# XalanArrayAllocator<long>(block size %d): allocate %s, clear(), allocate(3), destroy: %s blocks of the manager outstanding, specified r0\nr%d arr %d %s" % (
                bs, cs, got, i, bs, " ".join(map(str, cs)))))
    for i, (n, bs) in enumerate(copies):
        ctx.cov["evaluations"] += 1
        got = res.get("k%d" % i)
        if got != "c001":
            bad.append((0, "# XalanDeque<long>(source with %d elements, block size %d) copied into another manager's container: observation %s, specified c001 "
                           "(c<allocations on the source's manager during the copy><blocks outstanding afterwards><copy equal>)\nk%d copy %d %d" % (n, bs, got, i, n, bs)))
    for i, (bs, db, ops) in enumerate(scripts):
        ctx.cov["evaluations"] += len(ops)
        ctx.count("arena:scripts")
        got = (res.get("s%d" % i) or "").split()
        want = expected(ops)
        if got != want:
            k = next((j for j in range(min(len(got), len(want))) if got[j] != want[j]), min(len(got), len(want)))
            bad.append((len(ops), "# block size %d, destroyBlocks %d: observation %d is %s, specified %s (a<fresh><owned> d<returned><destructors><others intact> x<returned><destructors> r/e<destructors> t<destroyed twice>)%s\n%s" % (
                bs, db, k, got[k] if k < len(got) else "missing (crash?)", want[k] if k < len(want) else "-",
                "" if got else " - no output for this script: the harness crashed", lines[i])))
    if bad:
        bad.sort()
        ctx.violation("arena", "# C20: ReusableArenaAllocator deviates from the set-of-live-objects specification\n"
                               "# replay: feed a script line to .build/arena_plain (harness/arena.cpp) and compare with the specified observations\n"
                      + "\n".join(t for _, t in bad[:20]))
    ctx.notes["arena_failures"] = len(bad)
