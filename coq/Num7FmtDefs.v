(* C17, formatting half: executable model of ElemNumber::formatNumberList / getFormattedNumber /
   int2alphaCount / toRoman / NumberFormatStringTokenizer and XalanNumberFormat::applyGrouping as
   coded (tables and limits come from GenNum7.v, regenerated from /repo on every run), and the
   independent decoders used by the round-trip theorems.  Definitions only.
   Strings are lists of UTF-16 code units (N); the model covers ASCII format strings. *)
From Coq Require Import List NArith ZArith Bool.
Require Import XV.GenNum7.
Import ListNotations.
Open Scope N_scope.

Definition str := list N.

(* ---------------------------------------------------------------------------------------------
   int2alphaCount(val, table, radix): the do/while loop with lookupIndex / correction, as coded.
   The result is the list of table indices, most significant first (the code fills buf[] backwards). *)
Fixpoint alpha_loop (fuel : nat) (radix val li corr : N) (acc : list N) : option (list N) :=
  match fuel with
  | O => None
  | S f =>
      let corr' := if (li =? 0) || (negb (corr =? 0) && (li =? radix - 1)) then radix - 1 else 0 in
      let li' := (val + corr') mod radix in
      let val' := val / radix in
      if (li' =? 0) && (val' =? 0) then Some acc
      else let acc' := li' :: acc in
           if 0 <? val' then alpha_loop f radix val' li' corr' acc' else Some acc'
  end.

Definition alpha_fuel (val : N) : nat := S (N.to_nat (N.size val)).

Definition alpha_indices (radix val : N) : option (list N) :=
  alpha_loop (alpha_fuel val) radix val 1 0 [].

Definition int2alpha (table : list N) (val : N) : option str :=
  match alpha_indices (N.of_nat (length table)) val with
  | Some ix => Some (map (fun i => nth (N.to_nat i) table 0) ix)
  | None => None
  end.

(* specification side: bijective base-[radix] numeration, digit 0 standing for radix *)
Definition bij_digit_value (radix d : N) : N := if d =? 0 then radix else d.
Definition bij_value (radix : N) (ix : list N) : N :=
  fold_left (fun a d => a * radix + bij_digit_value radix d) ix 0.

(* independent decoder of "A".."Z" strings: A=1 ... Z=26, positional, no zero digit *)
Definition alpha_decode (s : str) : N := fold_left (fun a c => a * 26 + (c - 64)) s 0.
Definition is_upper (c : N) : bool := (65 <=? c) && (c <=? 90).

Definition to_lower_ascii (s : str) : str := map (fun c => if is_upper c then c + 32 else c) s.
Definition to_upper_ascii (s : str) : str := map (fun c => if (97 <=? c) && (c <=? 122) then c - 32 else c) s.

(* ---------------------------------------------------------------------------------------------
   toRoman(val, prefixesAreOK = true) *)
Fixpoint roman_post (fuel : nat) (v pv : N) (pl acc : str) : N * str :=
  match fuel with
  | O => (v, acc)
  | S f => if pv <=? v then roman_post f (v - pv) pv pl (acc ++ pl) else (v, acc)
  end.

Fixpoint roman_places (tbl : list (N * str * N * str)) (v : N) (acc : str) : option str :=
  match tbl with
  | [] => None                                   (* place >= s_romanConvertTableSize: assert *)
  | (pv, pl, qv, ql) :: rest =>
      let '(v1, acc1) := roman_post (S (N.to_nat (v / pv))) v pv pl acc in
      let '(v2, acc2) := if qv <=? v1 then (v1 - qv, acc1 ++ ql) else (v1, acc1) in
      if 0 <? v2 then roman_places rest v2 acc2 else Some acc2
  end.

(* to_roman itself follows the decimal conversion below (values above the limit may use it) *)

(* independent decoder: subtractive notation, right to left *)
Definition roman_letter_value (c : N) : N :=
  if c =? 73 then 1 else if c =? 86 then 5 else if c =? 88 then 10 else if c =? 76 then 50
  else if c =? 67 then 100 else if c =? 68 then 500 else if c =? 77 then 1000 else 0.

Fixpoint roman_decode_rev (s : str) (last : N) (acc : Z) : Z :=
  match s with
  | [] => acc
  | c :: r => let v := roman_letter_value c in
              if v <? last then roman_decode_rev r last (acc - Z.of_N v)%Z
              else roman_decode_rev r v (acc + Z.of_N v)%Z
  end.
Definition roman_decode (s : str) : Z := roman_decode_rev (rev s) 0 0%Z.

(* ---------------------------------------------------------------------------------------------
   decimal: NumberToDOMString(XMLUInt64), applyGrouping, zero padding *)
Fixpoint digits_rev (fuel : nat) (n : N) : list N :=      (* least significant digit first *)
  match fuel with
  | O => []
  | S f => (48 + n mod 10) :: (if n / 10 =? 0 then [] else digits_rev f (n / 10))
  end.
Definition dec_fuel (n : N) : nat := S (N.to_nat (N.size n)).
Definition decimal_rev (n : N) : list N := digits_rev (dec_fuel n) n.
Definition decimal (n : N) : str := rev (decimal_rev n).

(* toRoman: 0 prints "0"; above the limit the error string or, in the repaired code, the decimal
   representation (GenNum7.roman_overflow_decimal says which branch /repo has) *)
Definition to_roman (val : N) : option str :=
  if val =? 0 then Some [48]
  else if roman_limit <? val then Some (if roman_overflow_decimal then decimal val else error_string)
  else roman_places roman_table val [].


(* applyGrouping walks the value from its last character; i counts characters already copied *)
Fixpoint group_rev (gs : N) (sep : str) (i : N) (l : list N) : list N :=
  match l with
  | [] => []
  | c :: r => (if (negb (i =? 0)) && (i mod gs =? 0) then rev sep else []) ++ c :: group_rev gs sep (i + 1) r
  end.

(* grouping = Some (separator, size): both attributes non-empty *)
Definition format_u64 (grouping : option (str * N)) (n : N) : str :=
  match grouping with
  | Some (sep, gs) => if gs =? 0 then decimal n else rev (group_rev gs sep 0 (decimal_rev n))
  | None => decimal n
  end.

Definition format_decimal (grouping : option (str * N)) (width : N) (n : N) : str :=
  let s := format_u64 grouping n in
  let len := N.of_nat (length s) in
  if len <? width then concat (repeat (format_u64 grouping 0) (N.to_nat (width - len))) ++ s else s.

(* independent decoder: drop the separator characters, read the digits positionally *)
Definition is_digit (c : N) : bool := (48 <=? c) && (c <=? 57).
Definition dec_value (s : str) : N := fold_left (fun a c => a * 10 + (c - 48)) s 0.
Definition decimal_decode (sepc : N) (s : str) : N := dec_value (filter (fun c => negb (c =? sepc)) s).

(* independent decoder of what a roman token may print: a run of digits is a decimal numeral
   (0, and the values without a roman numeral), anything else is read as roman letters *)
Definition roman_text_decode (s : str) : Z :=
  if forallb is_digit s then Z.of_N (dec_value s) else roman_decode s.

(* ---------------------------------------------------------------------------------------------
   getFormattedNumber: the switch on the last character of the format token *)
Definition formatted_number (grouping : option (str * N)) (ntype width n : N) : option str :=
  if ntype =? 65 then int2alpha alpha_table n
  else if ntype =? 97 then option_map to_lower_ascii (int2alpha alpha_table n)
  else if ntype =? 73 then to_roman n
  else if ntype =? 105 then option_map to_lower_ascii (to_roman n)
  else if existsb (N.eqb ntype) unsupported_types || (ntype =? 945) then None     (* error() / Greek: outside the model *)
  else Some (format_decimal grouping width n).

(* ---------------------------------------------------------------------------------------------
   NumberFormatStringTokenizer: maximal runs of alphanumeric / non-alphanumeric characters *)
Definition is_alnum (c : N) : bool :=
  is_digit c || is_upper c || ((97 <=? c) && (c <=? 122)).

Fixpoint tokenize_aux (s : str) (cur : str) (cls : bool) : list str :=
  match s with
  | [] => [rev cur]
  | c :: r => if Bool.eqb (is_alnum c) cls then tokenize_aux r (c :: cur) cls
              else rev cur :: tokenize_aux r [c] (is_alnum c)
  end.
Definition tokenize (s : str) : list str :=
  match s with [] => [] | c :: r => tokenize_aux r [c] (is_alnum c) end.

Definition tok_is_alnum (t : str) : bool := match t with c :: _ => is_alnum c | [] => false end.

(* formatNumberList: [toks] is the slice between the leader and the trailer (the iterator range
   [it, trailerStrIt)); the state carried from number to number is (type, width, separator). *)
Fixpoint format_items (grouping : option (str * N)) (toks : list str) (ntype width : N) (sep : option str)
         (nums : list N) : option str :=
  match nums with
  | [] => Some []
  | n :: rest =>
      let '(ntype1, width1, toks1) :=
        match toks with
        | t :: ts => (last t 49, N.of_nat (length t), ts)
        | [] => (ntype, width, toks)
        end in
      let '(sep1, toks2) :=
        match toks1 with
        | t :: ts => (Some t, ts)
        | [] => (sep, toks1)
        end in
      match formatted_number grouping ntype1 width1 n with
      | None => None
      | Some s =>
          match rest with
          | [] => Some s
          | _ => match format_items grouping toks2 ntype1 width1 sep1 rest with
                 | Some tl => Some (s ++ (match sep1 with Some x => x | None => [46] end) ++ tl)
                 | None => None
                 end
          end
      end
  end.

Definition format_number_list (grouping : option (str * N)) (fmt : str) (nums : list N) : option str :=
  let fmt1 := match fmt with [] => [49] | _ => fmt end in
  let toks := tokenize fmt1 in
  let '(leader, toks1) :=
    match toks with
    | t :: ts => if tok_is_alnum t then ([], toks) else (t, ts)
    | [] => ([], toks)
    end in
  let has_trailer := (1 <? N.of_nat (length toks)) && negb (tok_is_alnum (last toks [])) in
  let trailer := if has_trailer then last toks [] else [] in
  let mid := if has_trailer then removelast toks1 else toks1 in
  match format_items grouping mid 49 1 None nums with
  | Some body => Some (leader ++ body ++ trailer)
  | None => None
  end.
