(* Extraction of the XPath interpreter model (and the data model builder). ExtrOcamlBasic only. *)
Require Import ExtrOcamlBasic.
Require Import XV.NumDefs XV.XpAst XV.DomDefs XV.XpDefs XV.XpCpDefs XV.XpCpTree.
Extraction "extracted/xp_model.ml"
  build_doc eval_top eval_this_tree to_string to_number to_boolean to_bits of_bits mkCtx.
