(* C08 part "html": text_escaping_roundtrip - what writeCharacters writes for a text node is read back, in the data
   state of the reader, as exactly the units of the node. *)
From Coq Require Import NArith List Bool Lia ZifyBool ZifyNat ZifyN.
Require Import XV.GenOutopt XV.GenHtml XV.HtmlEnt4Defs XV.HtmlDefs XV.HtmlTableModel XV.HtmlRefModel.
Import ListNotations.
Open Scope N_scope.

Definition maxc_ok (c : hcfg) : Prop := maxc c = 127 \/ maxc c = 255 \/ maxc c = 65535.

Lemma text_S_markup : forall c ch, text_S c ch = false -> ch <> 60 /\ ch <> 38 /\ ch <> 10.
Proof.
  intros c ch H. unfold text_S in H. apply orb_false_iff in H. destruct H as [H _].
  apply orb_false_iff in H. destruct H as [H _]. apply orb_false_iff in H. destruct H as [H _].
  assert (G : forallb (fun x => mem x text_special_list) [60; 38; 10] = true) by (vm_compute; reflexivity).
  cbn [forallb] in G. repeat split; intros ->; rewrite H in G; discriminate.
Qed.

Lemma emit_chars_app : forall a b toks, emit_chars (a ++ b) toks = emit_chars b (emit_chars a toks).
Proof. intros. unfold emit_chars. rewrite map_app, rev_app_distr, app_assoc. reflexivity. Qed.

Lemma run_data_plain : forall ch toks, ch <> 60 -> ch <> 38 -> run (Data, toks) [ch] = (Data, emit_chars [ch] toks).
Proof.
  intros ch toks H1 H2. cbn [run fold_left step]. unfold step_data.
  destruct (ch =? 60) eqn:E1; [lia|]. destruct (ch =? 38) eqn:E2; [lia|]. reflexivity.
Qed.

Lemma opt_app_some : forall a o b, o = Some b -> opt_app a o = Some (a ++ b).
Proof. intros a o b ->. reflexivity. Qed.

(* the statement, by induction on a bound of the length (a surrogate pair takes two units at once) *)
Lemma text_roundtrip_n : forall c, maxc_ok c -> forall n s, (length s <= n)%nat -> chars_ok s = true ->
  exists o, write_chars c s = Some o /\ forall toks, run (Data, toks) o = (Data, emit_chars s toks).
Proof.
  intros c Hc. induction n as [|n IH]; intros s Hn Hok.
  - destruct s; [|cbn in Hn; lia]. exists []. split; reflexivity.
  - destruct s as [|ch r]; [exists []; split; reflexivity|].
    unfold chars_ok in Hok. apply andb_true_iff in Hok. destruct Hok as [Hwf Hall].
    cbn [forallb] in Hall. apply andb_true_iff in Hall. destruct Hall as [Hch Hall].
    cbn [length] in Hn.
    assert (STEP : forall piece, (forall toks, run (Data, toks) piece = (Data, emit_chars [ch] toks)) -> wf16 r = true ->
              exists o, opt_app piece (write_chars c r) = Some o /\ forall toks, run (Data, toks) o = (Data, emit_chars (ch :: r) toks)).
    { intros piece Hp Hwr. destruct (IH r ltac:(lia)) as (o & Ho & Hrun).
      { unfold chars_ok. rewrite Hwr, Hall. reflexivity. }
      exists (piece ++ o). split; [apply opt_app_some; exact Ho|].
      intros toks. rewrite run_app, Hp, Hrun. change (ch :: r) with ([ch] ++ r). rewrite emit_chars_app. reflexivity. }
    cbn [write_chars].
    destruct ((ch <? specials_size) && negb (text_S c ch)) eqn:Eplain.
    + (* a unit written as it is *)
      apply andb_true_iff in Eplain. destruct Eplain as [ELT ES]. apply negb_true_iff in ES.
      destruct (text_S_markup _ _ ES) as (A & B & _).
      cbn [wf16] in Hwf. destruct (is_high ch) eqn:Eh.
      * exfalso. unfold is_high in Eh. unfold specials_size in ELT. lia.
      * apply andb_true_iff in Hwf. destruct Hwf as [_ Hwr]. apply STEP; [|exact Hwr]. intros toks. apply run_data_plain; assumption.
    + destruct (ch =? 10) eqn:E10.
      * apply N.eqb_eq in E10. subst ch. cbn [wf16 is_high is_lowsur N.leb N.ltb N.compare Pos.compare Pos.compare_cont andb negb] in Hwf.
        apply STEP; [|exact Hwf]. intros toks. reflexivity.
      * destruct (default_entity ch) as [e|] eqn:Ee.
        -- (* an entity reference *)
           assert (N39 : ch <> 39).
           { intros ->. unfold text_S, specials_size in Eplain. destruct Hc as [Hc|[Hc|Hc]]; rewrite Hc in Eplain; vm_compute in Eplain; discriminate. }
           destruct (default_entity_resolves _ _ N39 Ee) as (nm & -> & Hres & Hal & _).
           assert (Hnh : is_high ch = false /\ is_lowsur ch = false).
           { unfold default_entity in Ee. pose proof entities_agree as G. rewrite forallb_forall in G.
             assert (In (ch, nm) (xml_entities_html ++ html_entities)).
             { destruct (assoc ch xml_entities) as [n1|] eqn:E1.
               - injection Ee as Ee. apply app_inv_tail in Ee. subst n1. apply in_or_app. left. unfold xml_entities_html. apply filter_In.
                 split; [apply assoc_in; exact E1|]. cbn. destruct (ch =? 39) eqn:E; [lia | reflexivity].
               - destruct (assoc ch html_entities) as [n2|] eqn:E2; [|discriminate]. injection Ee as Ee. apply app_inv_tail in Ee. subst n2.
                 apply in_or_app. right. apply assoc_in. exact E2. }
             specialize (G _ H). unfold entity_ok in G. cbn [fst snd] in G.
             unfold html_char, mem in Hch. cbn [existsb] in Hch. unfold is_high, is_lowsur.
             (* entity characters are no surrogates: they resolve through units_of_cp to one unit; use the document character set *)
             assert (SUR : forallb (fun e => negb ((55296 <=? fst e) && (fst e <? 57344))) (xml_entities_html ++ html_entities) = true) by (vm_compute; reflexivity).
             rewrite forallb_forall in SUR. specialize (SUR _ H). cbn [fst] in SUR. lia. }
           destruct Hnh as [Hnh Hnl]. cbn [wf16] in Hwf. rewrite Hnh, Hnl in Hwf. cbn [negb andb] in Hwf.
           apply STEP; [|exact Hwf]. intros toks. apply run_named_ref; assumption.
        -- destruct (is_high ch) eqn:Eh.
           ++ (* a surrogate pair: one numeric reference *)
              cbn [wf16] in Hwf. rewrite Eh in Hwf. destruct r as [|lo r']; [discriminate|].
              apply andb_true_iff in Hwf. destruct Hwf as [Hlo Hwr]. rewrite Hlo.
              cbn [forallb] in Hall. apply andb_true_iff in Hall. destruct Hall as [_ Hall'].
              destruct (IH r' ltac:(cbn [length] in Hn; lia)) as (o & Ho & Hrun).
              { unfold chars_ok. rewrite Hwr, Hall'. reflexivity. }
              destruct (fix_cp_pair _ _ Eh Hlo) as (F1 & F2 & F3).
              exists (numref (pair_cp ch lo) ++ o). split; [apply opt_app_some; exact Ho|].
              intros toks. rewrite run_app, run_numref by exact F3. rewrite F1, F2, Hrun.
              change (ch :: lo :: r') with ([ch; lo] ++ r'). rewrite emit_chars_app. reflexivity.
           ++ cbn [wf16] in Hwf. rewrite Eh in Hwf. apply andb_true_iff in Hwf. destruct Hwf as [Hnl Hwr]. apply negb_true_iff in Hnl.
              destruct (fix_cp_char _ Hch Eh Hnl) as (F1 & F2).
              destruct ((text_literal_from <=? ch) && (ch <=? maxc c)) eqn:Elit.
              ** (* a unit of the encoding above DEL, as it is *)
                 apply STEP; [|exact Hwr]. intros toks. unfold content_unit.
                 apply andb_true_iff in Elit. destruct Elit as [L1 L2]. destruct (maxc c <? ch) eqn:E; [lia|].
                 apply run_data_plain; unfold text_literal_from in L1; lia.
              ** (* a numeric reference *)
                 apply STEP; [|exact Hwr]. intros toks. rewrite run_numref.
                 --- rewrite F1, F2. reflexivity.
                 --- unfold html_char, mem in Hch. cbn [existsb] in Hch. change (10 ^ 20) with 100000000000000000000. lia.
Qed.

Lemma text_roundtrip : forall c s, maxc_ok c -> chars_ok s = true ->
  exists o, write_chars c s = Some o /\ forall toks, run (Data, toks) o = (Data, emit_chars s toks).
Proof. intros c s Hc Hs. apply (text_roundtrip_n c Hc (length s) s (le_n _) Hs). Qed.

Lemma text_tokens : forall c s, maxc_ok c -> chars_ok s = true ->
  exists o, write_chars c s = Some o /\ tokenize o = Some (map TkChar s).
Proof.
  intros c s Hc Hs. destruct (text_roundtrip c s Hc Hs) as (o & Ho & Hrun). exists o. split; [exact Ho|].
  unfold tokenize. rewrite Hrun. unfold emit_chars. rewrite app_nil_r, rev_involutive. reflexivity.
Qed.
