(* C16 — xsl:sort yields a stable permutation ordered by its keys.
   Model: SortDefs.v (NodeSorter.cpp comparator with its key-value caches, stable sort, the
   attribute loop of ElemForEach::sortChildren; constants and branch results from GenSort.v).
   Collation is a parameter assumed to be a total preorder per (lang, case-order); key values are
   functions of (key index, original position). *)
From Coq Require Import ZArith List Bool Arith Permutation Sorted.
Import ListNotations.
Require Import XV.GenSort XV.SortDefs XV.SortOrder XV.SortCache XV.SortModel XV.SortRefine XV.SortMain XV.SortAttrs XV.SortRun.

(* the shapes GenSort.v was generated from are the ones the model encodes *)
Example gen_facts_as_modelled :
  (nan_lhs_result, nan_rhs_result, lt_result, gt_result, dummy_test_sense) = (Lt, Gt, Lt, Gt, true)
  /\ num_dummy_test sentinel_bits = true.
Proof. split; vm_compute; reflexivity. Qed.

(* ---------------- numeric comparison ---------------- *)
Theorem num_compare_total_preorder : total_preorder Z num_compare.
Proof. exact num_compare_tp. Qed.
Print Assumptions num_compare_total_preorder.

Theorem nan_before_every_number : forall a b, d_is_nan a = true -> d_is_nan b = false ->
    num_compare a b = Lt /\ num_compare b a = Gt.
Proof. intros a b Ha Hb. split; [apply num_nan_first | apply num_nan_last_rhs]; assumption. Qed.
Print Assumptions nan_before_every_number.

Theorem nan_equal_nan : forall a b, d_is_nan a = true -> d_is_nan b = true -> num_compare a b = Eq.
Proof. exact num_nan_nan. Qed.
Print Assumptions nan_equal_nan.

Theorem numbers_by_value : forall a b, d_is_nan a = false -> d_is_nan b = false ->
    num_compare a b = Z.compare (d_ord a) (d_ord b).
Proof. exact num_compare_numbers. Qed.
Print Assumptions numbers_by_value.

Theorem infinities_bound_numbers : forall b, d_is_nan b = false ->
    num_compare bits_neg_inf b <> Gt /\ num_compare b bits_pos_inf <> Gt.
Proof. exact num_inf_bounds. Qed.
Print Assumptions infinities_bound_numbers.

Example nan_before_specials :
  map (num_compare 0x7FF8000000000000) [bits_pos_zero; bits_neg_zero; bits_pos_inf; bits_neg_inf; sentinel_bits]
  = [Lt; Lt; Lt; Lt; Lt]
  /\ num_compare bits_pos_zero bits_neg_zero = Eq
  /\ num_compare bits_neg_inf 0xFFEFFFFFFFFFFFFF = Lt      (* -Infinity < -DBL_MAX *)
  /\ num_compare 0x7FEFFFFFFFFFFFFF bits_pos_inf = Lt       (* DBL_MAX < Infinity *)
  /\ num_compare 0xBFF0000000000000 0x3FF0000000000000 = Lt (* -1 < 1 *)
  /\ num_compare 0xC000000000000000 0xBFF0000000000000 = Lt (* -2 < -1 *).
Proof. vm_compute. repeat split; reflexivity. Qed.

(* ---------------- comparator ---------------- *)
Theorem cmp_total_preorder : forall coll, coll_ok coll ->
    forall keys nev sev, total_preorder entry (cmp coll keys nev sev).
Proof. intros coll H keys nev sev. apply cmp_tp. exact H. Qed.
Print Assumptions cmp_total_preorder.

(* the predicate handed to std::stable_sort is a strict weak ordering *)
Theorem less_strict_weak_ordering : forall coll, coll_ok coll -> forall keys nev sev,
    let lt := ltb entry (cmp coll keys nev sev) in
    (forall x, lt x x = false) /\
    (forall x y z, lt x y = true -> lt y z = true -> lt x z = true) /\
    (forall x y z, lt x y = false -> lt y x = false -> lt y z = false -> lt z y = false ->
                   lt x z = false /\ lt z x = false).
Proof. intros coll H keys nev sev. apply ltb_strict_weak. apply cmp_tp. exact H. Qed.
Print Assumptions less_strict_weak_ordering.

(* first key most significant; a later key decides only when all earlier ones tie *)
Theorem cmp_lexicographic : forall coll keys nev sev a b,
    (cmp coll keys nev sev a b = Lt <->
     exists i k, nth_error keys i = Some k /\ keyc coll nev sev k i a b = Lt /\
                 forall j kj, j < i -> nth_error keys j = Some kj -> keyc coll nev sev kj j a b = Eq)
    /\ (cmp coll keys nev sev a b = Eq <->
        forall j kj, nth_error keys j = Some kj -> keyc coll nev sev kj j a b = Eq).
Proof.
  intros. split; [apply (compare_from_lt_iff coll nev sev keys 0) | apply (compare_from_eq_iff coll nev sev keys 0)].
Qed.
Print Assumptions cmp_lexicographic.

(* hypotheses are satisfiable: code-point order is a total preorder *)
Example collation_hypothesis_satisfiable : coll_ok cp_coll.
Proof. exact cp_coll_ok. Qed.

(* ---------------- caches ---------------- *)
Theorem cache_transparent : forall V dummy is_dummy dflt nkeys nnodes ev,
    is_dummy dummy = true ->
    forall c k p, cache_ok V is_dummy dflt nkeys nnodes ev c -> k < nkeys -> p < nnodes ->
      fst (cache_get V dummy is_dummy dflt nkeys nnodes ev c k p) = ev k p /\
      cache_ok V is_dummy dflt nkeys nnodes ev (snd (cache_get V dummy is_dummy dflt nkeys nnodes ev c k p)).
Proof. intros. apply cache_get_transparent; assumption. Qed.
Print Assumptions cache_transparent.

(* the comparator as coded (caches threaded, sentinel from the source) computes the cache-free comparison *)
Theorem comparator_cache_transparent : forall coll keys nnodes nev sev a b st,
    caches_ok keys nnodes nev sev st -> e_pos a < nnodes -> e_pos b < nnodes ->
    fst (compare_st coll keys nnodes nev sev keys 0 a b st) = cmp coll keys nev sev a b /\
    caches_ok keys nnodes nev sev (snd (compare_st coll keys nnodes nev sev keys 0 a b st)).
Proof. intros. apply compare_st_pure; try assumption. apply Nat.le_refl. Qed.
Print Assumptions comparator_cache_transparent.

(* a key whose real value is the sentinel: recomputed, never a wrong order *)
Example sentinel_key_example :
  let nev := fun (k p : nat) => nth p [sentinel_bits; 0x3FF0000000000000; sentinel_bits; 0x7FF8000000000000]%Z 0%Z in
  let keys := [{| k_num := true; k_desc := false; k_case := CaseDefault; k_lang := [] |}] in
  selected_and_sorted cp_coll keys nev (fun _ _ => []) [10; 11; 12; 13]%N = [13; 11; 10; 12]%N.
Proof. vm_compute. reflexivity. Qed.

(* ---------------- the sort ---------------- *)
Theorem sort_as_coded_is_spec : forall coll keys nev sev nodes,
    code_sorted coll keys nev sev nodes = spec_sorted coll keys nev sev nodes
    /\ selected_and_sorted coll keys nev sev nodes = map e_node (spec_sorted coll keys nev sev nodes).
Proof. intros. split; [apply code_sorted_spec | apply selected_and_sorted_spec]. Qed.
Print Assumptions sort_as_coded_is_spec.

Theorem sort_perm : forall coll keys nev sev nodes,
    Permutation (selected_and_sorted coll keys nev sev nodes) nodes.
Proof. exact SortMain.sort_perm. Qed.
Print Assumptions sort_perm.

Theorem sort_sorted : forall coll, coll_ok coll -> forall keys nev sev nodes,
    StronglySorted (fun a b => cmp coll keys nev sev a b <> Gt) (spec_sorted coll keys nev sev nodes).
Proof. exact SortMain.sort_sorted. Qed.
Print Assumptions sort_sorted.

Theorem sort_stable : forall coll, coll_ok coll -> forall keys nev sev nodes z,
    filter (eqvb entry (cmp coll keys nev sev) z) (spec_sorted coll keys nev sev nodes)
    = filter (eqvb entry (cmp coll keys nev sev) z) (entries_from 0 nodes).
Proof. exact SortMain.sort_stable. Qed.
Print Assumptions sort_stable.

(* in the output an earlier node sorts strictly before a later one, or ties with it on every key
   and precedes it in the selected (document-ordered) list *)
Theorem sort_stable_document_order : forall coll, coll_ok coll -> forall keys nev sev nodes,
    StronglySorted (fun a b => cmp coll keys nev sev a b = Lt \/ (cmp coll keys nev sev a b = Eq /\ e_pos a < e_pos b))
                   (spec_sorted coll keys nev sev nodes).
Proof. exact SortMain.sort_doc_order. Qed.
Print Assumptions sort_stable_document_order.

(* any stable sorting algorithm used with this comparator returns this list *)
Theorem sort_unique : forall coll, coll_ok coll -> forall keys nev sev nodes l',
    StronglySorted (fun a b => cmp coll keys nev sev a b <> Gt) l' ->
    (forall z, filter (eqvb entry (cmp coll keys nev sev) z) l' = filter (eqvb entry (cmp coll keys nev sev) z) (entries_from 0 nodes)) ->
    l' = spec_sorted coll keys nev sev nodes.
Proof. exact SortMain.sort_unique. Qed.
Print Assumptions sort_unique.

Theorem position_last_sorted : forall coll keys nev sev nodes j,
    nth_error (for_each coll keys nev sev nodes) j =
    option_map (fun n => (n, S j, length nodes)) (nth_error (map e_node (spec_sorted coll keys nev sev nodes)) j).
Proof. exact SortMain.position_last_sorted. Qed.
Print Assumptions position_last_sorted.

Theorem sort_spec : forall coll, coll_ok coll -> forall keys nev sev nodes,
    let s := spec_sorted coll keys nev sev nodes in
    map (fun t => fst (fst t)) (for_each coll keys nev sev nodes) = map e_node s /\
    Permutation (map e_node s) nodes /\
    StronglySorted (before entry (cmp coll keys nev sev) e_pos) s /\
    (forall j n p l, nth_error (for_each coll keys nev sev nodes) j = Some (n, p, l) -> p = S j /\ l = length nodes).
Proof. exact for_each_spec. Qed.
Print Assumptions sort_spec.

(* the extracted entry point used by the correspondence *)
Theorem extracted_run_sort_spec : forall es ntab stab nodes out,
    run_sort es ntab stab nodes = Some out ->
    exists keys, sort_attrs es = Some keys /\
      let nev := tab_get 0%Z ntab in let sev := tab_get [] stab in
      let s := spec_sorted cp_coll keys nev sev nodes in
      map (fun t => fst (fst t)) out = map e_node s /\
      Permutation (map e_node s) nodes /\
      StronglySorted (before entry (cmp cp_coll keys nev sev) e_pos) s /\
      (forall j n p l, nth_error out j = Some (n, p, l) -> p = S j /\ l = length nodes).
Proof. exact run_sort_spec. Qed.
Print Assumptions extracted_run_sort_spec.

Example sort_example :
  (* keys: number ascending, then text descending; nodes 0..4 with (number, string) values *)
  let nev := fun (k p : nat) => match k with 0 => nth p [0x4000000000000000; 0x7FF8000000000000; 0x4000000000000000; 0; 0x8000000000000000]%Z 0%Z | _ => 0%Z end in
  let sev := fun (k p : nat) => match k with 1 => nth p [[97]; [120]; [98]; [99]; [99]]%N [] | _ => [] end in
  let keys := [{| k_num := true; k_desc := false; k_case := CaseDefault; k_lang := [] |};
               {| k_num := false; k_desc := true; k_case := CaseDefault; k_lang := [] |}] in
  for_each cp_coll keys nev sev [0; 1; 2; 3; 4]%N = [(1%N, 1, 5); (3%N, 2, 5); (4%N, 3, 5); (2%N, 4, 5); (0%N, 5, 5)].
Proof. vm_compute. reflexivity. Qed.

(* ---------------- attributes of the xsl:sort children ---------------- *)
(* in every configuration of the source *)
Theorem key_attrs_other_independent : forall es ks,
    sort_attrs es = Some ks ->
    exists oks, own_keys es = Some oks /\ map (set_lang []) ks = map (set_lang []) oks.
Proof. exact SortAttrs.key_attrs_other_independent. Qed.
Print Assumptions key_attrs_other_independent.

Theorem key_attrs_errors_are_own : forall es, sort_attrs es = None <-> own_keys es = None.
Proof. exact sort_attrs_error_iff. Qed.
Print Assumptions key_attrs_errors_are_own.

(* The language of a key.  GenSort.v records how sortChildren and NodeSortKey treat the lang
   scratch string.  The theorems below cover the two coherent configurations; this example checks
   that the current source is in one of them.  At the time of writing it is the first one (one
   string shared by all keys: known finding K-C16-1; the check's evidence records which one is
   live as "lang_configuration"). *)
Example source_lang_configuration_is_covered :
  (lang_fresh = false /\ lang_aliased = true) \/ (lang_fresh = true /\ lang_aliased = false).
Proof. first [ left; split; reflexivity | right; split; reflexivity ]. Qed.

Theorem key_attrs_lang_is_last_scratch : lang_fresh = false -> lang_aliased = true -> forall es ks,
    sort_attrs es = Some ks -> Forall (fun k => k_lang k = final_lang es) ks.
Proof. intros _ A. exact (sort_attrs_lang A). Qed.
Print Assumptions key_attrs_lang_is_last_scratch.

(* the full statement "every key is evaluated from its own attributes" is violated by the code as
   it is: the second key has no lang attribute but sorts with lang="sv" *)
Definition sv : str := [115; 118]%N.
Definition two_keys : list sort_elem :=
  [ {| se_lang := AvtSimple sv; se_dtype := AvtSimple s_text; se_order := AvtSimple s_ascending; se_case := AvtAbsent |};
    {| se_lang := AvtAbsent; se_dtype := AvtSimple s_text; se_order := AvtSimple s_ascending; se_case := AvtAbsent |} ].

Theorem key_attrs_independent_refuted : lang_fresh = false -> lang_aliased = true ->
  exists es ks oks, sort_attrs es = Some ks /\ own_keys es = Some oks /\ ks <> oks
                    /\ map k_lang ks = [sv; sv] /\ map k_lang oks = [sv; []].
Proof.
  intros F A. exists two_keys.
  assert (O : own_keys two_keys = Some [ {| k_num := false; k_desc := false; k_case := CaseDefault; k_lang := sv |};
                                         {| k_num := false; k_desc := false; k_case := CaseDefault; k_lang := [] |} ])
    by (vm_compute; reflexivity).
  assert (L : final_lang two_keys = sv).
  { rewrite final_lang_fold. simpl. rewrite !(lang_step_shared F). reflexivity. }
  eexists. eexists. split; [rewrite (sort_attrs_char A), O, L; reflexivity|]. split; [exact O|].
  split; [discriminate|]. split; reflexivity.
Qed.
Print Assumptions key_attrs_independent_refuted.

Theorem key_attrs_independent_partial : lang_fresh = false -> lang_aliased = true -> forall es oks,
    own_keys es = Some oks -> (sort_attrs es = Some oks <-> langs_independent es = true).
Proof. intros _ A. exact (SortAttrs.key_attrs_independent_partial A). Qed.
Print Assumptions key_attrs_independent_partial.

Theorem key_attrs_independent_without_lang : lang_fresh = false -> forall es,
    Forall (fun e => se_lang e = AvtAbsent) es -> langs_independent es = true.
Proof. intros F. exact (no_lang_independent F). Qed.
Print Assumptions key_attrs_independent_without_lang.

Theorem key_attrs_independent_single_key : lang_fresh = false -> forall e, langs_independent [e] = true.
Proof. intros F. exact (single_key_independent F). Qed.
Print Assumptions key_attrs_independent_single_key.

Example guard_is_satisfiable_and_exact :
  langs_independent two_keys = false /\
  langs_independent [ {| se_lang := AvtSimple sv; se_dtype := AvtAbsent; se_order := AvtAbsent; se_case := AvtAbsent |};
                      {| se_lang := AvtSimple sv; se_dtype := AvtParts s_number; se_order := AvtAbsent; se_case := AvtAbsent |} ] = true.
Proof. split; vm_compute; reflexivity. Qed.

(* for a source in which every key has its own, initially empty, language string the full
   statement holds (see source_lang_configuration_is_covered) *)
Theorem key_attrs_independent_when_repaired : lang_fresh = true -> lang_aliased = false ->
    forall es, sort_attrs es = own_keys es.
Proof. exact key_attrs_independent_full. Qed.
Print Assumptions key_attrs_independent_when_repaired.
