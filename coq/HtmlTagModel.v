(* C08 part "html": attribute lists in tag position - what processAttribute writes after "<name" is read back by the
   reader's tag states as the (normalised) attribute list: minimised boolean attributes, URL-valued attributes
   (escaped or not), ordinary values. *)
From Coq Require Import NArith List Bool Lia ZifyBool ZifyNat ZifyN.
Require Import XV.GenOutopt XV.GenHtml XV.HtmlEnt4Defs XV.HtmlDefs XV.HtmlTableModel XV.HtmlRefModel XV.HtmlTextModel XV.HtmlAttrModel XV.HtmlElemModel XV.HtmlUriModel.
Import ListNotations.
Open Scope N_scope.

(* ---- the ATTREMPTY flags of the table are HTML 4.01's boolean attributes, for all names in every case ---------- *)
Definition bool_table_ok : bool :=
  forallb (fun e => forallb (fun a => Bool.eqb (negb (N.land (snd a) aflag_ATTREMPTY =? 0)) (is_bool4 (map low (fst (fst e))) (map low (fst a)))) (snd e)) html_elements &&
  forallb (fun p => attr_is aflag_ATTREMPTY (fst p) (snd p) && str_eqb (map low (fst p)) (fst p) && str_eqb (map low (snd p)) (snd p)) bool4.
Lemma bool_table : bool_table_ok = true.
Proof. vm_compute. reflexivity. Qed.

Lemma bool_flag : forall elem name, attr_is aflag_ATTREMPTY elem name = is_bool4 (map low elem) (map low name).
Proof.
  intros elem name. pose proof bool_table as G. unfold bool_table_ok in G. apply andb_true_iff in G. destruct G as [G1 G2].
  rewrite forallb_forall in G1, G2.
  destruct (is_bool4 (map low elem) (map low name)) eqn:E.
  - unfold is_bool4 in E. apply existsb_exists in E. destruct E as (p & Hin & Hp).
    apply andb_true_iff in Hp. destruct Hp as [P1 P2]. apply str_eqb_eq in P1, P2.
    specialize (G2 _ Hin). apply andb_true_iff in G2. destruct G2 as [G2 _]. apply andb_true_iff in G2. destruct G2 as [G2 _].
    rewrite P1, P2, attr_is_low in G2. exact G2.
  - unfold attr_is, elem_find.
    destruct (find (fun e => str_eqb (fst (fst e)) (map up elem)) html_elements) as [[[k fl] at_]|] eqn:F; [|reflexivity].
    apply find_some_key in F. destruct F as [F1 F2]. cbn in F2.
    destruct (find (fun a => str_eqb (fst a) (map up name)) at_) as [[ak af]|] eqn:FA; [|reflexivity].
    apply find_some in FA. destruct FA as [FA1 FA2]. cbn in FA2. apply str_eqb_eq in FA2.
    specialize (G1 _ F1). cbn [snd fst] in G1. rewrite forallb_forall in G1. specialize (G1 _ FA1). cbn [snd fst] in G1.
    rewrite F2, FA2, !map_low_up, E in G1. apply Bool.eqb_prop in G1. exact G1.
Qed.

Lemma eq_nocase_low : forall a b, eq_nocase a b = str_eqb (map low b) (map low a).
Proof.
  intros a b. unfold eq_nocase. destruct (str_eqb (map low b) (map low a)) eqn:E.
  - apply str_eqb_eq in E. apply str_eqb_eq. rewrite <- (map_up_low a), <- (map_up_low b), E. reflexivity.
  - destruct (str_eqb (map up a) (map up b)) eqn:E2; [|reflexivity]. apply str_eqb_eq in E2.
    assert (map low b = map low a) by (rewrite <- (map_low_up a), <- (map_low_up b), E2; reflexivity).
    apply str_eqb_eq in H. congruence.
Qed.

(* ---- the reader's tag states --------------------------------------------------------------------------------- *)
Definition pending (nm : str) (ats : list (str * str)) (m : mode) : Prop :=
  forall toks, step (m, toks) 32 = (BeforeAttr nm ats, toks) /\ step (m, toks) 62 = emit_start nm ats toks.

Lemma pending_tagname : forall acc, pending (rev acc) [] (TagName acc).
Proof. intros acc toks. split; reflexivity. Qed.
Lemma pending_afterval : forall nm ats, pending nm ats (AfterVal nm ats).
Proof. intros nm ats toks. split; reflexivity. Qed.
Lemma pending_attrname : forall nm ats an, pending nm ((rev an, rev an) :: ats) (AttrName nm ats an).
Proof. intros nm ats an toks. split; reflexivity. Qed.

Definition aname_char (x : N) : bool := name_char x || (x =? 58).
Lemma aname_char_plain : forall ch, aname_char ch = true ->
  is_ws ch = false /\ ch <> 62 /\ ch <> 47 /\ ch <> 61 /\ ch <> 34 /\ ch <= 127.
Proof.
  intros ch H. unfold aname_char, name_char, is_alnum, is_letter, is_digit, mem in H. cbn [existsb] in H. unfold is_ws, mem. cbn [existsb]. lia.
Qed.

Lemma run_attrname : forall nm ats rest acc toks, forallb aname_char rest = true ->
  run (AttrName nm ats acc, toks) rest = (AttrName nm ats (rev (map low rest) ++ acc), toks).
Proof.
  intros nm ats. induction rest as [|ch rest IH]; intros acc toks H; [reflexivity|].
  cbn [forallb] in H. apply andb_true_iff in H. destruct H as [H1 H2]. destruct (aname_char_plain _ H1) as (A & B & C & D & E & _).
  rewrite run_cons. cbn [step]. destruct (ch =? 61) eqn:E1; [lia|]. rewrite A. destruct (ch =? 62) eqn:E2; [lia|].
  destruct (ch =? 47) eqn:E3; [lia|]. destruct (ch =? 34) eqn:E4; [lia|]. cbn [orb].
  rewrite IH by exact H2. cbn [map rev]. rewrite <- app_assoc. reflexivity.
Qed.

Lemma run_attr_name_from_before : forall nm ats name toks, attr_name_ok name = true ->
  run (BeforeAttr nm ats, toks) name = (AttrName nm ats (rev (map low name)), toks).
Proof.
  intros nm ats name toks H. destruct name as [|ch rest]; [discriminate|]. cbn [attr_name_ok] in H.
  apply andb_true_iff in H. destruct H as [H1 H2]. rewrite run_cons. cbn [step].
  assert (A : is_ws ch = false /\ ch <> 62 /\ ch <> 47 /\ ch <> 61 /\ ch <> 34) by (unfold is_letter in H1; unfold is_ws, mem; cbn [existsb]; lia).
  destruct A as (A & B & C & D & E). rewrite A. destruct (ch =? 62) eqn:E2; [lia|].
  destruct (ch =? 47) eqn:E3; [lia|]. destruct (ch =? 61) eqn:E1; [lia|]. destruct (ch =? 34) eqn:E4; [lia|]. cbn [orb].
  rewrite run_attrname by exact H2. cbn [map rev]. reflexivity.
Qed.

Lemma attr_name_ascii : forall name, attr_name_ok name = true -> forallb (fun x => x <=? 127) name = true.
Proof.
  intros name H. destruct name as [|ch rest]; [discriminate|]. cbn [attr_name_ok] in H. apply andb_true_iff in H. destruct H as [H1 H2].
  cbn [forallb]. apply andb_true_iff. split; [unfold is_letter in H1; lia|].
  rewrite forallb_forall in *. intros x Hx. destruct (aname_char_plain x (H2 x Hx)) as (_ & _ & _ & _ & _ & L). lia.
Qed.

(* ---- the attribute list -------------------------------------------------------------------------------------------- *)
Definition flags_ok : Prop := attr_pair_is_one_reference = true /\ uri_noescape_pair_is_one_reference = true.

Lemma attrs_run : forall c elem, maxc_ok c -> flags_ok ->
  forall attrs, forallb attr_ok attrs = true ->
  forall ats m, pending (map low elem) ats m ->
  exists ao, ser_attrs c elem attrs = Some ao /\
             forall toks, run (m, toks) (ao ++ [62]) = emit_start (map low elem) (rev (map (norm_attr c (map low elem)) attrs) ++ ats) toks.
Proof.
  intros c elem Hc [FL1 FL2]. set (nm := map low elem).
  induction attrs as [|[name value] l IH]; intros Hok ats m Hp.
  - exists []. split; [reflexivity|]. intros toks. cbn [app run fold_left map rev]. apply (proj2 (Hp toks)).
  - cbn [forallb] in Hok. apply andb_true_iff in Hok. destruct Hok as [Ha Hl]. unfold attr_ok in Ha. cbn [fst snd] in Ha.
    apply andb_true_iff in Ha. destruct Ha as [Hn Hv].
    set (n := map low name).
    assert (ACC : acc_name c name = name) by (apply acc_name_ascii; [exact Hc | apply attr_name_ascii; exact Hn]).
    cbn [ser_attrs ser_attr]. rewrite ACC, bool_flag, eq_nocase_low. fold nm. fold n.
    assert (NA : norm_attr c nm (name, value) =
                 if is_bool4 nm n && match value with [] => true | _ => str_eqb (map low value) n end then (n, n)
                 else if esc_urls c && attr_is aflag_ATTRURL elem name then (n, uri_spec value) else (n, value)).
    { unfold norm_attr. cbn [fst snd]. fold n. unfold nm, n. rewrite attr_is_low. destruct value; reflexivity. }
    destruct ((match value with [] => true | _ :: _ => str_eqb (map low value) n end) && is_bool4 nm n) eqn:Emin.
    + (* minimised *)
      destruct (IH Hl ((n, n) :: ats) (AttrName nm ats (rev n))) as (ao & Hao & Hrun).
      { replace ((n, n) :: ats) with ((rev (rev n), rev (rev n)) :: ats) by (rewrite rev_involutive; reflexivity). apply pending_attrname. }
      exists ((32 :: name) ++ ao). split; [apply opt_app_some; exact Hao|].
      intros toks. rewrite <- app_assoc. cbn [app]. rewrite run_cons, (proj1 (Hp toks)).
      rewrite run_app, run_attr_name_from_before by exact Hn. fold n. rewrite Hrun.
      cbn [map rev]. rewrite NA. rewrite andb_comm in Emin. rewrite Emin. rewrite <- app_assoc. reflexivity.
    + (* name="value" *)
      set (v' := if attr_is aflag_ATTRURL elem name then (if esc_urls c then uri_spec value else value) else value).
      assert (VO : exists vo, (if attr_is aflag_ATTRURL elem name then Some (write_uri c value) else write_attr value) = Some vo /\
                   forall toks v, run (AttrVal nm ats (rev n) v, toks) vo = (AttrVal nm ats (rev n) (rev v' ++ v), toks)).
      { unfold v'. destruct (attr_is aflag_ATTRURL elem name).
        - exists (write_uri c value). split; [reflexivity|]. intros toks v. apply uri_run; assumption.
        - destruct (attr_roundtrip nm ats (rev n) [] FL1 value Hv) as (vo & Hvo & _).
          exists vo. split; [exact Hvo|]. intros toks v. destruct (attr_roundtrip nm ats (rev n) toks FL1 value Hv) as (vo2 & Hvo2 & Hr2).
          assert (vo2 = vo) by congruence. subst vo2. apply Hr2. }
      destruct VO as (vo & Hvo & Hvrun). rewrite Hvo.
      destruct (IH Hl ((n, v') :: ats) (AfterVal nm ((n, v') :: ats)) (pending_afterval _ _)) as (ao & Hao & Hrun).
      exists ((32 :: name ++ [61; 34] ++ vo ++ [34]) ++ ao). split; [apply opt_app_some; exact Hao|].
      intros toks. rewrite <- app_assoc. cbn [app]. rewrite run_cons, (proj1 (Hp toks)).
      rewrite <- !app_assoc. rewrite run_app, run_attr_name_from_before by exact Hn. fold n.
      cbn [app]. rewrite run_cons. cbn [step N.eqb Pos.eqb]. rewrite run_cons. cbn [step N.eqb Pos.eqb].
      rewrite <- !app_assoc. rewrite run_app, Hvrun. cbn [app]. rewrite run_cons. cbn [step]. unfold step_attrval. cbn [N.eqb Pos.eqb].
      rewrite app_nil_r, !rev_involutive. rewrite Hrun.
      cbn [map rev]. rewrite NA. rewrite andb_comm in Emin. rewrite Emin. rewrite <- app_assoc.
      unfold v'. destruct (attr_is aflag_ATTRURL elem name); [destruct (esc_urls c)|rewrite andb_false_r]; reflexivity.
Qed.
