(* Properties_C04.v — property theorems for C04 (XML output parses back to the result tree).
   Nothing but statements closed by [exact] and their assumptions.  The model is
   SerUtfDefs (buffered writers) / SerEscDefs (escaping, element stack) / XmlParseDefs (model
   reader); every table, buffer size and `m_bufferRemaining < k` guard comes from GenSer.v, which
   translator/gen_ser.py regenerates from /repo on every run. *)
From Coq Require Import NArith List Bool.
Require Import XV.SerDefs XV.XmlParseDefs XV.SerUtfModel XV.SerUtfModel2 XV.SerEscModel XV.SerEscModel2 XV.XmlDocDefs XV.SerDocDefs XV.SerUtf8Sim XV.SerDocModel XV.SerDocModel2.
Import ListNotations.
Local Open Scope N_scope.

(* ---- the staging buffers ----------------------------------------------------------------------- *)

(* writer_inv + writer_transparent: for ANY sequence of buffer operations whose guards protect
   their stores, started at ANY buffer offset satisfying the invariant
   (position + remaining = kBufferSize): no store falls outside m_buffer, the invariant is kept,
   and what reaches the Writer is exactly the concatenation of the operations' data — a multi-unit
   character can never be torn or lost at a flush. *)
Theorem writer_transparent : forall kb its w, kb < 2 ^ 64 -> wr_inv kb w ->
  forallb (item_sound kb) its = true ->
  match payload its with
  | Ok bs => exists w', run kb its w = Ok w' /\ wr_inv kb w' /\ all_units w' = all_units w ++ bs
  | Thrown c => run kb its w = Thrown c
  | Oob => False
  end.
Proof. exact run_transparent. Qed.
Print Assumptions writer_transparent.

Theorem writer_inv_initially : forall kb, wr_inv kb (wr_init kb).
Proof. exact wr_init_inv. Qed.
Print Assumptions writer_inv_initially.

(* every operation the three writers offer has a guard that protects its stores, for the buffer
   sizes and the guards found in the source (this is the statement that a change of
   `m_bufferRemaining < 3` into `< 2` breaks) *)
Theorem writer_operations_guarded :
  fam_sound fam_utf8 /\ fam_sound fam_utf16 /\ forall rep, fam_sound (fam_other rep).
Proof. exact (conj fam_utf8_sound (conj fam_utf16_sound fam_other_sound)). Qed.
Print Assumptions writer_operations_guarded.

(* hence for every event script, version, and writer family the serializer's output is the plain
   concatenation of what the escaping layer emits: the buffers are invisible and never overrun *)
Theorem serialize_transparent : forall k v11 ver enc es,
  serialize k v11 ver enc es = payload (document_items (fam_of k) v11 ver enc es).
Proof. exact SerUtfModel.serialize_transparent. Qed.
Print Assumptions serialize_transparent.

Theorem serialize_never_out_of_bounds : forall k v11 ver enc es, serialize k v11 ver enc es <> Oob.
Proof. exact serialize_never_oob. Qed.
Print Assumptions serialize_never_out_of_bounds.

(* the function that is extracted and run against the library is this one *)
Theorem extracted_function_is_serialize : forall k v11 ver enc es,
  serialize_fast k v11 ver enc es = serialize k v11 ver enc es.
Proof. exact serialize_fast_eq. Qed.
Print Assumptions extracted_function_is_serialize.

(* the transcoder-backed writer with ANY representability predicate (rep_all: UTF-32, UCS-4, the alias
   "UTF8" — encodings in which a surrogate pair goes through write(XalanUnicodeChar) and its
   `m_bufferRemaining < 2` guard) *)
Theorem serialize_transparent_any_encoding : forall rep v11 ver enc es,
  serialize_other rep v11 ver enc es = payload (document_items (fam_other rep) v11 ver enc es).
Proof. exact serialize_other_transparent. Qed.
Print Assumptions serialize_transparent_any_encoding.

Theorem extracted_other_function_is_serialize_other : forall rep v11 ver enc es,
  serialize_other_fast rep v11 ver enc es = serialize_other rep v11 ver enc es.
Proof. exact serialize_other_fast_eq. Qed.
Print Assumptions extracted_other_function_is_serialize_other.

(* a surrogate pair arriving when one unit is left: the buffer is flushed first, the pair stays whole *)
Example pair_at_buffer_end_is_not_split :
  match run kbuf_other (o_str rep_all (repeat 97 (N.to_nat (kbuf_other - 1))) ++ o_code 128512) (wr_init kbuf_other) with
  | Ok w => buf_rev w = [56832; 55357] /\ len (out_rev w) = kbuf_other - 1
  | _ => False
  end.
Proof. vm_compute. split; reflexivity. Qed.
Print Assumptions pair_at_buffer_end_is_not_split.

Example writer_transparent_hypotheses_satisfiable :
  forallb (item_sound kbuf_utf8) (u8_str [97; 233; 8364; 55357; 56832]) = true /\
  payload (u8_str [97; 233; 8364; 55357; 56832]) = Ok [97; 195; 169; 226; 130; 172; 240; 159; 152; 128].
Proof. split; vm_compute; reflexivity. Qed.
Print Assumptions writer_transparent_hypotheses_satisfiable.

(* ---- UTF-8 ---------------------------------------------------------------------------------------- *)

(* the byte formulas of XalanUTF8Writer::write(XalanUnicodeChar) (leaf helpers regenerated from the
   source) are RFC 3629 *)
Theorem utf8_encoder_is_rfc3629 : forall cp, cp <= 1114111 -> payload (u8_code cp) = Ok (utf8_spec cp).
Proof. exact u8_code_spec. Qed.
Print Assumptions utf8_encoder_is_rfc3629.

Theorem utf8_above_unicode_throws : forall cp, 1114111 < cp -> payload (u8_code cp) = Thrown err_scalar.
Proof. exact u8_code_too_big. Qed.
Print Assumptions utf8_above_unicode_throws.

(* utf8_roundtrip: a strict decoder (shortest form, no surrogates) reads back exactly the code
   points of every UTF-16 string whose surrogates are paired *)
Theorem utf8_roundtrip : forall s cps, forallb (fun c => c <? 65536) s = true ->
  code_points s = Some cps ->
  exists bs, payload (u8_str s) = Ok bs /\ utf8_decode (S (length bs)) bs = Some cps.
Proof. exact utf8_roundtrip16. Qed.
Print Assumptions utf8_roundtrip.

Example utf8_roundtrip_instance :
  code_points [97; 55357; 56832; 8364] = Some [97; 128512; 8364] /\
  forallb (fun c => c <? 65536) [97; 55357; 56832; 8364] = true.
Proof. split; vm_compute; reflexivity. Qed.
Print Assumptions utf8_roundtrip_instance.

(* unpaired surrogates (K7, repaired): every string with an unpaired surrogate anywhere is an error,
   never bytes — in the UTF-8 writer and in the UTF-16 writer's character-data path *)
Theorem utf8_lone_low_is_an_error : forall c r, is_low c = true ->
  payload (u8_str (c :: r)) = Thrown err_surrogate.
Proof. exact utf8_lone_low_throws. Qed.
Print Assumptions utf8_lone_low_is_an_error.

Theorem utf8_lone_high_is_an_error : forall c, is_high c = true -> payload (u8_str [c]) = Thrown err_surrogate.
Proof. exact utf8_lone_high_throws. Qed.
Print Assumptions utf8_lone_high_is_an_error.

Theorem utf8_unpaired_surrogate_fails : forall s, code_points s = None ->
  exists code, payload (u8_str s) = Thrown code.
Proof. exact utf8_unpaired_is_an_error_strong. Qed.
Print Assumptions utf8_unpaired_surrogate_fails.

Theorem utf16_unpaired_surrogate_fails : forall s, code_points s = None ->
  exists code, payload (u16_chars s) = Thrown code.
Proof. exact u16_unpaired_is_an_error. Qed.
Print Assumptions utf16_unpaired_surrogate_fails.

Theorem utf16_paired_is_verbatim : forall s cps, code_points s = Some cps -> payload (u16_chars s) = Ok s.
Proof. exact u16_chars_verbatim. Qed.
Print Assumptions utf16_paired_is_verbatim.

Example unpaired_surrogate_instances :
  code_points [97; 56832; 98] = None /\ code_points [97; 55357] = None /\
  code_points [55357; 56832] = Some [128512].
Proof. repeat split; vm_compute; reflexivity. Qed.
Print Assumptions unpaired_surrogate_instances.

(* ---- escaping: what a conforming parser reads back ------------------------------------------------- *)
(* wf_text v11 s: s is a sequence of Chars of that XML version with paired surrogates.  The reader
   (XmlParseDefs.v) is written from the XML recommendations: end-of-line normalisation,
   references, CDATA sections, attribute-value normalisation, legality of literal characters.
   The special-character tables of both versions enter through exhaustive sweeps over GenSer.v. *)

(* content_roundtrip: text nodes, XML 1.0 and 1.1 tables, UTF-16 writer (nothing unrepresentable) *)
Theorem content_roundtrip : forall v11 s, wf_text v11 s = true ->
  exists bs, payload (write_content fam_utf16 v11 s) = Ok bs /\ parse_content v11 bs = Some s.
Proof. exact SerEscModel.content_roundtrip. Qed.
Print Assumptions content_roundtrip.

(* attr_roundtrip: TAB, LF, CR are written as references and so survive normalisation *)
Theorem attr_roundtrip : forall v11 s, wf_text v11 s = true ->
  exists bs, payload (write_attr_string fam_utf16 v11 s) = Ok bs /\ parse_attr v11 bs = Some s.
Proof. exact SerEscModel.attr_roundtrip. Qed.
Print Assumptions attr_roundtrip.

(* the same through the other-encoding writer, for EVERY representability predicate that accepts
   ASCII: unrepresentable characters become decimal character references *)
Theorem content_roundtrip_any_encoding : forall rep, (forall c, c < 128 -> rep c = true) ->
  forall v11 s, wf_text v11 s = true -> small s = true ->
  exists bs, payload (write_content (fam_other rep) v11 s) = Ok bs /\ parse_content v11 bs = Some s.
Proof. exact content_roundtrip_other. Qed.
Print Assumptions content_roundtrip_any_encoding.

Theorem attr_roundtrip_any_encoding : forall rep, (forall c, c < 128 -> rep c = true) ->
  forall v11 s, wf_text v11 s = true -> small s = true ->
  exists bs, payload (write_attr_string (fam_other rep) v11 s) = Ok bs /\ parse_attr v11 bs = Some s.
Proof. exact attr_roundtrip_other. Qed.
Print Assumptions attr_roundtrip_any_encoding.

Example roundtrip_hypotheses_satisfiable :
  wf_text false [60; 38; 62; 34; 9; 10; 13; 233; 8364; 55357; 56832; 93; 93; 62; 133; 8232] = true /\
  wf_text true [1; 60; 133; 8232; 159; 55357; 56832] = true /\
  small [60; 8364; 55357; 56832] = true /\ (forall c, c < 128 -> rep_latin1 c = true).
Proof. repeat split; try (vm_compute; reflexivity). exact rep_latin1_low. Qed.
Print Assumptions roundtrip_hypotheses_satisfiable.

(* forbidden_char_fails / its converse at table level: under XML 1.0 the characters that raise the
   error are exactly the non-Chars below 0x80; the 1.1 table forbids nothing (controls are written as
   references) *)
Theorem forbidden_char_fails : forall v11 s, sur_paired s = true ->
  (exists c, In c s /\ p_forbidden v11 c = true) ->
  payload (write_content fam_utf16 v11 s) = Thrown err_forbidden.
Proof. exact SerEscModel.forbidden_char_fails. Qed.
Print Assumptions forbidden_char_fails.

(* without the pairing hypothesis the exception is the surrogate one (still an error, never bytes) *)
Theorem forbidden_char_fails_unpaired_witness :
  p_forbidden false 0 = true /\ payload (write_content fam_utf16 false [55296; 0]) = Thrown err_surrogate.
Proof. exact forbidden_char_fails_unpaired_refuted. Qed.
Print Assumptions forbidden_char_fails_unpaired_witness.

Theorem content_is_ok_or_forbidden_error : forall v11 s, sur_paired s = true ->
  match payload (write_content fam_utf16 v11 s) with
  | Ok _ => True | Thrown k => k = err_forbidden | Oob => False end.
Proof. exact content_no_other_exception. Qed.
Print Assumptions content_is_ok_or_forbidden_error.

Theorem forbidden_iff_not_char_1_0 : forall c, c < 128 -> p_forbidden false c = negb (xml_char false c).
Proof. exact forbidden_iff_not_char_1_0'. Qed.
Print Assumptions forbidden_iff_not_char_1_0.

Theorem no_forbidden_1_1 : forall c, p_forbidden true c = false.
Proof. exact SerEscModel.no_forbidden_1_1. Qed.
Print Assumptions no_forbidden_1_1.

(* cdata_roundtrip — now the FULL statement (K-new-1, K-new-2 repaired): every string of Chars with
   paired surrogates, including CR, NEL, LSEP, XML 1.1 control characters and every placement of
   "]]>", is read back exactly from the CDATA sections and character references that are written *)
Theorem cdata_roundtrip : forall v11 s, wf_text v11 s = true ->
  exists bs, payload (write_cdata fam_utf16 v11 s) = Ok bs /\ parse_content v11 bs = Some s.
Proof. exact SerEscModel.cdata_roundtrip. Qed.
Print Assumptions cdata_roundtrip.

Example cdata_roundtrip_instance :
  payload (write_cdata fam_utf16 true [97; 13; 93; 93; 62; 1; 98])
  = Ok (s_cdata_open ++ [97] ++ s_cdata_close ++ charref 13 ++ s_cdata_open ++ [93; 93] ++ s_cdata_close
        ++ s_cdata_open ++ [62] ++ s_cdata_close ++ charref 1 ++ s_cdata_open ++ [98] ++ s_cdata_close).
Proof. vm_compute. reflexivity. Qed.
Print Assumptions cdata_roundtrip_instance.

(* comments and PIs (K4 repaired): nothing is ever turned into a character reference there; a
   character outside the encoding is an exception; under UTF-16 the data is written verbatim *)
Theorem comment_unrepresentable_fails :
  payload (write_comment (fam_other rep_ascii) false [120; 8364]) = Thrown err_unrepresentable.
Proof. exact SerEscModel.comment_unrepresentable_fails. Qed.
Print Assumptions comment_unrepresentable_fails.

Theorem comment_verbatim : forall v11 s, wf_text v11 s = true ->
  (forall c, In c s -> p_comment_error v11 c = false) ->
  payload (write_comment fam_utf16 v11 s) = Ok ([60; 33; 45; 45] ++ s ++ [45; 45; 62]).
Proof. exact SerEscModel.comment_verbatim. Qed.
Print Assumptions comment_verbatim.

Theorem comment_never_writes_a_reference : forall rep v11 s bs, (forall c, c < 128 -> rep c = true) ->
  payload (write_comment (fam_other rep) v11 s) = Ok bs -> wf_text v11 s = true -> small s = true ->
  bs = [60; 33; 45; 45] ++ s ++ [45; 45; 62].
Proof. exact SerEscModel.comment_never_writes_a_reference. Qed.
Print Assumptions comment_never_writes_a_reference.

(* for every writer family: when a comment or a PI is serialized successfully, its data contains no
   character that survives parsing only as a character reference (p_comment_error: the XML 1.1
   control characters, and - when GenSer.comment_eol_is_error, i.e. with fixes/C04/06 - CR and under
   1.1 NEL and LSEP, which a parser would turn into LF) *)
Theorem comment_ok_has_no_reference_only_char : forall F v11 s bs,
  payload (write_comment F v11 s) = Ok bs -> forall c, In c s -> p_comment_error v11 c = false.
Proof. exact SerEscModel2.comment_ok_has_no_reference_only_char. Qed.
Print Assumptions comment_ok_has_no_reference_only_char.

Theorem pi_ok_has_no_reference_only_char : forall F v11 t d bs,
  payload (write_pi F v11 t d) = Ok bs -> forall c, In c d -> p_comment_error v11 c = false.
Proof. exact SerEscModel2.pi_ok_has_no_reference_only_char. Qed.
Print Assumptions pi_ok_has_no_reference_only_char.

(* the variant the source currently has: CR in a comment is an error, or (finding K-new-1) is written
   literally and read back as LF *)
Example comment_cr_in_this_variant :
  if comment_eol_is_error
  then p_comment_error false 13 = true /\ payload (write_comment fam_utf16 false [120; 13]) = Thrown err_forbidden
  else payload (write_comment fam_utf16 false [120; 13]) = Ok [60; 33; 45; 45; 120; 13; 45; 45; 62].
Proof. vm_compute. repeat split; reflexivity. Qed.
Print Assumptions comment_cr_in_this_variant.

(* ---- the UTF-8 serializer writes the UTF-8 encoding of what the UTF-16 serializer writes ------------- *)
(* for every event script (CDATA-section elements included) whose strings are 16-bit units and whose names
   have paired surrogates: whenever the UTF-16 document is u, then u has paired surrogates and the UTF-8
   document is the RFC 3629 encoding of its code points (an exception of the UTF-16 serializer leaves
   the UTF-8 side unconstrained).  This carries every unit-level statement above (content_roundtrip,
   attr_roundtrip, comments) over to the UTF-8 writer. *)
Theorem utf8_document_is_encoding_of_utf16_document : forall v11 ver enc es,
  str_ok ver = true -> str_ok enc = true -> forallb sim_event_ok es = true ->
  match payload (document_items fam_utf16 v11 ver enc es) with
  | Ok u => exists cps, code_points u = Some cps /\
                        payload (document_items fam_utf8 v11 ver enc es) = Ok (flat_map utf8_spec cps) /\
                        SerUtf8Sim.small u = true
  | _ => True
  end.
Proof. exact sim_document. Qed.
Print Assumptions utf8_document_is_encoding_of_utf16_document.

(* hence: whatever the model reader returns for the UTF-16 document, the UTF-8 reader (strict UTF-8
   decoding, then the same reader) returns for the UTF-8 document *)
Theorem utf8_document_transfer : forall v11 ver enc es bs t,
  str_ok ver = true -> str_ok enc = true -> forallb sim_event_ok es = true ->
  payload (document_items fam_utf16 v11 ver enc es) = Ok bs -> parse_doc v11 bs = Some t ->
  exists bytes, payload (document_items fam_utf8 v11 ver enc es) = Ok bytes /\
                parse_doc_utf8 v11 bytes = Some t.
Proof. exact SerUtf8Sim.utf8_document_transfer. Qed.
Print Assumptions utf8_document_transfer.

(* ---- serialize_parse: the document level ------------------------------------------------------------ *)
(* parse_doc (XmlDocDefs.v) is a model reader for whole documents written from the XML recommendations:
   XML declaration, start tags with attributes, empty-element tags, end tags, comments, PIs, text runs
   with references and CDATA sections (handed to parse_content / parse_attr), then the nesting check
   (matching end tags, one root element, no character data outside it).
   tree_ok v11 es (SerDocDefs.v, a boolean): the event script is a tree of the XPath data model —
   well nested with one root, no empty and no adjacent text nodes, XML Names, strings of Chars of the
   version with paired surrogates, comment data without "--" / trailing "-" and PI data without "?>" /
   leading white space, both without characters that survive only as references; no CDATA-section
   elements (first version).
   For EVERY such tree, both XML versions: the serializer succeeds and the reader returns exactly the tree. *)
Theorem serialize_parse_utf16 : forall v11 ver enc es,
  tree_ok v11 es = true -> decl_string_ok ver = true -> decl_string_ok enc = true ->
  exists bs, payload (document_items fam_utf16 v11 ver enc es) = Ok bs /\
             parse_doc v11 bs = Some (map pev_of es).
Proof. exact SerDocModel.serialize_parse_utf16. Qed.
Print Assumptions serialize_parse_utf16.

(* the UTF-8 writer: strict UTF-8 decoding, then the same reader (script_small: every string consists
   of 16-bit units; str_ok: 16-bit units with paired surrogates) *)
Theorem serialize_parse_utf8 : forall v11 ver enc es,
  tree_ok v11 es = true -> script_small es = true ->
  decl_string_ok ver = true -> decl_string_ok enc = true -> str_ok ver = true -> str_ok enc = true ->
  exists bytes, payload (document_items fam_utf8 v11 ver enc es) = Ok bytes /\
                parse_doc_utf8 v11 bytes = Some (map pev_of es).
Proof. exact SerDocModel2.serialize_parse_utf8. Qed.
Print Assumptions serialize_parse_utf8.

(* through the 512-unit staging buffers (serialize = payload of the items, serialize_transparent) *)
Theorem serialize_parse : forall v11 ver enc es,
  tree_ok v11 es = true -> script_small es = true ->
  decl_string_ok ver = true -> decl_string_ok enc = true -> str_ok ver = true -> str_ok enc = true ->
  (exists bytes, serialize EncUtf8 v11 ver enc es = Ok bytes /\ parse_doc_utf8 v11 bytes = Some (map pev_of es)) /\
  (exists units, serialize EncUtf16 v11 ver enc es = Ok units /\ parse_doc v11 units = Some (map pev_of es)).
Proof.
  intros v11 ver enc es Ht Hs Dv De Sv Se. rewrite !SerUtfModel.serialize_transparent. cbn [fam_of]. split.
  - exact (SerDocModel2.serialize_parse_utf8 v11 ver enc es Ht Hs Dv De Sv Se).
  - exact (SerDocModel.serialize_parse_utf16 v11 ver enc es Ht Dv De).
Qed.
Print Assumptions serialize_parse.

Example serialize_parse_hypotheses_satisfiable :
  let es := [EComment [97; 98]; EStart [114] [([97], [34; 60; 9; 8364; 55357; 56832]); ([120; 58; 98], [])];
             EText [60; 38; 13; 120]; EStart [101] []; EEnd [101]; EPI [112] [100; 32; 63]; EPI [113] [];
             EStart [102] [([105; 100], [49])]; EText [93; 93; 62]; EComment []; EEnd [102]; EEnd [114];
             EComment [122]] in
  tree_ok false es = true /\ tree_ok true es = true /\ script_small es = true /\
  decl_string_ok [49; 46; 48] = true /\ str_ok [85; 84; 70; 45; 56] = true.
Proof. vm_compute. repeat split; reflexivity. Qed.
Print Assumptions serialize_parse_hypotheses_satisfiable.
