(* Extraction of the C03 "errors" guard models for the correspondence driver. ExtrOcamlBasic only.
   The generated facts (search mode, comparison, limits) are extracted with the model, so the
   driver runs the model of the code as it is now.
   (positive / N / Z also because the shared ocaml/conv.ml glue mentions them.) *)
Require Import ExtrOcamlBasic.
Require Import BinNums.
Require Import XV.SafeErrDefs XV.GenSafeErr.
Extraction "extracted/safeErr_model.ml"
  BinNums.positive BinNums.N BinNums.Z
  g_eval g_init t_call t_init nesting_refused
  variable_guard_search variable_value_stored variable_dlimit attribute_set_guard_search attribute_set_value_stored
  template_limit_cmp template_nesting_limit template_stack_initial xpath_nesting_cmp xpath_nesting_limit.
