(* C01 core4 (attribute sets): a literal result element <e use-attribute-sets="s1 s2" k="own">t</e> where s1 uses s2:
   s1 = { k="a", m="b" } + use s2,  s2 = { k="c", n="d" }. *)
From Coq Require Import List NArith Bool Arith.
Require Import XV.XsltEventsDefs XV.XsltVarsDefs XV.XsltCoreDefs XV.XsltCoreModel XV.XsltCoreSim.
Require Import XV.XsltCore2Defs XV.XsltCore2Pkg XV.XsltCore2Examples XV.XsltCore3Defs XV.XsltCore3Pkg XV.XsltCore3Examples.
Import ListNotations.

Definition s_ (c : N) : str := [c].
Definition ex4_prog : list instr2 :=
  [ JTemplate [] [JLreU (s_ 101) [1%N; 2%N] [(s_ 107, [ALit [111; 119; 110]%N])] [JText (s_ 116)]];
    JAttrSet [2%N] [(s_ 107, [ALit (s_ 97)]); (s_ 109, [ALit (s_ 98)])];
    JAttrSet [] [(s_ 107, [ALit (s_ 99)]); (s_ 110, [ALit (s_ 100)])] ].
Definition ex4_base : mech2 :=
  mkMech2 e3_value e3_str (fun _ _ _ _ _ => true) e3_nodes (fun _ _ _ _ _ l => l) (fun _ _ => Some 0%N) (fun _ => []) (fun _ => ShRoot)
          ex4_prog e2_name_ok e2_pi_ok.
Definition ex4_mech : mech3 := mkMech3 ex4_base 0%N [] [] (fun _ => []).

Lemma ex4_base_ok : mech2_ok ex4_base.
Proof.
  unfold mech2_ok, ex4_base; cbn [m2c_nodes m2c_sort m2c_copy m2c_shallow m2c_value m2c_name_ok]. repeat split.
  - intros. unfold e3_nodes. destruct (N.eqb n 0); repeat constructor; simpl; intuition discriminate.
  - intros; assumption.
  - intros; discriminate.
  - intros n H; exact H.
  - intros; discriminate.
Qed.

(* k keeps the place of its first occurrence (in s2, used by s1) and has the element's own value; n from s2; m from s1 *)
Definition ex4_tree : list rnode :=
  [RElem (s_ 101) [(s_ 107, [111; 119; 110]%N); (s_ 110, s_ 100); (s_ 109, s_ 98)] [RText (s_ 116)]].

Lemma ex4_both_sides :
  option_map result_of (SemMain3 ex4_mech 8) = Some ex4_tree /\
  (match MachineMain3 true true ex4_mech 200 with Done2 s => result_tree2 s | _ => None end) = Some ex4_tree.
Proof. vm_compute. split; reflexivity. Qed.

(* a set that uses itself: the semantics is undefined at every fuel we try *)
Definition cy4_prog : list instr2 :=
  [ JTemplate [] [JLreU (s_ 101) [1%N] [] []]; JAttrSet [1%N] [(s_ 107, [ALit (s_ 97)])] ].
Definition cy4_mech : mech3 :=
  mkMech3 (mkMech2 e3_value e3_str (fun _ _ _ _ _ => true) e3_nodes (fun _ _ _ _ _ l => l) (fun _ _ => Some 0%N) (fun _ => []) (fun _ => ShRoot)
                   cy4_prog e2_name_ok e2_pi_ok) 0%N [] [] (fun _ => []).
Lemma cy4_witness : SemMain3 cy4_mech 30 = None /\ (match MachineMain3 true true cy4_mech 300 with Done2 _ => false | _ => true end) = true.
Proof. vm_compute. split; reflexivity. Qed.
