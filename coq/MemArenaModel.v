(* MemArenaModel.v — ArenaAllocator: reset, destructor, whole histories (C19; code with the K8 repairs). *)
From Coq Require Import List Arith Bool Lia Permutation.
Require Import XV.GenCont XV.GenMem XV.MemDefs XV.MemModel XV.MemListModel.
Import ListNotations.

(* reset() never calls the manager's allocate and cannot fail; it leaves no block *)
Lemma arena_reset_spec : forall a h h1 a1 ok, ainv a h -> arena_reset a h = (h1, a1, ok) ->
  ainv a1 h1 /\ am a1 = am a /\ absize a1 = absize a /\ aleak a1 = aleak a /\ ok = true /\
  ablocks a1 = [] /\ next h1 = next h /\ fuse h1 = fuse h.
Proof.
  intros a h h1 a1 ok [[Wl Wb] I] H. unfold arena_reset in H. cbn in H.
  destruct (lhead (alist a)) as [hd|] eqn:E.
  2:{ inversion H; subst. destruct (Wl E) as [N _]. sp; auto; try (split; [split; auto|auto]). }
  destruct (lnodes (alist a)) as [|n r] eqn:EN.
  { inversion H; subst. specialize (Wb eq_refl). sp; auto. split; [split; [exact Wl | intros _; exact Wb] | exact I]. }
  unfold arena_reset_body, get_head in H. rewrite E in H. inversion H; subst; clear H.
  unfold aowned in I. rewrite <- app_assoc in I.
  assert (I3 : linv (lowned (alist a) ++ aleak a)
                    (fold_left (fun h b => block_dtor (lm (alist a)) b h) (ablocks a) h)).
  { apply blocks_dtor_spec. eapply linv_perm; [|exact I]. unfold am. permp. }
  destruct (blocks_dtor_next (lm (alist a)) (ablocks a) h) as [N2 F2].
  split.
  - split; [split; [apply lwf_of_head; cbn; congruence | cbn; auto]|].
    unfold aowned. cbn. rewrite app_nil_r. eapply linv_perm; [|exact I3].
    unfold lowned, ids_of, hd_list. cbn [lm lhead lnodes lfree]. rewrite E, EN. permp.
  - sp; cbn; auto.
Qed.

(* ~ArenaAllocator: reset() then ~XalanList: never allocates, always completes; what stays outstanding is
   exactly what earlier refusals lost *)
Lemma arena_dtor_spec : forall a h h1 a1 ok, ainv a h -> arena_dtor a h = (h1, a1, ok) ->
  ok = true /\ Permutation (live h1) (aleak a) /\ bad h1 = false /\ next h1 = next h /\ fuse h1 = fuse h.
Proof.
  intros a h h1 a1 ok V H. unfold arena_dtor in H.
  destruct (arena_reset a h) as [[h2 a2] ok2] eqn:R.
  pose proof (arena_reset_spec _ _ _ _ _ V R) as [[[Wl2 Wb2] I2] [AM [BS [LK [-> [B0 [N2 F2]]]]]]].
  destruct (list_dtor TAG_ANODE (alist a2) h2) as [h3 okd] eqn:D.
  inversion H; subst; clear H.
  unfold aowned in I2. rewrite B0 in I2. cbn in I2. rewrite app_nil_r in I2.
  pose proof (list_dtor_spec _ _ _ _ _ _ Wl2 I2 D) as [-> [[_ [P Bd]] [N3 F3]]].
  sp; auto; try congruence; try (rewrite <- LK; exact P).
Qed.

Lemma astep_inv : forall g op a h h1 a1 ok, ainv a h -> astep g op a h = (h1, a1, ok) ->
  ainv a1 h1 /\ am a1 = am a /\ leak_step a a1 /\ (ok = true -> aleak a1 = aleak a) /\
  (fuse h = None -> ok = true /\ fuse h1 = None) /\
  (g = true -> aleak a1 = aleak a) /\ (ok = false -> aobjs a1 = aobjs a).
Proof.
  intros g op a h h1 a1 ok V H. destruct op; cbn [astep] in H.
  - pose proof (arena_new_obj_spec _ _ _ _ _ _ _ V H) as [V1 [AM [BS [LK [OK [FZ [GL NB]]]]]]]. sp; auto.
  - pose proof (arena_reset_spec _ _ _ _ _ V H) as [V1 [AM [BS [LK [-> [B0 [N F]]]]]]].
    sp; auto; try discriminate. left; auto. intros Fz. split; auto. congruence.
Qed.

Lemma arun_inv : forall g ops a h a1 h1, ainv a h -> run _ _ (astep g) ops a h = (a1, h1) ->
  ainv a1 h1 /\ (fuse h = None -> aleak a1 = aleak a /\ fuse h1 = None) /\ (g = true -> aleak a1 = aleak a).
Proof.
  induction ops as [|op r IH]; intros a h a1 h1 V H; cbn in H.
  - inversion H; subst; auto.
  - destruct (astep g op a h) as [[h2 a2] ok] eqn:E.
    pose proof (astep_inv _ _ _ _ _ _ _ V E) as [V2 [AM [LS [OK [FZ [GL _]]]]]].
    destruct (IH _ _ _ _ V2 H) as [V3 [FZ3 GL3]]. split; auto. split.
    + intros Fz. destruct (FZ Fz) as [-> F2]. destruct (FZ3 F2) as [L3 F3]. split; auto.
      rewrite L3. apply OK. reflexivity.
    + intros G. rewrite (GL3 G). apply GL. exact G.
Qed.

Lemma ainv0 : forall m bs f, ainv (arena0 m bs) (heap0 f).
Proof.
  intros m bs f. unfold ainv, awf, lwf, linv, heap_ok. cbn. repeat split; try constructor; try (intros p []).
Qed.

(* K-new-1 repaired ([g] = true): every history, a refusal anywhere, then the destructor: nothing is outstanding,
   no foreign / double free; a refused step leaves the objects of the arena as they were *)
Lemma arena_safe_guarded : forall (ops : list aop) (f : option nat) (bs : nat) a h,
  run _ _ (astep true) ops (arena0 0 bs) (heap0 f) = (a, h) ->
  bad h = false /\
  (forall op h1 a1, astep true op a h = (h1, a1, false) -> aobjs a1 = aobjs a /\ bad h1 = false) /\
  (forall h1 a1 ok, arena_dtor a h = (h1, a1, ok) -> ok = true /\ live h1 = [] /\ bad h1 = false).
Proof.
  intros ops f bs a h R.
  destruct (arun_inv _ _ _ _ _ _ (ainv0 0 bs f) R) as [V [_ GL]].
  split; [apply V|]. split.
  - intros op h1 a1 S. destruct (astep_inv _ _ _ _ _ _ _ V S) as [V1 [_ [_ [_ [_ [_ NB]]]]]].
    split; [apply NB; reflexivity | apply V1].
  - intros h1 a1 ok D. destruct (arena_dtor_spec _ _ _ _ _ V D) as [OK [P [B _]]].
    rewrite (GL eq_refl) in P. cbn in P. split; auto. split; auto.
    apply Permutation_nil. apply Permutation_sym. exact P.
Qed.

(* the statement for one shape of allocateBlock(): [g] = true the full guarantee, [g] = false what holds of the code as
   found (what is outstanding after the destructor is exactly what refused steps lost: two blocks per refused step at most) *)
Definition arena_safe_at (g : bool) : Prop :=
  forall (ops : list aop) (f : option nat) (bs : nat) a h,
  run _ _ (astep g) ops (arena0 0 bs) (heap0 f) = (a, h) ->
  bad h = false /\
  (forall op h1 a1 ok, astep g op a h = (h1, a1, ok) ->
     bad h1 = false /\ (ok = false -> aobjs a1 = aobjs a) /\
     (if g then aleak a1 = aleak a else leak_step a a1 /\ (ok = true -> aleak a1 = aleak a))) /\
  (forall h1 a1 ok, arena_dtor a h = (h1, a1, ok) ->
     ok = true /\ bad h1 = false /\ (if g then live h1 = [] else Permutation (live h1) (aleak a))).

Lemma arena_safe_any : forall g, arena_safe_at g.
Proof.
  intros g ops f bs a h R.
  destruct (arun_inv _ _ _ _ _ _ (ainv0 0 bs f) R) as [V [_ GL]].
  split; [apply V|]. split.
  - intros op h1 a1 ok S. destruct (astep_inv _ _ _ _ _ _ _ V S) as [V1 [_ [LS [OK [_ [G1 NB]]]]]].
    split; [apply V1|]. split; [exact NB|]. destruct g; auto.
  - intros h1 a1 ok D. destruct (arena_dtor_spec _ _ _ _ _ V D) as [OK [P [B _]]].
    split; auto. split; auto. destruct g; auto.
    rewrite (GL eq_refl) in P. cbn in P. apply Permutation_nil. apply Permutation_sym. exact P.
Qed.
