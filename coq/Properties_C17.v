(* C17 - xsl:number counts per the Recommendation, independent of evaluation history; formatting
   decodes.  Statements only; proofs are in Num7FmtModel.v / Num7CacheModel.v /
   Num7WalkModel.v / Num7EqbModel.v.  The models
   (Num7FmtDefs.v, Num7CountDefs.v) follow ElemNumber.cpp / CountersTable.cpp / XalanNumberFormat.cpp as
   coded; tables and limits come from GenNum7.v (regenerated from /repo on every run). *)
From Coq Require Import List NArith ZArith Bool Arith Lia.
Require Import XV.GenNum7 XV.Num7FmtDefs XV.Num7CountDefs XV.Num7FmtModel XV.Num7CacheModel XV.Num7EqbModel XV.Num7WalkModel.
Import ListNotations.

(* ============================== formatting ================================================== *)

(* int2alphaCount with its lookupIndex / correction carry logic is bijective base-26 numeration:
   every n >= 1 (unbounded) prints as a string of A..Z that decodes back to n *)
Theorem alpha_roundtrip : forall n : N, (1 <= n)%N ->
  exists s, int2alpha alpha_table n = Some s /\ alpha_decode s = n /\ forallb is_upper s = true.
Proof. intros n _. destruct (alpha_roundtrip_l n) as [s [A [B [C _]]]]. exists s. auto. Qed.
Print Assumptions alpha_roundtrip.

(* format "a": lower-casing loses nothing *)
Theorem alpha_lower_roundtrip : forall n : N, (1 <= n)%N ->
  exists s, formatted_number None 97 1 n = Some s /\ alpha_decode (to_upper_ascii s) = n.
Proof.
  intros n _. destruct (alpha_roundtrip_l n) as [s [A [B [C _]]]].
  exists (to_lower_ascii s). split.
  - unfold formatted_number. cbn [N.eqb Pos.eqb]. rewrite A. reflexivity.
  - rewrite upper_lower by exact C. exact B.
Qed.
Print Assumptions alpha_lower_roundtrip.

(* every 64-bit value fits the 100-character stack buffer of int2alphaCount *)
Theorem alpha_length : forall n : N, (n < 2 ^ 64)%N ->
  exists s, int2alpha alpha_table n = Some s /\ (N.of_nat (length s) < alpha_buflen)%N.
Proof.
  intros n H. destruct (alpha_roundtrip_l n) as [s [A [_ [_ L]]]]. exists s. split; [exact A|].
  pose proof (size_le_64 n H). unfold alpha_buflen. lia.
Qed.
Print Assumptions alpha_length.

(* toRoman on its whole domain 1 .. roman_limit (= 3999, from the source): a forallb sweep of the
   finite domain lifted with forallb_forall *)
Theorem roman_roundtrip : forall n : N, (1 <= n <= roman_limit)%N ->
  exists s, to_roman n = Some s /\ roman_decode s = Z.of_N n.
Proof. exact roman_roundtrip_l. Qed.
Print Assumptions roman_roundtrip.

Example roman_limit_value : roman_limit = 3999%N.
Proof. reflexivity. Qed.

(* above the limit (K22).  GenNum7.roman_overflow_decimal, regenerated from /repo, says which branch
   toRoman has.  Repaired code (true): like 0, a value without a roman numeral is written in
   decimal, and EVERY n >= 1 - unbounded - decodes back (digits read as decimal, letters as roman).
   Unrepaired code (false): 4000 prints the literal "#error" and the round trip is refuted there;
   roman_roundtrip above is then the partial statement with its exact guard n <= roman_limit. *)
Definition roman_roundtrip_full : Prop :=
  forall n : N, (1 <= n)%N -> exists s, to_roman n = Some s /\ roman_text_decode s = Z.of_N n.
Definition roman_roundtrip_refuted_at_4000 : Prop :=
  exists n : N, (1 <= n)%N /\ to_roman n = Some error_string /\ roman_text_decode error_string <> Z.of_N n.

Theorem roman_roundtrip_all :
  if roman_overflow_decimal then roman_roundtrip_full else roman_roundtrip_refuted_at_4000.
Proof.
  destruct roman_overflow_decimal eqn:E; [exact (roman_full_if E)|exact (roman_refuted_if E)].
Qed.
Print Assumptions roman_roundtrip_all.

Example roman_overflow_sample :
  to_roman 4000 = Some (if roman_overflow_decimal then [52; 48; 48; 48]%N else error_string)
  /\ to_roman 0 = Some [48%N].
Proof. vm_compute. auto. Qed.

(* decimal tokens "1", "01", "001", ... with or without grouping: dropping the grouping separator
   and reading the digits positionally (leading zeros included) gives n back, for every n, width,
   group size and one-character separator that is not a digit *)
Theorem decimal_pad_group_roundtrip : forall grouping sepc width n,
  grouping_ok grouping sepc -> is_digit sepc = false ->
  decimal_decode sepc (format_decimal grouping width n) = n.
Proof. exact format_decimal_decode. Qed.
Print Assumptions decimal_pad_group_roundtrip.

Example decimal_grouped_sample :
  format_decimal (Some ([44%N], 3%N)) 1 1234567 = [49; 44; 50; 51; 52; 44; 53; 54; 55]%N
  /\ format_decimal (Some ([44%N], 1%N)) 4 12 = [48; 49; 44; 50]%N
  /\ format_decimal None 3 7 = [48; 48; 55]%N.
Proof. vm_compute. auto. Qed.

(* the guard is needed: a digit as separator is not decodable *)
Theorem decimal_pad_group_roundtrip_refuted :
  exists sepc n, is_digit sepc = true /\ decimal_decode sepc (format_decimal (Some ([sepc], 3%N)) 1 n) <> n.
Proof. exists 48%N, 1000%N. split; [reflexivity|]. vm_compute. discriminate. Qed.
Print Assumptions decimal_pad_group_roundtrip_refuted.

(* the token / separator loop of formatNumberList on a three-level list (sample, by computation) *)
Example format_list_sample :
  format_number_list None [49; 46; 97; 45; 105]%N [1; 2; 3; 4]%N = Some [49; 46; 98; 45; 105; 105; 105; 45; 105; 118]%N.
Proof. vm_compute. reflexivity. Qed.

(* ============================== counting ==================================================== *)
Close Scope N_scope.
Open Scope nat_scope.

(* CountersTable::countNode with its cache of counted-node vectors (getPreviouslyCounted,
   appendBtoFList): for every node type, every getTargetNode / getPreviousNode whose steps move
   strictly backwards (key decreases), every isNodeAfter test, every history h of earlier calls in
   any order, the answer for n is the cache-free chain length of its target. *)
Theorem counters_history_independent :
  forall (X : Type) (eqb after : X -> X -> bool) (target_of prev : X -> option X) (key fuel_of : X -> nat),
    (forall a b, eqb a b = true <-> a = b) ->
    (forall x y, prev x = Some y -> (key y < key x)%nat) ->
    (forall n t, target_of n = Some t -> (key t < fuel_of n)%nat) ->
    forall (h : list X) (n : X),
    exists tbl tbl',
      run_hist X eqb after target_of prev fuel_of [] h = Some tbl /\
      count_node X eqb after target_of prev (fuel_of n) tbl n
        = Some (tbl', brute X target_of prev key n).
Proof. exact history_independent. Qed.
Print Assumptions counters_history_independent.

(* the hypotheses are satisfiable: numbering 0,1,2,... with "previous = n - 2" and "target = n" *)
Example counters_instance :
  forall h n, exists tbl tbl',
    run_hist nat Nat.eqb Nat.ltb Some (fun x => if x <? 2 then None else Some (x - 2)) S [] h = Some tbl /\
    count_node nat Nat.eqb Nat.ltb Some (fun x => if x <? 2 then None else Some (x - 2)) (S n) tbl n
      = Some (tbl', brute nat Some (fun x => if x <? 2 then None else Some (x - 2)) (fun x => x) n).
Proof.
  apply (history_independent nat Nat.eqb Nat.ltb Some (fun x => if x <? 2 then None else Some (x - 2)) (fun x => x) S).
  - intros a b. apply Nat.eqb_eq.
  - intros x y H. destruct (x <? 2) eqn:E; [discriminate|]. inversion H. apply Nat.ltb_ge in E. lia.
  - intros n t H. inversion H. lia.
Qed.

Example counters_instance_value :
  brute nat Some (fun x => if x <? 2 then None else Some (x - 2)) (fun x => x) 7 = 4.
Proof. vm_compute. reflexivity. Qed.

(* ---- the walks of ElemNumber over the zipper against section 7.7 ---------------------------- *)

(* level="any", for every label type, count / from predicate, tree, and every history of nodes
   numbered by one instruction (one counters table) in any order: each node gets the number of
   count-matching nodes among itself and the nodes before it in document order (preceding and
   ancestor axes), back to - and excluding - the first node before it that matches from.
   [leqb] is the test used for pointer equality; any decision procedure for equality will do. *)
Theorem count_any_spec :
  forall (A : Type) (cnt frm : A -> bool) (leqb : loc A -> loc A -> bool),
    (forall a b, leqb a b = true <-> a = b) ->
    forall h : list (loc A), exists tbl,
      run_history A (patc A cnt) frm leqb 2 [] h
      = Some (tbl, map (fun l => let n := spec_any A frm cnt l in if n =? 0 then [] else [n]) h).
Proof. exact history_any. Qed.
Print Assumptions count_any_spec.

(* level="multiple": one number per count-matching node of the ancestor-or-self axis below the
   nearest proper ancestor matching from, outermost first; each number is 1 + the number of
   count-matching preceding siblings *)
Theorem count_multiple_spec :
  forall (A : Type) (cnt frm : A -> bool) (leqb : loc A -> loc A -> bool),
    (forall a b, leqb a b = true <-> a = b) ->
    forall h : list (loc A), exists tbl,
      run_history A (patc A cnt) frm leqb 1 [] h = Some (tbl, map (spec_multiple A frm cnt) h).
Proof. exact history_multiple. Qed.
Print Assumptions count_multiple_spec.

(* level="single": the same for the first (innermost) such node only *)
Theorem count_single_spec :
  forall (A : Type) (cnt frm : A -> bool) (leqb : loc A -> loc A -> bool),
    (forall a b, leqb a b = true <-> a = b) ->
    forall h : list (loc A), exists tbl,
      run_history A (patc A cnt) frm leqb 0 [] h = Some (tbl, map (spec_single A frm cnt) h).
Proof. exact history_single. Qed.
Print Assumptions count_single_spec.

(* the equality hypothesis is discharged for the structural test used by the extracted driver:
   what the driver computes for a whole document and any numbering order IS the section 7.7 list *)
Lemma run_doc_level : forall hf level doc order,
  (level = 0 \/ level = 1 \/ level = 2) ->
  run_doc true hf level doc order = Some (spec_doc hf level doc order).
Proof.
  intros hf level doc order Hl. unfold run_doc, spec_doc.
  change (pat3 true) with (patc lab3 l3_cnt).
  set (all := locs lab3 doc Top). set (f := fun i => nth i all (doc, Top)).
  pose proof (loc_eqb_spec lab3 lab3_eqb lab3_eqb_spec) as Heq.
  destruct Hl as [-> | [-> | ->]].
  - destruct (history_single lab3 l3_cnt (frm3 hf) (loc_eqb lab3 lab3_eqb) Heq (map f order)) as [tbl E].
    rewrite E, map_map. reflexivity.
  - destruct (history_multiple lab3 l3_cnt (frm3 hf) (loc_eqb lab3 lab3_eqb) Heq (map f order)) as [tbl E].
    rewrite E, map_map. reflexivity.
  - destruct (history_any lab3 l3_cnt (frm3 hf) (loc_eqb lab3 lab3_eqb) Heq (map f order)) as [tbl E].
    rewrite E, map_map. reflexivity.
Qed.

Theorem numbering_is_section_7_7 : forall (has_from : bool) (level : nat) (doc : tree lab3) (order : list nat),
  (level = 0 \/ level = 1 \/ level = 2) ->
  run_doc true has_from level doc order = Some (spec_doc has_from level doc order).
Proof. exact run_doc_level. Qed.
Print Assumptions numbering_is_section_7_7.

Definition L (name : N) (c f : bool) : lab3 := (name, c, f).

(* the documents on which the unrepaired code deviated (K-new-1, K12, K-new-3), by computation *)
Definition doc_leaf_from : tree lab3 :=
  Node (L 0 false false) [Node (L 1 false false)
    [Node (L 2 false true) []; Node (L 3 true false) []; Node (L 2 false true) []; Node (L 3 true false) []; Node (L 3 true false) []]].
Example count_any_leaf_from_values :
  run_doc true true 2 doc_leaf_from [3; 5; 6] = Some [[1]; [1]; [2]]
  /\ run_doc true true 2 doc_leaf_from [6; 5; 3; 5] = Some [[2]; [1]; [1]; [1]].
Proof. vm_compute. auto. Qed.

Definition doc_single_from : tree lab3 :=
  Node (L 0 false false) [Node (L 3 true false) [Node (L 2 false true) [Node (L 4 false false) []]]].
Example count_single_from_values : run_doc true true 0 doc_single_from [3; 2; 1] = Some [[]; [1]; [1]].
Proof. vm_compute. reflexivity. Qed.

Definition doc_self_from : tree lab3 :=
  Node (L 0 false false) [Node (L 1 true false) [Node (L 2 true true) []]].
Example count_multiple_values : run_doc true true 1 doc_self_from [2] = Some [[1; 1]].
Proof. vm_compute. reflexivity. Qed.
