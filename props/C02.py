"""C02 — XPath 1.0 expressions evaluate to the value the Recommendation defines."""
import os, re, math, struct, importlib
from vlib import core, xpgen, xpref, xpsyntax

LEVEL = "proof"


def u16_to_str(tokn):
    body = tokn[2:]
    if not body:
        return ""
    units = [int(h, 16) for h in body.split(",")]
    b = b"".join(struct.pack("<H", u) for u in units)
    return b.decode("utf-16-le", "surrogatepass")


def parse_value(f):
    """canonical field -> python value (bool / float / str / list) or 'err'"""
    if f.startswith("err") or f.startswith("compile") or f in ("null", "other"):
        return "err"
    if f.startswith("b:"):
        return f[2] == "1"
    if f.startswith("n:"):
        h = f[2:]
        return float("nan") if h == "nan" else struct.unpack(">d", struct.pack(">Q", int(h, 16)))[0]
    if f.startswith("s:"):
        return u16_to_str(f[2:])
    if f.startswith("ns:"):
        return [int(x) for x in f[3:].split(",") if x and x != "?"]
    return "err"


def same(a, b):
    if isinstance(a, float) and isinstance(b, float) and not isinstance(a, bool) and not isinstance(b, bool):
        if a != a or b != b:
            return a != a and b != b
        return a == b and math.copysign(1, a) == math.copysign(1, b)
    return type(a) == type(b) and a == b


def same_value(got, exp):
    """C02 compares node-sets as SETS (document order / duplicate-freeness is property C12)"""
    if isinstance(got, list) and isinstance(exp, list):
        if any(isinstance(x, tuple) for x in exp):
            return False
        return sorted(set(got)) == sorted(set(exp)) and len(set(got)) == len(got)
    return same(got, exp)


def fmt_value(v):
    """python value -> the canonical G field of harness/xp.cpp (for '#expect' lines of replay files)"""
    if v == "err" or v == "skip":
        return "err"
    if isinstance(v, bool):
        return "b:%d" % v
    if isinstance(v, float):
        return "n:" + ("nan" if v != v else xpgen.dbits(v))
    if isinstance(v, str):
        return "s:" + xpgen.tok(v)
    if any(isinstance(x, tuple) for x in v):
        return "ns:?"
    return "ns:" + ",".join(str(x) for x in v)


def oneline(s):
    return s.replace("\\", "\\\\").replace("\n", "\\n").replace("\r", "\\r").replace("\t", "\\t")


def canon_line(s):
    """both sides' result lines, with error classes collapsed"""
    if s is None:
        return None
    fs = s.split("|")
    if len(fs) == 1:
        return "err" if (fs[0].startswith("compile") or fs[0] == "err") else fs[0]
    return "|".join((f[:2] + "err") if f[2:].startswith("err") else f for f in fs)


def uses(e, pred):
    if pred(e):
        return True
    t = e[0]
    if t in ("lit", "var", "num"):
        return False
    if t in ("neg", "group"):
        return uses(e[1], pred)
    if t == "union":
        return any(uses(a, pred) for a in e[1])
    if t == "fn":
        return any(uses(a, pred) for a in e[2])
    if t == "path":
        _, h, hp, st = e
        return (h is not None and uses(h, pred)) or any(uses(p[1], pred) for p in hp) or \
            any(uses(p[1], pred) for s in st for p in s[2])
    return uses(e[1], pred) or uses(e[2], pred)


def has_axis(e, axis, test=None):
    return uses(e, lambda x: x[0] == "path" and any(s[0] == axis and (test is None or s[1] == test) for s in x[3]))


def classify(c, got):
    """known-finding class of a disagreement between the library and the reference: the class is
    decided by re-running the reference with exactly that deviation switched on; the library's value
    must then agree (anything else stays a violation)"""
    # K21 (the namespace axis returns the in-scope xmlns declaration attributes) is decided the same way: the
    # reference is re-run with xpref.Ref(k21=True) - alone first, then together with K6 / K13 when the expression
    # also meets those - and the library's value must be THAT value.  A namespace-axis result the finding does not
    # explain (e.g. a default namespace that an xmlns="" had undeclared showing up again) stays a violation.
    combos = [(False, True, False, "K6"), (False, False, True, "K13"), (False, True, True, "K6")]
    if has_axis(c["expr"], "namespace"):
        combos = [(True, False, False, "K21")] + combos + [(True, True, False, "K21"), (True, False, True, "K21"), (True, True, True, "K21")]
    for k21, units, negzero, key in combos:
        if units and not (c["nonbmp"] or any(ord(ch) > 0xFFFF for ch in c["str"])):
            continue
        alt = ref_eval(c, units=units, negzero=negzero, k21=k21)
        if alt not in ("err", "skip") and got != "err" and same_value(got, alt):
            return key
    return None


def gen_cases(ctx, n_docs, per_doc, depth):
    r = ctx.rng
    cases = []
    k = 0
    for di in range(n_docs):
        top = xpgen.gen_doc(r, "small" if r.random() < 0.7 else "big")
        nodes = xpgen.build_nodes(top)
        dtoks = xpgen.doc_tokens(top)
        elems = [n.id for n in nodes if n.kind == "elem"]
        nonattr = [n.id for n in nodes if n.kind not in ("attr", "nsdecl")]
        variables = {
            "n1": ("num", r.choice([1.0, 2.0, 0.0, -1.5, float("nan"), float("inf"), 3.0])),
            "s1": ("str", r.choice(["a", "", "1", "ab", "2"])),
            "b1": ("bool", r.random() < 0.5),
            "ns1": ("nodes", sorted(r.sample(nonattr, min(len(nonattr), r.randrange(0, 4))))),
            "e1": ("nodes", []),
        }
        vfield = ";".join("%s=%s" % (name, {"num": lambda v: "n:" + ("nan" if v != v else xpgen.dbits(v)),
                                              "str": lambda v: "s:" + xpgen.tok(v),
                                              "bool": lambda v: "b:%d" % v,
                                              "nodes": lambda v: "ns:" + ",".join(map(str, v))}[t](v))
                          for name, (t, v) in variables.items())
        nonbmp = re.search(r"[:,]d[89ab][0-9a-f]{2}[, )]", dtoks + " ") is not None     # a surrogate code unit in the document
        for _ in range(per_doc):
            g = xpgen.ExprGen(r, nodes=nodes, depth=r.choice([1, 2, 2, 3, depth]), variables=variables)
            e = g.gen()
            # namespace declarations are not nodes of the XPath data model (the library keeps them as
            # attribute-like nodes, reachable only through the namespace axis: known finding K21)
            cn = r.choice([n.id for n in nodes if n.kind != "nsdecl"]) if r.random() < 0.8 else r.choice(elems)
            # context list: the siblings-or-self of the node, or a random list containing it
            if r.random() < 0.5 and nodes[cn].parent is not None and nodes[cn].kind not in ("attr", "nsdecl"):
                cl = [c.id for c in nodes[cn].parent.children]
            else:
                cl = sorted(set(r.sample(nonattr, min(len(nonattr), r.randrange(0, 4))) + [cn]))
            s = xpgen.p_expr(e, r)
            line = "x%d|eval|D:%s|C:%d;%s|V:%s|N:p=%s;q=%s|X:%s|A:%s" % (
                k, dtoks, cn, ",".join(map(str, cl)), vfield, xpgen.tok("urn:p"), xpgen.tok("urn:q"), xpgen.tok(s), xpgen.sx_expr(e))
            cases.append({"id": "x%d" % k, "line": line, "expr": e, "str": s, "nodes": nodes, "ctx": cn, "cl": cl,
                          "vars": {n: v for n, (t, v) in variables.items()}, "nonbmp": nonbmp, "doc": dtoks})
            k += 1
    return cases


def gen_conversion_chain_cases():
    """directed stream, no random choice: a value of every type, converted by one function (string, normalize-space,
    concat, boolean, number, or nothing), then USED as a number, a boolean, a string or in a comparison.  The objects
    that string() / normalize-space() return for non-string arguments (XStringAdapter and friends) answer num() /
    boolean() / str() through overrides of their own: a wrong one shows only in such a chain (seed C02_h)."""
    F = lambda name, *a: ("fn", name, list(a))
    top = [("e", "d", [], [("e", "a", [], [("t", " 12 ")]), ("e", "b", [], [("t", "true")]), ("e", "z", [], [])])]
    nodes = xpgen.build_nodes(top)
    dtoks = xpgen.doc_tokens(top)
    el = {n.qname: n.id for n in nodes if n.kind == "elem"}
    variables = {"n1": ("num", 2.0), "s1": ("str", "1"), "b1": ("bool", True), "ns1": ("nodes", [el["a"]]), "e1": ("nodes", [])}
    vfield = "n1=n:%s;s1=s:%s;b1=b:1;ns1=ns:%d;e1=ns:" % (xpgen.dbits(2.0), xpgen.tok("1"), el["a"])
    inner = [F("true"), F("false"), ("eq", ("num", "1"), ("num", "1")), ("var", "b1"), F("not", ("var", "e1")),
             ("num", "0"), ("num", "1"), ("var", "n1"), ("neg", ("num", "0.5")), ("div", ("num", "1"), ("num", "0")),
             ("lit", "1"), ("lit", ""), ("lit", " 12 "), ("var", "s1"), ("lit", "abc"), ("lit", "true"),
             ("var", "ns1"), ("var", "e1"), ("path", None, [], [("child", ("name", None, "b"), [])]), ("path", None, [], [("child", ("name", None, "z"), [])])]
    conv = [lambda x: x, lambda x: F("string", x), lambda x: F("normalize-space", x), lambda x: F("concat", x, ("lit", "")),
            lambda x: F("boolean", x), lambda x: F("number", x), lambda x: F("string", F("string", x)), lambda x: F("normalize-space", F("string", x))]
    use = [lambda y: F("number", y), lambda y: ("plus", y, ("num", "1")), lambda y: ("eq", y, ("num", "0")), lambda y: ("eq", y, ("num", "1")),
           lambda y: ("eq", y, ("lit", "true")), lambda y: ("lt", y, ("num", "1")), lambda y: ("gte", y, ("num", "1")), lambda y: F("boolean", y),
           lambda y: F("not", y), lambda y: F("string-length", y), lambda y: F("concat", y, ("lit", "|")), lambda y: ("eq", y, F("true")),
           lambda y: ("mult", y, ("num", "2")), lambda y: F("floor", y), lambda y: F("sum", ("var", "e1")) if False else ("neg", y)]
    cases, k = [], 0
    for x in inner:
        for cv in conv:
            for u in use:
                y = cv(x)
                if y[0] in ("eq", "neg", "div"):
                    y = ("group", y)
                e = u(y)
                try:
                    sx = xpgen.sx_expr(e)
                    st = xpgen.p_expr(e)
                except Exception:
                    continue
                line = "cc%d|eval|D:%s|C:%d;%d|V:%s|N:p=%s;q=%s|X:%s|A:%s" % (k, dtoks, el["d"], el["d"], vfield, xpgen.tok("urn:p"), xpgen.tok("urn:q"), xpgen.tok(st), sx)
                cases.append({"id": "cc%d" % k, "line": line, "expr": e, "str": st, "nodes": nodes, "ctx": el["d"], "cl": [el["d"]],
                              "vars": {n: v for n, (t, v) in variables.items()}, "nonbmp": False, "doc": dtoks, "cls": "conversion-chain"})
                k += 1
    return cases


def gen_id_cases(r, n_docs, per_doc, prefix="i"):
    """the id() stream: documents with an internal DTD subset (ID / IDREF / IDREFS / CDATA / NMTOKEN(S) /
    enumerated attributes, defaults, forward and dangling references, duplicate IDs) x expressions around
    id().  `r` is the stream's OWN random.Random (seeded from ctx.rng after every other draw)."""
    cases = []
    k = 0
    for di in range(n_docs):
        d = xpgen.gen_id_doc(r, "small" if r.random() < 0.6 else "big")
        nodes = xpgen.build_nodes(d["top"])
        table = xpgen.id_table(nodes, d["decl"])
        dtoks = xpgen.doc_tokens(d["written"])
        ttok = xpgen.tok(d["dtd"])
        elems = [n.id for n in nodes if n.kind == "elem"]
        nonattr = [n.id for n in nodes if n.kind not in ("attr", "nsdecl")]
        idvals = sorted(table) or ["s1"]
        variables = {
            "n1": ("num", r.choice([1.0, 12.0, 2.0, float("nan")])),
            "s1": ("str", r.choice([" ", "  ", "\t", "\n"]).join(r.choice(idvals + ["nope"]) for _ in range(r.choice([1, 2, 3])))),
            "b1": ("bool", r.random() < 0.5),
            "ns1": ("nodes", sorted(r.sample(nonattr, min(len(nonattr), r.randrange(0, 4))))),
            "e1": ("nodes", []),
        }
        vfield = ";".join("%s=%s" % (name, {"num": lambda v: "n:" + ("nan" if v != v else xpgen.dbits(v)),
                                              "str": lambda v: "s:" + xpgen.tok(v),
                                              "bool": lambda v: "b:%d" % v,
                                              "nodes": lambda v: "ns:" + ",".join(map(str, v))}[t](v))
                          for name, (t, v) in variables.items())
        # classes of the document (what the seeded / likely defects need in order to show)
        types = {}
        for el, ats in d["decl"].items():
            for a, ty, dk, dv in ats:
                types.setdefault((el, a), ty)
        first_ref = {}
        for n in nodes:
            if n.kind == "attr" and n.parent is not None:
                ty = types.get((n.parent.qname, n.qname), "CDATA")
                if ty in ("IDREF", "IDREFS", "NMTOKEN", "NMTOKENS", "ENUM", "CDATA"):
                    for t in n.value.split():
                        first_ref.setdefault((ty, t), n.parent.id)
        dcls = set()
        for (ty, t), el in first_ref.items():
            if ty in ("IDREF", "IDREFS"):
                if t not in table:
                    dcls.add("dangling-" + ty.lower())
                elif el < table[t]:
                    dcls.add("forward-" + ty.lower())
                else:
                    dcls.add("backward-" + ty.lower())
        if d["dup"]:
            dcls.add("duplicate-ids-allowed")
        g = xpgen.IdExprGen(r, nodes, table, variables)
        for _ in range(per_doc):
            e = xpgen.fix_bare_root(g.gen())
            cn = r.choice([n.id for n in nodes if n.kind != "nsdecl"]) if r.random() < 0.6 else r.choice(elems)
            if r.random() < 0.5 and nodes[cn].parent is not None and nodes[cn].kind not in ("attr", "nsdecl"):
                cl = [c.id for c in nodes[cn].parent.children]
            else:
                cl = sorted(set(r.sample(nonattr, min(len(nonattr), r.randrange(0, 4))) + [cn]))
            s = xpgen.p_expr(e, r)
            line = "%s%d|eval|D:%s|C:%d;%s|V:%s|N:p=%s;q=%s|X:%s|A:-|T:%s" % (
                prefix, k, dtoks, cn, ",".join(map(str, cl)), vfield, xpgen.tok("urn:p"), xpgen.tok("urn:q"), xpgen.tok(s), ttok)
            cases.append({"id": "%s%d" % (prefix, k), "line": line, "expr": e, "str": s, "nodes": nodes, "ctx": cn, "cl": cl,
                          "vars": {n: v for n, (t, v) in variables.items()}, "nonbmp": False, "doc": dtoks, "ids": table,
                          "cls": "id:" + e[0] + (":" + e[1] if e[0] == "fn" else ""), "dcls": sorted(dcls), "decl": d["decl"], "top": d["top"]})
            k += 1
    return cases


def id_stream(ctx, impl, n_docs, per_doc, prefix="i"):
    """returns (correspondence mismatches, oracle failures) of the id() stream"""
    import random
    r = random.Random(ctx.rng.getrandbits(64))
    cases = gen_id_cases(r, n_docs, per_doc, prefix)
    seen_doc = set()
    for c in cases:
        if c["doc"] not in seen_doc:
            seen_doc.add(c["doc"])
            for cl in c["dcls"]:
                ctx.count("iddoc:" + cl)
    ctx.cov.setdefault("samples", [])
    ctx.cov["samples"] += [c["str"] for c in cases[:6]]
    corr, orc = evaluate(ctx, cases, impl, None)
    ctx.notes["id_stream_cases"] = ctx.notes.get("id_stream_cases", 0) + len(cases)
    return cases, corr, orc


def id_correspondence(ctx, impl, model, cases):
    """the extracted model of the id() mechanism (coq/XpIdDefs.v: element-by-ID table built in SAX order +
    FunctionID) against the library, on every case of the stream whose top-level expression is id(ARG): ARG is
    evaluated by the library on its own (node-set -> its nodes, anything else -> its string conversion), the
    model gets the tree the parser reports, the declared attribute types and that argument"""
    sel = [c for c in cases if c["expr"][0] == "fn" and c["expr"][1] == "id" and len(c["expr"][2]) == 1]
    if not sel:
        return []
    lines = []
    for c in sel:
        fs = c["line"].split("|")
        fa = list(fs)
        fa[0] = c["id"] + "a"
        fa[6] = "X:" + xpgen.tok(xpgen.p_expr(c["expr"][2][0]))
        lines += [c["line"], "|".join(fa)]
    rc, res, raw = core.run_lines_parallel(impl, lines, sep="|")
    mlines, want = [], {}
    for c in sel:
        main, aux = res.get(c["id"]), res.get(c["id"] + "a")
        if main is None or aux is None:
            continue
        G = main.split("|")[0]
        A = aux.split("|")
        if not G.startswith("G:ns:") or "?" in G or not A[0].startswith("G:") or A[0].startswith("G:err") or len(A) < 4:
            continue
        if A[0].startswith("G:ns:"):
            if "?" in A[0]:
                continue
            arg = "L:" + A[0][5:]
        elif A[3].startswith("S:s:"):
            arg = "S:" + A[3][4:]
        else:
            continue
        types = {}
        for el, ats in c["decl"].items():
            for a, ty, dk, dv in ats:
                types.setdefault((el, a), ty)
        y = []
        for n in c["nodes"]:
            if n.kind in ("attr", "nsdecl") and n.parent is not None:
                ty = types.get((n.parent.qname, n.qname), "CDATA")
                if ty != "CDATA":
                    y.append("%d=%s" % (n.id, xpgen.tok(xpgen._id_typestr(ty))))
        mlines.append("%s|D:%s|Y:%s|%s" % (c["id"], xpgen.doc_tokens(c["top"]), ";".join(y), arg))
        want[c["id"]] = (G[2:], c)
    rc_m, res_m, raw_m = core.run_lines_parallel(model, mlines, sep="|")
    corr = []
    for cid, (g, c) in want.items():
        ctx.cov["traces_validated_against_impl"] += 1
        ctx.count("idcorr:" + ("nonempty" if g != "ns:" else "empty"))
        m = res_m.get(cid)
        if m != g:
            corr.append({"expr": c["str"], "case": c["line"], "impl": g[:200], "model": (m or "")[:200]})
    return corr


def id_part(ctx, impl, orc, proved, known):
    model, ok_m, mlog = core.build_model("xpid")
    if not ok_m:
        ctx.broken.append("id() model extraction/build failed: " + mlog[-500:])
        model = None
    n_docs, per_doc = (40, 30) if not ctx.thorough else (400, 60)
    cases, c3, o3 = id_stream(ctx, impl, n_docs, per_doc)
    corr = id_correspondence(ctx, impl, model, cases) if model else []
    new = [o for o in o3 if not (o["known"] and o["known"] in known)]
    if (corr or not proved or not model) and not new and not ctx.thorough:
        # a broken tie (translator fact / proof / correspondence of the id() mechanism): widened search
        ctx.escalated = True
        cases2, c4, o4 = id_stream(ctx, impl, 300, 40, prefix="j")
        if model:
            corr += id_correspondence(ctx, impl, model, cases2)
        o3 += o4
    orc += o3
    if corr:
        ctx.broken.append("correspondence xpid: %d cases differ between the id() mechanism model and the library, e.g. %s" % (
            len(corr), {k: corr[0][k] for k in ("expr", "impl", "model")}))
        ctx.notes["id_correspondence_mismatches"] = [{k: c[k] for k in ("expr", "impl", "model")} for c in corr[:20]]
    return cases


def gen_ns_cases(r, n_docs, per_doc, prefix="n"):
    """the namespace-axis stream (known finding K21 and everything next to it): documents whose namespace
    environment changes at several depths (xpgen.gen_ns_doc: xmlns="" below a non-empty default declaration, with
    nothing to undeclare, a default declared again below the undeclaration, p / q declared again with the same or
    another URI) x expressions around namespace:: steps (xpgen.NsExprGen).  `r` is the stream's OWN
    random.Random (seeded from ctx.rng after every other draw)."""
    cases, k = [], 0
    for di in range(n_docs):
        top, dcls = xpgen.gen_ns_doc(r, "small" if r.random() < 0.6 else "big")
        nodes = xpgen.build_nodes(top)
        dtoks = xpgen.doc_tokens(top)
        elems = [n.id for n in nodes if n.kind == "elem"]
        nonattr = [n.id for n in nodes if n.kind not in ("attr", "nsdecl")]
        # the elements on which the finding's boundary lies: the default namespace is undeclared at or above them
        # while a farther ancestor declares one
        below = []
        for n in nodes:
            if n.kind == "elem" and n.nsenv.get("", None) == "":
                a = n.parent
                while a is not None and a.kind == "elem":
                    if a.nsenv.get("", "") != "":
                        below.append(n.id)
                        break
                    a = a.parent
        variables = {
            "n1": ("num", r.choice([1.0, 2.0, 3.0])),
            "s1": ("str", r.choice(["urn:d", "", "p"])),
            "b1": ("bool", r.random() < 0.5),
            "ns1": ("nodes", sorted(r.sample(elems, min(len(elems), r.randrange(1, 4))))),
            "e1": ("nodes", []),
        }
        vfield = ";".join("%s=%s" % (name, {"num": lambda v: "n:" + xpgen.dbits(v),
                                              "str": lambda v: "s:" + xpgen.tok(v),
                                              "bool": lambda v: "b:%d" % v,
                                              "nodes": lambda v: "ns:" + ",".join(map(str, v))}[t](v))
                          for name, (t, v) in variables.items())
        g = xpgen.NsExprGen(r, nodes, variables)
        for _ in range(per_doc):
            e = g.gen()
            q = r.random()
            if below and q < 0.45:
                cn = r.choice(below)
            elif q < 0.9:
                cn = r.choice(elems)
            else:
                cn = r.choice([n.id for n in nodes if n.kind != "nsdecl"])
            if r.random() < 0.5 and nodes[cn].parent is not None and nodes[cn].kind not in ("attr", "nsdecl"):
                cl = [c.id for c in nodes[cn].parent.children]
            else:
                cl = sorted(set(r.sample(nonattr, min(len(nonattr), r.randrange(0, 3))) + [cn]))
            s = xpgen.p_expr(e, r)
            line = "%s%d|eval|D:%s|C:%d;%s|V:%s|N:p=%s;q=%s|X:%s|A:%s" % (
                prefix, k, dtoks, cn, ",".join(map(str, cl)), vfield, xpgen.tok("urn:p"), xpgen.tok("urn:q"), xpgen.tok(s), xpgen.sx_expr(e))
            cases.append({"id": "%s%d" % (prefix, k), "line": line, "expr": e, "str": s, "nodes": nodes, "ctx": cn, "cl": cl,
                          "vars": {n: v for n, (t, v) in variables.items()}, "nonbmp": False, "doc": dtoks,
                          "cls": "nsaxis:" + e[0] + (":" + e[1] if e[0] == "fn" else ""), "dcls": sorted(dcls), "below": cn in below})
            k += 1
    return cases


def ns_stream(ctx, impl, model, n_docs, per_doc, prefix="n"):
    import random
    r = random.Random(ctx.rng.getrandbits(64))
    cases = gen_ns_cases(r, n_docs, per_doc, prefix)
    seen_doc = set()
    for c in cases:
        if c["doc"] not in seen_doc:
            seen_doc.add(c["doc"])
            for cl in c["dcls"]:
                ctx.count("nsdoc:" + cl)
        if c["below"]:
            ctx.count("nsaxis:context-below-undeclared-default")
    ctx.cov.setdefault("samples", [])
    ctx.cov["samples"] += [c["str"] for c in cases[:6]]
    corr, orc = evaluate(ctx, cases, impl, model)
    ctx.notes["ns_stream_cases"] = ctx.notes.get("ns_stream_cases", 0) + len(cases)
    return corr, orc


def ns_part(ctx, impl, model, corr, orc, proved, known):
    """the namespace-axis stream through both legs: correspondence (coq/XpDefs.v `namespaces` is the model of
    XPath::findNamespace) and oracle (the Recommendation; a deviation is K21 only when the library's value is the
    value of the reference with exactly that deviation switched on, see classify).  A broken tie widens it."""
    n_docs, per_doc = (60, 25) if not ctx.thorough else (600, 50)
    c1, o1 = ns_stream(ctx, impl, model, n_docs, per_doc)
    new = [o for o in o1 if not (o["known"] and o["known"] in known)]
    if (c1 or not proved or not model) and not new and not ctx.thorough:
        ctx.escalated = True
        c2, o2 = ns_stream(ctx, impl, model, 400, 30, prefix="nw")
        c1 += c2
        o1 += o2
    corr += c1
    orc += o1


def ref_eval(c, units=False, negzero=False, k21=False):
    ref = xpref.Ref(c["nodes"], c["vars"], units=units, negzero=negzero, ids=c.get("ids"), k21=k21)
    pos = (c["cl"].index(c["ctx"]) + 1) if c["ctx"] in c["cl"] else 0
    try:
        return ref.ev(c["expr"], c["ctx"], pos, len(c["cl"]))
    except xpref.XPathTypeError:
        return "err"
    except RecursionError:
        return "skip"


def evaluate(ctx, cases, impl, model):
    lines = [c["line"] for c in cases]
    rc_i, res_i, raw_i = core.run_lines_parallel(impl, lines, sep="|")
    rc_m, res_m, raw_m = core.run_lines_parallel(model, lines, sep="|") if model else (0, {}, "")
    corr, orc = [], []
    if rc_i != 0:
        orc.append({"case": "(process)", "what": "xp driver exited with status %d: %s" % (rc_i, raw_i[-300:]), "known": None})
    distinct = set()
    for c in cases:
        ri = res_i.get(c["id"])
        ctx.cov["evaluations"] += 1
        ctx.count(c.get("cls") or ("top:" + c["expr"][0]))
        distinct.add(c["str"])
        if ri is None:
            orc.append({"case": c["line"], "what": "no result from the library (crash?) for %s" % c["str"], "known": None})
            continue
        fs = ri.split("|")
        G = fs[0][2:] if fs[0].startswith("G:") else fs[0]
        got = parse_value(G)
        # --- correspondence with the model of the implementation
        if model:
            rm = res_m.get(c["id"])
            ctx.cov["traces_validated_against_impl"] += 1
            if canon_line(rm) != canon_line(ri):
                # differences only in the six-entry-point fields are C11's business; here compare the generic value
                gm = rm.split("|")[0] if rm else None
                gm = gm[2:] if gm and gm.startswith("G:") else gm
                if not (gm is not None and (parse_value(gm) == "err") == (got == "err") and (got == "err" or same(parse_value(gm), got))):
                    corr.append({"expr": c["str"], "case": c["line"], "impl": ri[:300], "model": (rm or "")[:300]})
        # --- oracle: the Recommendation
        exp = ref_eval(c)
        if exp == "skip":
            continue
        if isinstance(exp, list) and any(isinstance(x, tuple) for x in exp):
            exp_cmp = None     # namespace nodes have no id in the library's numbering
        else:
            exp_cmp = exp
        ok = (exp_cmp is not None) and ((got == "err" and exp == "err") or (got != "err" and exp != "err" and same_value(got, exp_cmp)))
        if not ok:
            known = classify(c, got)
            orc.append({"case": c["line"], "what": "%s with context node %d: library %r, Recommendation %r" % (c["str"], c["ctx"], got, exp),
                        "known": known, "expr": c["str"], "expect": fmt_value(exp)})
    ctx.cov["distinct_nontrivial"] = ctx.cov.get("distinct_nontrivial", 0) + len(distinct)
    return corr, orc


def run_corpus(ctx, impl, known, hits):
    """corpus first: stored replays with the value the Recommendation prescribes.
       fixed_*.txt: regressions of repaired defects (a deviation is a VIOLATION);
       k<N>.txt: replays of the known findings (a deviation prints KNOWN-FINDING)."""
    cdir = os.path.join(core.VERIF, "corpus", "C02")
    bad = []
    for fn in sorted(os.listdir(cdir)) if os.path.isdir(cdir) else []:
        lines = open(os.path.join(cdir, fn)).read().split("\n")
        expects, cases = {}, []
        for i, l in enumerate(lines):
            if l.startswith("#expect ") and i + 1 < len(lines):
                cid = lines[i + 1].split("|")[0]
                expects[cid] = (l.split()[1], l.partition("# ")[2].partition("# ")[2] or l)
                cases.append(lines[i + 1])
        if not cases:
            continue
        rc, res, raw = core.run_lines(impl, "\n".join(cases) + "\n", sep="|")
        for cid, (exp, what) in expects.items():
            got = (res.get(cid) or "crash").split("|")[0]
            ctx.cov["evaluations"] += 1
            ctx.count("corpus:" + fn)
            if got != exp:
                key = fn.split(".")[0].upper()
                if fn.startswith("k") and key in known:
                    hits[key] = hits.get(key, 0) + 1
                else:
                    bad.append("# corpus %s: %s: library %s, Recommendation %s\n%s" % (
                        fn, what, got, exp, [c for c in cases if c.startswith(cid + "|")][0]))
    if bad:
        ctx.violation("corpus", "# C02: stored replays (repaired defects) deviate from the Recommendation again\n" + "\n".join(bad))


# known leniencies of the tokenizer / compiler: (key, normaliser) pairs; a class is decided by undoing exactly
# that leniency (the normaliser maps a string the library accepts to the well-formed string it is read as)
# and asking the recogniser again.  K11 and K25-K29 ('! =', 'p: b', 'b/)', '()', 'b |)', '.5.', '$1') were
# repaired in the library's tokenizer/parser: no leniency is left, every string of the streams that the
# recogniser refuses must be refused by XPathProcessorImpl.
LENIENCIES = [
]


MALFORMED_DOC = "D:(a @x=u:31 (b t=u:32 ) (c ) )|C:1;1|V:n1=n:3ff0000000000000;s1=s:u:61;b1=b:1;ns1=ns:1;e1=ns:|N:p=u:75,72,6e,3a,70;q=u:75,72,6e,3a,71"


def gen_malformed(n, seed=20261001):
    """mutate valid expression strings (delete / insert / swap / truncate) and keep those the independent
    recogniser vlib/xpsyntax.py refuses"""
    import random

    class _Shim:
        rng = random.Random(seed)

        def count(self, *a, **k):
            pass
    shim = _Shim()
    r = shim.rng
    base = [c for c in gen_cases(shim, 40, 20, 3) if len(c["str"]) > 0]
    alphabet = "()[]/|@*$.,:=!<>+- 'a1\""
    out, seen, tries = [], set(), 0
    while len(out) < n and tries < 40 * n:
        tries += 1
        t = list(r.choice(base)["str"])
        for _ in range(r.choice([1, 1, 1, 2, 3])):
            op = r.randrange(4)
            if op == 0 and t:
                del t[r.randrange(len(t))]
            elif op == 1:
                t.insert(r.randrange(len(t) + 1), r.choice(alphabet))
            elif op == 2 and len(t) > 1:
                i = r.randrange(len(t) - 1)
                t[i], t[i + 1] = t[i + 1], t[i]
            elif t:
                del t[r.randrange(len(t)):]
        m = "".join(t)
        if not m.strip() or m in seen or xpsyntax.recognise(m):
            continue
        seen.add(m)
        out.append(m)
    return out


def freeze():
    """maintenance: (re)write the frozen malformed streams; afterwards run both tiers on the unchanged tree
    and classify every accepted string (python3 -c 'from props import C02; C02.freeze()')"""
    cdir = os.path.join(core.VERIF, "corpus", "C02")
    for name, n in (("malformed_quick.lst", 1500), ("malformed_thorough.lst", 20000)):
        with open(os.path.join(cdir, name), "w") as f:
            for m in gen_malformed(n):
                f.write(xpgen.tok(m) + "\n")


# --- the lexical malformed stream (corpus/C02/malformed_lexer.lst) ---------------------------------------------
# hand-written bases: every token kind of the XPath 1.0 grammar (3.7 ExprToken) at least once
LEXER_BASES = [
    "child::a", "descendant-or-self::node()/b", "ancestor::*", "ancestor-or-self::p:a", "attribute::x", "@x", "@p:*", "@*",
    "following::c", "following-sibling::b[1]", "namespace::p", "parent::node()", "preceding::text()",
    "preceding-sibling::comment()", "self::a", "descendant::p:*", "processing-instruction('pi')", "processing-instruction()",
    "//b", "/a/b", "/", ".", "..", "./b", "../c", "b//c", "a/b[c]/d", ".//b", "p:*", "p:b", "*", "b | c", "b|c|/",
    "(b | c)[1]", "(b)[1]/c", "(b)//c", "$n1", "$ns1/b", "$ns1[1]", "$ns1//c", "$p:v", "$n1 + $n1",
    "1", "1.", "1.5", ".5", "007", "0.25 + .75", "-1", "- - 1", "-b", "1 + 2", "1 - 2", "3 * 4", "6 div 3", "7 mod 2",
    "b * 2", "* * *", "2 * *", "1 = 1", "1 != 2", "1 < 2", "1 <= 2", "1 > 2", "1 >= 2", "b = 'x'", 'b = "x"', "1 and 2",
    "1 or 0", "true() and not(false())", "count(b)", "count(b | c)", "concat('a', 'b', \"c\")", "substring('abc', 2, 1)",
    "substring-before('a-b', '-')", "string-length()", "last() - 1", "position() = last()", "b[1]", "b[last()]",
    "b[@t = '2']", "b[1][2]", "b[c or d]", "*[self::b]", "b[. = 2]", "b[.. = /]", "id('x')/b", "id('x')[1]",
    "translate('abc', 'ab', 'AB') = 'ABc'", "sum(b) div count(b)", "floor(1.5) + ceiling(.5) + round(2.)", "(1 + 2) * 3",
    "((b))", "(/)", "count(/)", "boolean(/ | b)", "div div mod", "and and or", "mod mod mod", "or or or", "div * mod",
    "text()", "node()", "comment()", "b/text()", "b/@*[1]", "local-name(*)", "name(.)", "lang('en')",
    "normalize-space(' a ')", "starts-with('ab', 'a')", "contains($s1, 'a')", "number('1') + $n1", "string(1 div 0)",
    "1 < 2 = (2 > 1)", "1 <= 2 != (2 >= 3)", "a-b", "a.b", "a - b", "a -b", "_a", "p:a-b.c", "b[1] | c[2]/@x",
]
# the strings the findings K11, K25-K29 were reported with (and '*()' / 'p:*()', found by this stream)
LEXER_REPLAYS = ["1 ! = 2", "1 < = 2", "1 > = 2", "/ /", "/ / b", "a/ /b", "p: b", "p: *", "$ x", "count(b/)", "(b/)", "b[true < ()]",
                 "b[true() < ()]", "()", "count(b |)", "b['a' +]", ".2-", "-", "b |", ".5.", ".0.5", ".05a", "b[$1]", "b[$]", "b[$'a']",
                 "$p:*", "$*", "$", "child::*()", "@*()", "b/*( )", "p:*()", "p:*(1)"]
_BINOPS = ["+", "-", "*", "div", "mod", "=", "!=", "<", "<=", ">", ">=", "and", "or", "|", "/", "//"]


def raw_tokens(s):
    """[(start, end, kind, text)] per ExprToken of s (white space skipped), None when a character fits no token"""
    out, i, n = [], 0, len(s)
    while True:
        while i < n and s[i] in " \t\r\n":
            i += 1
        if i >= n:
            return out
        m = xpsyntax.TOKEN_RX.match(s, i)
        if not m or m.end() == i:
            return None
        for k in ("num", "lit", "op2", "op1", "name"):
            if m.group(k) is not None:
                out.append((m.start(k), m.end(k), k, m.group(k)))
                break
        i = m.end()


def lexer_mutants(s, r):
    """(class, string) pairs: lexical mutations of the well-formed expression s.  NOT filtered: the caller keeps
    those the recogniser refuses."""
    toks = raw_tokens(s) or []
    ws = [" ", "\t", "\n", "  "]
    for i, (st, en, k, t) in enumerate(toks):
        # white space INSIDE a token (a name, a QName at and around the colon, a number, '//' '::' '..' '!=' '<=' '>=')
        if k != "lit":
            for pos in range(st + 1, en):
                yield "ws-in-" + k, s[:pos] + " " + s[pos:]
                yield "ws-in-" + k, s[:pos] + r.choice(ws) + s[pos:]
        if t == "$":
            for w in ws:
                yield "ws-after-dollar", s[:en] + w + s[en:]
        # truncation at every token boundary, from both ends
        if i + 1 < len(toks):
            yield "truncated", s[:en]
        if i > 0:
            yield "truncated-front", s[st:]
        # a token removed (missing operand / operator / bracket), doubled, swapped with its neighbour
        yield "token-removed", s[:st] + s[en:]
        yield "token-doubled", s[:en] + t + s[en:]
        yield "token-doubled", s[:en] + " " + t + s[en:]
        if i + 1 < len(toks):
            st2, en2, _, t2 = toks[i + 1]
            yield "tokens-swapped", s[:st] + t2 + s[en:st2] + t + s[en2:]
        # an operator without its right operand: directly before ')' ']' ',' ; without its left one: after '(' '[' ','
        if t in (")", "]", ","):
            for op in _BINOPS:
                yield "operator-before-closer", s[:st] + " " + op + " " + s[st:]
                yield "operator-before-closer", s[:st] + op + s[st:]
        if t in ("(", "[", ","):
            for op in _BINOPS:
                yield "operator-after-opener", s[:en] + " " + op + " " + s[en:]
        # empty parentheses / predicate in place of, before and after an operand
        for e in ("()", "[]", "( )"):
            yield "empty-brackets", s[:st] + e + s[st:]
            yield "empty-brackets", s[:st] + e + s[en:]
        # number tokens: a second point, letters running into it, exponents, signs glued on
        if k == "num":
            for m in (t + ".", t + ".5", t + "..", "." + t, t + "a", t + "e3", t + "E-3", t + "-", t + "_", "0x" + t, t + ".5.5", t.replace(".", "..")):
                if m != t:
                    yield "number-token", s[:st] + m + s[en:]
        # variable references: '$' followed by white space, digits, nothing, a literal, '*', another '$', a half QName
        if t == "$" and i + 1 < len(toks):
            st2, en2, _, name = toks[i + 1]
            for m in ("$ " + name, "$1", "$", "$'a'", '$"a"', "$$" + name, "$:" + name, "$" + name + ":", "$p:*", "$*", "$-" + name,
                      "$." + name, "$(" + name + ")", "$1" + name, "$" + name + " :x", "$p: " + name, "$p :" + name, "$[1]", "$/" + name):
                yield "variable-token", s[:st] + m + s[en2:]
    for op in _BINOPS + ["-", ",", "(", "[", "@", "$", "::", ":", "!", "."]:
        yield "operator-at-end", s + " " + op
        yield "operator-at-end", s + op
        yield "operator-at-start", op + " " + s


def gen_lexer_malformed(per_class=1200, seed=20261002):
    """the lexical malformed stream: white space inside every token kind, truncations at every token boundary,
    doubled / missing / swapped tokens, operators without operand, empty brackets, number and variable token
    mutations of well-formed expressions; kept: the strings the independent recogniser refuses.
    -> [(class, string)]"""
    import random

    class _Shim:
        rng = random.Random(seed)

        def count(self, *a, **k):
            pass
    shim = _Shim()
    r = shim.rng
    bases = list(LEXER_BASES) + sorted(set(c["str"] for c in gen_cases(shim, 30, 20, 3) if 0 < len(c["str"]) <= 70))[:160]
    assert all(xpsyntax.recognise(b) for b in bases)
    by_cls, seen = {}, set()
    for m in LEXER_REPLAYS:
        if not xpsyntax.recognise(m) and m not in seen:
            seen.add(m)
            by_cls.setdefault("replay", []).append(m)
    for b in bases:
        for cls, m in lexer_mutants(b, r):
            if not m.strip() or m in seen or xpsyntax.recognise(m):
                continue
            seen.add(m)
            by_cls.setdefault(cls, []).append(m)
    out = []
    for cls in sorted(by_cls):
        ms = by_cls[cls]
        if len(ms) > per_class:
            ms = r.sample(ms, per_class)
        out += [(cls, m) for m in ms]
    return out


def freeze_lexer():
    """maintenance: (re)write corpus/C02/malformed_lexer.lst (python3 -c 'from props import C02; C02.freeze_lexer()').
    One line per string: '<class> <u:token>'."""
    with open(os.path.join(core.VERIF, "corpus", "C02", "malformed_lexer.lst"), "w") as f:
        for cls, m in gen_lexer_malformed():
            f.write("%s %s\n" % (cls, xpgen.tok(m)))


def malformed_stream(ctx, cases, impl, known, hits, n):
    """'Strings that are not XPath expressions are rejected with an error'.  The streams are FROZEN:
    corpus/C02/malformed_<tier>.lst (random character mutations of well-formed expressions) and
    corpus/C02/malformed_lexer.lst (systematic lexical mutations, '<class> <string>' per line), all strings the
    independent recogniser vlib/xpsyntax.py refuses.  The files are inputs, not expectations: every string is
    judged again by the recogniser here, and XPathProcessorImpl must refuse it when it is COMPILED (an error that
    only shows when the compiled object is evaluated depends on the document and is not a rejection).  The
    leniencies K11, K25-K29 were repaired; LENIENCIES lists the (currently no) recorded ones that remain."""
    name = "malformed_thorough.lst" if n > 5000 else "malformed_quick.lst"
    path = os.path.join(core.VERIF, "corpus", "C02", name)
    if os.path.exists(path):
        toks = [("random", l.strip()) for l in open(path) if l.strip()]
    else:
        toks = [("random", xpgen.tok(m)) for m in gen_malformed(n)]
    lpath = os.path.join(core.VERIF, "corpus", "C02", "malformed_lexer.lst")
    if os.path.exists(lpath):
        toks += [tuple(l.split()) for l in open(lpath) if len(l.split()) == 2]
    else:
        ctx.broken.append("corpus/C02/malformed_lexer.lst is missing (python3 -c 'from props import C02; C02.freeze_lexer()')")
    lines, info = [], {}
    for k, (cls, t) in enumerate(toks):
        cid = "m%d" % k
        lines.append("%s|eval|%s|X:%s" % (cid, MALFORMED_DOC, t))
        info[cid] = (cls, u16_to_str(t))
    if not lines:
        return
    rc, res, raw = core.run_lines_parallel(impl, lines, sep="|")
    bad, stale = [], 0
    for cid, (scls, m) in info.items():
        ctx.cov["evaluations"] += 1
        if xpsyntax.recognise(m):
            stale += 1          # the recogniser changed its mind about a frozen string: not an input of this stream
            continue
        ctx.count("malformed:invalid")
        ctx.count("malformed:" + scls)
        out = res.get(cid)
        if out is None:
            bad.append("# no result from the library (crash?) for the invalid string %r\n%s" % (m, [l for l in lines if l.startswith(cid + "|")][0]))
        elif not out.startswith("compile:err"):
            # known leniencies of the tokenizer/compiler: the class is decided by undoing exactly that
            # leniency and asking the recogniser again
            cls = None
            for key, norm in LENIENCIES:
                if key in known and norm(m) != m and xpsyntax.recognise(norm(m)):
                    cls = key
                    break
            if cls is None and LENIENCIES:
                both = m
                for key, norm in LENIENCIES:
                    if key in known:
                        both = norm(both)
                if both != m and xpsyntax.recognise(both):
                    cls = [k for k, nf in LENIENCIES if k in known and nf(m) != m][0]
            if cls:
                hits[cls] = hits.get(cls, 0) + 1
                continue
            bad.append("# %r is not an XPath 1.0 expression but the library compiled it: %s\n%s" % (
                m, out[:80], [l for l in lines if l.startswith(cid + "|")][0]))
    if stale:
        ctx.broken.append("%d strings of the frozen malformed streams are accepted by vlib/xpsyntax.py now: refreeze them" % stale)
    if bad:
        ctx.violation("malformed", "# C02: strings that are not XPath expressions must be rejected with an error\n" + "\n".join(bad[:40]))
    ctx.notes["malformed_checked"] = len(info) - stale


def perturb_ws(s, r, p):
    """s with white space inserted (probability p per place) before, after and between its ExprTokens - everywhere
    XPath 3.7 allows it: not inside a token, not between '$' and the name"""
    toks = raw_tokens(s)
    if toks is None:
        return None
    ws = [" ", " ", "  ", "\t", "\n", "\r\n", " \n "]
    out, pos = [r.choice(ws)] if r.random() < p else [], 0
    for st, en, k, t in toks:
        out.append(s[pos:en])
        pos = en
        if t != "$" and r.random() < p:
            out.append(r.choice(ws))
    out.append(s[pos:])
    return "".join(out)


def ws_stream(ctx, cases, impl, n):
    """the other direction of 'strings that are not expressions are rejected': white space between ExprTokens is
    insignificant (3.7), so a generated well-formed expression with white space inserted between its tokens must
    still compile and must give, field by field, the result of the expression as generated (same library, same
    document and context) - a tokenizer that refuses or re-reads 'child :: a', 'f ( )', 'a [ 1 ]', '- 1', '$x', 'p:*'
    shows here.  Seeded from ctx.rng after every other stream."""
    import random
    r = random.Random(ctx.rng.getrandbits(64))
    picked = cases if len(cases) <= n else r.sample(cases, n)
    lines, info = [], {}
    for k, c in enumerate(picked):
        t = perturb_ws(c["str"], r, r.choice([0.3, 0.6, 1.0]))
        if t is None or t == c["str"]:
            continue
        if not xpsyntax.recognise(t):
            ctx.broken.append("ws stream: the perturbed string %r is refused by the recogniser (generator defect)" % t)
            return
        fields = [f for f in c["line"].split("|")[1:] if not f.startswith("A:")]
        lines.append("|".join(["wo%d" % k] + fields))
        lines.append("|".join(["wp%d" % k] + [("X:" + xpgen.tok(t)) if f.startswith("X:") else f for f in fields]))
        info[k] = (c["str"], t, lines[-1])
    if not lines:
        return
    rc, res, raw = core.run_lines_parallel(impl, lines, sep="|")
    bad = []
    for k, (s, t, line) in info.items():
        ctx.cov["evaluations"] += 1
        ctx.count("ws:perturbed")
        o, p = res.get("wo%d" % k), res.get("wp%d" % k)
        if o is None or p is None or o != p:
            bad.append("# %r with white space between its tokens, %r: %s, as generated: %s\n%s" % (s, t, (p or "no result")[:80], (o or "no result")[:80], line))
    if bad:
        ctx.violation("whitespace", "# C02: white space between the tokens of an expression (XPath 3.7) changes the result or is refused\n" + "\n".join(bad[:40]))
    ctx.notes["ws_perturbed_checked"] = len(info)


def run(ctx):
    ctx.assumptions += [
        "the expression string and the AST handed to the model are printed from one generated tree; that the real compiler produces that AST is the compiler correspondence (xpc family)",
        "documents come from XalanSourceTree (indexed native tree); Xerces parsing is trusted",
        "ICU/glibc: only sprintf/atof (see C18)",
        "id() stream: the documents carry an internal DTD subset (ATTLIST declarations only); Xerces' treatment of it (attribute-value "
        "normalisation of non-CDATA types, defaulted attributes appended after the specified ones in declaration order, the type string "
        "reported per attribute) is trusted and mirrored by xpgen.effective_tree; TAB/LF/CR are not generated inside values of non-CDATA "
        "attributes; at most one ID attribute per element type (with two, the 'unique ID' of XPath 5.2.1 is ambiguous); duplicate ID values "
        "ARE generated (5.2.1: the first element in document order has the ID)",
        "id() model (coq/XpIdDefs.v): startElement events arrive in document order (ascending node number); StringTokenizer and "
        "MutableNodeRefList::addNodeInDocOrder are modelled abstractly (split on the delimiter set / sorted duplicate-free insertion), "
        "the correspondence run compares the extracted model with the library on every top-level id(ARG) case",
    ]
    ctx.notes["rule"] = ("expressions generated from a typed grammar (every operator, axis, node test, core function; "
                         "boundary streams for string search, comparisons hinging on equality, numbers) x generated documents x "
                         "context node/list; distinct = distinct expression strings; non-trivial = the expression contains at least "
                         "one operator, function call or location step (every generated case does); the malformed stream counts "
                         "separately (malformed_checked: corpus/C02/malformed_<tier>.lst + malformed_lexer.lst, every string refused by the recogniser must fail to COMPILE), "
                         "so does the white-space stream (ws_perturbed_checked: generated expressions with white space inserted between their tokens give the unperturbed result); the id() stream (id_stream_cases; classes id:* and iddoc:*) uses documents with "
                         "DTD-declared ID/IDREF/IDREFS/CDATA/NMTOKEN(S)/enumerated attributes and every argument shape of id()")
    ok_lib, liblog = core.build_lib("plain")
    if not ok_lib:
        ctx.broken.append("library does not build from the working tree: " + liblog[-500:])
        return ctx.finish(LEVEL)
    prop_files = [f for f in ("Properties_C02.v",) if os.path.exists(os.path.join(core.COQ, f))]
    proved = ctx.prove(prop_files, ["GenNum", "GenXpId", "GenXpCp"]) if prop_files else False
    model, ok_m, mlog = core.build_model("xp")
    if not ok_m:
        ctx.broken.append("model extraction/build failed: " + mlog[-500:])
        model = None
    impl, ok_h, hlog = core.build_harness("xp", "plain")
    if not ok_h:
        ctx.broken.append("harness does not compile against the working tree: " + hlog[-500:])
        return ctx.finish(LEVEL)
    # the compiler half (built as its own family)
    try:
        part = importlib.import_module("props.C02_compiler")
    except ImportError:
        part = None
    if part is not None:
        part.run_part(ctx)
    # the declarative-specification half (axes / steps / paths = the Recommendation; props/C02_spec.py)
    try:
        spec_part = importlib.import_module("props.C02_spec")
    except ImportError:
        spec_part = None
    if spec_part is not None:
        spec_part.run_part(ctx)
    # the extension-function half (EXSLT, xalan:, id(), ...): built as its own family (props/C02_ext.py)
    if os.path.exists(os.path.join(core.VERIF, "props", "C02_ext.py")) and os.path.exists(os.path.join(core.VERIF, "props", "C02_ext.enabled")):
        importlib.import_module("props.C02_ext").run_part(ctx)

    # the character half (string-length / substring / translate over code points, K6 and its repair; props/C02_codepoints.py)
    try:
        cp_part = importlib.import_module("props.C02_codepoints")
    except ImportError:
        cp_part = None
    if cp_part is not None:
        cp_part.run_part(ctx)

    known = {k["key"]: k for k in ctx.known.for_property("C02")}
    hits = {}
    run_corpus(ctx, impl, known, hits)
    n_docs, per_doc = (60, 50) if not ctx.thorough else (600, 100)
    cases = gen_cases(ctx, n_docs, per_doc, 3)
    ctx.cov["samples"] = [c["str"] for c in cases[:12]]
    corr, orc = evaluate(ctx, cases, impl, model)
    c_cc, o_cc = evaluate(ctx, gen_conversion_chain_cases(), impl, model)
    corr += c_cc
    orc += o_cc
    malformed_stream(ctx, cases, impl, known, hits, 1500 if not ctx.thorough else 20000)
    new = [o for o in orc if not (o["known"] and o["known"] in known)]
    if (corr or not proved or not model) and not new and not ctx.thorough:
        ctx.escalated = True
        c2, o2 = evaluate(ctx, gen_cases(ctx, 300, 60, 4), impl, model)
        corr += c2
        orc += o2
        new = [o for o in orc if not (o["known"] and o["known"] in known)]
    # the id() stream (documents with an internal DTD subset).  Its random.Random is seeded from ctx.rng only
    # HERE, after every other draw, so the streams above are what they were before this stream existed.
    id_part(ctx, impl, orc, proved, known)
    ws_stream(ctx, cases, impl, 3000 if not ctx.thorough else 30000)
    # the namespace-axis stream: its random.Random is seeded from ctx.rng after every other stream, too
    # its proof leg (coq/Properties_C02n.v: XpDefs.namespaces = the declarative in-scope environment); a broken
    # proof widens the stream
    try:
        nsproof = importlib.import_module("props.C02_nsproof")
    except ImportError:
        nsproof = None
    ns_proved = nsproof.run_part(ctx) if nsproof is not None else True
    ns_part(ctx, impl, model, corr, orc, proved and ns_proved, known)
    # the fragment-comparison part (result tree fragments against every other type, whole transformations; props/C02_rtfcmp.py):
    # it seeds its own random.Random from ctx.rng here, after every other stream
    try:
        importlib.import_module("props.C02_rtfcmp").run_part(ctx)
    except ImportError:
        pass
    new = [o for o in orc if not (o["known"] and o["known"] in known)]
    for o in orc:
        if o["known"] and o["known"] in known:
            hits[o["known"]] = hits.get(o["known"], 0) + 1
    for k in sorted(hits):
        ctx.known_finding("%s %s" % (k, known[k]["what"]))
    ctx.notes["known_class_hits"] = hits
    if corr:
        ctx.broken.append("correspondence xp: %d of %d cases differ between the interpreter model and the library, e.g. %s" % (
            len(corr), ctx.cov["traces_validated_against_impl"], {k: corr[0][k] for k in ("expr", "impl", "model")}))
        ctx.notes["correspondence_mismatches"] = [{k: c[k] for k in ("expr", "impl", "model")} for c in corr[:20]]
    if new:
        # shortest first, those whose prescribed value can be written down (no namespace nodes in it) before the others
        new.sort(key=lambda o: (o.get("expect", "?").startswith("ns:?"), len(o["case"])))
        txt = "\n".join("#expect G:%s   # %s\n%s" % (o.get("expect", "?"), oneline(o["what"]), o["case"]) for o in new[:40])
        ctx.violation("oracle", "# C02 oracle failures: the library's value differs from the XPath 1.0 Recommendation\n"
                      "# replay: python3 check.py C02 --replay <this file>  (each case line is preceded by '#expect <value the Recommendation prescribes>')\n" + txt)
    ctx.notes["oracle_failures"] = len(new)
    return ctx.finish(LEVEL, explanation="theorems over the Gallina model of the XPath interpreter + correspondence of the extracted model with the rebuilt library + reference evaluator written from the Recommendation")


def replay(ctx, path):
    """feeds the case lines of a replay file to the rebuilt library; a case line preceded by
    '#expect <value>' is compared with that value (the one the Recommendation prescribes): exit status 1
    when any differs"""
    rtfcmp = importlib.import_module("props.C02_rtfcmp")
    if rtfcmp.is_replay(path):
        return rtfcmp.replay(ctx, path)
    core.build_lib("plain")
    impl, ok_h, hlog = core.build_harness("xp", "plain")
    raw = open(path).read().split("\n")
    lines = [l for l in raw if l.strip() and not l.startswith("#")]
    expects = {}
    for i, l in enumerate(raw):
        if l.startswith("#expect ") and i + 1 < len(raw):
            e = l.split()[1]
            expects[raw[i + 1].split("|")[0]] = (e[2:] if e.startswith("G:") else e, l.partition("# ")[2])
    rc, out = core.sh([impl], input="\n".join(lines) + "\n")
    print(out)
    res = {}
    for l in out.split("\n"):
        if "|" in l:
            res[l.split("|", 1)[0]] = l.split("|", 1)[1]
    bad = 0
    for cid, (exp, what) in expects.items():
        got = (res.get(cid) or "crash").split("|")[0]
        got = got[2:] if got.startswith("G:") else got
        g, e = parse_value(got), parse_value(exp)
        ok = (g == "err" and e == "err") or (g != "err" and e != "err" and same_value(g, e))
        if exp == "?" or exp.startswith("ns:?"):
            continue
        print("%s %s: library %s, expected %s%s" % ("PASS" if ok else "FAIL", cid, got[:120], exp[:120], ("   # " + what[:200]) if not ok else ""))
        bad += 0 if ok else 1
    if expects:
        print("replay: %d of %d cases deviate" % (bad, len(expects)))
    return 1 if bad else 0
