(* C16 — model of xsl:sort as coded in xalan-c (definitions only, no proofs).

   Sources modelled (file:function):
     XSLT/NodeSorter.cpp : NodeSortKeyCompare::compare, getNumberResult, getStringResult,
                           NodeSorter::sort (both overloads)
     XSLT/ElemForEach.cpp: sortChildren (evaluation of the xsl:sort attributes),
                           createSelectedAndSortedNodeList (lists of length <= 1 are not sorted)
     PlatformSupport/DoubleSupport.cpp: isNaN, equal, lessThan, greaterThan

   Doubles are IEEE-754 binary64 *bit patterns* (Z in [0, 2^64)); the comparisons are defined on
   the bit patterns (sign-magnitude order), which is exact for IEEE doubles.
   Strings are lists of UTF-16 code units.  Collation (ICU in this build) is a Section variable.
   Evaluation of a key's select expression for a node is a function of (key index, original
   position) — XPath evaluation is not part of this model. *)
From Coq Require Import ZArith List Bool Arith.
Import ListNotations.
Require Import XV.GenSort.

Definition str := list N.

(* ------------------------------------------------------------------------------------------ *)
(* doubles as bit patterns *)

Definition two63 : Z := 0x8000000000000000.
Definition inf_mag : Z := 0x7FF0000000000000.
Definition d_mag (b : Z) : Z := Z.modulo b two63.
Definition d_neg (b : Z) : bool := Z.leb two63 b.
Definition d_is_nan (b : Z) : bool := Z.ltb inf_mag (d_mag b).              (* DoubleSupport::isNaN *)
Definition d_ord (b : Z) : Z := if d_neg b then Z.opp (d_mag b) else d_mag b. (* +0 and -0 -> 0 *)
Definition d_lt (a b : Z) : bool :=                                          (* DoubleSupport::lessThan *)
  if d_is_nan a || d_is_nan b then false else Z.ltb (d_ord a) (d_ord b).
Definition d_gt (a b : Z) : bool :=                                          (* DoubleSupport::greaterThan *)
  if d_is_nan a || d_is_nan b then false else Z.ltb (d_ord b) (d_ord a).
Definition d_equal (a b : Z) : bool :=                                       (* DoubleSupport::equal *)
  if d_is_nan a || d_is_nan b then false else Z.eqb (d_ord a) (d_ord b).

(* the numeric branch of NodeSortKeyCompare::compare; the three results come from the source
   (GenSort: nan_lhs_result, nan_rhs_result, lt_result, gt_result) *)
Definition num_compare (n1 n2 : Z) : comparison :=
  if d_is_nan n1 then (if negb (d_is_nan n2) then nan_lhs_result else Eq)
  else if d_is_nan n2 then nan_rhs_result
  else if d_lt n1 n2 then lt_result
  else if d_gt n1 n2 then gt_result
  else Eq.

(* ------------------------------------------------------------------------------------------ *)
(* keys, entries *)

Inductive case_order := CaseDefault | CaseUpperFirst | CaseLowerFirst.

Record skey := { k_num : bool; k_desc : bool; k_case : case_order; k_lang : str }.

(* NodeSorter::VectorEntry *)
Record entry := { e_node : N; e_pos : nat }.

(* ------------------------------------------------------------------------------------------ *)
(* the key-value caches (m_numberResultsCache / m_stringResultsCache):
   outer vector per key (empty until first use), inner vector per original position (empty until
   the key is first used, then sized to the number of nodes and filled with the dummy value). *)

Section Cache.
  Variable V : Type.
  Variable dummy : V.                 (* value the row is filled with *)
  Variable is_dummy : V -> bool.      (* test "slot never evaluated" *)
  Variable dflt : V.
  Variable nkeys nnodes : nat.
  Variable ev : nat -> nat -> V.      (* real evaluation: key index, original position *)

  Fixpoint upd (p : nat) (v : V) (l : list V) : list V :=
    match l, p with
    | [], _ => []
    | _ :: t, O => v :: t
    | x :: t, S p' => x :: upd p' v t
    end.

  Fixpoint upd_row (k : nat) (f : list V -> list V) (c : list (list V)) : list (list V) :=
    match c, k with
    | [], _ => []
    | r :: t, O => f r :: t
    | r :: t, S k' => r :: upd_row k' f t
    end.

  Definition cache_get (c : list (list V)) (k p : nat) : V * list (list V) :=
    let c1 := match c with [] => repeat [] nkeys | _ => c end in      (* theCache.resize(keys) *)
    let row := nth k c1 [] in
    let row' :=
      match row with
      | [] => upd p (ev k p) (repeat dummy nnodes)                     (* resize + fill + evaluate *)
      | _ => if is_dummy (nth p row dflt) then upd p (ev k p) row else row
      end in
    (nth p row' dflt, upd_row k (fun _ => row') c1).
End Cache.

Definition num_dummy_test (v : Z) : bool := Bool.eqb (d_equal v sentinel_bits) dummy_test_sense.
Definition str_dummy_test (s : str) : bool := match s with [] => true | _ => false end.

Record caches := { c_num : list (list Z); c_str : list (list str) }.
Definition empty_caches := {| c_num := []; c_str := [] |}.

(* ------------------------------------------------------------------------------------------ *)

Section Sort.
  (* collation: language string, case order, two strings *)
  Variable coll : str -> case_order -> str -> str -> comparison.
  Variable keys : list skey.
  Variable nnodes : nat.
  Variable nev : nat -> nat -> Z.      (* number value of key k for the node at original position p *)
  Variable sev : nat -> nat -> str.    (* string value *)

  Definition get_number (st : caches) (k p : nat) : Z * caches :=
    let '(v, c) := cache_get Z sentinel_bits num_dummy_test 0%Z (length keys) nnodes nev (c_num st) k p in
    (v, {| c_num := c; c_str := c_str st |}).

  Definition get_string (st : caches) (k p : nat) : str * caches :=
    let '(v, c) := cache_get str [] str_dummy_test [] (length keys) nnodes sev (c_str st) k p in
    (v, {| c_num := c_num st; c_str := c |}).

  Definition flip (desc : bool) (r : comparison) : comparison := if desc then CompOpp r else r.

  (* NodeSortKeyCompare::compare(theLHS, theRHS, theKeyIndex), with the caches threaded *)
  Fixpoint compare_st (ks : list skey) (ki : nat) (a b : entry) (st : caches) : comparison * caches :=
    match ks with
    | [] => (Eq, st)
    | k :: rest =>
      let '(r, st2) :=
        if k_num k then
          let '(x, st1) := get_number st ki (e_pos a) in
          let '(y, st2) := get_number st1 ki (e_pos b) in
          (num_compare x y, st2)
        else
          let '(x, st1) := get_string st ki (e_pos a) in
          let '(y, st2) := get_string st1 ki (e_pos b) in
          (coll (k_lang k) (k_case k) x y, st2) in
      match r with
      | Eq => compare_st rest (S ki) a b st2
      | _ => (flip (k_desc k) r, st2)
      end
    end.

  (* the same comparison without caches *)
  Definition key_compare (k : skey) (ki : nat) (a b : entry) : comparison :=
    if k_num k then num_compare (nev ki (e_pos a)) (nev ki (e_pos b))
    else coll (k_lang k) (k_case k) (sev ki (e_pos a)) (sev ki (e_pos b)).

  Fixpoint compare_from (ks : list skey) (ki : nat) (a b : entry) : comparison :=
    match ks with
    | [] => Eq
    | k :: rest =>
      match key_compare k ki a b with
      | Eq => compare_from rest (S ki) a b
      | r => flip (k_desc k) r
      end
    end.

  Definition cmp (a b : entry) : comparison := compare_from keys 0 a b.
  Definition is_lt (c : comparison) : bool := match c with Lt => true | _ => false end.

  (* stable sort as insertion sort (any stable sorting algorithm gives the same list: sort_unique) *)
  Fixpoint insert_st (x : entry) (l : list entry) (st : caches) : list entry * caches :=
    match l with
    | [] => ([x], st)
    | y :: t =>
      let '(r, st1) := compare_st keys 0 y x st in
      if is_lt r then let '(t', st2) := insert_st x t st1 in (y :: t', st2)
      else (x :: y :: t, st1)
    end.

  Fixpoint isort_st (l : list entry) (st : caches) : list entry * caches :=
    match l with
    | [] => ([], st)
    | x :: t => let '(t', st1) := isort_st t st in insert_st x t' st1
    end.

  Fixpoint insert (x : entry) (l : list entry) : list entry :=
    match l with
    | [] => [x]
    | y :: t => if is_lt (cmp y x) then y :: insert x t else x :: y :: t
    end.

  Fixpoint isort (l : list entry) : list entry :=
    match l with [] => [] | x :: t => insert x (isort t) end.
End Sort.

Fixpoint entries_from (i : nat) (nodes : list N) : list entry :=
  match nodes with
  | [] => []
  | n :: t => {| e_node := n; e_pos := i |} :: entries_from (S i) t
  end.

Section Driver.
  Variable coll : str -> case_order -> str -> str -> comparison.

  (* NodeSorter::sort(executionContext, theList): nothing happens without keys *)
  Definition node_sort (keys : list skey) (nev : nat -> nat -> Z) (sev : nat -> nat -> str)
             (nodes : list N) : list N :=
    match keys with
    | [] => nodes
    | _ => map e_node (fst (isort_st coll keys (length nodes) nev sev (entries_from 0 nodes) empty_caches))
    end.

  (* createSelectedAndSortedNodeList: only lists longer than 1 are handed to sortChildren *)
  Definition selected_and_sorted (keys : list skey) nev sev (nodes : list N) : list N :=
    if Nat.leb (length nodes) 1 then nodes else node_sort keys nev sev nodes.

  (* what the body of xsl:for-each / the applied template observes: (node, position(), last()) *)
  Fixpoint number_from (i : nat) (last : nat) (l : list N) : list (N * nat * nat) :=
    match l with [] => [] | n :: t => (n, i, last) :: number_from (S i) last t end.

  Definition for_each (keys : list skey) nev sev (nodes : list N) : list (N * nat * nat) :=
    let s := selected_and_sorted keys nev sev nodes in
    number_from 1 (length s) s.
End Driver.

(* ------------------------------------------------------------------------------------------ *)
(* a concrete collation: code-unit lexicographic order (what ICU's root collation gives on
   single-case ASCII alphanumerics — an assumption that the correspondence probes on every run) *)

Fixpoint lex_compare (a b : str) : comparison :=
  match a, b with
  | [], [] => Eq
  | [], _ :: _ => Lt
  | _ :: _, [] => Gt
  | x :: a', y :: b' => match N.compare x y with Eq => lex_compare a' b' | r => r end
  end.

Definition cp_coll (_ : str) (_ : case_order) (a b : str) : comparison := lex_compare a b.

(* ------------------------------------------------------------------------------------------ *)
(* ElemForEach::sortChildren: evaluation of the attributes of the xsl:sort children *)

Inductive avt :=
| AvtAbsent                 (* attribute not present: the scratch string is left as it is *)
| AvtSimple (s : str)       (* no {}: AVT::evaluate assigns *)
| AvtParts (s : str).       (* with {}: AVT::doEvaluate appends the parts' values (s = their concatenation) *)

Definition avt_eval (buf : str) (a : avt) : str :=
  match a with AvtAbsent => buf | AvtSimple s => s | AvtParts s => buf ++ s end.

(* the declared value of an attribute on its own *)
Definition avt_own (a : avt) : str :=
  match a with AvtAbsent => [] | AvtSimple s => s | AvtParts s => s end.

Record sort_elem := { se_lang : avt; se_dtype : avt; se_order : avt; se_case : avt }.

Fixpoint str_eqb (a b : str) : bool :=
  match a, b with
  | [], [] => true
  | x :: a', y :: b' => N.eqb x y && str_eqb a' b'
  | _, _ => false
  end.

Definition s_number : str := [110;117;109;98;101;114]%N.
Definition s_text : str := [116;101;120;116]%N.
Definition s_ascending : str := [97;115;99;101;110;100;105;110;103]%N.
Definition s_descending : str := [100;101;115;99;101;110;100;105;110;103]%N.
Definition s_upper_first : str := [117;112;112;101;114;45;102;105;114;115;116]%N.
Definition s_lower_first : str := [108;111;119;101;114;45;102;105;114;115;116]%N.

(* None = error() is raised (the transformation stops).  A data-type that is a prefixed QName
   only warns and sorts as text; the model treats any value containing ':' that way. *)
Definition decode_dtype (s : str) : option bool :=
  match s with
  | [] => Some false
  | _ => if str_eqb s s_number then Some true
         else if str_eqb s s_text then Some false
         else if existsb (N.eqb 58) s then Some false else None
  end.

Definition decode_order (s : str) : option bool :=
  match s with
  | [] => Some false
  | _ => if str_eqb s s_descending then Some true
         else if str_eqb s s_ascending then Some false else None
  end.

Definition decode_case (s : str) : option case_order :=
  match s with
  | [] => Some CaseDefault
  | _ => if str_eqb s s_upper_first then Some CaseUpperFirst
         else if str_eqb s s_lower_first then Some CaseLowerFirst else None
  end.

(* from the source (GenSort): does an iteration start with an empty language string; do all keys
   end up looking at one string *)
Definition lang_fresh : bool := lang_cleared_per_key || negb lang_shared_scratch.
Definition lang_aliased : bool := lang_by_pointer && lang_shared_scratch.

(* one iteration of the loop; state = (langString, scratchString).  The key is produced with the
   language string as it is at that moment; sort_attrs then applies the pointer semantics. *)
Definition sort_attr_step (st : str * str) (e : sort_elem) : option (skey * (str * str)) :=
  let '(lang, scratch) := st in
  let lang1 := avt_eval (if lang_fresh then [] else lang) (se_lang e) in
  let s1 := avt_eval scratch (se_dtype e) in
  match decode_dtype s1 with
  | None => None
  | Some num =>
    let s2 := avt_eval [] (se_order e) in          (* scratchString.clear() before *)
    match decode_order s2 with
    | None => None
    | Some desc =>
      let s3 := avt_eval [] (se_case e) in
      match decode_case s3 with
      | None => None
      | Some co => Some ({| k_num := num; k_desc := desc; k_case := co; k_lang := lang1 |}, (lang1, []))
      end
    end
  end.

Fixpoint sort_attrs_loop (st : str * str) (es : list sort_elem) : option (list skey * str) :=
  match es with
  | [] => Some ([], fst st)
  | e :: t =>
    match sort_attr_step st e with
    | None => None
    | Some (k, st1) =>
      match sort_attrs_loop st1 t with
      | None => None
      | Some (ks, lang) => Some (k :: ks, lang)
      end
    end
  end.

Definition set_lang (l : str) (k : skey) : skey :=
  {| k_num := k_num k; k_desc := k_desc k; k_case := k_case k; k_lang := l |}.

(* NodeSortKey keeps a *pointer* to sortChildren's langString: when that is one string for all
   keys, every key sees its final content when the sort runs *)
Definition sort_attrs (es : list sort_elem) : option (list skey) :=
  match sort_attrs_loop ([], []) es with
  | None => None
  | Some (ks, final) => Some (if lang_aliased then map (set_lang final) ks else ks)
  end.

(* the specification: each key on its own *)
Definition own_key (e : sort_elem) : option skey :=
  match decode_dtype (avt_own (se_dtype e)), decode_order (avt_own (se_order e)), decode_case (avt_own (se_case e)) with
  | Some n, Some d, Some c => Some {| k_num := n; k_desc := d; k_case := c; k_lang := avt_own (se_lang e) |}
  | _, _, _ => None
  end.

Fixpoint own_keys (es : list sort_elem) : option (list skey) :=
  match es with
  | [] => Some []
  | e :: t => match own_key e, own_keys t with Some k, Some ks => Some (k :: ks) | _, _ => None end
  end.

(* exact guard under which every key gets its own language: the string left by the loop equals
   each key's own lang value *)
Definition final_lang (es : list sort_elem) : str :=
  fold_left (fun l e => avt_eval (if lang_fresh then [] else l) (se_lang e)) es [].
Definition langs_independent (es : list sort_elem) : bool :=
  forallb (fun e => str_eqb (avt_own (se_lang e)) (final_lang es)) es.

(* ------------------------------------------------------------------------------------------ *)
(* entry point of the extracted model: keys come from the xsl:sort attribute descriptions, key
   values from tables [key][position] *)

Definition tab_get {A} (d : A) (t : list (list A)) (k p : nat) : A := nth p (nth k t []) d.

Definition run_sort (es : list sort_elem) (ntab : list (list Z)) (stab : list (list str)) (nodes : list N)
  : option (list (N * nat * nat)) :=
  match sort_attrs es with
  | None => None
  | Some keys => Some (for_each cp_coll keys (tab_get 0%Z ntab) (tab_get [] stab) nodes)
  end.

(* cache-free variant (proved equal; the driver prints both) *)
Definition run_sort_pure (es : list sort_elem) (ntab : list (list Z)) (stab : list (list str)) (nodes : list N)
  : option (list N) :=
  match sort_attrs es with
  | None => None
  | Some keys =>
    Some (if Nat.leb (length nodes) 1 then nodes
          else map e_node (isort cp_coll keys (tab_get 0%Z ntab) (tab_get [] stab) (entries_from 0 nodes)))
  end.
