(* TmplBest.v — C10: the executable form of section 5.5 ([best_5_5]: the maximal applicable rule)
   satisfies the relational specification, and the relational specification determines the
   template; so the main theorem can be stated as an equation. *)
From Coq Require Import List Bool ZArith NArith Lia.
From Coq Require Import ZifyBool ZifyNat ZifyN.
Require Import XV.TmplDefs XV.TmplModel XV.TmplSelect.
Import ListNotations.
Local Open Scope Z_scope.

Lemma rule_leb_le : forall a b, rule_leb a b = true <-> rule_le a b.
Proof. unfold rule_leb, rule_le; intros; lia. Qed.

Lemma rule_le_total : forall a b, rule_le a b \/ rule_le b a.
Proof. unfold rule_le; intros; lia. Qed.

Lemma rule_le_trans : forall a b c, rule_le a b -> rule_le b c -> rule_le a c.
Proof. unfold rule_le; intros; lia. Qed.

Lemma rule_le_refl : forall a, rule_le a a.
Proof. unfold rule_le; intros; lia. Qed.

Section Best.
  Variable node : Type.
  Variable pmatch : N -> node -> bool.

  Notation applicable := (applicable node pmatch).
  Notation best_5_5 := (best_5_5 node pmatch).
  Notation spec_choice := (spec_choice node pmatch).

  Definition best_step (mode : option N) (n : node) (acc : option rule) (r : rule) : option rule :=
    if applicable mode n r then
      match acc with
      | None => Some r
      | Some b => if rule_leb b r then Some r else acc
      end
    else acc.

  Lemma best_fold : forall rules mode n acc,
    (match acc with None => True | Some b => applicable mode n b = true end) ->
    match fold_left (best_step mode n) rules acc with
    | None => acc = None /\ forall r, In r rules -> applicable mode n r = false
    | Some b => applicable mode n b = true /\
                (In b rules \/ acc = Some b) /\
                (forall r, In r rules -> applicable mode n r = true -> rule_le r b) /\
                (forall a, acc = Some a -> rule_le a b)
    end.
  Proof.
    induction rules as [|x l IH]; intros mode n acc Hacc; cbn [fold_left].
    - destruct acc as [b|].
      + split; [exact Hacc|]. split; [right; reflexivity|]. split; [intros r []|].
        intros a Ha; inversion Ha; subst; apply rule_le_refl.
      + split; [reflexivity | intros r []].
    - assert (Hacc' : match best_step mode n acc x with None => True | Some b => applicable mode n b = true end).
      { unfold best_step. destruct (applicable mode n x) eqn:Ex; [|exact Hacc].
        destruct acc as [b|]; [|exact Ex]. destruct (rule_leb b x); [exact Ex | exact Hacc]. }
      specialize (IH mode n (best_step mode n acc x) Hacc').
      destruct (fold_left (best_step mode n) l (best_step mode n acc x)) as [b|].
      + destruct IH as (H1 & H2 & H3 & H4). split; [exact H1|].
        unfold best_step in H2, H4.
        destruct (applicable mode n x) eqn:Ex.
        * destruct acc as [a|].
          -- destruct (rule_leb a x) eqn:El.
             ++ apply rule_leb_le in El. split.
                ** destruct H2 as [H2|H2]; [left; right; exact H2 | inversion H2; subst; left; left; reflexivity].
                ** split.
                   --- intros r [<-|Hr] Hr'; [apply H4; reflexivity | apply H3; assumption].
                   --- intros a' Ha'. inversion Ha'; subst. eapply rule_le_trans; [exact El | apply H4; reflexivity].
             ++ assert (Hxa : rule_le x a).
                { destruct (rule_le_total a x) as [H|H]; [|exact H]. apply rule_leb_le in H. congruence. }
                split.
                ** destruct H2 as [H2|H2]; [left; right; exact H2 | right; exact H2].
                ** split.
                   --- intros r [<-|Hr] Hr'; [eapply rule_le_trans; [exact Hxa | apply H4; reflexivity] | apply H3; assumption].
                   --- exact H4.
          -- split.
             ++ destruct H2 as [H2|H2]; [left; right; exact H2 | inversion H2; subst; left; left; reflexivity].
             ++ split; [|intros a' Ha'; discriminate].
                intros r [<-|Hr] Hr'; [apply H4; reflexivity | apply H3; assumption].
        * split.
          -- destruct H2 as [H2|H2]; [left; right; exact H2 | right; exact H2].
          -- split; [|exact H4].
             intros r [<-|Hr] Hr'; [congruence | apply H3; assumption].
      + destruct IH as [H1 H2]. unfold best_step in H1.
        destruct (applicable mode n x) eqn:Ex.
        * destruct acc as [a|]; [destruct (rule_leb a x)|]; discriminate.
        * split; [exact H1|]. intros r [<-|Hr]; [exact Ex | apply H2; exact Hr].
  Qed.

  (* the executable maximum satisfies the relational specification *)
  Lemma best_5_5_spec : forall rules mode n,
    spec_choice rules mode n (option_map r_tmpl (best_5_5 rules mode n)).
  Proof.
    intros rules mode n. unfold TmplDefs.best_5_5.
    pose proof (best_fold rules mode n None I) as H. fold (best_step mode n).
    destruct (fold_left (best_step mode n) rules None) as [b|]; cbn.
    - destruct H as (H1 & H2 & H3 & _). destruct H2 as [H2|H2]; [|discriminate].
      exists b. repeat split; assumption.
    - destruct H as [_ H]. exact H.
  Qed.

  (* inside one rule set built from a stylesheet, (precedence, position) identifies the template *)
  Lemma level_same_pos : forall ts prec idx r1 r2,
    In r1 (rules_of_level prec idx ts) -> In r2 (rules_of_level prec idx ts) ->
    r_pos r1 = r_pos r2 -> r_tmpl r1 = r_tmpl r2.
  Proof.
    induction ts as [|t l IH]; intros prec idx r1 r2 H1 H2 Hp; cbn [rules_of_level] in *; [destruct H1|].
    apply in_app_iff in H1. apply in_app_iff in H2.
    assert (Hhead : forall r, In r (rules_of_template prec idx t) -> r_pos r = idx /\ r_tmpl r = t).
    { intros r Hr. unfold rules_of_template in Hr. apply in_map_iff in Hr. destruct Hr as [a [<- _]]. split; reflexivity. }
    assert (Htail : forall r, In r (rules_of_level prec (S idx) l) -> (S idx <= r_pos r)%nat).
    { intros r Hr. destruct (in_pairs_of_rule l prec (S idx) 0%N r Hr) as [e He].
      apply (pairs_facts node pmatch) in He. lia. }
    destruct H1 as [H1|H1], H2 as [H2|H2].
    - destruct (Hhead _ H1), (Hhead _ H2). congruence.
    - destruct (Hhead _ H1). pose proof (Htail _ H2). lia.
    - destruct (Hhead _ H2). pose proof (Htail _ H1). lia.
    - eapply IH; eassumption.
  Qed.

  Lemma levels_same_pos : forall ls base r1 r2,
    In r1 (rules_of_levels base ls) -> In r2 (rules_of_levels base ls) ->
    r_prec r1 = r_prec r2 -> r_pos r1 = r_pos r2 -> r_tmpl r1 = r_tmpl r2.
  Proof.
    induction ls as [|ts l IH]; intros base r1 r2 H1 H2 Hc Hp; cbn [rules_of_levels] in *; [destruct H1|].
    apply in_app_iff in H1. apply in_app_iff in H2.
    destruct H1 as [H1|H1], H2 as [H2|H2].
    - eapply level_same_pos; eassumption.
    - apply (rules_of_level_prec node pmatch) in H1. apply (rules_of_levels_prec node pmatch) in H2. lia.
    - apply (rules_of_level_prec node pmatch) in H2. apply (rules_of_levels_prec node pmatch) in H1. lia.
    - eapply IH; eassumption.
  Qed.

  (* hence the relational specification has exactly one answer *)
  Lemma spec_choice_unique : forall ls base mode n res1 res2,
    spec_choice (rules_of_levels base ls) mode n res1 ->
    spec_choice (rules_of_levels base ls) mode n res2 -> res1 = res2.
  Proof.
    intros ls base mode n res1 res2 H1 H2. destruct res1 as [t1|], res2 as [t2|]; cbn in *.
    - destruct H1 as (r1 & I1 & A1 & T1 & M1). destruct H2 as (r2 & I2 & A2 & T2 & M2).
      pose proof (M1 r2 I2 A2) as L21. pose proof (M2 r1 I1 A1) as L12.
      f_equal. rewrite <- T1, <- T2. eapply levels_same_pos; try eassumption; unfold rule_le in *; lia.
    - destruct H1 as (r1 & I1 & A1 & _). rewrite (H2 r1 I1) in A1. discriminate.
    - destruct H2 as (r2 & I2 & A2 & _). rewrite (H1 r2 I2) in A2. discriminate.
    - reflexivity.
  Qed.

End Best.
