(* C08 part "html": the reader on what the serializer writes for text: character references, the decimal numbers. *)
From Coq Require Import NArith List Bool Lia ZifyBool ZifyNat ZifyN.
Require Import XV.GenOutopt XV.GenHtml XV.HtmlEnt4Defs XV.HtmlDefs XV.HtmlTableModel.
Import ListNotations.
Open Scope N_scope.

Lemma run_app : forall st a b, run st (a ++ b) = run (run st a) b.
Proof. intros. unfold run. apply fold_left_app. Qed.
Lemma run_cons : forall st a b, run st (a :: b) = run (step st a) b.
Proof. reflexivity. Qed.

(* ---- decimal numbers ------------------------------------------------------------------------------------- *)
Definition dvalr (l : list N) : N := fold_right (fun d a => a * 10 + (d - 48)) 0 l.

Lemma digits_rev_spec : forall fuel n, n < 10 ^ N.of_nat (S fuel) ->
  dvalr (digits_rev (S fuel) n) = n /\ forallb is_digit (digits_rev (S fuel) n) = true /\ digits_rev (S fuel) n <> [].
Proof.
  induction fuel as [|f IH]; intros n Hn.
  - change (10 ^ N.of_nat 1) with 10 in Hn. cbn [digits_rev].
    destruct (n <? 10) eqn:E; [|lia]. cbn [dvalr fold_right forallb]. unfold is_digit.
    repeat split; try lia. discriminate.
  - remember (S f) as f1. cbn [digits_rev]. destruct (n <? 10) eqn:E.
    + cbn [dvalr fold_right forallb]. unfold is_digit. repeat split; try lia. discriminate.
    + assert (Hd : n / 10 < 10 ^ N.of_nat f1).
      { apply N.div_lt_upper_bound; [lia|]. rewrite <- N.pow_succ_r'.
        replace (N.succ (N.of_nat f1)) with (N.of_nat (S f1)) by lia. exact Hn. }
      subst f1. destruct (IH _ Hd) as (H1 & H2 & H3). cbn [dvalr fold_right forallb].
      fold (dvalr (digits_rev (S f) (n / 10))). rewrite H1, H2.
      assert (Hm : n mod 10 < 10) by (apply N.mod_lt; lia).
      pose proof (N.div_mod n 10 ltac:(lia)) as Hdm.
      unfold is_digit. repeat split; try lia. discriminate.
Qed.

Lemma decimal_spec : forall n, n < 10 ^ 20 ->
  forallb is_digit (decimal n) = true /\ decimal n <> [] /\ dval (decimal n) = n.
Proof.
  intros n Hn. destruct (digits_rev_spec 19 n Hn) as (H1 & H2 & H3). unfold decimal.
  assert (Hf : forallb is_digit (rev (digits_rev 20 n)) = true).
  { apply forallb_forall. intros x Hx. apply in_rev in Hx. rewrite forallb_forall in H2. auto. }
  split; [exact Hf|]. split.
  - intros E. apply H3. rewrite <- (rev_involutive (digits_rev 20 n)), E. reflexivity.
  - unfold dval. rewrite <- fold_left_rev_right, rev_involutive. exact H1.
Qed.

(* ---- a reference body made of letters and digits is collected, then resolved at ';' ----------------------- *)
Lemma charref_collect : forall n buf toks, forallb is_alnum n = true ->
  run (CharRefD buf, toks) n = (CharRefD (rev n ++ buf), toks).
Proof.
  induction n as [|x n IH]; intros buf toks H; [reflexivity|].
  cbn [forallb] in H. apply andb_true_iff in H. destruct H as [H1 H2].
  rewrite run_cons. cbn [step]. 
  assert (x <> 59) by (unfold is_alnum, is_letter, is_digit in H1; lia).
  destruct (x =? 59) eqn:E; [lia|]. rewrite H1. cbn [orb]. rewrite IH by exact H2.
  cbn [rev]. rewrite <- app_assoc. reflexivity.
Qed.

Lemma run_named_ref : forall n us toks, forallb is_alnum n = true -> resolve_ref n = Some us ->
  run (Data, toks) (38 :: n ++ [59]) = (Data, emit_chars us toks).
Proof.
  intros n us toks Ha Hr. rewrite run_cons. cbn [step step_data N.eqb Pos.eqb]. rewrite run_app, charref_collect by exact Ha.
  rewrite app_nil_r. cbn [run fold_left step N.eqb Pos.eqb]. rewrite rev_involutive, Hr. reflexivity.
Qed.

Lemma digits_alnum : forall d, forallb is_digit d = true -> forallb is_alnum d = true.
Proof.
  intros d H. rewrite forallb_forall in *. intros x Hx. unfold is_alnum. rewrite (H x Hx). apply orb_true_r.
Qed.

Lemma run_numref : forall n toks, n < 10 ^ 20 ->
  run (Data, toks) (numref n) = (Data, emit_chars (units_of_cp (fix_cp n)) toks).
Proof.
  intros n toks Hn. destruct (decimal_spec n Hn) as (H1 & H2 & H3). unfold numref.
  change ([38; 35] ++ decimal n ++ [59]) with (38 :: 35 :: decimal n ++ [59]).
  rewrite run_cons. cbn [step step_data N.eqb Pos.eqb]. rewrite run_cons. cbn [step N.eqb Pos.eqb is_alnum is_letter is_digit N.leb N.compare Pos.compare Pos.compare_cont andb orb].
  rewrite run_app, charref_collect by (apply digits_alnum; exact H1).
  cbn [run fold_left step N.eqb Pos.eqb]. rewrite rev_app_distr, rev_involutive. cbn [rev app].
  unfold resolve_ref. cbn [N.eqb Pos.eqb]. unfold resolve_num.
  destruct (decimal n) as [|x ds] eqn:E; [congruence|].
  assert (Hx : is_digit x = true) by (cbn [forallb] in H1; apply andb_true_iff in H1; tauto).
  assert ((x =? 120) || (x =? 88) = false) as -> by (unfold is_digit in Hx; lia).
  rewrite H1, H3. reflexivity.
Qed.

(* ---- code points --------------------------------------------------------------------------------------------- *)
Lemma fix_cp_char : forall ch, html_char ch = true -> is_high ch = false -> is_lowsur ch = false -> fix_cp ch = ch /\ units_of_cp ch = [ch].
Proof.
  intros ch H Hh Hl. unfold html_char, mem in H. cbn [existsb] in H. unfold is_high, is_lowsur in *. unfold fix_cp, units_of_cp.
  assert (ch <> 0 /\ ch < 65536 /\ ~ (128 <= ch <= 159) /\ ~ (55296 <= ch < 57344)) as (A & B & C & D) by lia.
  destruct ((ch =? 0) || (1114111 <? ch) || ((55296 <=? ch) && (ch <? 57344))) eqn:E1; [lia|].
  destruct ((128 <=? ch) && (ch <=? 159)) eqn:E2; [lia|].
  destruct (ch <? 65536) eqn:E3; [auto | lia].
Qed.

Lemma fix_cp_pair : forall hi lo, is_high hi = true -> is_lowsur lo = true ->
  fix_cp (pair_cp hi lo) = pair_cp hi lo /\ units_of_cp (pair_cp hi lo) = [hi; lo] /\ pair_cp hi lo < 10 ^ 20.
Proof.
  intros hi lo Hh Hl. unfold is_high, is_lowsur in *. unfold fix_cp, units_of_cp, pair_cp.
  set (a := hi - 55296). set (b := lo - 56320).
  assert (Ha : a < 1024) by lia. assert (Hb : b < 1024) by lia.
  assert (E : a * 1024 + b + 65536 - 65536 = b + a * 1024) by lia.
  assert (R : a * 1024 + b + 65536 < 1114112) by lia.
  destruct ((a * 1024 + b + 65536 =? 0) || (1114111 <? a * 1024 + b + 65536) || ((55296 <=? a * 1024 + b + 65536) && (a * 1024 + b + 65536 <? 57344))) eqn:E1; [lia|].
  destruct ((128 <=? a * 1024 + b + 65536) && (a * 1024 + b + 65536 <=? 159)) eqn:E2; [lia|].
  destruct (a * 1024 + b + 65536 <? 65536) eqn:E3; [lia|].
  rewrite E. rewrite N.div_add by lia. rewrite N.mod_add by lia. rewrite N.div_small, N.mod_small by lia.
  split; [reflexivity|]. split; [|change (10 ^ 20) with 100000000000000000000; lia].
  f_equal; [lia | f_equal; lia].
Qed.
