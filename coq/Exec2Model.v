(* Exec2Model.v — C11, part "helpers": lemmas and proofs about the interpreter Exec2Run.execs2 that
   runs the regenerated bodies of GenExec2.v (arms of the six executeMore switches with the helper
   bodies inlined, clang AST -> terms of Exec2Defs.v).
   Part 1: for every expression node, every entry point and ARBITRARY entry points E for the
           sub-expressions, the regenerated body denotes what the arm of GenExec.v denotes through
           the hand-written helper model of ExecDefs.v (same value, or both fail).
   Part 2: one more level of recursion depth over entry points that agree with the generic model
           XpDefs.eval agrees with it again; hence execs2 agrees at every depth (induction).
   Part 3: every one of the regenerated helper-overload bodies (GenExec2.helper_bodies), run on an
           expression whose generic arm calls that helper, delivers the XPath conversion of the
           generic value that belongs to its overload.
   Part 4: the context-aware overloads. *)
From Coq Require Import ZArith NArith List Bool Arith String.
Require Import XV.NumDefs XV.XpAst XV.DomDefs XV.XpDefs XV.XpModel XV.ExecArms XV.GenExec XV.ExecDefs XV.Exec2Base.
Require Import XV.Exec2Defs XV.GenExec2 XV.Exec2Run XV.Exec2Step.
Import ListNotations.
Local Open Scope list_scope.

(** * Part 1 *)
Ltac case_res :=
  repeat match goal with
         | |- context [match ?X with Ok _ => _ | Err _ => _ end] =>
             lazymatch X with
             | context [match _ with Ok _ => _ | Err _ => _ end] => fail
             | _ => destruct X
             end
         end.

Ltac crunch :=
  cbn [opcode_of by_arity
       body_generic body_bool body_num body_str body_chars body_nodes
       arm_generic arm_bool arm_num arm_str arm_chars arm_nodes
       run2_g run2_b run2_n run2_s run2_f run2_l run_g run_b run_n run_s run_f run_l
       sem_b sem_n sem_s sem_c sem_o sem_l with_child child child_err token_at
       h_bool h_num h_strref h_obj h_out_b h_out_n h_out_s h_out_f h_out_l cmp2 ExecDefs.arith arg0 arg1
       arith_fn rnd_fn nodefn_sem cxa bind fn_arity length Nat.eqb];
  unfold cmp2, ExecDefs.arith, arg0, arg1, bind;
  case_res; try reflexivity.

Definition same_step (E : evs) (c : ctx) (e : expr) : Prop :=
  forget (ev_g (next2 E) c e) = forget (ev_g (next1 E) c e) /\
  forget (ev_b (next2 E) c e) = forget (ev_b (next1 E) c e) /\
  forget (ev_n (next2 E) c e) = forget (ev_n (next1 E) c e) /\
  (forall buf, forget (ev_s (next2 E) c e buf) = forget (ev_s (next1 E) c e buf)) /\
  (forall acc, forget (ev_f (next2 E) c e acc) = forget (ev_f (next1 E) c e acc)) /\
  forget (ev_l (next2 E) c e) = forget (ev_l (next1 E) c e).

Section One.
  Variable E : evs.
  Variable c : ctx.

  Lemma bodies_denote_hand_model_nonfunction e : match e with EFunc _ _ => False | _ => True end -> same_step E c e.
  Proof.
    intros H. destruct e; try contradiction;
      unfold same_step, next2, next1, guarded, arity_ok; cbn [ev_g ev_b ev_n ev_s ev_f ev_l];
      repeat split; intros; crunch.
  Qed.

  Ltac fn_case name K T :=
    destruct (str_eqb name K) eqn:T; [apply str_eqb_eq in T; subst name |].
  Ltac fn_done args := destruct args as [|? [|? ?]]; repeat split; intros; crunch.

  Lemma bodies_denote_hand_model_function name args : same_step E c (EFunc name args).
  Proof.
    unfold same_step, next2, next1, guarded, arity_ok; cbn [ev_g ev_b ev_n ev_s ev_f ev_l opcode_of].
    unfold fn_opcode, fn_is.
    fn_case name s_position T1. { fn_done args. }
    fn_case name s_last T2. { fn_done args. }
    fn_case name s_count T3. { fn_done args. }
    fn_case name s_not T4. { fn_done args. }
    fn_case name s_true_fn T5. { fn_done args. }
    fn_case name s_false_fn T6. { fn_done args. }
    fn_case name s_boolean T7. { fn_done args. }
    fn_case name s_name T8. { fn_done args. }
    fn_case name s_local_name T9. { fn_done args. }
    fn_case name s_number T10. { fn_done args. }
    fn_case name s_floor T11. { fn_done args. }
    fn_case name s_ceiling T12. { fn_done args. }
    fn_case name s_round T13. { fn_done args. }
    fn_case name s_sum T14. { fn_done args. }
    fn_case name s_string_length T15. { fn_done args. }
    repeat split; intros; crunch.
  Qed.

  (* the regenerated bodies denote what the tables + the hand-written helper model denote *)
  Lemma bodies_denote_arms e : same_step E c e.
  Proof. destruct e; try (apply bodies_denote_hand_model_nonfunction; exact I). apply bodies_denote_hand_model_function. Qed.
End One.

(** * Part 2 *)
Lemma agrees_same_step E ev c e : same_step E c e -> agrees (next1 E) ev c e -> agrees (next2 E) ev c e.
Proof.
  intros (Hg & Hb & Hn & Hs & Hf & Hl) [Ag Ab An As Af Al].
  constructor; intros; rewrite ?Hg, ?Hb, ?Hn, ?Hs, ?Hf, ?Hl; auto.
Qed.

(* one more level: the six regenerated bodies of the node's op-code, run over entry points that
   deliver conversions of the generic value, deliver conversions of the generic value *)
Theorem bodies_step f E :
  (forall c e, vars_ordered c -> agrees E (eval f) c e) ->
  forall c e, vars_ordered c -> agrees (next2 E) (eval (S f)) c e.
Proof.
  intros IH c e Hc. apply agrees_same_step; [apply bodies_denote_arms|].
  apply (GenStep.step_agrees f E IH c e Hc).
Qed.

Theorem execs2_agree : forall f c e, vars_ordered c -> agrees (execs2 f) (eval f) c e.
Proof.
  induction f as [|f IH]; intros c e Hc.
  - constructor; reflexivity.
  - cbn [execs2]. apply bodies_step; assumption.
Qed.

Lemma exec2_generic_agrees c e : vars_ordered c -> forget (exec2_generic c e) = forget (eval_top c e).
Proof. intros Hc. exact (ag_g _ _ _ _ (execs2_agree (fuel_for e) c e Hc)). Qed.
Lemma exec2_bool_agrees c e : vars_ordered c ->
  forget (exec2_bool c e) = option_map to_boolean (forget (eval_top c e)).
Proof. intros Hc. exact (ag_b _ _ _ _ (execs2_agree (fuel_for e) c e Hc)). Qed.
Lemma exec2_num_agrees c e : vars_ordered c ->
  forget (exec2_num c e) = option_map (to_number c) (forget (eval_top c e)).
Proof. intros Hc. exact (ag_n _ _ _ _ (execs2_agree (fuel_for e) c e Hc)). Qed.
Lemma exec2_str_agrees c e buf : vars_ordered c ->
  forget (exec2_str c e buf) = option_map (fun v => buf ++ to_string c v) (forget (eval_top c e)).
Proof. intros Hc. exact (ag_s _ _ _ _ (execs2_agree (fuel_for e) c e Hc) buf). Qed.
Lemma exec2_chars_agrees c e acc : vars_ordered c ->
  forget (exec2_chars c e acc) = option_map (fun v => acc ++ to_string c v) (forget (eval_top c e)).
Proof. intros Hc. exact (ag_f _ _ _ _ (execs2_agree (fuel_for e) c e Hc) acc). Qed.
Lemma exec2_nodelist_agrees c e : vars_ordered c ->
  forget (exec2_nodelist c e) = obind (forget (eval_top c e)) (fun v => forget (as_nodes v)).
Proof.
  intros Hc. unfold exec2_nodelist, eval_top. rewrite forget_bind.
  change (S (expr_size e)) with (fuel_for e).
  rewrite <- (ag_l _ _ _ _ (execs2_agree (fuel_for e) c e Hc)).
  destruct (forget (ev_l (execs2 (fuel_for e)) c e)); reflexivity.
Qed.

(** * Part 3: every regenerated helper-overload body *)
(* what the body [b] of an overload of kind [o], run on the node [e], must deliver when the generic
   value of [e] is [v] (None: the generic evaluation fails):
     a bool / double / string helper      the generic value itself, of that type
     an XObjectPtr helper                 the generic value
     the bool& / double& overload         boolean(v) / number(v)
     the XalanDOMString& overload         the caller's buffer with string(v) appended
     the FormatterListener overload       the characters of string(v) after what was received
     the MutableNodeRefList& overload     the node-set v; fails when v is not a node-set *)
Definition helper_delivers (E : evs) (c : ctx) (e : expr) (o : ovl) (b : body) (v : option value) : Prop :=
  match o with
  | OvBool => option_map VBool (forget (ret_b E c e b)) = v
  | OvNum => option_map VNum (forget (ret_n E c e b)) = v
  | OvStrRef => option_map VStr (forget (ret_s E c e b)) = v
  | OvObj => forget (run2_g E c e b) = v
  | OvOutB => forget (run2_b E c e b) = option_map to_boolean v
  | OvOutN => forget (run2_n E c e b) = option_map (to_number c) v
  | OvOutS => forall buf, forget (run2_s E c e b buf) = option_map (fun x => buf ++ to_string c x) v
  | OvOutF => forall acc, forget (run2_f E c e b acc) = option_map (fun x => acc ++ to_string c x) v
  | OvOutL => option_map nl_nodes (forget (run2_l E c e b)) = obind v (fun x => forget (as_nodes x))
  end.

Definition entry_helper (t : string * helper * ovl * body) : helper := snd (fst (fst t)).

Lemma bodies_of_helper key h o b :
  In (key, h, o, b) helper_bodies ->
  In (key, h, o, b) (filter (fun t => helper_beq (entry_helper t) h) helper_bodies).
Proof.
  intros H. apply filter_In. split; [exact H|]. cbn. apply internal_helper_dec_lb. reflexivity.
Qed.

Lemma typed_b E c e x v : forget (run2_g E c e (RetO (OBool x))) = v -> option_map VBool (forget (ret_b E c e (RetB x))) = v.
Proof.
  intros <-. change (run2_g E c e (RetO (OBool x))) with (do y <- sem_b E c e x; Ok (VBool y)).
  rewrite forget_bind. change (ret_b E c e (RetB x)) with (sem_b E c e x). destruct (forget (sem_b E c e x)); reflexivity.
Qed.
Lemma typed_n E c e x v : forget (run2_g E c e (RetO (ONum x))) = v -> option_map VNum (forget (ret_n E c e (RetN x))) = v.
Proof.
  intros <-. change (run2_g E c e (RetO (ONum x))) with (do y <- sem_n E c e x; Ok (VNum y)).
  rewrite forget_bind. change (ret_n E c e (RetN x)) with (sem_n E c e x). destruct (forget (sem_n E c e x)); reflexivity.
Qed.
Lemma typed_s E c e x v : forget (run2_g E c e (RetO (OStr x))) = v -> option_map VStr (forget (ret_s E c e (RetS x))) = v.
Proof.
  intros <-. change (run2_g E c e (RetO (OStr x))) with (do y <- sem_s E c e x; Ok (VStr y)).
  rewrite forget_bind. change (ret_s E c e (RetS x)) with (sem_s E c e x). destruct (forget (sem_s E c e x)); reflexivity.
Qed.

Section Helpers.
  Variable f : nat.
  Variable E : evs.
  Hypothesis IH : forall c e, vars_ordered c -> agrees E (eval f) c e.

  Ltac pick HIn :=
    apply bodies_of_helper in HIn; vm_compute in HIn;
    repeat (destruct HIn as [HIn|HIn]; [inversion HIn; subst; clear HIn|]); try contradiction.

  Ltac typed Ag :=
    first [ apply typed_b; exact Ag | apply typed_n; exact Ag | apply typed_s; exact Ag ].

  Ltac close Ag Ab An As Af Al :=
    first [ exact Ag | exact Ab | exact An | exact As | exact Af | exact Al | typed Ag ].

  Lemma helper_ok_nonfunc key h o b c e : vars_ordered c ->
    match e with EFunc _ _ => False | _ => True end ->
    In (key, h, o, b) helper_bodies -> helper_of e = Some h ->
    helper_delivers E c e o b (forget (eval (S f) c e)).
  Proof.
    intros Hc He HIn Hh.
    destruct (bodies_step f E IH c e Hc) as [Ag Ab An As Af Al].
    cbn [next2 ev_g ev_b ev_n ev_s ev_f ev_l] in Ag, Ab, An, As, Af, Al.
    destruct e; try contradiction; unfold guarded, arity_ok in Ag, Ab, An, As, Af, Al;
      cbn [opcode_of body_generic body_bool body_num body_str body_chars body_nodes] in Ag, Ab, An, As, Af, Al;
      unfold helper_of in Hh; cbn [opcode_of arm_generic] in Hh; inversion Hh; subst h; clear Hh;
      pick HIn; close Ag Ab An As Af Al.
  Qed.

  Ltac fn_case name K T :=
    destruct (str_eqb name K) eqn:T; [apply str_eqb_eq in T; subst name |].
  Ltac fn_go args Har HIn Hh Ag Ab An As Af Al :=
    destruct args as [|? [|? ?]]; cbn [by_arity fn_arity length Nat.eqb] in Har; try discriminate Har;
    cbn [by_arity body_generic body_bool body_num body_str body_chars body_nodes] in Ag, Ab, An, As, Af, Al;
    cbn [by_arity arm_generic] in Hh; inversion Hh; subst; clear Hh;
    pick HIn; close Ag Ab An As Af Al.

  Lemma helper_ok_func key h o b c name args : vars_ordered c ->
    In (key, h, o, b) helper_bodies -> helper_of (EFunc name args) = Some h -> arity_ok (EFunc name args) = true ->
    helper_delivers E c (EFunc name args) o b (forget (eval (S f) c (EFunc name args))).
  Proof.
    intros Hc HIn Hh Har.
    destruct (bodies_step f E IH c (EFunc name args) Hc) as [Ag Ab An As Af Al].
    cbn [next2 ev_g ev_b ev_n ev_s ev_f ev_l] in Ag, Ab, An, As, Af, Al.
    unfold guarded in Ag, Ab, An, As, Af, Al. rewrite Har in Ag, Ab, An, As, Af, Al.
    unfold helper_of in Hh. unfold arity_ok in Har. cbn [opcode_of] in Ag, Ab, An, As, Af, Al, Hh.
    unfold fn_opcode, fn_is in Ag, Ab, An, As, Af, Al, Hh, Har.
    fn_case name s_position T1. { fn_go args Har HIn Hh Ag Ab An As Af Al. }
    fn_case name s_last T2. { fn_go args Har HIn Hh Ag Ab An As Af Al. }
    fn_case name s_count T3. { fn_go args Har HIn Hh Ag Ab An As Af Al. }
    fn_case name s_not T4. { fn_go args Har HIn Hh Ag Ab An As Af Al. }
    fn_case name s_true_fn T5. { fn_go args Har HIn Hh Ag Ab An As Af Al. }
    fn_case name s_false_fn T6. { fn_go args Har HIn Hh Ag Ab An As Af Al. }
    fn_case name s_boolean T7. { fn_go args Har HIn Hh Ag Ab An As Af Al. }
    fn_case name s_name T8. { fn_go args Har HIn Hh Ag Ab An As Af Al. }
    fn_case name s_local_name T9. { fn_go args Har HIn Hh Ag Ab An As Af Al. }
    fn_case name s_number T10. { fn_go args Har HIn Hh Ag Ab An As Af Al. }
    fn_case name s_floor T11. { fn_go args Har HIn Hh Ag Ab An As Af Al. }
    fn_case name s_ceiling T12. { fn_go args Har HIn Hh Ag Ab An As Af Al. }
    fn_case name s_round T13. { fn_go args Har HIn Hh Ag Ab An As Af Al. }
    fn_case name s_sum T14. { fn_go args Har HIn Hh Ag Ab An As Af Al. }
    fn_case name s_string_length T15. { fn_go args Har HIn Hh Ag Ab An As Af Al. }
    cbn [body_generic body_bool body_num body_str body_chars body_nodes] in Ag, Ab, An, As, Af, Al.
    cbn [arm_generic] in Hh. inversion Hh; subst; clear Hh. pick HIn; close Ag Ab An As Af Al.
  Qed.
End Helpers.

(* every entry of the table is about an expression that exists: for each helper in it there is an
   expression of the witness list whose generic arm calls it, with the arity the compiler demands *)
Definition witness_exprs : list expr :=
  let a := ENumLit [49]%N in
  let p := EPath None [] [] in
  [EOr a a; EAnd a a; ENe a a; EEq a a; ELte a a; ELt a a; EGte a a; EGt a a;
   EPlus a a; EMinus a a; EMult a a; EDiv a a; EMod a a; ENeg a; EUnion [p; p]; ELiteral [120]%N;
   EVar [] [118]%N; EGroup a; a; p;
   EFunc s_position []; EFunc s_last []; EFunc s_count [p]; EFunc s_not [a]; EFunc s_boolean [a];
   EFunc s_name []; EFunc s_name [p]; EFunc s_local_name []; EFunc s_local_name [p];
   EFunc s_number []; EFunc s_number [a]; EFunc s_floor [a]; EFunc s_ceiling [a]; EFunc s_round [a];
   EFunc s_sum [p]; EFunc s_string_length []; EFunc s_string_length [a]].

Definition helper_opt_beq (a : option helper) (h : helper) : bool :=
  match a with Some x => helper_beq x h | None => false end.

Lemma every_helper_reached :
  forallb (fun t => existsb (fun e => helper_opt_beq (helper_of e) (entry_helper t) && arity_ok e) witness_exprs)
          helper_bodies = true.
Proof. vm_compute. reflexivity. Qed.

Theorem every_helper_ok f E :
  (forall c e, vars_ordered c -> agrees E (eval f) c e) ->
  forall key h o b, In (key, h, o, b) helper_bodies ->
  forall c e, vars_ordered c -> helper_of e = Some h -> arity_ok e = true ->
  helper_delivers E c e o b (forget (eval (S f) c e)).
Proof.
  intros IH key h o b HIn c e Hc Hh Har. destruct e.
  all: try (match goal with |- helper_delivers _ _ ?x _ _ _ => exact (helper_ok_nonfunc f E IH key h o b c x Hc I HIn Hh) end).
  match goal with |- context [EFunc ?n ?a] => apply (helper_ok_func f E IH key h o b c n a Hc HIn Hh Har) end.
Qed.

(** * Part 4: the overloads that take the execution context *)
(* tables: every conversion of a node / node list in every arm and in every helper body goes
   through the overload taking the XPathExecutionContext *)
Lemma arms_all_aware : forall op,
  aware_body (body_generic op) && aware_body (body_bool op) && aware_body (body_num op) &&
  aware_body (body_str op) && aware_body (body_chars op) && aware_body (body_nodes op) = true.
Proof. apply forall_opcodes. vm_compute. reflexivity. Qed.

Lemma helpers_all_aware : forallb (fun t => aware_body (snd t)) helper_bodies = true.
Proof. vm_compute. reflexivity. Qed.

(* what the flag means: the overloads without the context see the text the stylesheet strips *)
Lemma text_of_no_strip strip d : (forall i, strip d i = false) ->
  forall fuel i, text_of fuel strip d i = text_of fuel (fun _ _ => false) d i.
Proof.
  intros H. induction fuel as [|f IHf]; intros i; cbn [text_of]; [reflexivity|].
  rewrite H. destruct (n_kind (get d i)); try reflexivity; apply flat_map_ext; intros a; apply IHf.
Qed.

Lemma node_string_no_strip c : (forall i, cx_strip c (cx_doc c) i = false) ->
  forall aw n, node_string (cxa aw c) n = node_string c n.
Proof.
  intros H aw n. destruct aw; [reflexivity|]. unfold cxa, no_strip, node_string, string_value. cbn [cx_strip cx_doc].
  destruct (n_kind (get (cx_doc c) n)); try reflexivity; symmetry; apply text_of_no_strip, H.
Qed.

(* without xsl:strip-space in effect the two families of overloads deliver the same conversions *)
Lemma context_free_same_when_nothing_stripped c : (forall i, cx_strip c (cx_doc c) i = false) ->
  forall aw, (forall v, to_string (cxa aw c) v = to_string c v) /\
             (forall v, to_number (cxa aw c) v = to_number c v) /\
             (forall l, xo_string_nodes (cxa aw c) l = xo_string_nodes c l) /\
             (forall l, xo_number_nodes (cxa aw c) l = xo_number_nodes c l) /\
             (forall l, sum_nodes (cxa aw c) l = sum_nodes c l).
Proof.
  intros H aw.
  assert (S1 : forall v, to_string (cxa aw c) v = to_string c v).
  { intros [b|x|s|[|n l]]; try reflexivity. cbn [to_string]. apply node_string_no_strip, H. }
  repeat split.
  - exact S1.
  - intros [b|x|s|l]; try reflexivity. cbn [to_number]. rewrite S1. reflexivity.
  - intros [|n l]; [reflexivity|]. cbn [xo_string_nodes]. apply node_string_no_strip, H.
  - intros [|n l]; [reflexivity|]. cbn [xo_number_nodes]. rewrite (node_string_no_strip c H). reflexivity.
  - intros l. unfold sum_nodes. generalize d_zero. induction l as [|n l IHl]; intros z; cbn [fold_left]; [reflexivity|].
    rewrite (node_string_no_strip c H). apply IHl.
Qed.

(** * short circuit: Or / And on the boolean entry point, exactly as coded (XPath::Or, XPath::And):
      the second operand is not evaluated — an error in it does not surface — when the first decides;
      an error in the first operand is the result *)
Lemma or_and_short_circuit_lemma E c a b :
  (ev_b E c a = Ok true -> run2_b E c (EOr a b) (body_bool OP_OR) = Ok true) /\
  (ev_b E c a = Ok false -> run2_b E c (EOr a b) (body_bool OP_OR) = ev_b E c b) /\
  (ev_b E c a = Ok false -> run2_b E c (EAnd a b) (body_bool OP_AND) = Ok false) /\
  (ev_b E c a = Ok true -> run2_b E c (EAnd a b) (body_bool OP_AND) = ev_b E c b) /\
  (forall x, ev_b E c a = Err x ->
     run2_b E c (EOr a b) (body_bool OP_OR) = Err x /\ run2_b E c (EAnd a b) (body_bool OP_AND) = Err x).
Proof.
  cbn [body_bool run2_b sem_b with_child child].
  repeat split; intros; rewrite H; reflexivity.
Qed.
