(* Extraction of the C14 model for the correspondence driver. ExtrOcamlBasic only.
   (Z.of_N / N.to_nat are listed only because ocaml/conv.ml mentions the types z and nat.) *)
Require Import ExtrOcamlBasic.
From Coq Require Import NArith ZArith.
Require Import XV.NsfixDefs.
Extraction "extracted/nsfix_model.ml" run events wellformed guard_ok hz lre_decls Z.of_N N.to_nat.
