(* XpNsModel.v — XpDefs.namespaces (the model of XPath::findNamespace: bottom-up walk, attributes
   last to first, defaultNSFound flag, duplicate-name scan of the result list, final reverse)
   computes the in-scope environment of XpNsDefs.v.  All statements hold for every document table,
   context, node test and node: no well-formedness hypothesis, no bound. *)
From Coq Require Import NArith List Bool Arith Lia.
Require Import XV.XpAst XV.DomDefs XV.XpDefs XV.XpNsDefs.
Import ListNotations.

(** * strings *)
Lemma ns_str_eqb_refl : forall a, str_eqb a a = true.
Proof. induction a; simpl; [reflexivity|]. rewrite N.eqb_refl. exact IHa. Qed.

Lemma ns_str_eqb_true : forall a b, str_eqb a b = true -> a = b.
Proof.
  induction a; destruct b; simpl; intros H; try discriminate; [reflexivity|].
  apply andb_true_iff in H. destruct H as [H1 H2]. apply N.eqb_eq in H1. subst. f_equal. auto.
Qed.

Lemma ns_str_eqb_sym : forall a b, str_eqb a b = str_eqb b a.
Proof.
  induction a; destruct b; simpl; try reflexivity. rewrite N.eqb_sym. f_equal. apply IHa.
Qed.

(** * lists *)
Lemma fold_left_flat_map : forall (A B C : Type) (g : A -> B -> A) (f : C -> list B) (l : list C) (acc : A),
  fold_left (fun acc e => fold_left g (f e) acc) l acc = fold_left g (flat_map f l) acc.
Proof.
  induction l; simpl; intros; [reflexivity|]. rewrite fold_left_app. apply IHl.
Qed.

Lemma rev_flat_map : forall (A B : Type) (f : A -> list B) (l : list A),
  rev (flat_map (fun e => rev (f e)) l) = flat_map f (rev l).
Proof.
  induction l; simpl; [reflexivity|].
  rewrite rev_app_distr, rev_involutive, IHl, flat_map_app. simpl. rewrite app_nil_r. reflexivity.
Qed.

Lemma rev_filter : forall (A : Type) (p : A -> bool) (l : list A), rev (filter p l) = filter p (rev l).
Proof.
  induction l; simpl; [reflexivity|]. rewrite filter_app. simpl.
  destruct (p a); simpl; rewrite IHl; [reflexivity|]. rewrite app_nil_r. reflexivity.
Qed.

Lemma filter_filter : forall (A : Type) (p q : A -> bool) (l : list A),
  filter p (filter q l) = filter (fun x => q x && p x) l.
Proof.
  induction l; simpl; [reflexivity|]. destruct (q a); simpl; [destruct (p a)|]; rewrite IHl; reflexivity.
Qed.

Lemma filter_true : forall (A : Type) (p : A -> bool) (l : list A), (forall x, p x = true) -> filter p l = l.
Proof. induction l; simpl; intros; [reflexivity|]. rewrite H, IHl; auto. Qed.

Lemma fold_left_skip : forall (A B : Type) (vis : B -> bool) (g : A -> B -> A) (l : list B) (acc : A),
  fold_left (fun acc a => if vis a then g acc a else acc) l acc = fold_left g (filter vis l) acc.
Proof.
  induction l; simpl; intros; [reflexivity|]. destruct (vis a); simpl; apply IHl.
Qed.

(** * the two readings over an abstract list of declarations *)
Section Abstract.
  Variable key : nat -> str.
  Variable isdef : nat -> bool.
  Variable emptyv : nat -> bool.
  Hypothesis isdef_key : forall a, isdef a = str_eqb (key a) s_xmlns.

  Definition undecl (a : nat) : bool := isdef a && emptyv a.

  Definition mem (k : str) (seen : list str) : bool := existsb (fun s => str_eqb k s) seen.

  (** findNamespace's bookkeeping for one declaration that passed the node test *)
  Definition cstep (acc : list nat * bool) (a : nat) : list nat * bool :=
    let (found, ds) := acc in
    let dup := (if isdef a then ds || emptyv a else false)
               || existsb (fun b => str_eqb (key b) (key a)) found in
    (if dup then found else found ++ [a], ds || isdef a).

  (** "the first declaration of a name wins, unless it undeclares": nearest-first list in,
      [seen] = the names met so far *)
  Fixpoint nearest (seen : list str) (w : list nat) : list nat :=
    match w with
    | [] => []
    | a :: r => (if mem (key a) seen || undecl a then [] else [a]) ++ nearest (key a :: seen) r
    end.

  Definition inv (found : list nat) (ds : bool) (seen : list str) : Prop :=
    ds = mem s_xmlns seen /\
    (forall b, In b found -> mem (key b) seen = true) /\
    (forall k, str_eqb k s_xmlns = false -> mem k seen = true ->
               existsb (fun b => str_eqb (key b) k) found = true).

  Lemma scan_implies_seen : forall found seen k,
    (forall b, In b found -> mem (key b) seen = true) ->
    existsb (fun b => str_eqb (key b) k) found = true -> mem k seen = true.
  Proof.
    intros found seen k H E. apply existsb_exists in E. destruct E as [b [Hb Eb]].
    apply ns_str_eqb_true in Eb. subst k. auto.
  Qed.

  Lemma cstep_nearest : forall w found ds seen,
    inv found ds seen -> fst (fold_left cstep w (found, ds)) = found ++ nearest seen w.
  Proof.
    induction w as [|a r IH]; intros found ds seen [I1 [I2 I3]]; simpl.
    - rewrite app_nil_r. reflexivity.
    - remember (existsb (fun b => str_eqb (key b) (key a)) found) as E eqn:EQ.
      assert (HE : E = true -> mem (key a) seen = true) by (rewrite EQ; apply scan_implies_seen; exact I2).
      assert (Hdup : ((if isdef a then ds || emptyv a else false) || E) = (mem (key a) seen || undecl a)).
      { unfold undecl. destruct (isdef a) eqn:D.
        - rewrite isdef_key in D. apply ns_str_eqb_true in D.
          rewrite D in *. rewrite <- I1 in *.
          clear EQ. revert HE. destruct ds, (emptyv a), E; simpl; intros HE; try reflexivity; discriminate (HE eq_refl).
        - simpl. rewrite orb_false_r.
          destruct E eqn:EE.
          + symmetry. apply HE. reflexivity.
          + destruct (mem (key a) seen) eqn:M; [|reflexivity].
            rewrite isdef_key in D. specialize (I3 (key a) D M). congruence. }
      rewrite Hdup.
      assert (Hds : ds || isdef a = mem s_xmlns (key a :: seen)).
      { simpl. rewrite isdef_key, ns_str_eqb_sym, <- I1. apply orb_comm. }
      destruct (mem (key a) seen || undecl a) eqn:C.
      + simpl. apply IH. split; [exact Hds|]. split.
        * intros b Hb. simpl. rewrite (I2 b Hb). apply orb_true_r.
        * intros k Hk Hm. simpl in Hm. apply orb_true_iff in Hm. destruct Hm as [Hm|Hm].
          -- apply ns_str_eqb_true in Hm. subst k.
             (* the name of a itself: a was refused, so (not being the default) it was found in the scan *)
             assert (D : isdef a = false) by (rewrite isdef_key; exact Hk).
             rewrite D in Hdup. simpl in Hdup. rewrite <- EQ. exact Hdup.
          -- apply I3; assumption.
      + rewrite app_assoc. apply IH. split; [exact Hds|]. split.
        * intros b Hb. simpl. apply in_app_or in Hb. destruct Hb as [Hb|[Hb|[]]].
          -- rewrite (I2 b Hb). apply orb_true_r.
          -- subst b. rewrite ns_str_eqb_refl. reflexivity.
        * intros k Hk Hm. rewrite existsb_app. simpl in Hm. apply orb_true_iff in Hm. destruct Hm as [Hm|Hm].
          -- apply ns_str_eqb_true in Hm. subst k. simpl. rewrite ns_str_eqb_refl. apply orb_true_r.
          -- rewrite (I3 k Hk Hm). reflexivity.
  Qed.

  (** the declarative environment, abstractly *)
  Definition abind (e : denv) (a : nat) : denv :=
    let e' := env_remove (key a) e in
    if undecl a then e' else e' ++ [(key a, a)].

  Definition aenv (w : list nat) : denv := fold_right (fun a e => abind e a) [] w.

  Lemma nearest_env : forall w seen,
    nearest seen w = rev (map snd (filter (fun kv : str * nat => negb (mem (fst kv) seen)) (aenv w))).
  Proof.
    induction w as [|b r IH]; intros seen; simpl; [reflexivity|].
    rewrite (IH (key b :: seen)). unfold abind, env_remove.
    assert (F : forall l : denv,
      filter (fun kv : str * nat => negb (mem (fst kv) seen)) (filter (fun kv : str * nat => negb (str_eqb (fst kv) (key b))) l)
      = filter (fun kv : str * nat => negb (mem (fst kv) (key b :: seen))) l).
    { intros l. rewrite filter_filter. apply filter_ext. intros kv. simpl. rewrite negb_orb. reflexivity. }
    destruct (undecl b) eqn:U.
    - rewrite orb_true_r. simpl. rewrite F. reflexivity.
    - rewrite orb_false_r, filter_app, map_app, rev_app_distr, F. simpl.
      destruct (mem (key b) seen); reflexivity.
  Qed.

  Lemma nearest_in : forall w seen x,
    In x (nearest seen w) <->
    exists l1 l2, w = l1 ++ x :: l2 /\ (forall y, In y l1 -> str_eqb (key y) (key x) = false) /\
                  mem (key x) seen = false /\ undecl x = false.
  Proof.
    split.
    - revert seen. induction w as [|a r IH]; intros seen H; simpl in H; [contradiction|].
      apply in_app_or in H. destruct H as [H|H].
      + destruct (mem (key a) seen || undecl a) eqn:C; [contradiction|].
        destruct H as [H|[]]. subst a. apply orb_false_iff in C. destruct C.
        exists [], r. repeat split; auto. intros y [].
      + apply IH in H. destruct H as [l1 [l2 [W [N [M U]]]]]. simpl in M. apply orb_false_iff in M.
        destruct M as [M1 M2]. exists (a :: l1), l2. subst r. repeat split; auto.
        intros y [Hy|Hy]; [subst y; rewrite ns_str_eqb_sym; exact M1 | auto].
    - intros [l1 [l2 [W [N [M U]]]]]. subst w. revert seen M. induction l1 as [|a l1 IH]; intros seen M; simpl.
      + rewrite M, U. simpl. left. reflexivity.
      + apply in_or_app. right. apply IH.
        * intros y Hy. apply N. right. exact Hy.
        * simpl. rewrite M, orb_false_r. rewrite ns_str_eqb_sym. apply N. left. reflexivity.
  Qed.

  Lemma first_with_key_unique : forall k l1 a l2 m1 x m2,
    l1 ++ a :: l2 = m1 ++ x :: m2 ->
    (forall y, In y l1 -> str_eqb (key y) k = false) ->
    (forall y, In y m1 -> str_eqb (key y) k = false) ->
    str_eqb (key a) k = true -> str_eqb (key x) k = true -> a = x.
  Proof.
    induction l1 as [|b l1 IH]; intros a l2 m1 x m2 E N1 N2 Ka Kx; destruct m1 as [|c m1]; simpl in E; inversion E; subst.
    - reflexivity.
    - rewrite (N2 c) in Ka; [discriminate | left; reflexivity].
    - rewrite (N1 x) in Kx; [discriminate | left; reflexivity].
    - eapply IH; eauto; intros y Hy; [apply N1 | apply N2]; right; exact Hy.
  Qed.

  Lemma nearest_nodup : forall w seen, NoDup (map key (nearest seen w)).
  Proof.
    induction w as [|a r IH]; intros seen; simpl; [constructor|].
    destruct (mem (key a) seen || undecl a); simpl; [apply IH|].
    constructor; [|apply IH]. intros H. apply in_map_iff in H. destruct H as [x [Kx Hx]].
    apply nearest_in in Hx. destruct Hx as [_ [_ [_ [_ [M _]]]]]. simpl in M.
    rewrite Kx, ns_str_eqb_refl in M. discriminate.
  Qed.
End Abstract.

(** * instantiation on the document model *)
Definition empty_value (d : doc) (a : nat) : bool := match n_value (get d a) with [] => true | _ => false end.

(* the step of XpDefs.namespaces, verbatim *)
Definition nstep (d : doc) (c : ctx) (t : ntest) (acc : list nat * bool) (a : nat) : list nat * bool :=
  let (found, defaultSeen) := acc in
  let nd := get d a in
  if nkind_eqb (n_kind nd) KNsDecl && test_node c AxNamespace t a then
    let is_default := str_eqb (n_qname nd) s_xmlns in
    let dup := (if is_default then defaultSeen || (match n_value nd with [] => true | _ => false end) else false)
               || existsb (fun b => str_eqb (n_qname (get d b)) (n_qname nd)) found in
    (if dup then found else found ++ [a], defaultSeen || is_default)
  else acc.

Definition elems_up (d : doc) (n : nat) : list nat :=
  filter (fun a => negb (nkind_eqb (n_kind (get d a)) KDoc)) (ancestors_from d (S (length d)) (Some n)).

Lemma namespaces_unfold : forall d c t n,
  namespaces d c t n =
  if negb (nkind_eqb (n_kind (get d n)) KElem) then [] else
  rev (fst (fold_left (fun acc e => fold_left (nstep d c t) (rev (n_attrs (get d e))) acc) (elems_up d n) ([], false))).
Proof.
  intros. unfold namespaces. destruct (negb (nkind_eqb (n_kind (get d n)) KElem)); [reflexivity|].
  fold (elems_up d n). fold (nstep d c t).
  destruct (fold_left (fun acc e => fold_left (nstep d c t) (rev (n_attrs (get d e))) acc) (elems_up d n) ([], false)).
  reflexivity.
Qed.

Lemma nstep_cstep : forall d c t acc a,
  nstep d c t acc a =
  if visible_decl d c t a then cstep (decl_key d) (is_default_decl d) (empty_value d) acc a else acc.
Proof.
  intros. unfold nstep, cstep, visible_decl, decl_key, is_default_decl, empty_value, decl_key.
  destruct acc as [found ds]. destruct (nkind_eqb (n_kind (get d a)) KNsDecl && test_node c AxNamespace t a); reflexivity.
Qed.

Lemma undecl_undeclares : forall d a, undecl (is_default_decl d) (empty_value d) a = undeclares d a.
Proof. reflexivity. Qed.

Lemma nearest_first_is : forall d c t n,
  decls_nearest_first d c t n =
  filter (visible_decl d c t) (flat_map (fun e => rev (n_attrs (get d e))) (elems_up d n)).
Proof.
  intros. unfold decls_nearest_first, decls_top_down, chain_from_root. fold (elems_up d n).
  rewrite rev_filter. f_equal. rewrite <- rev_flat_map, rev_involutive. reflexivity.
Qed.

Lemma fold_nstep : forall d c t l acc,
  fold_left (nstep d c t) l acc =
  fold_left (cstep (decl_key d) (is_default_decl d) (empty_value d)) (filter (visible_decl d c t) l) acc.
Proof.
  induction l; simpl; intros; [reflexivity|]. rewrite nstep_cstep.
  destruct (visible_decl d c t a); simpl; apply IHl.
Qed.

(** the pivot: what the model returns is "first declaration of a name wins, unless it undeclares"
    over the visible declarations, nearest first *)
Lemma namespaces_nearest : forall d c t n,
  namespaces d c t n =
  if nkind_eqb (n_kind (get d n)) KElem
  then rev (nearest (decl_key d) (is_default_decl d) (empty_value d) [] (decls_nearest_first d c t n))
  else [].
Proof.
  intros. rewrite namespaces_unfold. destruct (nkind_eqb (n_kind (get d n)) KElem); simpl; [|reflexivity].
  f_equal. rewrite fold_left_flat_map.
  rewrite fold_nstep.
  rewrite nearest_first_is.
  rewrite (cstep_nearest (decl_key d) (is_default_decl d) (empty_value d) (fun a => eq_refl) _ [] false []).
  - reflexivity.
  - split; [reflexivity|]. split; [intros b []|]. intros k _ M. discriminate M.
Qed.

Lemma ns_str_eqb_false : forall a b, str_eqb a b = false <-> a <> b.
Proof.
  intros a b. split.
  - intros H E. subst b. rewrite ns_str_eqb_refl in H. discriminate.
  - intros H. destruct (str_eqb a b) eqn:E; [|reflexivity]. apply ns_str_eqb_true in E. contradiction.
Qed.

Lemma fold_right_rev_left : forall (A B : Type) (f : A -> B -> A) (l : list B) (i : A),
  fold_right (fun a e => f e a) i (rev l) = fold_left f l i.
Proof. induction l; simpl; intros; [reflexivity|]. rewrite fold_right_app. simpl. apply IHl. Qed.

(** * the four statements *)
Lemma namespaces_is_env : forall d c t n, namespaces d c t n = ns_in_scope d c t n.
Proof.
  intros. rewrite namespaces_nearest. unfold ns_in_scope.
  destruct (nkind_eqb (n_kind (get d n)) KElem); [|reflexivity].
  rewrite nearest_env, rev_involutive, filter_true by reflexivity.
  f_equal. unfold in_scope_env, aenv, decls_nearest_first.
  exact (fold_right_rev_left _ _ (env_bind d) (decls_top_down d c t n) []).
Qed.

Lemma namespaces_in_iff : forall d c t n a,
  nkind_eqb (n_kind (get d n)) KElem = true ->
  (In a (namespaces d c t n) <->
   exists l1 l2, decls_nearest_first d c t n = l1 ++ a :: l2 /\
                 (forall y, In y l1 -> decl_key d y <> decl_key d a) /\ undeclares d a = false).
Proof.
  intros d c t n a El. rewrite namespaces_nearest, El, <- in_rev, nearest_in.
  split; intros [l1 [l2 [W [N R]]]]; exists l1, l2; (split; [exact W|]); split.
  - intros y Hy. apply ns_str_eqb_false. apply N. exact Hy.
  - destruct R as [_ U]. exact U.
  - intros y Hy. apply ns_str_eqb_false. apply N. exact Hy.
  - split; [reflexivity | exact R].
Qed.

Lemma namespaces_undeclared_default : forall d c t n l1 a l2,
  decls_nearest_first d c t n = l1 ++ a :: l2 ->
  undeclares d a = true ->
  (forall y, In y l1 -> is_default_decl d y = false) ->
  forall x, In x (namespaces d c t n) -> is_default_decl d x = false.
Proof.
  intros d c t n l1 a l2 W U N x Hx.
  destruct (nkind_eqb (n_kind (get d n)) KElem) eqn:El.
  - apply (namespaces_in_iff d c t n x El) in Hx. destruct Hx as [m1 [m2 [W2 [N2 U2]]]].
    destruct (is_default_decl d x) eqn:Dx; [|reflexivity]. exfalso.
    assert (Da : is_default_decl d a = true) by (unfold undeclares in U; apply andb_true_iff in U; tauto).
    assert (a = x).
    { rewrite W in W2. apply (first_with_key_unique (decl_key d) s_xmlns l1 a l2 m1 x m2 W2); auto.
      intros y Hy. apply ns_str_eqb_false. unfold is_default_decl in Dx. apply ns_str_eqb_true in Dx.
      rewrite <- Dx. apply N2. exact Hy. }
    subst x. congruence.
  - rewrite namespaces_nearest, El in Hx. contradiction.
Qed.

Lemma namespaces_nodup_keys : forall d c t n, NoDup (map (decl_key d) (namespaces d c t n)).
Proof.
  intros. rewrite namespaces_nearest. destruct (nkind_eqb (n_kind (get d n)) KElem); [|constructor].
  rewrite map_rev. apply NoDup_rev. apply nearest_nodup.
Qed.
