"""C02, compiler part (family xpc; plug-in of props/C02.py: run_part(ctx)).

proof  : coq/Properties_C02c.v over the Gallina model of XPathProcessorImpl's tokenizer and recursive-descent compiler
         (coq/XpcLexDefs.v, coq/XpcParseDefs.v) and the tables translator/gen_xpc.py reads from the source (GenXpc.v);
tie    : this file - the extracted model (.build/xpc_model) and the REBUILT LIBRARY (harness/xpc.cpp: the real
         XPathProcessorImpl::initXPath, the real op map decoded strictly) get the same case lines and must agree:
         accept/reject, and on accept the same s-expression (number literals compared as doubles).  Error KINDS are not
         compared.  A 'fuel' answer of the model, a (BADMAP ...) of the decoder or a crash is a difference.
oracle : independent of the Coq model -
         (a) accept/reject: the library accepts exactly the strings vlib/xpsyntax.py (written from the grammar of the
             Recommendation) recognises; the direction 'an expression is refused' is judged for the generated stream
             (well-formed by construction) and for recognised strings that use only the bound prefix, the functions of
             XPath/XSLT 1.0 and legal argument counts of the functions the compiler checks;
         (b) structure: the decoded tree of the minimal-parentheses print, of a print with redundant parentheses and of
             a print with random white space, (group X) erased, or/and chains flattened, equals the generator's tree;
         (c) values: operator trees over number literals, evaluated by the library (harness/xp.cpp) on the minimal and
             on the fully parenthesised print and by vlib/xpref.py on the tree: the three values agree.

Case line (both executables):  <id> <ns> <expr>     ns = "-" | hexprefix=hexuri,...    expr = hex UTF-16 units | "-"
Result line:                   <id> ok <SEXPR> | <id> err [text] | <id> fuel (model only)      (see harness/xpc.cpp)
All lines use the binding p=http://p; q is not bound.

Streams: (i) vlib/xpcgen.py trees x {minimal, redundant parentheses, white space};  (ii) the frozen malformed corpora
corpus/C02/malformed_*.lst;  (iii) corpus/C02c/boundary.lst + the nesting-depth strings around eMaximumNestingDepth.

DEVIATIONS lists the three recorded classes of strings on which the unrepaired library and the Recommendation's grammar
disagree (findings K-xpc-name-chars, K-xpc-dot-glue, K-xpc-unicode-digit; corpus/C02c/k_xpc_*.txt).  translator/gen_xpc.py
reads from the source whether each one is repaired (facts fix_name_chars / fix_dot_token / fix_ascii_digit): while a class
is NOT repaired its strings are expected deviations (counted; KNOWN-FINDING when the key is a `finding:` line of property
C02, else evidence xpc_unrecorded_deviations, a violation with UNRECORDED_IS_VIOLATION); once the source says repaired the
class is judged like everything else (still compiled -> xpc-accepts-non-expression, still refused -> xpc-rejects-expression)
and stream (i) glues '.'/'..' to a following operator again.  The regression files k_xpc_*.txt (JSON string lines) run on
both sides every time.
is_expression() wraps vlib/xpsyntax.py: ExprWhitespace is exactly #x20 #x9 #xD #xA (xpsyntax uses \\s), and strings with
non-ASCII characters whose name class depends on the XML 1.0 edition are not judged (xpsyntax has the fifth edition's
ranges, XalanXMLChar the tables of the second..fourth)."""
import os
import re
import subprocess
import time
from concurrent.futures import ThreadPoolExecutor

from vlib import core, xpsyntax, xpgen, xpref, xpcgen

N_QUICK, N_THOROUGH = 3000, 40000
NV_QUICK, NV_THOROUGH = 500, 5000
N_LEXER_QUICK = 3000
MAX_NESTING = 1024
UNRECORDED_IS_VIOLATION = False


def hx(s):
    return s.encode("utf-16-be", "surrogatepass").hex()


NSFIELD = hx("p") + "=" + hx(xpcgen.NS["p"])


def case_line(cid, s):
    return "%s %s %s" % (cid, NSFIELD, hx(s) or "-")


def u16_to_str(tokn):
    body = tokn[2:]
    if not body:
        return ""
    return b"".join(int(h, 16).to_bytes(2, "big") for h in body.split(",")).decode("utf-16-be", "surrogatepass")


# ---------------------------------------------------------------------------------------------------------------
# running the two executables (stderr is dropped: the library's default problem listener writes the message of every
# refused expression there, and mixed into a block-buffered stdout it would cut result lines in two)

def _run_chunk(exe, lines, timeout):
    try:
        p = subprocess.run([exe], input="\n".join(lines) + "\n", stdout=subprocess.PIPE, stderr=subprocess.DEVNULL,
                           timeout=timeout, universal_newlines=True, errors="replace")
        out = p.stdout
    except subprocess.TimeoutExpired as ex:
        out = ex.stdout or ""
        if isinstance(out, bytes):
            out = out.decode("utf-8", "replace")
    res = {}
    for l in out.split("\n"):
        if not l or l[0] in "#!":
            continue
        k, _, rest = l.partition(" ")
        res[k] = rest
    return res


def run_cases(exe, cases, timeout=900):
    """cases: [(id, string)] -> {id: 'ok <sexpr>' | 'err...' | 'fuel' | 'crash' | 'lost'}"""
    lines = [case_line(cid, s) for cid, s in cases]
    jobs = core.NPROC
    res = {}
    if len(lines) < 4 * jobs:
        res = _run_chunk(exe, lines, timeout)
    else:
        per = (len(lines) + jobs - 1) // jobs
        with ThreadPoolExecutor(jobs) as ex:
            for r in ex.map(lambda ch: _run_chunk(exe, ch, timeout), [lines[i:i + per] for i in range(0, len(lines), per)]):
                res.update(r)
    # a process that died loses the rest of its chunk: the first missing case of a re-run is the one that kills it
    missing = [i for i, (cid, _) in enumerate(cases) if cid not in res]
    rounds = 0
    while missing and rounds < 12:
        rounds += 1
        r = _run_chunk(exe, [lines[i] for i in missing], timeout)
        res.update(r)
        still = [i for i in missing if cases[i][0] not in res]
        if still:
            res[cases[still[0]][0]] = "crash"
            still = still[1:]
        missing = still
    for i in missing:
        res[cases[i][0]] = "lost"
    return res


def verdict(rest):
    """'ok' / 'err' / other first field"""
    return (rest or "lost").split(" ", 1)[0]


def tree_of(rest):
    """parsed s-expression of an 'ok ...' answer, None when it is not one (BADMAP, unparsable)"""
    if not rest or not rest.startswith("ok "):
        return None
    sx = rest[3:].strip()
    if sx.startswith("(BADMAP"):
        return None
    try:
        return xpcgen.parse_sx(sx)
    except (ValueError, IndexError):
        return None


_NUM_RX = re.compile(r"\(num (#[0-9a-f]*|d:[^ ()]*)\)")


def canon_sx(rest):
    """the s-expression text of an 'ok' answer with its number literals as canonical doubles (no tree is built: the
    nesting-depth strings are a thousand levels deep)"""
    def num(mo):
        v = mo.group(1)
        try:
            x = float(v[2:]) if v.startswith("d:") else xpcgen.num_of_text(xpcgen.unhex(v))
        except ValueError:
            return mo.group(0)
        return "(num %s)" % xpcgen.canon_num(x)
    return _NUM_RX.sub(num, rest[3:].strip())


def same_answer(m, h):
    vm, vh = verdict(m), verdict(h)
    if vm != vh or vm not in ("ok", "err"):
        return False
    if vm == "err":
        return True
    if "(BADMAP" in h or "(BADMAP" in m:
        return False
    return canon_sx(m) == canon_sx(h)


def show_str(s):
    return s.encode("unicode_escape").decode("ascii")


# ---------------------------------------------------------------------------------------------------------------
# oracle (a): is the string an expression, and is it free of the errors that are not syntax errors

KNOWN_FUNCTIONS = set(xpcgen.SPECIAL) | set(xpcgen.GENERIC)


class Parser(xpsyntax.P):
    """the recogniser's parser, recording every function call with its argument count"""

    def __init__(self, toks):
        xpsyntax.P.__init__(self, toks)
        self.calls = []

    def primary(self):
        k, t = self.peek()
        if k != "func":
            return xpsyntax.P.primary(self)
        self.i += 1
        self.eat("op", "(")
        n = 0
        if not self.isop(")"):
            self.expr()
            n = 1
            while self.isop(","):
                self.i += 1
                self.expr()
                n += 1
        self.eat("op", ")")
        self.calls.append((t, n))


def semantically_clean(s):
    """s (recognised by xpsyntax) uses only the prefix p, only functions of XPath/XSLT 1.0 (or extension functions
    p:...), and the argument counts of the functions the compiler checks are legal"""
    try:
        toks = xpsyntax.tokenize(s)
        p = Parser(toks)
        p.expr()
    except (xpsyntax.Bad, RecursionError):
        return False
    for k, t in toks:
        if k in ("name", "var", "func") and ":" in t and t.split(":", 1)[0] != "p":
            return False
    for name, n in p.calls:
        if ":" in name:
            continue
        if name not in KNOWN_FUNCTIONS:
            return False
        if name in xpcgen.SPECIAL and not (xpcgen.SPECIAL[name][0] <= n <= xpcgen.SPECIAL[name][1]):
            return False
    return True


def _outside_literals(s, fn, keep_literals=True):
    """fn applied to the parts of s outside string literals (None: a literal is not terminated)"""
    out, i, n = [], 0, len(s)
    while i < n:
        c = s[i]
        if c in "'\"":
            j = s.find(c, i + 1)
            if j < 0:
                return None
            if keep_literals:
                out.append(s[i:j + 1])
            i = j + 1
        else:
            j = i
            while j < n and s[j] not in "'\"":
                j += 1
            out.append(fn(s[i:j]))
            i = j
    return "".join(out)


# non-ASCII characters whose name class is the same in the character tables of XML 1.0 second..fourth edition (Letter,
# Digit, CombiningChar, Extender: what XPath 1.0 cites and XalanXMLChar implements) and in the ranges of the fifth
# edition (what vlib/xpsyntax.py uses): a string with another non-ASCII character outside its literals is not judged
SAME_IN_ALL_EDITIONS = set("\u00e9\u4e2d\u00b7\u0300\u00d7\u00f7\u3007\u00a0\u3000\u2028\u0085\ufffe\uffff\U00010000")
# the non-ASCII members of the XML 1.0 (second..fourth edition) class Digit: name characters that cannot start a name; XPath's
# Digits is [0-9]+, so they are not part of a Number either.  (The fifth edition lets them start a name; the reading used here is
# the one XPath 1.0 cites and XalanXMLChar / XalanQName::isValidNCName implement.)
XML_DIGITS = set(chr(b + i) for b in (0x0660, 0x06f0, 0x0966, 0x09e6, 0x0a66, 0x0ae6, 0x0b66, 0x0c66, 0x0ce6, 0x0d66, 0x0e50, 0x0ed0, 0x0f20)
                 for i in range(10)) | set(chr(c) for c in range(0x0be7, 0x0bf0))
XPATH_WS = " \t\r\n"
LIB_DELIMS = "@()[]|/*+=,\\^!$<>-"
_NAME_CHAR = re.compile(xpsyntax.NCNAME_CHAR)


def is_expression(s):
    """True / False by the Recommendation's grammar; None = not judged (XML-edition dependent characters).
    vlib/xpsyntax.py skips white space with \\s, which also takes VT, FF, FS..US, NEL, NBSP ... : ExprWhitespace is
    S = (#x20 | #x9 | #xD | #xA)+ only, so such a character outside a literal makes the string a non-expression.
    Non-ASCII XML Digits (U+0661 ...) are name characters only: not in a Number, not at the start of a name."""
    out = _outside_literals(s, lambda t: t, keep_literals=False)
    if out is None:
        return False
    for c in out:
        if ord(c) > 0x7f and c not in SAME_IN_ALL_EDITIONS and c not in XML_DIGITS and not (0xd800 <= ord(c) <= 0xdfff):
            return None
        if (c.isspace() or ord(c) < 0x20 or ord(c) == 0x7f) and c not in XPATH_WS:
            return False
    # xpsyntax reads numbers with \\d and names with the fifth edition's ranges: a non-ASCII Digit is put to it as U+00B7
    # (Extender: a name character that cannot start a name and is no digit - the same class)
    return xpsyntax.recognise(_outside_literals(s, lambda t: "".join("\u00b7" if c in XML_DIGITS else c for c in t)))


def _norm_name_chars(s):
    """undo 'any character may follow the first one of an unprefixed name': such characters become 'x'"""
    def fix(t):
        return "".join(c if (c in XPATH_WS or c in LIB_DELIMS or c in ":." or _NAME_CHAR.match(c)) else "x" for c in t)
    return _outside_literals(s, fix)


_DOT_GLUE = re.compile(r"(^|[^A-Za-z0-9_.\-:$\u0080-\uffff])(\.\.?)(?=[-A-Za-z_\u0080-\uffff])")


def _norm_dot_glue(s):
    """undo 'a token that starts with . or .. runs on through name characters and -': a space after the dots"""
    return _outside_literals(s, lambda t: _DOT_GLUE.sub(lambda m: m.group(1) + m.group(2) + " ", t))


def _norm_unicode_digit(s):
    """undo 'every XML Digit counts as a digit of a Number': the non-ASCII ones become 1"""
    return _outside_literals(s, lambda t: "".join("1" if c in XML_DIGITS else c for c in t))


# (key, direction, normaliser, repair flag of translator/gen_xpc.py).  'accepts': the library compiles a string that is not an
# expression; the class is decided by undoing exactly that leniency and asking the recogniser again.  'rejects': the library
# refuses an expression; the class is decided by undoing the deviation and asking the LIBRARY again (it must compile the
# normalised string).  A class is an EXPECTED deviation only while its flag says that the source is not repaired.
DEVIATIONS = [
    # XPathProcessorImpl::NodeTest: an unprefixed name is checked with isNodeTest(), which looks at the first character
    # only; tokenize() ends a name only at white space, a quote or one of its delimiters: 'a#b', 'a?', 'a{' are element names
    ("K-xpc-name-chars", "accepts", _norm_name_chars, "fix_name_chars"),
    # tokenize() / PrimaryExpr(): XalanXMLChar::isDigit where the grammar says [0-9]: U+0661, '1' U+0661 are Numbers (NaN)
    ("K-xpc-unicode-digit", "accepts", _norm_unicode_digit, "fix_ascii_digit"),
    # XPathProcessorImpl::tokenize: '.' / '..' not followed by a digit start an ordinary token that runs on through
    # letters and '-': '.div 2', '.-5', '..-1' are single tokens '.div', '.-5', '..-1' (3.7: longest token is '.', '..')
    ("K-xpc-dot-glue", "rejects", _norm_dot_glue, "fix_dot_token"),
]
FLAGS = ("fix_name_chars", "fix_dot_token", "fix_ascii_digit")


def repair_flags(facts):
    """the three bools of translator/gen_xpc.py's facts (is the leniency repaired in the source the library is built from);
    fallback: gen_xpc_fix_* of coq/GenXpc.v; absent = not repaired"""
    f = ((facts or {}).get("GenXpc") or {}).get("facts") or {}
    out = {}
    txt = None
    for k in FLAGS:
        if k in f:
            out[k] = bool(f[k])
            continue
        if txt is None:
            try:
                txt = open(os.path.join(core.COQ, "GenXpc.v")).read()
            except OSError:
                txt = ""
        m = re.search(r"Definition\s+gen_xpc_%s\s*(?::\s*bool\s*)?:=\s*(true|false)\s*\." % k, txt)
        out[k] = bool(m) and m.group(1) == "true"
    return out


def classify(s, direction, flags):
    for key, d, norm, flag in DEVIATIONS:
        if d != direction or flags.get(flag):
            continue
        t = norm(s)
        if t is not None and t != s and is_expression(t):
            return key, t
    return None, None


# ---------------------------------------------------------------------------------------------------------------

class Acc:
    def __init__(self):
        self.corr = []          # (string, model answer, library answer)
        self.viol = {}          # tag -> [text]
        self.dev = {}           # deviation key -> [string]
        self.unclassified = []
        self.n_corr = 0
        self.distinct = set()


def add_viol(acc, tag, text):
    acc.viol.setdefault(tag, []).append(text)


def correspondence(ctx, acc, cases, mres, hres):
    for cid, s in cases:
        m, h = mres.get(cid) if mres is not None else None, hres.get(cid)
        if mres is None:
            continue
        acc.n_corr += 1
        ctx.cov["traces_validated_against_impl"] += 1
        if not same_answer(m, h):
            acc.corr.append((s, m, h))


def accept_oracle(ctx, acc, stream, cases, hres, impl, flags):
    """streams (ii)/(iii): the library accepts exactly the expressions"""
    pending = []
    for cid, s in cases:
        h = hres.get(cid)
        v = verdict(h)
        ctx.cov["evaluations"] += 1
        is_expr = is_expression(s)
        ctx.count("xpc:%s:%s" % (stream, {True: "expression", False: "not-an-expression", None: "not-judged(xml-edition)"}[is_expr]))
        if v not in ("ok", "err"):
            add_viol(acc, "xpc-crash", "# no answer from the library (%s) for %s\n%s" % (v, show_str(s), case_line(cid, s)))
            continue
        if v == "ok" and is_expr is False:
            key, t = classify(s, "accepts", flags)
            if key:
                acc.dev.setdefault(key, []).append(s)
            else:
                add_viol(acc, "xpc-accepts-non-expression", "# %s is not an XPath 1.0 expression but the library compiled it: %s\n%s" % (
                    show_str(s), (h or "")[3:300], case_line(cid, s)))
        elif v == "err" and is_expr and not semantically_clean(s):
            ctx.count("xpc:%s:expression-refused(unbound prefix, unknown function or argument count)" % stream)
        elif v == "err" and is_expr:
            key, t = classify(s, "rejects", flags)
            if key:
                pending.append((cid, s, key, t, h))
            else:
                add_viol(acc, "xpc-rejects-expression", "# %s is an XPath 1.0 expression (bound prefix, known functions, legal argument counts) but the library refuses it: %s\n%s" % (
                    show_str(s), (h or "")[4:200], case_line(cid, s)))
    if pending:
        res = run_cases(impl, [(cid + "n", t) for cid, s, key, t, h in pending])
        for cid, s, key, t, h in pending:
            if verdict(res.get(cid + "n")) == "ok":
                acc.dev.setdefault(key, []).append(s)
            else:
                add_viol(acc, "xpc-rejects-expression", "# %s is an XPath 1.0 expression but the library refuses it: %s (and %s as well)\n%s" % (
                    show_str(s), (h or "")[4:200], show_str(t), case_line(cid, s)))


def gen_stream(ctx, n, tag):
    """stream (i): n trees, three prints each"""
    r = ctx.rng
    items = []
    for k in range(n):
        e = xpcgen.gen_expr(r, r.choice([1, 2, 2, 3, 3, 3, 4]))
        tmin = xpcgen.toks(e)
        tred = xpcgen.toks(e, (r, r.choice([0.1, 0.25, 0.5])))
        smin, sred = xpcgen.join(tmin), xpcgen.join(tred)
        base = tmin if r.random() < 0.5 else tred
        sws = xpcgen.join(base, r, r.choice([0.15, 0.4, 1.0]), pretty=r.random() < 0.5)
        items.append({"e": e, "id": "%s%d" % (tag, k), "min": smin, "red": sred, "ws": sws, "ws_of": "min" if base is tmin else "red"})
    return items


def run_gen_stream(ctx, acc, model, impl, items):
    cases = []
    for it in items:
        cases += [(it["id"] + "a", it["min"]), (it["id"] + "b", it["red"]), (it["id"] + "c", it["ws"])]
    hres = run_cases(impl, cases)
    mres = run_cases(model, cases) if model else None
    correspondence(ctx, acc, cases, mres, hres)
    for it in items:
        e = it["e"]
        ctx.cov["evaluations"] += 3
        ctx.count("xpc:gen:" + xpcgen.top_class(e))
        nops, npp = xpcgen.count_ops(e)
        if nops >= 2 or npp >= 1:
            acc.distinct.add(it["min"])
        want = xpcgen.flatten_assoc(xpcgen.expect(e))
        got = {}
        for sfx, key in (("a", "min"), ("b", "red"), ("c", "ws")):
            h = hres.get(it["id"] + sfx)
            if verdict(h) != "ok":
                add_viol(acc, "xpc-rejects-expression" if verdict(h) == "err" else "xpc-crash",
                         "# the generated expression %s is refused by the library: %s\n%s" % (show_str(it[key]), (h or "no answer")[:200], case_line(it["id"] + sfx, it[key])))
                got = None
                break
            t = tree_of(h)
            if t is None:
                add_viol(acc, "xpc-structure", "# the op map of %s does not decode: %s\n%s" % (show_str(it[key]), (h or "")[:300], case_line(it["id"] + sfx, it[key])))
                got = None
                break
            got[key] = t
        if got is None:
            continue
        # the white-space print must give exactly the tree of the print it was made from (groups included)
        if got["ws"] != got[it["ws_of"]]:
            add_viol(acc, "xpc-structure", "# white space between the tokens changes the compiled tree\n#   %s -> %s\n#   %s -> %s\n%s" % (
                show_str(it[it["ws_of"]]), xpcgen.show(got[it["ws_of"]])[:400], show_str(it["ws"]), xpcgen.show(got["ws"])[:400], case_line(it["id"] + "c", it["ws"])))
            continue
        for key in ("min", "red"):
            t = xpcgen.flatten_assoc(xpcgen.erase_groups(got[key]))
            if t != want:
                add_viol(acc, "xpc-structure", "# the compiled tree of %s (%s parentheses) is not the tree it was printed from\n#   library  : %s\n#   generator: %s\n%s" % (
                    show_str(it[key]), "minimal" if key == "min" else "redundant", xpcgen.show(t)[:600], xpcgen.show(want)[:600], case_line(it["id"] + ("a" if key == "min" else "b"), it[key])))
                break


def read_malformed(ctx):
    cdir = os.path.join(core.VERIF, "corpus", "C02")
    out = []

    def plain(name):
        p = os.path.join(cdir, name)
        if not os.path.exists(p):
            ctx.broken.append("xpc: corpus/C02/%s is missing" % name)
            return []
        return [u16_to_str(l.strip()) for l in open(p) if l.strip()]

    def lexer():
        p = os.path.join(cdir, "malformed_lexer.lst")
        if not os.path.exists(p):
            ctx.broken.append("xpc: corpus/C02/malformed_lexer.lst is missing")
            return []
        return [u16_to_str(l.split()[1]) for l in open(p) if len(l.split()) == 2]
    q, lx = plain("malformed_quick.lst"), lexer()
    if ctx.thorough:
        out = q + plain("malformed_thorough.lst") + lx
    else:
        out = q + (ctx.rng.sample(lx, N_LEXER_QUICK) if len(lx) > N_LEXER_QUICK else lx)
    seen, uniq = set(), []
    for s in out:
        if s not in seen:
            seen.add(s)
            uniq.append(s)
    return uniq


def value_stream(ctx, acc, xp_impl, n):
    """oracle (c)"""
    from props import C02
    r = ctx.rng
    items, lines = [], []
    for k in range(n):
        e = xpcgen.gen_value_expr(r, r.choice([2, 3, 3, 4, 5]))
        smin = xpcgen.join(xpcgen.toks(e), pretty=r.random() < 0.8)
        sfull = xpcgen.join(xpcgen.toks(e, full=True))
        items.append((k, e, smin, sfull))
        lines.append("v%da|eval|%s|X:%s" % (k, C02.MALFORMED_DOC, xpgen.tok(smin)))
        lines.append("v%db|eval|%s|X:%s" % (k, C02.MALFORMED_DOC, xpgen.tok(sfull)))
    rc, res, raw = core.run_lines_parallel(xp_impl, lines, sep="|")
    ref = xpref.Ref([], {})
    for k, e, smin, sfull in items:
        ctx.cov["evaluations"] += 2
        ctx.count("xpc:value:" + e[0])

        def val(cid):
            o = res.get(cid)
            if o is None:
                return "none"
            g = o.split("|")[0]
            return C02.parse_value(g[2:] if g.startswith("G:") else g)
        a, b = val("v%da" % k), val("v%db" % k)
        try:
            want = ref.ev(e, 0, 1, 1)
        except (xpref.XPathTypeError, RecursionError):
            continue
        if isinstance(want, int) and not isinstance(want, bool):
            want = float(want)
        ok = not isinstance(a, str) and not isinstance(b, str) and C02.same(a, b) and C02.same(a, want)
        if not ok:
            add_viol(acc, "xpc-value", "# %s (minimal parentheses) = %r, %s (fully parenthesised) = %r, the tree's value by the Recommendation = %r\n#expect G:%s\n%s" % (
                smin, a, sfull, b, want, C02.fmt_value(want), lines[2 * k]))


def run_part(ctx):
    t0 = time.time()
    ctx.assumptions += [
        "xpc: the keyword / axis / node-type / function tables, the op codes, the delimiter and white-space sets of tokenize(), the XML "
        "character classes and eMaximumNestingDepth are read from the source by translator/gen_xpc.py (GenXpc.v); the control flow of "
        "tokenize(), mapNSTokens() and the Expr()...Number() functions is mirrored by hand in coq/XpcLexDefs.v / XpcParseDefs.v and tied "
        "by the correspondence run only",
        "xpc: error KINDS (which message the compiler raises) are not compared, only accept/reject and the compiled tree; number literals "
        "are compared as doubles (model: token text converted by Python's float(), library: the double stored in the op map)",
        "xpc: the prefix resolver of the correspondence run binds p=http://p only; allowVariableReferences = allowKeyFunction = true; match "
        "patterns (initMatchPattern) are not part of this piece",
        "xpc: XPath::getFunctionTable() holds the 36 functions installed by XPathInit/XSLTInit (harness Init); 'is this name a function' is "
        "modelled as membership in that list as generated from XPathFunctionTable.cpp",
    ]
    rule = ("xpc: trees from the expression grammar (vlib/xpcgen.py) printed with minimal parentheses, with redundant parentheses and with "
            "random white space; the frozen malformed corpora of C02; exhaustive boundary sets (corpus/C02c/boundary.lst) and nesting depths "
            "1020..1030; distinct non-trivial = distinct minimal prints of generated trees with >= 2 operators or a path with a predicate")
    ctx.notes["xpc_rule"] = rule
    proved = True
    old_gen = ctx.notes.get("gen")
    if os.path.exists(os.path.join(core.COQ, "Properties_C02c.v")):
        proved = ctx.prove(["Properties_C02c.v"], ["GenXpc"])
        facts = core.coq_prepare(["GenXpc"])       # prove() keeps the facts to itself; the generation is idempotent
    else:
        ctx.notes["xpc_proof"] = "coq/Properties_C02c.v is not there: no theorem of the compiler part was checked in this run"
        facts = core.coq_prepare(["GenXpc"])
        ctx.notes["gen"] = {k: ({"ok": True, "changed": v.get("changed")} if v["ok"] else v) for k, v in facts.items()}
        for name, r_ in facts.items():
            if not r_["ok"]:
                ctx.broken.append("translator: %s: %s" % (name, r_["error"]))
                proved = False
    if old_gen:
        merged = dict(old_gen)
        merged.update(ctx.notes.get("gen") or {})
        ctx.notes["gen"] = merged
    # is each of the three recorded leniencies repaired in the source the library is built from (read from the source by the
    # translator): an unrepaired one is an expected deviation, a repaired one is judged like everything else
    flags = repair_flags(facts)
    ctx.notes["xpc_repair_flags"] = flags
    xpcgen.DOT_NEEDS_SPACE = not flags["fix_dot_token"]
    model, ok_m, mlog = core.build_model("xpc")
    if not ok_m:
        ctx.broken.append("xpc: model extraction/build failed: " + mlog[-500:])
        model = None
    impl, ok_h, hlog = core.build_harness("xpc", "plain")
    if not ok_h:
        ctx.broken.append("xpc: harness/xpc.cpp does not compile against the working tree: " + hlog[-500:])
        return
    xp_impl, ok_x, xlog = core.build_harness("xp", "plain")
    known_keys = {k["key"]: k for k in ctx.known.for_property("C02")}
    acc = Acc()
    n_before = len(ctx.broken)

    # --- stream (iii): boundary sets
    bnd = xpcgen.load_boundary()
    if bnd is None:
        ctx.broken.append("xpc: corpus/C02c/boundary.lst is missing (python3 -c 'from vlib import xpcgen; xpcgen.freeze()')")
        bnd = xpcgen.boundary_strings()
    bcases = [("b%d" % i, s) for i, s in enumerate(bnd)]
    hres = run_cases(impl, bcases)
    mres = run_cases(model, bcases) if model else None
    correspondence(ctx, acc, bcases, mres, hres)
    accept_oracle(ctx, acc, "boundary", bcases, hres, impl, flags)
    # the regression files of the three findings (corpus/C02c/k_xpc_*.txt): the same judgement; with the repair in the source the
    # library must accept exactly the expressions among them, without it the strings of the class are the expected deviations
    n_regr = 0
    for key in sorted(xpcgen.REGRESSION_FILES):
        fn_ = xpcgen.REGRESSION_FILES[key]
        strs = xpcgen.load_strings(fn_)
        if not strs:
            ctx.broken.append("xpc: corpus/C02c/%s is missing or has no strings" % fn_)
            continue
        rcases = [("k%d_%d" % (n_regr, i), s) for i, s in enumerate(strs)]
        n_regr += len(rcases)
        rh = run_cases(impl, rcases)
        rm = run_cases(model, rcases) if model else None
        correspondence(ctx, acc, rcases, rm, rh)
        accept_oracle(ctx, acc, "regression(%s)" % key, rcases, rh, impl, flags)
    # nesting depth: the limit is the library's own (the Recommendation has none): correspondence, and the answer must
    # change from ok to err exactly where the depth passes MAX_NESTING for the two pure shapes
    deep = xpcgen.deep_strings()
    dcases = [("d%d" % i, s) for i, s in enumerate(deep)]
    dh = run_cases(impl, dcases)
    dm = run_cases(model, dcases) if model else None
    correspondence(ctx, acc, dcases, dm, dh)
    for cid, s in dcases:
        ctx.cov["evaluations"] += 1
        ctx.count("xpc:depth:" + verdict(dh.get(cid)))
        if verdict(dh.get(cid)) not in ("ok", "err"):
            add_viol(acc, "xpc-crash", "# no answer from the library (%s) for a string of %d characters nested about %d deep: %s...\n%s" % (
                verdict(dh.get(cid)), len(s), len(s) // 2, show_str(s[:12]), case_line(cid, s)))

    # --- stream (ii): frozen malformed corpora
    mal = read_malformed(ctx)
    mcases = [("m%d" % i, s) for i, s in enumerate(mal)]
    hres = run_cases(impl, mcases)
    mres = run_cases(model, mcases) if model else None
    correspondence(ctx, acc, mcases, mres, hres)
    accept_oracle(ctx, acc, "malformed", mcases, hres, impl, flags)

    # --- stream (i): generated trees
    n = N_THOROUGH if ctx.thorough else N_QUICK
    items = gen_stream(ctx, n, "g")
    ctx.cov["samples"] = (ctx.cov.get("samples") or []) + [it["red"] for it in items[:4]]
    run_gen_stream(ctx, acc, model, impl, items)

    # --- values
    n_val = (NV_THOROUGH if ctx.thorough else NV_QUICK) if ok_x else 0
    if ok_x:
        value_stream(ctx, acc, xp_impl, n_val)
    else:
        ctx.broken.append("xpc: harness/xp.cpp does not compile against the working tree: " + xlog[-300:])

    broken_here = len(ctx.broken) > n_before or not proved or not model or bool(acc.corr)
    if broken_here and not acc.viol and not ctx.thorough:
        ctx.escalated = True
        more = gen_stream(ctx, 3 * N_QUICK, "h")
        run_gen_stream(ctx, acc, model, impl, more)
        items = items + more

    # --- report
    d = os.path.join(core.OUT, ctx.pid)
    os.makedirs(d, exist_ok=True)
    if acc.corr:
        acc.corr.sort(key=lambda c: len(c[0]))
        p = os.path.join(d, "xpc_correspondence.txt")
        with open(p, "w", encoding="utf-8") as f:
            f.write("# C02 compiler part: extracted model and library differ on %d of %d case lines\n" % (len(acc.corr), acc.n_corr))
            f.write("# replay: .build/xpc_model < this file ; .build/xpc_plain < this file\n")
            for i, (s, m, h) in enumerate(acc.corr[:200]):
                f.write("# %s\n#   model  : %s\n#   library: %s\n%s\n" % (show_str(s), (m or "no answer")[:1000], (h or "no answer")[:1000], case_line("r%d" % i, s)))
        for s, m, h in acc.corr[:5]:
            ctx.broken.append("xpc correspondence: %s model=%s library=%s" % (show_str(s)[:200], (m or "no answer")[:300], (h or "no answer")[:300]))
        ctx.broken.append("xpc correspondence: %d of %d case lines differ between the compiler model and the library [%s]" % (len(acc.corr), acc.n_corr, p))
        ctx.notes["xpc_correspondence_mismatches"] = len(acc.corr)
    unrecorded = {}
    for key in sorted(acc.dev):
        ss = sorted(acc.dev[key], key=len)
        if key in known_keys:
            ctx.known_finding("%s %s" % (key, known_keys[key]["what"]))
        else:
            unrecorded[key] = {"count": len(ss), "examples": [show_str(s) for s in ss[:8]]}
            if UNRECORDED_IS_VIOLATION:
                add_viol(acc, "xpc-deviation", "# deviation class %s (not a recorded finding): %d strings, e.g.\n%s" % (
                    key, len(ss), "\n".join(case_line("u%d" % i, s) + "   # " + show_str(s) for i, s in enumerate(ss[:20]))))
    if unrecorded:
        ctx.notes["xpc_unrecorded_deviations"] = unrecorded
    ctx.notes["xpc_deviation_class_hits"] = {k: len(v) for k, v in acc.dev.items()}
    for tag in sorted(acc.viol):
        texts = sorted(acc.viol[tag], key=len)
        head = {"xpc-accepts-non-expression": "strings that are not XPath expressions must be rejected with an error",
                "xpc-rejects-expression": "an XPath 1.0 expression is refused by the compiler",
                "xpc-structure": "operator precedence / associativity / grouping: the compiled tree is not the tree of the expression",
                "xpc-value": "operator precedence and left associativity: the value differs from the Recommendation's",
                "xpc-crash": "the compiler does not answer (crash or hang)"}.get(tag, tag)
        ctx.violation(tag, "# C02 (compiler part): %s\n# %d cases; replay: .build/xpc_plain < this file (case lines: <id> <ns> <hex UTF-16 expression>)%s\n%s" % (
            head, len(texts), "; xpc-value: python3 check.py C02 --replay <this file>" if tag == "xpc-value" else "", "\n".join(texts[:40])))
    ctx.cov["distinct_nontrivial"] = ctx.cov.get("distinct_nontrivial", 0) + len(acc.distinct)
    ctx.notes["xpc_counts"] = {"boundary": len(bcases), "regression_files": n_regr, "depth": len(dcases), "malformed": len(mcases), "generated_trees": len(items),
                               "generated_case_lines": 3 * len(items), "value_trees": n_val,
                               "correspondence_case_lines": acc.n_corr, "correspondence_differences": len(acc.corr),
                               "oracle_failures": sum(len(v) for v in acc.viol.values())}
    ctx.notes["xpc_proved"] = bool(proved)
    ctx.notes["xpc_seconds"] = round(time.time() - t0, 1)
