(* C05 part "targets": re-chunking of characters events, the flush-first invariant, the tie of the flush table, and
   the agreement of the two targets with each other and with the XPath-data-model tree on plain scripts. *)
From Coq Require Import List NArith Bool Lia.
Import ListNotations.
Require Import XV.GenTargets XV.TargetsDefs XV.TargetsModel XV.TargetsSpecModel.

(* ---- re-chunking ---- *)
Lemma add_chars_nil : forall s, add_chars [] s = s.
Proof. destruct s. unfold add_chars. cbn. rewrite app_nil_r. reflexivity. Qed.

Lemma add_chars_app : forall a b s, add_chars (a ++ b) s = add_chars b (add_chars a s).
Proof. intros. unfold add_chars. cbn. rewrite app_assoc. reflexivity. Qed.

Lemma step_chars_nil : forall t m res s, step t m res (EvChars []) s = Some s.
Proof.
  intros. destruct t; cbn [step x_step s_step]; unfold x_flush_characters, s_flush_characters, flush_if; cbn [bind].
  - rewrite add_chars_nil. reflexivity.
  - unfold s_chars. destruct m, (ctx s); cbn; try rewrite add_chars_nil; reflexivity.
Qed.

Lemma step_chars_app : forall t m res a b s,
  step t m res (EvChars (a ++ b)) s = bind (step t m res (EvChars a) s) (step t m res (EvChars b)).
Proof.
  intros. destruct t.
  - cbn. rewrite add_chars_app. reflexivity.
  - assert (Hs : forall c s', step STREE m res (EvChars c) s' = s_chars m c s') by reflexivity.
    rewrite !Hs. unfold s_chars at 1 2. destruct m.
    + destruct (ctx s) eqn:E.
      * unfold all_ws. rewrite forallb_app. destruct (forallb is_ws a); cbn [andb bind]; [|reflexivity].
        rewrite Hs. unfold s_chars. rewrite E. reflexivity.
      * cbn [bind]. rewrite Hs. unfold s_chars. change (ctx (add_chars a s)) with (ctx s). rewrite E, add_chars_app. reflexivity.
    + cbn [bind]. rewrite Hs. unfold s_chars. rewrite add_chars_app. destruct (ctx s), (ctx (add_chars a s)); reflexivity.
Qed.

Theorem chunking : forall t m res e1 e2, chunk_eq e1 e2 -> forall s, run_from t m res e1 s = run_from t m res e2 s.
Proof.
  intros t m res e1 e2 H. induction H; intro s.
  - reflexivity.
  - cbn [run_from]. rewrite step_chars_app. destruct (step t m res (EvChars a) s); reflexivity.
  - cbn [run_from]. rewrite step_chars_nil. reflexivity.
  - cbn [run_from]. destruct (step t m res e s); [apply IHchunk_eq|reflexivity].
  - symmetry. apply IHchunk_eq.
  - rewrite IHchunk_eq1. apply IHchunk_eq2.
Qed.

Theorem chunking_target : forall t m res e1 e2, chunk_eq e1 e2 -> run_target t m res e1 = run_target t m res e2.
Proof. intros. unfold run_target. rewrite (chunking t m res e1 e2 H). reflexivity. Qed.

(* ---- the tie of the flush table ---- *)
Theorem table_as_modelled : forall t m k, flush_tbl t m k = gen_flush_tbl t m k.
Proof. intros t m k. destruct t, m, k; reflexivity. Qed.

Theorem structural_flushes : forall t m top k, structural t m top k = true -> gen_flush_tbl t m k = true.
Proof. intros t m top k. destruct t, m, top, k; cbn; intro H; try reflexivity; discriminate H. Qed.

(* ---- flush first: a structural event acts as if the accumulated text had been flushed before it ---- *)
Lemma flush_idem : forall t m s s1, flush t m s = Some s1 -> flush t m s1 = Some s1.
Proof.
  intros t m s s1 H. rewrite flush_lvl in H. destruct (lflush t m (top_of s) (lvl_of s)) as [l|] eqn:E; [|discriminate].
  inversion H; subst. pose proof (lflush_fst _ _ _ _ _ E) as Hb. unfold flush, with_lvl. cbn [buf]. rewrite Hb. reflexivity.
Qed.

Lemma bind_flush_again : forall t m s (K : st -> option st),
  bind (flush t m s) K = bind (flush t m s) (fun s1 => bind (flush t m s1) K).
Proof.
  intros. destruct (flush t m s) as [s1|] eqn:E; [|reflexivity]. cbn [bind]. rewrite (flush_idem _ _ _ _ E). reflexivity.
Qed.

Ltac unfold_flags :=
  unfold x_cdata, x_flush_endDocument, x_flush_startElement, x_flush_endElement, x_flush_charactersRaw, x_flush_cdata, x_flush_comment,
         x_flush_processingInstruction, x_flush_ignorableWhitespace, x_flush_entityReference,
         s_flush_startElement, s_flush_endElement, s_flush_charactersRaw, s_flush_comment, s_flush_endDocument_frag,
         s_flush_processingInstruction, s_flush_ignorableWhitespace, flush_if.

Theorem flush_first : forall t m res e s,
  structural t m (top_of s) (kind_of e) = true ->
  step t m res e s = bind (flush t m s) (step t m res e).
Proof.
  intros t m res e s H. destruct t.
  - destruct e; cbn [kind_of structural] in H; try discriminate H;
      (destruct (flush XDOM m s) as [s1|] eqn:E;
       [ pose proof (flush_idem _ _ _ _ E) as E1; cbn [bind step x_step]; unfold_flags; rewrite E; cbn [bind];
         repeat (rewrite E1; cbn [bind]); reflexivity
       | cbn [bind step x_step]; unfold_flags; rewrite E; reflexivity ]).
  - destruct e; cbn [kind_of structural] in H; try discriminate H.
    + (* endDocument *)
      destruct m; [discriminate H|]. cbn [step s_step]. unfold_flags.
      destruct (flush STREE MFrag s) as [s1|] eqn:E; [|reflexivity]. cbn [bind step s_step]. unfold_flags.
      symmetry. apply (flush_idem _ _ _ _ E).
    + destruct (flush STREE m s) as [s1|] eqn:E;
       [ pose proof (flush_idem _ _ _ _ E) as E1; cbn [bind step s_step]; unfold_flags; rewrite E; cbn [bind];
         repeat (rewrite E1; cbn [bind]); reflexivity
       | cbn [bind step s_step]; unfold_flags; rewrite E; reflexivity ].
    + destruct (flush STREE m s) as [s1|] eqn:E;
       [ pose proof (flush_idem _ _ _ _ E) as E1; cbn [bind step s_step]; unfold_flags; rewrite E; cbn [bind];
         repeat (rewrite E1; cbn [bind]); reflexivity
       | cbn [bind step s_step]; unfold_flags; rewrite E; reflexivity ].
    + destruct (flush STREE m s) as [s1|] eqn:E;
       [ pose proof (flush_idem _ _ _ _ E) as E1; cbn [bind step s_step]; unfold_flags; rewrite E; cbn [bind];
         repeat (rewrite E1; cbn [bind]); reflexivity
       | cbn [bind step s_step]; unfold_flags; rewrite E; reflexivity ].
    + destruct (flush STREE m s) as [s1|] eqn:E;
       [ pose proof (flush_idem _ _ _ _ E) as E1; cbn [bind step s_step]; unfold_flags; rewrite E; cbn [bind];
         repeat (rewrite E1; cbn [bind]); reflexivity
       | cbn [bind step s_step]; unfold_flags; rewrite E; reflexivity ].
    + destruct (flush STREE m s) as [s1|] eqn:E;
       [ pose proof (flush_idem _ _ _ _ E) as E1; cbn [bind step s_step]; unfold_flags; rewrite E; cbn [bind];
         repeat (rewrite E1; cbn [bind]); reflexivity
       | cbn [bind step s_step]; unfold_flags; rewrite E; reflexivity ].
    + (* ignorable white space *)
      unfold top_of in H. destruct (flush STREE m s) as [s1|] eqn:E.
      * pose proof (flush_idem _ _ _ _ E) as E1. pose proof (flush_ctx _ _ _ _ E) as Ec1.
        cbn [bind step s_step]. rewrite Ec1.
        destruct m, (ctx s) eqn:Ec; cbn [is_nil] in H; try discriminate H; unfold_flags; rewrite E; cbn [bind]; rewrite E1; reflexivity.
      * cbn [bind step s_step].
        destruct m, (ctx s) eqn:Ec; cbn [is_nil] in H; try discriminate H; unfold_flags; rewrite E; reflexivity.
Qed.

(* ---- attributes ---- *)
Definition tag0 (p : str * str) : tattr := (fst p, [], snd p).

Lemma x_set_fresh : forall q v l,
  forallb (fun e : tattr => negb (str_eqb (fst (fst e)) q)) l = true -> x_set_attr q [] v l = l ++ [(q, [], v)].
Proof.
  intros q v l. induction l as [|e r IH]; intro H; [reflexivity|].
  cbn [forallb] in H. apply andb_prop in H. destruct H as [H1 H2]. cbn [x_set_attr app].
  destruct e as [[q' ns'] v']. cbn [x_key_match is_empty fst] in *. apply negb_true_iff in H1. rewrite H1, IH by exact H2. reflexivity.
Qed.

Lemma existsb_false_in : forall (A : Type) (f : A -> bool) l x, existsb f l = false -> In x l -> f x = false.
Proof.
  intros A f l x. induction l as [|y r IH]; intros H Hin; [destruct Hin|].
  cbn [existsb] in H. apply orb_false_iff in H. destruct H as [H1 H2]. destruct Hin as [E|Hin]; [subst; exact H1|auto].
Qed.

Lemma x_fold_fresh : forall a acc,
  no_dup (map fst a) = true ->
  (forall p, In p a -> forallb (fun e : tattr => negb (str_eqb (fst (fst e)) (fst p))) acc = true) ->
  fold_left (fun l p => x_set_attr (fst p) [] (snd p) l) a acc = acc ++ map tag0 a.
Proof.
  induction a as [|p r IH]; intros acc Hd Hf.
  - cbn. rewrite app_nil_r. reflexivity.
  - cbn [map no_dup] in Hd. apply andb_prop in Hd. destruct Hd as [Hp Hd]. cbn [fold_left map].
    rewrite x_set_fresh by (apply Hf; left; reflexivity). rewrite IH.
    + rewrite <- app_assoc. reflexivity.
    + exact Hd.
    + intros p' Hin. rewrite forallb_app. rewrite Hf by (right; exact Hin). cbn [forallb fst andb].
      apply negb_true_iff in Hp. rewrite (existsb_false_in _ _ _ (fst p') Hp); [reflexivity|]. apply in_map. exact Hin.
Qed.

Lemma x_attrs_distinct : forall a, no_dup (map fst a) = true -> x_attrs None a = map tag0 a.
Proof.
  intros a H. unfold x_attrs. cbn [x_attr_ns]. rewrite x_fold_fresh; [reflexivity|exact H|].
  intros; reflexivity.
Qed.

Lemma s_filter_tag : forall (g : str -> bool) a,
  map (s_tag None) (filter (fun p => g (fst p)) a) = filter (fun e : tattr => g (fst (fst e))) (map tag0 a).
Proof.
  intros g a. induction a as [|p r IH]; [reflexivity|]. cbn [filter map tag0 fst].
  destruct (g (fst p)); cbn [map]; rewrite IH; reflexivity.
Qed.

Lemma s_attrs_ns_first : forall a, s_attrs None a = ns_first (map tag0 a).
Proof.
  intro a. unfold s_attrs, ns_first.
  rewrite (s_filter_tag is_nsdecl a), (s_filter_tag (fun n => negb (is_nsdecl n)) a). reflexivity.
Qed.

Lemma mt_norm : forall l, merge_text (map norm_attrs l) = map norm_attrs (merge_text l).
Proof.
  induction l as [|h r IH]; [reflexivity|]. destruct h; try (cbn [map norm_attrs merge_text]; rewrite IH; reflexivity).
  destruct s as [|x s].
  - cbn [map norm_attrs merge_text]. exact IH.
  - cbn [map norm_attrs merge_text]. rewrite IH. destruct (merge_text r) as [|h' r']; [reflexivity|]. destruct h'; reflexivity.
Qed.

Lemma map_flat_map : forall (A B C : Type) (f : B -> C) (g : A -> list B) l,
  map f (flat_map g l) = flat_map (fun x => map f (g x)) l.
Proof. intros. induction l as [|x r IH]; [reflexivity|]. cbn [flat_map]. rewrite map_app, IH. reflexivity. Qed.

Lemma flat_map_forall : forall (A B : Type) (f g : A -> list B) l,
  Forall (fun x => f x = g x) l -> flat_map f l = flat_map g l.
Proof. intros A B f g l H. induction H; [reflexivity|]. cbn [flat_map]. rewrite H, IHForall. reflexivity. Qed.

(* on plain scripts with distinct attribute names and no resolver the two targets' images differ in attribute order only *)
Lemma img_agree : forall i, plain i = true -> attrs_distinct i = true ->
  forall m top, free m top = true -> map norm_attrs (img XDOM m None top i) = img STREE m None top i.
Proof.
  induction i as [n a body H|s|s|s|s|pa pb|s|nm] using item_ind2; intros Hp Hd m top Hf; try discriminate Hp.
  - cbn [plain] in Hp. cbn [attrs_distinct] in Hd. apply andb_prop in Hd. destruct Hd as [Ha Hd].
    cbn [img map norm_attrs t_attrs elem_ns]. rewrite x_attrs_distinct by exact Ha. rewrite s_attrs_ns_first.
    rewrite <- mt_norm, map_flat_map. do 3 f_equal.
    apply flat_map_forall. rewrite Forall_forall in *. intros x Hx.
    apply H; [exact Hx| | |reflexivity].
    + rewrite forallb_forall in Hp. apply Hp. exact Hx.
    + rewrite forallb_forall in Hd. apply Hd. exact Hx.
  - cbn [img]. rewrite top_chars_free by exact Hf. reflexivity.
  - reflexivity.
  - reflexivity.
Qed.

Lemma img_ideal : forall i, plain i = true -> attrs_distinct i = true ->
  forall m top, free m top = true -> img XDOM m None top i = ideal m None top i.
Proof.
  induction i as [n a body H|s|s|s|s|pa pb|s|nm] using item_ind2; intros Hp Hd m top Hf; try discriminate Hp.
  - cbn [plain] in Hp. cbn [attrs_distinct] in Hd. apply andb_prop in Hd. destruct Hd as [Ha Hd].
    cbn [img ideal t_attrs elem_ns]. rewrite x_attrs_distinct by exact Ha. do 3 f_equal.
    apply flat_map_forall. rewrite Forall_forall in *. intros x Hx.
    apply H; [exact Hx| | |reflexivity].
    + rewrite forallb_forall in Hp. apply Hp. exact Hx.
    + rewrite forallb_forall in Hd. apply Hd. exact Hx.
  - cbn [img ideal]. rewrite top_chars_free by exact Hf. reflexivity.
  - reflexivity.
  - reflexivity.
Qed.

(* the level the script's top items live on: free in fragment mode; in document mode the items outside the document
   element must not be characters *)
Definition top_plain (m : mode) (l : list item) : bool :=
  match m with MFrag => true | MDoc => no_top_chars l end.

Lemma img_agree_top : forall m i, plain i = true -> attrs_distinct i = true ->
  (m = MDoc -> forall s, i <> IChars s) ->
  map norm_attrs (img XDOM m None true i) = img STREE m None true i.
Proof.
  intros m i Hp Hd Hc. destruct m.
  - destruct i; try discriminate Hp; try reflexivity.
    + change (img XDOM MDoc None true (IElem n a body)) with (img XDOM MDoc None false (IElem n a body)).
      change (img STREE MDoc None true (IElem n a body)) with (img STREE MDoc None false (IElem n a body)).
      apply img_agree; [exact Hp|exact Hd|reflexivity].
    + exfalso. apply (Hc eq_refl s). reflexivity.
  - apply img_agree; [exact Hp|exact Hd|reflexivity].
Qed.

Lemma img_ideal_top : forall m i, plain i = true -> attrs_distinct i = true ->
  (m = MDoc -> forall s, i <> IChars s) ->
  img XDOM m None true i = ideal m None true i.
Proof.
  intros m i Hp Hd Hc. destruct m.
  - destruct i; try discriminate Hp; try reflexivity.
    + change (img XDOM MDoc None true (IElem n a body)) with (img XDOM MDoc None false (IElem n a body)).
      change (ideal MDoc None true (IElem n a body)) with (ideal MDoc None false (IElem n a body)).
      apply img_ideal; [exact Hp|exact Hd|reflexivity].
    + exfalso. apply (Hc eq_refl s). reflexivity.
  - apply img_ideal; [exact Hp|exact Hd|reflexivity].
Qed.

Lemma no_top_chars_in : forall l i, no_top_chars l = true -> In i l -> forall s, i <> IChars s.
Proof.
  induction l as [|x r IH]; intros i H Hin s; [destruct Hin|].
  destruct Hin as [E|Hin].
  - subst x. intro E. subst i. discriminate H.
  - apply IH; [|exact Hin]. destruct x; try exact H. discriminate H.
Qed.

Theorem den_t_agree : forall m items,
  forallb plain items = true -> forallb attrs_distinct items = true -> top_plain m items = true ->
  map norm_attrs (den_t XDOM m None items) = den_t STREE m None items.
Proof.
  intros m items Hp Hd Ht. unfold den_t. rewrite <- mt_norm, map_flat_map. f_equal.
  apply flat_map_forall. rewrite Forall_forall. intros x Hx.
  rewrite forallb_forall in Hp, Hd. apply img_agree_top; [apply Hp; exact Hx|apply Hd; exact Hx|].
  intros E. subst m. apply (no_top_chars_in items x Ht Hx).
Qed.

Theorem den_t_ideal : forall m items,
  forallb plain items = true -> forallb attrs_distinct items = true -> top_plain m items = true ->
  den_t XDOM m None items = den m None items.
Proof.
  intros m items Hp Hd Ht. unfold den_t, den. f_equal.
  apply flat_map_forall. rewrite Forall_forall. intros x Hx.
  rewrite forallb_forall in Hp, Hd. apply img_ideal_top; [apply Hp; exact Hx|apply Hd; exact Hx|].
  intros E. subst m. apply (no_top_chars_in items x Ht Hx).
Qed.

Lemma top_ok_plain : forall items seen, forallb plain items = true ->
  top_ok_go XDOM seen items = true -> top_ok_go STREE seen items = true.
Proof.
  induction items as [|i r IH]; intros seen Hp H; [reflexivity|].
  cbn [forallb] in Hp. apply andb_prop in Hp. destruct Hp as [Hi Hp].
  destruct i; try discriminate Hi; cbn [top_ok_go] in *.
  - apply andb_prop in H. destruct H as [H1 H2]. rewrite H1. cbn [andb]. apply IH; assumption.
  - apply andb_prop in H. destruct H as [H1 H2]. rewrite H1. cbn [andb]. apply IH; assumption.
  - apply IH; assumption.
  - apply IH; assumption.
Qed.

Theorem agree : forall m items,
  forallb plain items = true -> forallb attrs_distinct items = true -> top_plain m items = true ->
  top_ok XDOM m items = true ->
  run_target XDOM m None (script items) = Some (den m None items) /\
  run_target STREE m None (script items) = Some (map norm_attrs (den m None items)).
Proof.
  intros m items Hp Hd Ht Hok. split.
  - rewrite builds_den_t by exact Hok. rewrite den_t_ideal by assumption. reflexivity.
  - rewrite builds_den_t.
    + rewrite <- den_t_agree by assumption. rewrite den_t_ideal by assumption. reflexivity.
    + destruct m; [|reflexivity]. apply top_ok_plain; assumption.
Qed.

Lemma builds_frag : forall t res items, run_target t MFrag res (script items) = Some (den_t t MFrag res items).
Proof. intros t res items. exact (builds_den_t t MFrag res items eq_refl). Qed.

Lemma den_agree_both : forall m items,
  forallb plain items = true -> forallb attrs_distinct items = true -> top_plain m items = true ->
  map norm_attrs (den_t XDOM m None items) = den_t STREE m None items /\ den_t XDOM m None items = den m None items.
Proof. intros m items Hp Hd Ht. split; [apply den_t_agree|apply den_t_ideal]; assumption. Qed.
