// C11 part "cache": drives XObjectFactoryDefault and the XObjects it recycles directly (same line protocol as
// ocaml/xoCache_driver.ml):
//   <id>|<v0>;<v1>;...|<op> <op> ...      v = "u:.." string-value of <p> number i of the source <d><p>v0</p><p>v1</p>...</d>
//   ops: N<i>,<j>,..  createNodeSet(BorrowReturnMutableNodeRefList&) over those <p> in that order (N alone: empty)
//        S<i> createString(const XalanDOMString&) of v_i      D<16 hex>|Dnan createNumber(double)
//        n<k> num(ctx)  s<k> str(ctx)  t<k> str()  b<k> str(ctx, buffer)  c<k> str(buffer)  e<k> str(ctx, listener, fn)
//        f<k> str(listener, fn)  l<k> stringLength(ctx)  z<k> boolean(ctx)     -- of the k-th XObjectPtr held
//        r<k> the k-th XObjectPtr held is dropped (the object goes back to the factory)
//   output: <id>|<obs> <obs> ...   n:<16 hex>|n:nan  s:u:..  l:<int>  z:0|1
// Every case has a factory and an execution context of its own (the stacks start empty); the document is kept while the
// second field stays the same.  Public headers only.
#include "common.hpp"
#include <stdexcept>
#include <xercesc/framework/MemBufInputSource.hpp>
#include <xalanc/Include/XalanMemoryManagement.hpp>
#include <xalanc/PlatformSupport/FormatterListener.hpp>
#include <xalanc/PlatformSupport/DoubleSupport.hpp>
#include <xalanc/XalanDOM/XalanDocument.hpp>
#include <xalanc/XalanDOM/XalanElement.hpp>
#include <xalanc/XalanDOM/XalanNode.hpp>
#include <xalanc/XPath/XObject.hpp>
#include <xalanc/XPath/XObjectFactoryDefault.hpp>
#include <xalanc/XPath/XPathEnvSupportDefault.hpp>
#include <xalanc/XPath/XPathExecutionContextDefault.hpp>
#include <xalanc/XPath/MutableNodeRefList.hpp>
#include <xalanc/XalanSourceTree/XalanSourceTreeDOMSupport.hpp>
#include <xalanc/XalanSourceTree/XalanSourceTreeParserLiaison.hpp>

using namespace xalanc;
using namespace verif;

class Collect : public FormatterListener
{
public:
    Collect() : FormatterListener(OUTPUT_METHOD_NONE) {}
    XalanDOMString m_text;
    virtual void charactersRaw(const XMLCh* const, const size_type) {}
    virtual void comment(const XMLCh* const) {}
    virtual void cdata(const XMLCh* const, const size_type) {}
    virtual void entityReference(const XMLCh* const) {}
    virtual void characters(const XMLCh* const chars, const size_type length) { m_text.append(chars, length); }
    virtual void endDocument() {}
    virtual void endElement(const XMLCh* const) {}
    virtual void ignorableWhitespace(const XMLCh* const, const size_type) {}
    virtual void processingInstruction(const XMLCh* const, const XMLCh* const) {}
    virtual void resetDocument() {}
    virtual void setDocumentLocator(const Locator* const) {}
    virtual void startDocument() {}
    virtual void startElement(const XMLCh* const, AttributeList&) {}
};

static std::vector<std::string> split_on(const std::string& s, char c)
{
    std::vector<std::string> out; size_t i = 0;
    while (true) { size_t j = s.find(c, i); if (j == std::string::npos) { out.push_back(s.substr(i)); break; } out.push_back(s.substr(i, j - i)); i = j + 1; }
    return out;
}

// UTF-8 of the code units (pairs combined), markup escaped
static void xml_text(std::string& out, const XalanDOMString& s)
{
    for (XalanDOMString::size_type i = 0; i < s.length(); ++i) {
        unsigned long c = s[i];
        if (c >= 0xD800 && c <= 0xDBFF && i + 1 < s.length() && s[i + 1] >= 0xDC00 && s[i + 1] <= 0xDFFF) {
            c = 0x10000 + ((c - 0xD800) << 10) + (s[i + 1] - 0xDC00); ++i;
        }
        if (c == '<') out += "&lt;";
        else if (c == '&') out += "&amp;";
        else if (c == '>') out += "&gt;";
        else if (c == 13) out += "&#13;";
        else if (c < 0x80) out += (char) c;
        else if (c < 0x800) { out += (char) (0xC0 | (c >> 6)); out += (char) (0x80 | (c & 0x3F)); }
        else if (c < 0x10000) { out += (char) (0xE0 | (c >> 12)); out += (char) (0x80 | ((c >> 6) & 0x3F)); out += (char) (0x80 | (c & 0x3F)); }
        else { out += (char) (0xF0 | (c >> 18)); out += (char) (0x80 | ((c >> 12) & 0x3F)); out += (char) (0x80 | ((c >> 6) & 0x3F)); out += (char) (0x80 | (c & 0x3F)); }
    }
}

int main(int argc, char** argv)
{
    Init init;
    std::istream* in = &std::cin;
    std::ifstream f;
    if (argc > 1) { f.open(argv[1]); in = &f; }
    MemoryManager& mm = XalanMemMgrs::getDefaultXercesMemMgr();
    std::string line, lastVals;
    XalanSourceTreeDOMSupport* dom = 0;
    XalanSourceTreeParserLiaison* liaison = 0;
    std::vector<XalanNode*> ps;
    std::vector<XalanDOMString> vals;
    bool haveDoc = false;
    while (std::getline(*in, line)) {
        if (line.empty() || line[0] == '#') continue;
        std::vector<std::string> fs = split_on(line, '|');
        if (fs.size() != 3) continue;
        const std::string& id = fs[0];
        try {
            if (!haveDoc || fs[1] != lastVals) {
                delete liaison; delete dom; haveDoc = false;
                dom = new XalanSourceTreeDOMSupport;
                liaison = new XalanSourceTreeParserLiaison(*dom, mm);
                dom->setParserLiaison(liaison);
                vals.clear(); ps.clear();
                std::string xml = "<d>";
                std::vector<std::string> vs = split_on(fs[1], ';');
                for (size_t i = 0; i < vs.size(); ++i) {
                    if (vs[i].empty()) continue;
                    vals.push_back(u16_of_token(vs[i]));
                    xml += "<p>"; xml_text(xml, vals.back()); xml += "</p>";
                }
                xml += "</d>";
                xercesc::MemBufInputSource src((const XMLByte*) xml.data(), xml.size(), "case");
                XalanDocument* doc = liaison->parseXMLStream(src);
                for (XalanNode* n = doc->getDocumentElement()->getFirstChild(); n != 0; n = n->getNextSibling())
                    if (n->getNodeType() == XalanNode::ELEMENT_NODE) ps.push_back(n);
                if (ps.size() != vals.size()) throw std::runtime_error("document");
                lastVals = fs[1]; haveDoc = true;
            }
        } catch (...) {
            std::cout << id << "|docerr" << '\n';
            haveDoc = false;
            continue;
        }
        std::string out;
        try {
            XPathEnvSupportDefault env(mm);
            XObjectFactoryDefault factory(mm);
            XPathExecutionContextDefault ec(mm);
            ec.setXPathEnvSupport(&env);
            ec.setXObjectFactory(&factory);
            ec.setDOMSupport(dom);
            {
                std::vector<XObjectPtr> held;
                std::vector<std::string> ops = split_on(fs[2], ' ');
                char buf[64];
                for (size_t o = 0; o < ops.size(); ++o) {
                    const std::string& t = ops[o];
                    if (t.empty()) continue;
                    const std::string r = t.substr(1);
                    std::string obs;
                    if (t[0] == 'N') {
                        XPathExecutionContext::BorrowReturnMutableNodeRefList l(ec);
                        if (!r.empty()) {
                            std::vector<std::string> ids = split_on(r, ',');
                            for (size_t k = 0; k < ids.size(); ++k) {
                                size_t i = (size_t) std::strtoul(ids[k].c_str(), 0, 10);
                                if (i >= ps.size()) throw std::runtime_error("index");
                                l->addNode(ps[i]);
                            }
                        }
                        held.push_back(factory.createNodeSet(l));
                        continue;
                    }
                    if (t[0] == 'S') {
                        size_t i = (size_t) std::strtoul(r.c_str(), 0, 10);
                        if (i >= vals.size()) throw std::runtime_error("index");
                        held.push_back(factory.createString(vals[i]));
                        continue;
                    }
                    if (t[0] == 'D') {
                        held.push_back(factory.createNumber(r == "nan" ? DoubleSupport::getNaN() : dbl_of_bits(hex64(r))));
                        continue;
                    }
                    size_t k = (size_t) std::strtoul(r.c_str(), 0, 10);
                    if (k >= held.size()) continue;
                    if (t[0] == 'r') { held.erase(held.begin() + k); continue; }
                    const XObjectPtr& x = held[k];
                    switch (t[0]) {
                    case 'n': obs = "n:" + show_dbl(x->num(ec)); break;
                    case 's': obs = "s:" + token_of_u16(x->str(ec)); break;
                    case 't': obs = "s:" + token_of_u16(x->str()); break;
                    case 'b': { XalanDOMString b(mm); x->str(ec, b); obs = "s:" + token_of_u16(b); } break;
                    case 'c': { XalanDOMString b(mm); x->str(b); obs = "s:" + token_of_u16(b); } break;
                    case 'e': { Collect c; x->str(ec, c, &FormatterListener::characters); obs = "s:" + token_of_u16(c.m_text); } break;
                    case 'f': { Collect c; x->str(c, &FormatterListener::characters); obs = "s:" + token_of_u16(c.m_text); } break;
                    case 'l': { double d = x->stringLength(ec); std::snprintf(buf, sizeof buf, "l:%.0f", d); obs = buf; } break;
                    case 'z': obs = x->boolean(ec) ? "z:1" : "z:0"; break;
                    default: continue;
                    }
                    if (!out.empty()) out += ' ';
                    out += obs;
                }
            }
        } catch (...) {
            std::cout << id << "|exception" << '\n';
            continue;
        }
        std::cout << id << '|' << out << '\n';
    }
    delete liaison; delete dom;
    return 0;
}
