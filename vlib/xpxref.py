"""Reference definitions of the EXSLT / xalan: extension functions, id() and the XSLT context functions,
written from the PUBLISHED definitions (EXSLT module pages for sets, math, strings, common, dynamic; the
Xalan extensions library documentation; XPath 1.0 section 4.1 for id(); XSLT 1.0 section 12.4), on top of
the data model of vlib/xpref.py.  It is the oracle of the extension part of C02: independent of the library
and of the Coq model.  (exslt.org is not available offline; the definition used is quoted per function.)

Values as in xpref: bool | float | str | list of node ids in document order.  `units=True` switches the
string functions that count characters to UTF-16 code units (the library's reading: known finding K6)."""
import math
from vlib import xpref
from vlib.xpref import XPathTypeError

XSL_ELEMENTS = {"apply-imports", "apply-templates", "attribute", "attribute-set", "call-template", "choose", "comment",
                "copy", "copy-of", "decimal-format", "element", "fallback", "for-each", "if", "import", "include", "key",
                "message", "namespace-alias", "number", "otherwise", "output", "param", "preserve-space",
                "processing-instruction", "sort", "strip-space", "stylesheet", "template", "text", "transform",
                "value-of", "variable", "when", "with-param"}
# XSLT 1.0 section 15: element-available is about INSTRUCTIONS; top-level elements are not instructions
XSL_INSTRUCTIONS = {"apply-imports", "apply-templates", "attribute", "call-template", "choose", "comment", "copy",
                    "copy-of", "element", "fallback", "for-each", "if", "message", "number", "processing-instruction",
                    "text", "value-of", "variable"}
CORE_FUNCTIONS = {"last", "position", "count", "id", "local-name", "namespace-uri", "name", "string", "concat",
                  "starts-with", "contains", "substring-before", "substring-after", "substring", "string-length",
                  "normalize-space", "translate", "boolean", "not", "true", "false", "lang", "number", "sum", "floor",
                  "ceiling", "round", "document", "key", "format-number", "current", "unparsed-entity-uri",
                  "generate-id", "system-property", "element-available", "function-available"}
# EXSLT math:constant: "The possible constants are: PI, E, SQRRT2, LN2, LN10, LOG2E, SQRT1_2" (the published page
# spells SQRRT2; libexslt implements that spelling too)
CONSTANTS = {
    "PI": "3.1415926535897932384626433832795028841971693993751",
    "E": "2.71828182845904523536028747135266249775724709369996",
    "SQRRT2": "1.41421356237309504880168872420969807856967187537694",
    "LN2": "0.69314718055994530941723212145817656807550013436025",
    "LN10": "2.30258509299404568401799145468436420760110148862877",
    "LOG2E": "1.4426950408889634073599246810018921374266459541529859",
    "SQRT1_2": "0.7071067811865475244008443621048490392848359376884740",
}
RESERVED = ";/?:@&=+$,[]"
UNRESERVED_MARK = "-_.!~*'()"


def utf16(s):
    b = s.encode("utf-16-le", "surrogatepass")
    return [b[i:i + 2] for i in range(0, len(b), 2)]


def from_utf16(units):
    return b"".join(units).decode("utf-16-le", "surrogatepass")


class XRef(xpref.Ref):
    def __init__(self, nodes, variables=None, units=False, negzero=False, ids=None, entities=None, current=None,
                 evalmap=None, base="file:///vmem/"):
        super().__init__(nodes, variables, units=units, negzero=negzero)
        self.ids = ids or {}            # ID value -> element id
        self.entities = entities or {}
        self.current = current
        self.evalmap = evalmap or {}    # expression string -> AST (for dyn:evaluate / xalan:evaluate)
        self.base = base

    # ---- helpers ----
    def chars(self, s):
        return utf16(s) if self.units else list(s)

    def unchars(self, l):
        return from_utf16(l) if self.units else "".join(l)

    def numval(self, n):
        x = xpref.str_to_num(self.string_value(n))
        return 0.0 if (self.negzero and x == 0) else x

    def id_lookup(self, s):
        """XPath 1.0 4.1: 'the string is split into a whitespace-separated list of tokens (whitespace is any sequence
        of characters matching the production S); the result is a node-set containing the elements in the same
        document as the context node that have a unique ID equal to any of the tokens in the list'"""
        toks, cur = [], ""
        for ch in s:
            if ch in " \t\r\n":
                if cur:
                    toks.append(cur)
                cur = ""
            else:
                cur += ch
        if cur:
            toks.append(cur)
        return sorted({self.ids[t] for t in toks if t in self.ids})

    def fn(self, name, args, n, pos, size):
        A = lambda i: self.ev(args[i], n, pos, size)
        k = len(args)

        def need(*counts):
            if k not in counts:
                raise XPathTypeError("argument count")

        def nodes(i):
            v = A(i)
            if not isinstance(v, list) or any(isinstance(x, tuple) for x in v):
                raise XPathTypeError("node-set expected")
            return v
        S = lambda i: self.to_str(A(i))
        Nn = lambda i: self.to_num(A(i))

        # ------------------------------------------------------------------ EXSLT sets / xalan set functions
        if name in ("set:difference", "xalan:difference"):
            # "returns a node set comprising the nodes that are within the node set passed as the first argument
            #  that are not in the node set passed as the second argument"
            need(2); a, b = nodes(0), set(nodes(1)); return [x for x in a if x not in b]
        if name in ("set:intersection", "xalan:intersection"):
            # "returns a node set comprising the nodes that are within both the node sets passed as arguments"
            need(2); a, b = nodes(0), set(nodes(1)); return [x for x in a if x in b]
        if name in ("set:distinct", "xalan:distinct"):
            # "selects a node N if there is no node in NS that has the same string value as N, and that precedes N
            #  in document order"
            need(1)
            seen, out = set(), []
            for x in sorted(nodes(0)):
                v = self.string_value(x)
                if v not in seen:
                    seen.add(v)
                    out.append(x)
            return out
        if name == "set:has-same-node":
            # "returns true if the node set passed as the first argument shares any nodes with the node set passed
            #  as the second argument"
            need(2); return bool(set(nodes(0)) & set(nodes(1)))
        if name == "xalan:hasSameNodes":
            # Xalan extensions library: "returns true if both node-sets contain exactly the same set of nodes"
            need(2); return set(nodes(0)) == set(nodes(1))
        if name in ("set:leading", "set:trailing"):
            # "returns the nodes in the node set passed as the first argument that precede [follow], in document order,
            #  the first node in the node set passed as the second argument.  If the first node in the second node set
            #  is not contained in the first node set, then an empty node set is returned.  If the second node set is
            #  empty, then the first node set is returned."
            need(2); a, b = nodes(0), nodes(1)
            if not b:
                return a
            f = min(b)
            if f not in a:
                return []
            return [x for x in a if (x < f if name == "set:leading" else x > f)]
        # ------------------------------------------------------------------ EXSLT math
        if name in ("math:min", "math:max"):
            # "The minimum [maximum] is the result of converting the string value of the first node in this sorted
            #  list to a number ... If the node set is empty, or if the result of converting the string values of any
            #  of the nodes to a number is NaN, then NaN is returned."
            need(1); vals = [self.numval(x) for x in nodes(0)]
            if not vals or any(v != v for v in vals):
                return float("nan")
            return min(vals) if name == "math:min" else max(vals)
        if name in ("math:highest", "math:lowest"):
            # "returns the nodes in the node set whose value is the maximum [minimum] value for the node set ... if
            #  any of the nodes in the node set has a non-numeric value, math:highest will return an empty node set"
            need(1); ns = nodes(0); vals = [self.numval(x) for x in ns]
            if not vals or any(v != v for v in vals):
                return []
            m = max(vals) if name == "math:highest" else min(vals)
            return [x for x, v in zip(ns, vals) if v == m]
        if name == "math:abs":
            need(1); x = Nn(0); return x if x != x else abs(x)
        if name in ("math:sqrt", "math:sin", "math:cos", "math:tan", "math:asin", "math:acos", "math:atan", "math:exp", "math:log"):
            need(1); return libm1(name[5:], Nn(0))
        if name == "math:power":
            need(2); return libm_pow(Nn(0), Nn(1))
        if name == "math:atan2":
            need(2); return libm_atan2(Nn(0), Nn(1))
        if name == "math:constant":
            need(2); return ("constant", S(0), Nn(1))      # judged by check_constant
        # ------------------------------------------------------------------ EXSLT strings
        if name == "str:concat":
            # "returns the concatenation of the string values of the nodes in that node set.  If the node set is
            #  empty, it returns an empty string."
            need(1); return "".join(self.string_value(x) for x in nodes(0))
        if name == "str:padding":
            # "creates a padding string of a certain length ... This string is repeated as many times as is necessary
            #  to create a padding string of the length specified by the first argument; if the string is more than a
            #  character long, it may have to be truncated ... defaults to a space ... If the second argument is an
            #  empty string, str:padding returns an empty string."
            need(1, 2); ln = Nn(0); pad = self.chars(S(1) if k == 2 else " ")
            if ln != ln or math.isinf(ln):
                return ("undefined",)
            ln = int(xpref.xround(ln))
            if ln <= 0 or not pad:
                return "" if ln >= 0 else ("undefined",)
            return self.unchars([pad[i % len(pad)] for i in range(ln)])
        if name == "str:align":
            # "If the target string is shorter than the padding string then a range of characters in the padding
            #  string are replaced with those in the target string ... 'left', 'right' or 'center'.  If no third
            #  argument is given or if it is not one of these values, then it defaults to left alignment ... center:
            #  either the number of unreplaced characters on either side of the range is the same or there is one
            #  less on the left than there is on the right.  If the target string is longer than the padding string,
            #  then it is truncated to be the same length as the padding string and returned."
            need(2, 3); t, p = self.chars(S(0)), self.chars(S(1)); a = S(2) if k == 3 else "left"
            if len(t) >= len(p):
                return self.unchars(t[:len(p)])
            free = len(p) - len(t)
            start = {"right": free, "center": free // 2}.get(a, 0)
            return self.unchars(p[:start] + t + p[start + len(t):])
        if name == "str:encode-uri":
            # "returns an encoded URI ... escaping ... all characters except the unreserved ones (letters, digits and
            #  - _ . ! ~ * ' ( )); if the second argument is false, the reserved characters ; / ? : @ & = + $ , [ ] are
            #  not escaped either; each octet of the character's UTF-8 encoding becomes %HH; default encoding UTF-8;
            #  an unsupported encoding gives the empty string"
            need(2, 3); s, esc = S(0), self.to_bool(A(1))
            if k == 3 and S(2).upper().replace("_", "-") not in ("UTF-8", "UTF8"):
                return ("any-of", [""])     # other encodings are optional
            out = []
            for ch in s:
                if (ch.isascii() and ch.isalnum()) or ch in UNRESERVED_MARK or (not esc and ch in RESERVED):
                    out.append(ch)
                else:
                    out.append("".join("%%%02X" % b for b in ch.encode("utf-8", "surrogatepass")))
            return "".join(out)
        if name == "str:decode-uri":
            # "returns the decoded string: every %HH escape sequence is replaced by the character whose UTF-8 encoding
            #  the octets form" (defined here only for well-formed escapes of valid UTF-8; hex digits of either case)
            need(1, 2); s = S(0)
            if k == 2 and S(1).upper() not in ("UTF-8", "UTF8"):
                return ("any-of", [""])
            out, i = bytearray(), 0
            while i < len(s):
                if s[i] == "%":
                    h = s[i + 1:i + 3]
                    if len(h) != 2 or any(c not in "0123456789abcdefABCDEF" for c in h):
                        return ("undefined",)
                    out.append(int(h, 16))
                    i += 3
                else:
                    out += s[i].encode("utf-8", "surrogatepass")
                    i += 1
            try:
                return bytes(out).decode("utf-8")
            except UnicodeDecodeError:
                return ("undefined",)
        # ------------------------------------------------------------------ EXSLT common / dynamic, xalan:nodeset / evaluate
        if name == "exsl:object-type":
            # "returns a string giving the type of the object passed as the argument: 'string', 'number', 'boolean',
            #  'node-set', 'RTF' or 'external'"
            need(1); v = A(0)
            return "boolean" if isinstance(v, bool) else "number" if isinstance(v, float) else "string" if isinstance(v, str) else "node-set"
        if name in ("exsl:node-set", "xalan:nodeset"):
            need(1); v = A(0)
            if isinstance(v, list):
                return v           # "if the argument is a node-set already, it is returned"
            return ("undefined",)  # result tree fragments / strings: checked by the fixed battery
        if name in ("dyn:evaluate", "xalan:evaluate"):
            # "evaluates a string as an XPath expression and returns the resulting value ... The context of the
            #  evaluation is the same as the context of the dyn:evaluate call"; dyn: "If the expression string passed
            #  as the argument is an invalid XPath expression (including an empty string), this function returns an
            #  empty node-set."
            need(1); s = S(0)
            if s in self.evalmap:
                ast = self.evalmap[s]
                if ast is None:
                    if name == "dyn:evaluate":
                        return []
                    raise XPathTypeError("invalid expression")
                return self.ev(ast, n, pos, size)
            return ("undefined",)
        # ------------------------------------------------------------------ XPath id(), XSLT functions
        if name == "id":
            need(1); v = A(0)
            if isinstance(v, list):
                out = set()
                for x in v:
                    out |= set(self.id_lookup(self.string_value(x)))
                return sorted(out)
            return self.id_lookup(self.to_str(v))
        if name == "current":
            need(0); return [self.current if self.current is not None else n]
        if name == "function-available":
            # XSLT 15: "returns true if and only if the expanded-name is the name of a function in the function library"
            need(1); q = S(0)
            if ":" not in q:
                return q in CORE_FUNCTIONS
            return ("available", q)
        if name == "element-available":
            # "returns true if and only if the expanded-name is the name of an instruction"
            need(1); q = S(0)
            if q.startswith("xsl:"):
                return q[4:] in XSL_INSTRUCTIONS
            if ":" not in q:
                return False       # null namespace URI: false
            return ("any-of", [True, False])
        if name == "system-property":
            # 12.4: xsl:version "a number giving the version of XSLT implemented by the processor; for XSLT processors
            # implementing the version of XSLT specified by this document, this is the number 1.0"; xsl:vendor,
            # xsl:vendor-url strings; "If there is no such system property, the empty string should be returned."
            need(1); q = S(0)
            if q == "xsl:version":
                return 1.0
            if q in ("xsl:vendor", "xsl:vendor-url"):
                return ("nonempty-string",)
            return ""
        if name == "unparsed-entity-uri":
            # "returns the URI of the unparsed entity with the specified name in the same document as the context node.
            #  It returns the empty string if there is no such entity."
            need(1); q = S(0)
            if q not in self.entities:
                return ""
            u = self.entities[q]
            if ":" in u:
                return u
            return ("any-of", [u, self.base + u])    # XSLT 1.0 does not say whether a relative system identifier is resolved
        return super().fn(name, args, n, pos, size)


def libm1(fn, x):
    if x != x:
        return x
    try:
        return getattr(math, fn)(x)
    except ValueError:
        if fn == "log" and x == 0:
            return float("-inf")
        return float("nan")
    except OverflowError:
        return float("inf")


def libm_pow(x, y):
    try:
        return math.pow(x, y)
    except ValueError:
        if x == 0 and y < 0:
            odd = y == int(y) and int(y) % 2 == 1
            return math.copysign(float("inf"), x) if odd else float("inf")
        return float("nan")
    except OverflowError:
        neg = x < 0 and y == int(y) and int(y) % 2 == 1
        return float("-inf") if neg else float("inf")


def libm_atan2(y, x):
    if x != x or y != y:
        return float("nan")
    return math.atan2(y, x)


def check_constant(name, precision, got):
    """math:constant(name, precision): 'returns the specified constant to a set precision'.  The published text does
    not say whether precision counts digits, decimals or characters, so the judgement is: the value is the constant's
    decimal expansion cut (or rounded) at some digit, and it is within 10^(1-precision) of the constant.  An unknown
    name gives NaN.  Returns None if fine, else text."""
    if name not in CONSTANTS:
        return None if got != got else "unknown constant %r must give NaN, got %r" % (name, got)
    if precision != precision or precision < 1:
        return None     # not defined
    c = CONSTANTS[name]
    if got != got:
        return "NaN for the constant %s" % name
    from decimal import Decimal, ROUND_HALF_EVEN, ROUND_DOWN
    ok = False
    import decimal
    with decimal.localcontext() as dc:
        dc.prec = 120
        for kdig in range(0, 40):
            q = Decimal(1).scaleb(-kdig)
            for mode in (ROUND_DOWN, ROUND_HALF_EVEN):
                if float(Decimal(c).quantize(q, rounding=mode)) == got:
                    ok = True
    if not ok:
        return "%r is not the expansion of %s cut at any digit" % (got, name)
    if abs(got - float(c)) >= 10.0 ** (1 - min(precision, 300)) and got != float(c):
        return "%r is farther than 10^(1-%g) from %s" % (got, precision, name)
    return None


def close(a, b):
    """libm results: equal, or within 2 ulp (the definitions say 'the sine of', not which rounding)"""
    if a != a or b != b:
        return a != a and b != b
    if a == b:
        return True
    if math.isinf(a) or math.isinf(b):
        return False
    return abs(a - b) <= 4 * abs(math.ulp(b))
