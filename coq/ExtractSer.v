(* Extraction of the C04 model for the correspondence driver. ExtrOcamlBasic only. *)
Require Import ExtrOcamlBasic.
From Coq Require Import ZArith.
Require Import XV.SerDefs XV.XmlParseDefs.
(* Z.of_N only so that the type z exists for ocaml/conv.ml *)
Extraction "extracted/ser_model.ml" serialize_fast serialize_other_fast rep_all parse_content parse_attr Z.of_N.
