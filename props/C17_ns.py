"""C17, part "ns": xsl:number WITHOUT a count attribute on source elements with prefixes and default namespaces.

XSLT 1.0 section 7.7: "If the count attribute is not specified, then it defaults to the pattern that matches any
node with the same node type as the current node and, if the current node has an expanded-name, with the same
expanded-name as the current node."  ElemNumber::getCountMatchPattern builds that pattern from the node's
qualified name and must resolve the prefix IN THE SOURCE ELEMENT's scope (ElementPrefixResolverProxy), whatever
the stylesheet binds the prefix to (seed C17_d).  The core C17 streams use documents without namespaces; this
part supplies them.  Oracle: an independent Python computation of 7.7 with expanded names (single / multiple /
any), on documents where one prefix means different namespaces in different subtrees, a default namespace is
switched on and off, and the stylesheet binds the same prefixes to other URIs or not at all."""
from vlib import core, xsltrun

XSL = "http://www.w3.org/1999/XSL/Transform"
URIS = ["urn:a", "urn:b", "urn:c"]


def gen_doc(r, max_nodes):
    """tree of (qname, {prefix: uri} declared here, kids); prefix '' = default namespace ('' uri = undeclare)"""
    budget = [max_nodes]

    def elem(depth, scope):
        budget[0] -= 1
        decl = {}
        if r.random() < 0.35:
            decl[r.choice(["d", "e"])] = r.choice(URIS)
        if r.random() < 0.2:
            decl[""] = r.choice(URIS + [""])
        sc = dict(scope)
        sc.update(decl)
        cands = [""] + [p for p in ("d", "e") if p in sc]
        p = r.choice(cands)
        local = r.choice(["x", "x", "y"])
        kids = []
        for _ in range(0 if depth >= 4 else r.choice([0, 1, 2, 3, 4])):
            if budget[0] <= 0:
                break
            kids.append(elem(depth + 1, sc))
        return {"q": (p + ":" if p else "") + local, "local": local, "uri": sc.get(p, "") if p else sc.get("", ""), "decl": decl, "kids": kids}

    top = elem(0, {"d": "urn:a"})
    top["decl"].setdefault("d", "urn:a")
    # re-derive the expanded names (the top element's scope changed)
    def fix(n, scope):
        sc = dict(scope)
        sc.update(n["decl"])
        p = n["q"].split(":")[0] if ":" in n["q"] else ""
        n["uri"] = sc.get(p, "") if p else sc.get("", "")
        for k in n["kids"]:
            fix(k, sc)
    fix(top, {})
    return top


def serialize(n):
    at = "".join(' xmlns%s="%s"' % ((":" + p) if p else "", u) for p, u in sorted(n["decl"].items()))
    return "<%s%s>%s</%s>" % (n["q"], at, "".join(serialize(k) for k in n["kids"]), n["q"])


def flatten(top):
    out = []

    def go(n, parent):
        n["parent"] = parent
        n["i"] = len(out)
        out.append(n)
        for k in n["kids"]:
            go(k, n)
    go(top, None)
    return out


def same(a, b):
    return a["local"] == b["local"] and a["uri"] == b["uri"]


def expected(nodes, n, level):
    if level == "any":
        return str(sum(1 for m in nodes[:n["i"] + 1] if same(m, n)))
    def sib_number(m):
        if m["parent"] is None:
            return 1
        return 1 + sum(1 for s in m["parent"]["kids"] if s["i"] < m["i"] and same(s, n))
    if level == "single":
        return str(sib_number(n))          # the node itself matches its own default pattern
    chain, m = [], n
    while m is not None:
        if same(m, n):
            chain.append(m)
        m = m["parent"]
    return ".".join(str(sib_number(m)) for m in reversed(chain))


def sheet(level, binding):
    ns = {"same": ' xmlns:d="urn:a" xmlns:e="urn:b"', "other": ' xmlns:d="urn:zzz" xmlns:e="urn:a"', "none": ""}[binding]
    return ('<xsl:stylesheet version="1.0" xmlns:xsl="%s"%s><xsl:output method="text"/>'
            '<xsl:template match="/"><xsl:for-each select="//*"><xsl:number level="%s"/>,</xsl:for-each></xsl:template>'
            '</xsl:stylesheet>' % (XSL, ns, level))


def run_part(ctx):
    exe, ok_h, hlog = xsltrun.build()
    if not ok_h:
        ctx.broken.append("xslt driver does not compile against the working tree: " + hlog[-400:])
        return
    r = ctx.rng
    n_docs = 40 if not ctx.thorough else 400
    cases, meta = [], {}
    for i in range(n_docs):
        top = gen_doc(r, r.choice([6, 12, 25]))
        src = serialize(top)
        nodes = flatten(top)
        for level in ("single", "multiple", "any"):
            binding = r.choice(["same", "other", "none"])
            cid = "ns%d_%s" % (i, level)
            cases.append({"id": cid, "sheet": sheet(level, binding), "source": src})
            meta[cid] = (nodes, level, binding, src)
    res = xsltrun.run(cases, exe=exe)
    bad = []
    for cid, (nodes, level, binding, src) in meta.items():
        ctx.cov["evaluations"] += len(nodes)
        ctx.count("ns-default-count:%s:%s" % (level, binding))
        want = "".join(expected(nodes, n, level) + "," for n in nodes)
        rr = res.get(cid, ("crash",))
        got = rr[1].decode("utf-8", "replace") if rr[0] == "ok" else repr(rr[:3])
        if got != want:
            bad.append((len(src), cid, level, binding, src, want, got))
        else:
            ctx.cov["traces_validated_against_impl"] += len(nodes)
    if bad:
        bad.sort()
        txt = "\n".join("# xsl:number level=%s without count; stylesheet prefix bindings: %s\nSHEET %s\nSOURCE %s\n# expected (XSLT 7.7, same expanded-name): %s\n# library                                : %s\n"
                        % (b[2], b[3], sheet(b[2], b[3]), b[4], b[5], b[6]) for b in bad[:5])
        ctx.violation("oracle_ns", "# C17: default count pattern on namespaced source elements (%d of %d transformations differ)\n%s" % (len(bad), len(meta), txt))
    ctx.notes["ns_default_count_failures"] = len(bad)
