(* Extraction of the C20 container models for the correspondence driver. ExtrOcamlBasic only.
   (positive / N / Z are extracted only because the shared ocaml/conv.ml glue mentions them.) *)
Require Import ExtrOcamlBasic.
Require Import BinNums.
Require Import XV.GenCont XV.ContVecDefs XV.ContMapDefs XV.ContStrDefs XV.ContDeqDefs XV.ContListDefs.
Extraction "extracted/cont_model.ml"
  BinNums.positive BinNums.N BinNums.Z
  vrun vstep vinit cur_vec set_cur vsize mrun new_map mkms
  strun stinit drun new_deq mkds set_run grun ginit.
