(* SerLegacyMarkup.v — C04, part "legacy": comments, processing instructions and names of the legacy
   serializer with the repair fixes/C04/12-K-new-8 (chk = true): the data is written verbatim or not
   at all, it is written exactly when FormatterToXMLUnicode writes it, and the model parser reads the
   node back (C04's guards comment_ok / pi_ok); without the repair (chk = false) a character outside
   the encoding becomes a character reference that the parser reads as text (finding K-new-8). *)
From Coq Require Import NArith List Bool Lia ZifyBool ZifyNat ZifyN.
Require Import XV.GenSer XV.GenSerLegacy XV.SerDefs XV.XmlParseDefs XV.XmlDocDefs XV.SerDocDefs XV.SerEscModel
               XV.SerEscModel2 XV.SerDocModel XV.SerLegacyDefs XV.SerLegacyModel.
Import ListNotations.
Local Open Scope N_scope.

Definition ref_only (v11 : bool) (c : N) : bool :=
  (c =? 13) || ((c <? 32) && negb (c =? 9) && negb (c =? 10))
  || (v11 && ((c =? 8232) || ((127 <=? c) && (c <=? 159)))).

Lemma lg_ref_only_eq : forall g c, lg_ref_only g c = ref_only (lc_v11 g) c.
Proof. reflexivity. Qed.

(* the legacy test is the test of FormatterToXMLUnicode::writeNormalizedData (tables of GenSer.v) *)
Lemma sweep_ref_only : forall v11,
  forallb (fun c => Bool.eqb (ref_only v11 c) (p_comment_error v11 c)) (map (fun k => 1 + k) (upto 158)) = true.
Proof. intros [|]; vm_compute; reflexivity. Qed.

Lemma ref_only_is_comment_error : forall v11 c, c <> 0 -> ref_only v11 c = p_comment_error v11 c.
Proof.
  intros v11 c Hc. destruct (c <=? 159) eqn:E.
  - pose proof (sweep_ref_only v11) as S. rewrite forallb_forall in S.
    assert (I : In c (map (fun k => 1 + k) (upto 158))).
    { apply in_map_iff. exists (c - 1). split; [lia|]. apply upto_in. lia. }
    specialize (S c I). apply eqb_prop in S. exact S.
  - unfold ref_only, p_comment_error, p_crforbidden, comment_eol, sp_last, last_special_1_0, last_special_1_1.
    assert (E1 : ((if v11 then 159 else 127) <? c) = true) by (destruct v11; lia). rewrite E1.
    change comment_eol_is_error with true. destruct v11; lia.
Qed.

Lemma wf_text_no_zero : forall v11 s, wf_text v11 s = true -> ~ In 0 s.
Proof.
  intros v11. apply (wf_text_ind' v11 (fun s => ~ In 0 s)).
  - intros [].
  - intros hi lo r Hh Hl _ IH [E|[E|H]]; [subst hi; discriminate|subst lo; discriminate|exact (IH H)].
  - intros c r Hh Hl Hx _ IH [E|H]; [subst c; destruct v11; discriminate|exact (IH H)].
Qed.

Lemma ref_only_10 : forall v, ref_only v 10 = false.
Proof. intros [|]; reflexivity. Qed.

Section Markup.
  Variable g : lcfg.
  Hypothesis Hm : lg_max_ok (lc_max g) = true.
  Let v11 := lc_v11 g.

  Definition rep_g (c : N) : bool := negb (lc_max g <? c).

  Lemma put_rep : forall c, rep_g c = true -> lg_put g c = [c].
  Proof. intros c H. unfold rep_g in H. unfold lg_put. destruct (lc_max g <? c); [discriminate|reflexivity]. Qed.

  Lemma rep_10 : rep_g 10 = true.
  Proof. unfold rep_g. unfold lg_max_ok in Hm. lia. Qed.

  (* ---- accumMarkupRun ------------------------------------------------------------------------ *)
  Lemma run_ok : forall r, sur_paired r = true -> forallb rep_g r = true -> lg_markup_run g r = Ok r.
  Proof.
    intros r Hp. revert r Hp. apply (sur_paired_ind' (fun r => forallb rep_g r = true -> lg_markup_run g r = Ok r)).
    - reflexivity.
    - intros hi lo r Hh Hl _ IH Hr. cbn [forallb] in Hr. apply andb_true_iff in Hr. destruct Hr as [R1 Hr].
      apply andb_true_iff in Hr. destruct Hr as [R2 Hr]. cbn [lg_markup_run].
      rewrite lg_sur_x, lg_high_x, lg_low_x, Hh, Hl. cbn [orb andb].
      assert (E : (lc_max g <? hi) = false) by (unfold rep_g in R1; lia). rewrite E.
      rewrite (put_rep hi R1), (put_rep lo R2), (IH Hr). reflexivity.
    - intros c r Hh Hl _ IH Hr. cbn [forallb] in Hr. apply andb_true_iff in Hr. destruct Hr as [R1 Hr].
      cbn [lg_markup_run]. rewrite lg_sur_x, Hh, Hl. cbn [orb].
      assert (E : (lc_max g <? c) = false) by (unfold rep_g in R1; lia). rewrite E.
      rewrite (put_rep c R1), (IH Hr). reflexivity.
  Qed.

  Lemma run_inv : forall n r bs, (length r <= n)%nat -> lg_markup_run g r = Ok bs ->
    bs = r /\ sur_paired r = true /\ forallb rep_g r = true.
  Proof.
    induction n as [|n IH]; intros r bs Hlen H.
    { destruct r; [|cbn in Hlen; lia]. cbn in H. inversion H. repeat split. }
    destruct r as [|c r]; [cbn in H; inversion H; repeat split|].
    cbn [lg_markup_run] in H. rewrite lg_sur_x in H. destruct (x_high c) eqn:Eh.
    - cbn [orb] in H. destruct r as [|lo r]; [discriminate|]. rewrite lg_high_x, lg_low_x, Eh in H. cbn [andb] in H.
      destruct (x_low lo) eqn:El; [|discriminate].
      destruct (lc_max g <? c) eqn:E; [discriminate|].
      assert (E2 : (lc_max g <? lo) = false).
      { unfold lg_max_ok in Hm. unfold x_high, x_low, x_in in *. lia. }
      unfold lg_put in H. rewrite E, E2 in H.
      destruct (lg_markup_run g r) as [y| |k] eqn:Er; try discriminate. cbn [lg_lift app] in H. inversion H.
      destruct (IH r y ltac:(cbn [length] in Hlen; lia) Er) as (-> & P & R).
      repeat split. cbn [sur_paired]. rewrite Eh, El, P. reflexivity.
      cbn [forallb]. unfold rep_g at 1 2. rewrite E, E2, R. reflexivity.
    - destruct (x_low c) eqn:El; cbn [orb] in H; [destruct r as [|n0 r0]; [discriminate|]; rewrite lg_high_x, Eh in H; discriminate|].
      destruct (lc_max g <? c) eqn:E; [discriminate|]. unfold lg_put in H. rewrite E in H.
      destruct (lg_markup_run g r) as [y| |k] eqn:Er; try discriminate. cbn [lg_lift app] in H. inversion H.
      destruct (IH r y ltac:(cbn [length] in Hlen; lia) Er) as (-> & P & R).
      repeat split. cbn [sur_paired]. rewrite Eh, El, P. reflexivity.
      cbn [forallb]. unfold rep_g at 1. rewrite E, R. reflexivity.
  Qed.

  (* ---- accumMarkupData ----------------------------------------------------------------------- *)
  Lemma loop_ok : forall l run_rev, sur_paired (rev run_rev ++ l) = true ->
    forallb rep_g (rev run_rev ++ l) = true -> (forall c, In c l -> ref_only v11 c = false) ->
    lg_markup_loop g l run_rev = Ok (rev run_rev ++ l).
  Proof.
    induction l as [|c r IH]; intros run_rev Hp Hr Hc.
    - cbn [lg_markup_loop]. rewrite app_nil_r in *. apply run_ok; assumption.
    - cbn [lg_markup_loop]. destruct (c =? 10) eqn:E10.
      + apply N.eqb_eq in E10. subst c.
        rewrite (sur_paired_app_cons (length (rev run_rev))) in Hp by (reflexivity || apply le_n).
        apply andb_true_iff in Hp. destruct Hp as [P1 P2].
        rewrite forallb_app in Hr. apply andb_true_iff in Hr. destruct Hr as [R1 R2]. cbn [forallb] in R2.
        apply andb_true_iff in R2. destruct R2 as [R10 R2].
        rewrite (run_ok _ P1 R1), (put_rep 10 R10).
        rewrite (IH [] P2 R2) by (intros x Hx; apply Hc; right; exact Hx).
        cbn [lg_lift rev app]. rewrite <- app_assoc. reflexivity.
      + rewrite lg_ref_only_eq. fold v11. rewrite (Hc c (or_introl eq_refl)). rewrite IH.
        * cbn [rev]. rewrite <- app_assoc. reflexivity.
        * cbn [rev]. rewrite <- app_assoc. exact Hp.
        * cbn [rev]. rewrite <- app_assoc. exact Hr.
        * intros x Hx. apply Hc. right. exact Hx.
  Qed.

  Lemma loop_inv : forall l run_rev bs, lg_markup_loop g l run_rev = Ok bs ->
    bs = rev run_rev ++ l /\ sur_paired (rev run_rev ++ l) = true /\
    forallb rep_g (rev run_rev ++ l) = true /\ (forall c, In c l -> ref_only v11 c = false).
  Proof.
    induction l as [|c r IH]; intros run_rev bs H.
    - cbn [lg_markup_loop] in H. destruct (run_inv _ _ _ (le_n _) H) as (-> & P & R).
      rewrite app_nil_r. repeat split; try assumption. intros c [].
    - cbn [lg_markup_loop] in H. destruct (c =? 10) eqn:E10.
      + apply N.eqb_eq in E10. subst c.
        destruct (lg_markup_run g (rev run_rev)) as [o| |k] eqn:Er; try discriminate.
        destruct (run_inv _ _ _ (le_n _) Er) as (-> & P1 & R1).
        destruct (lg_markup_loop g r []) as [y| |k] eqn:El; try discriminate. cbn [lg_lift] in H. inversion H.
        destruct (IH [] y El) as (-> & P2 & R2 & C2). cbn [rev app] in *.
        assert (R10 : rep_g 10 = true) by apply rep_10.
        rewrite (put_rep 10 R10). rewrite <- app_assoc. cbn [app]. split; [reflexivity|]. split.
        { rewrite (sur_paired_app_cons (length (rev run_rev))) by (reflexivity || apply le_n). rewrite P1, P2. reflexivity. }
        split.
        { rewrite forallb_app. cbn [forallb]. rewrite R1, R10, R2. reflexivity. }
        intros x [<-|Hx]; [apply ref_only_10|apply C2; exact Hx].
      + rewrite lg_ref_only_eq in H. fold v11 in H. destruct (ref_only v11 c) eqn:Ero; [discriminate|].
        destruct (IH (c :: run_rev) bs H) as (-> & P & R & C). cbn [rev] in *. rewrite <- app_assoc in *. cbn [app] in *.
        repeat split; try assumption. intros x [<-|Hx]; [exact Ero|apply C; exact Hx].
  Qed.

  Definition markup_ok (s : list N) : bool :=
    sur_paired s && forallb rep_g s && forallb (fun c => negb (ref_only v11 c)) s.

  Theorem markup_iff : forall s bs, lg_markup g true s = Ok bs <-> (markup_ok s = true /\ bs = s).
  Proof.
    intros s bs. unfold lg_markup, markup_ok. split.
    - intros H. destruct (loop_inv s [] bs H) as (-> & P & R & C). cbn [rev app] in *. rewrite P, R. cbn [andb].
      split; [|reflexivity]. apply forallb_forall. intros x Hx. rewrite (C x Hx). reflexivity.
    - intros [H ->]. apply andb_true_iff in H. destruct H as [H C]. apply andb_true_iff in H. destruct H as [P R].
      apply (loop_ok s [] P R). intros c Hc. rewrite forallb_forall in C. specialize (C c Hc). lia.
  Qed.

  Lemma name_const : forall l, forallb (fun c => c <? 128) l = true -> lg_name g l = l.
  Proof.
    induction l as [|c l IH]; intros H; [reflexivity|]. cbn [forallb] in H. apply andb_true_iff in H. destruct H as [H1 H2].
    cbn [lg_name map]. fold (lg_name g l). rewrite (IH H2). unfold lg_name_put. unfold lg_max_ok in Hm.
    assert (E : (lc_max g <? c) = false) by lia. rewrite E. reflexivity.
  Qed.

  Lemma name_r_iff : forall t bs, lg_name_r g true t = Ok bs <-> (forallb rep_g t = true /\ bs = t).
  Proof.
    intros t bs. unfold lg_name_r. cbn [andb].
    assert (G : existsb (fun c => lc_max g <? c) t = negb (forallb rep_g t)).
    { induction t as [|c t IH]; [reflexivity|]. cbn [existsb forallb]. rewrite IH. unfold rep_g. destruct (lc_max g <? c); reflexivity. }
    assert (N : forallb rep_g t = true -> lg_name g t = t).
    { clear G. induction t as [|c t IH]; intros H; [reflexivity|]. cbn [forallb] in H. apply andb_true_iff in H. destruct H as [H1 H2].
      cbn [lg_name map]. fold (lg_name g t). rewrite (IH H2). unfold lg_name_put. unfold rep_g in H1.
      destruct (lc_max g <? c); [discriminate|reflexivity]. }
    rewrite G. destruct (forallb rep_g t) eqn:E; cbn [negb].
    - rewrite (N eq_refl). split; [intros H; inversion H; split; reflexivity | intros [_ ->]; reflexivity].
    - split; [discriminate | intros [H _]; discriminate].
  Qed.

  (* ---- comments ------------------------------------------------------------------------------ *)
  Theorem comment_iff : forall s bs, lg_comment g true s = Ok bs <->
    (markup_ok s = true /\ bs = [60; 33; 45; 45] ++ s ++ [45; 45; 62]).
  Proof.
    intros s bs. unfold lg_comment. rewrite (name_const lg_comment_open eq_refl), (name_const lg_comment_close eq_refl).
    change lg_comment_open with [60; 33; 45; 45]. change lg_comment_close with [45; 45; 62].
    destruct (lg_markup g true s) as [d| |k] eqn:E; cbn [lg_bind lg_lift].
    - apply markup_iff in E. destruct E as [E ->]. split.
      + intros H. inversion H. split; [exact E|reflexivity].
      + intros [_ ->]. reflexivity.
    - split; [discriminate|]. intros [H _]. assert (X : lg_markup g true s = Ok s) by (apply markup_iff; split; [exact H|reflexivity]). congruence.
    - split; [discriminate|]. intros [H _]. assert (X : lg_markup g true s = Ok s) by (apply markup_iff; split; [exact H|reflexivity]). congruence.
  Qed.

  Lemma raw_markup_ok : forall s, raw_data_ok v11 s = true -> forallb rep_g s = true -> markup_ok s = true.
  Proof.
    intros s H R. destruct (raw_data_parts v11 s H) as (P & _ & _ & C). unfold markup_ok. rewrite P, R. cbn [andb].
    apply forallb_forall. intros c Hc. assert (Hn : c <> 0).
    { unfold raw_data_ok in H. apply andb_true_iff in H. destruct H as [H _]. apply andb_true_iff in H. destruct H as [H _].
      apply andb_true_iff in H. destruct H as [H _]. rewrite chars_ok_wf in H. intros ->.
      exact (wf_text_no_zero v11 s H Hc). }
    rewrite (ref_only_is_comment_error v11 c Hn), (C c Hc). reflexivity.
  Qed.

  (* the model parser reads the comment back (C04's guard comment_ok + every unit in the encoding) *)
  Theorem comment_roundtrip : forall s rest f, comment_ok v11 s = true -> forallb rep_g s = true ->
    exists bs, lg_comment g true s = Ok bs /\
               tokens v11 (S f) (bs ++ rest) = option_map (cons (PM s)) (tokens v11 f rest).
  Proof.
    intros s rest f Hc Hr. assert (Hraw : raw_data_ok v11 s = true).
    { unfold comment_ok in Hc. apply andb_true_iff in Hc. destruct Hc as [Hc _]. apply andb_true_iff in Hc. apply Hc. }
    exists ([60; 33; 45; 45] ++ s ++ [45; 45; 62]). split.
    - apply comment_iff. split; [apply raw_markup_ok; assumption|reflexivity].
    - rewrite <- !app_assoc. cbn [app]. apply tokens_comment. exact Hc.
  Qed.

  (* ---- processing instructions --------------------------------------------------------------- *)
  Definition pi_sep (d : list N) : list N :=
    match d with c :: _ => if lg_is_ws c then [] else [32] | [] => [] end.

  Theorem pi_iff : forall t d bs, lg_pi g true t d = Ok bs <->
    (forallb rep_g t = true /\ markup_ok d = true /\ bs = [60; 63] ++ t ++ pi_sep d ++ d ++ [63; 62]).
  Proof.
    intros t d bs. unfold lg_pi. rewrite (name_const lg_pi_open eq_refl), (name_const lg_pi_close eq_refl).
    change lg_pi_open with [60; 63]. change lg_pi_close with [63; 62].
    assert (Sep : (match d with c :: _ => if lg_is_ws c then [] else [lg_name_put g lg_pi_sep] | [] => [] end) = pi_sep d).
    { unfold pi_sep. destruct d as [|c d]; [reflexivity|]. destruct (lg_is_ws c); [reflexivity|].
      unfold lg_name_put. change lg_pi_sep with 32. unfold lg_max_ok in Hm. assert (E : (lc_max g <? 32) = false) by lia.
      rewrite E. reflexivity. }
    rewrite Sep.
    destruct (lg_name_r g true t) as [t'| |k] eqn:En; cbn [lg_bind lg_lift].
    - apply name_r_iff in En. destruct En as [En ->].
      destruct (lg_markup g true d) as [d'| |k] eqn:E; cbn [lg_bind lg_lift].
      + apply markup_iff in E. destruct E as [E ->]. split.
        * intros H. inversion H. repeat split; assumption.
        * intros (_ & _ & ->). reflexivity.
      + split; [discriminate|]. intros (_ & H & _). assert (X : lg_markup g true d = Ok d) by (apply markup_iff; split; [exact H|reflexivity]). congruence.
      + split; [discriminate|]. intros (_ & H & _). assert (X : lg_markup g true d = Ok d) by (apply markup_iff; split; [exact H|reflexivity]). congruence.
    - split; [discriminate|]. intros (H & _ & _). assert (X : lg_name_r g true t = Ok t) by (apply name_r_iff; split; [exact H|reflexivity]). congruence.
    - split; [discriminate|]. intros (H & _ & _). assert (X : lg_name_r g true t = Ok t) by (apply name_r_iff; split; [exact H|reflexivity]). congruence.
  Qed.

  Theorem pi_roundtrip : forall t d rest f, pi_ok v11 t d = true -> forallb rep_g t = true -> forallb rep_g d = true ->
    exists bs, lg_pi g true t d = Ok bs /\
               tokens v11 (S f) (bs ++ rest) = option_map (cons (PP t d)) (tokens v11 f rest).
  Proof.
    intros t d rest f Hp Rt Rd. assert (Hp' := Hp). unfold pi_ok in Hp'.
    apply andb_true_iff in Hp'. destruct Hp' as [Hp' H5]. apply andb_true_iff in Hp'. destruct Hp' as [Hp' _].
    apply andb_true_iff in Hp'. destruct Hp' as [_ Hraw].
    exists ([60; 63] ++ t ++ pi_sep d ++ d ++ [63; 62]). split.
    - apply pi_iff. repeat split; try assumption. apply raw_markup_ok; assumption.
    - assert (Sep : pi_sep d = match d with [] => [] | _ => [32] end).
      { unfold pi_sep. destruct d as [|c d]; [reflexivity|]. apply negb_true_iff in H5.
        assert (W : lg_is_ws c = is_space c) by (unfold lg_is_ws, is_space; lia). rewrite W, H5. reflexivity. }
      rewrite Sep. rewrite <- !app_assoc. cbn [app]. rewrite <- (tokens_pi v11 t d rest f Hp). reflexivity.
  Qed.
End Markup.

(* ---- the UTF-16 writer of FormatterToXMLUnicode writes comment / PI data only with paired surrogates ---- *)
Lemma is_high_x : forall c, is_high c = x_high c.
Proof. intros c. unfold is_high, x_high, x_in, high_sur_lo, high_sur_hi. reflexivity. Qed.
Lemma is_low_x : forall c, is_low c = x_low c.
Proof. intros c. unfold is_low, x_low, x_in, low_sur_lo, low_sur_hi. reflexivity. Qed.

Lemma u16_ok_paired : forall n s bs, (length s <= n)%nat -> payload (u16_chars s) = Ok bs -> sur_paired s = true.
Proof.
  induction n as [|n IH]; intros s bs Hlen H.
  { destruct s; [reflexivity|cbn in Hlen; lia]. }
  destruct s as [|c r]; [reflexivity|]. unfold u16_chars in H. cbn [at_loop] in H. unfold u16_at in H.
  rewrite is_high_x, is_low_x in H. cbn [sur_paired]. destruct (x_high c) eqn:Eh.
  - destruct r as [|lo r]; [cbn in H; discriminate|]. rewrite is_low_x in H. destruct (x_low lo) eqn:El; [|cbn in H; discriminate].
    apply payload_app_inv in H. destruct H as (a & b & _ & Hb & _).
    cbn [andb]. apply (IH r b); [cbn [length] in Hlen; lia|exact Hb].
  - destruct (x_low c) eqn:El; [cbn in H; discriminate|].
    apply payload_app_inv in H. destruct H as (a & b & _ & Hb & _). apply (IH r b); [cbn [length] in Hlen; lia|exact Hb].
Qed.

Lemma nloop16_ok_paired : forall v11 l run_rev bs,
  payload (normalized_loop fam_utf16 v11 l run_rev) = Ok bs -> sur_paired (rev run_rev ++ l) = true.
Proof.
  intros v11. induction l as [|c r IH]; intros run_rev bs H.
  - cbn [normalized_loop f_comment fam_utf16] in H. rewrite app_nil_r. exact (u16_ok_paired _ _ _ (le_n _) H).
  - cbn [normalized_loop] in H. destruct (c =? 10) eqn:E10.
    + apply N.eqb_eq in E10. subst c. apply payload_app_inv in H. destruct H as (a & b & Ha & Hb & _).
      apply payload_app_inv in Hb. destruct Hb as (b1 & b2 & _ & Hb2 & _).
      cbn [f_comment fam_utf16] in Ha.
      rewrite (sur_paired_app_cons (length (rev run_rev))) by (reflexivity || apply le_n).
      rewrite (u16_ok_paired _ _ _ (le_n _) Ha). exact (IH [] b2 Hb2).
    + destruct (p_comment_error v11 c); [cbn in H; discriminate|].
      specialize (IH (c :: run_rev) bs H). cbn [rev] in IH. rewrite <- app_assoc in IH. exact IH.
Qed.

Section Agree.
  Variable g : lcfg.
  Hypothesis Hm : lg_max_ok (lc_max g) = true.
  Let v11 := lc_v11 g.

  (* whatever the legacy serializer writes for a comment, FormatterToXMLUnicode (UTF-16 writer) writes
     the same units *)
  Theorem comment_legacy_ok_unicode_same : forall s bs, ~ In 0 s -> lg_comment g true s = Ok bs ->
    payload (write_comment fam_utf16 v11 s) = Ok bs.
  Proof.
    intros s bs Hz H. apply (comment_iff g Hm) in H. destruct H as [H ->]. unfold markup_ok in H.
    apply andb_true_iff in H. destruct H as [H C]. apply andb_true_iff in H. destruct H as [P _].
    unfold write_comment, write_normalized_data. rewrite !payload_app.
    rewrite (normalized_loop_16 v11 s [] P).
    - reflexivity.
    - intros c Hc. rewrite forallb_forall in C. specialize (C c Hc).
      rewrite <- (ref_only_is_comment_error v11 c) by (intros ->; exact (Hz Hc)). fold v11 in C. lia.
  Qed.

  (* and when every 16-bit unit is in the encoding (m_maxCharacter = 0xFFFF) the two succeed and fail
     together, on arbitrary unit strings *)
  Theorem comment_fails_iff_unicode_fails : forall s, 65535 <= lc_max g -> small s = true -> ~ In 0 s ->
    ((exists bs, lg_comment g true s = Ok bs) <-> (exists bs, payload (write_comment fam_utf16 v11 s) = Ok bs)).
  Proof.
    intros s Hmax Hs Hz. split.
    - intros [bs H]. exists bs. apply comment_legacy_ok_unicode_same; assumption.
    - intros [bs H]. pose proof (comment_ok_has_no_reference_only_char _ _ _ _ H) as C.
      unfold write_comment, write_normalized_data in H.
      apply payload_app_inv in H. destruct H as (a & b & _ & Hb & _).
      apply payload_app_inv in Hb. destruct Hb as (b1 & b2 & Hb1 & _ & _).
      pose proof (nloop16_ok_paired v11 s [] b1 Hb1) as P. cbn [rev app] in P.
      eexists. apply (comment_iff g Hm). split; [|reflexivity]. unfold markup_ok. rewrite P. cbn [andb].
      apply andb_true_iff. split.
      + apply forallb_forall. intros c Hc. unfold small in Hs. rewrite forallb_forall in Hs. specialize (Hs c Hc).
        unfold rep_g. lia.
      + apply forallb_forall. intros c Hc. fold v11.
        rewrite (ref_only_is_comment_error v11 c) by (intros ->; exact (Hz Hc)). rewrite (C c Hc). reflexivity.
  Qed.

  Theorem pi_legacy_ok_unicode_same : forall t d bs, ~ In 0 d ->
    lg_pi g true t d = Ok bs -> payload (write_pi fam_utf16 v11 t d) = Ok bs.
  Proof.
    intros t d bs Hz H. apply (pi_iff g Hm) in H. destruct H as (Rt & H & ->). unfold markup_ok in H.
    apply andb_true_iff in H. destruct H as [H C]. apply andb_true_iff in H. destruct H as [P _].
    unfold write_pi, write_normalized_data. rewrite !payload_app. cbn [f_name f_unit fam_utf16 units flat_map app].
    rewrite payload_u16_block. rewrite (normalized_loop_16 v11 d [] P).
    - cbn [payload u16_unit app]. unfold pi_sep.
      assert (W : forall c, lg_is_ws c = is_xml_ws c) by (intros c; unfold lg_is_ws, is_xml_ws; lia).
      destruct d as [|c d]; [reflexivity|]. change (lg_is_ws c) with (is_xml_ws c). destruct (is_xml_ws c); reflexivity.
    - intros c Hc. rewrite forallb_forall in C. specialize (C c Hc).
      rewrite <- (ref_only_is_comment_error v11 c) by (intros ->; exact (Hz Hc)). fold v11 in C. lia.
  Qed.
End Agree.

(* ---- without the repair (finding K-new-8) ---------------------------------------------------- *)
Theorem comment_roundtrip_refuted :
  lg_comment (mklcfg 255 false true true) false [97; 8364] = Ok ([60; 33; 45; 45; 97] ++ charref 8364 ++ [45; 45; 62]) /\
  tokens false 40 ([60; 33; 45; 45; 97] ++ charref 8364 ++ [45; 45; 62]) = Some [PM (97 :: charref 8364)] /\
  comment_ok false [97; 8364] = true /\
  lg_comment (mklcfg 255 false true true) true [97; 8364] = Thrown err_unrepresentable /\
  lg_comment (mklcfg 65535 false true true) false [120; 13; 121] = Ok [60; 33; 45; 45; 120; 13; 121; 45; 45; 62] /\
  tokens false 40 [60; 33; 45; 45; 120; 13; 121; 45; 45; 62] = Some [PM [120; 10; 121]] /\
  lg_comment (mklcfg 65535 false true true) true [120; 13; 121] = Thrown err_forbidden.
Proof. repeat split; vm_compute; reflexivity. Qed.

Theorem pi_roundtrip_refuted :
  lg_pi (mklcfg 255 false true true) false [112] [97; 8364] = Ok ([60; 63; 112; 32; 97] ++ charref 8364 ++ [63; 62]) /\
  tokens false 40 ([60; 63; 112; 32; 97] ++ charref 8364 ++ [63; 62]) = Some [PP [112] (97 :: charref 8364)] /\
  lg_pi (mklcfg 255 false true true) true [112] [97; 8364] = Thrown err_unrepresentable /\
  lg_name_r (mklcfg 127 false true true) false [110; 233] = Ok [110; 63] /\
  lg_name_r (mklcfg 127 false true true) true [110; 233] = Thrown err_unrepresentable.
Proof. repeat split; vm_compute; reflexivity. Qed.

(* ---- both variants: what C04's guards accept is written verbatim and read back -------------------- *)
Section Markup2.
  Variable g : lcfg.
  Hypothesis Hm : lg_max_ok (lc_max g) = true.
  Let v11 := lc_v11 g.

  Lemma puts_rep : forall s, forallb (rep_g g) s = true -> lg_puts g s = s.
  Proof.
    induction s as [|c s IH]; intros H; [reflexivity|]. cbn [forallb] in H. apply andb_true_iff in H. destruct H as [H1 H2].
    unfold lg_puts. cbn [flat_map]. fold (lg_puts g s). rewrite (put_rep g c H1), (IH H2). reflexivity.
  Qed.

  Theorem comment_roundtrip_any : forall chk s rest f, comment_ok v11 s = true -> forallb (rep_g g) s = true ->
    exists bs, lg_comment g chk s = Ok bs /\
               tokens v11 (S f) (bs ++ rest) = option_map (cons (PM s)) (tokens v11 f rest).
  Proof.
    intros [|] s rest f Hc Hr; [exact (comment_roundtrip g Hm s rest f Hc Hr)|].
    exists ([60; 33; 45; 45] ++ s ++ [45; 45; 62]). split.
    - unfold lg_comment, lg_markup. rewrite (puts_rep s Hr). cbn [lg_bind lg_lift].
      rewrite (name_const g Hm lg_comment_open eq_refl), (name_const g Hm lg_comment_close eq_refl). reflexivity.
    - rewrite <- !app_assoc. cbn [app]. apply tokens_comment. exact Hc.
  Qed.

  Theorem pi_roundtrip_any : forall chk t d rest f, pi_ok v11 t d = true ->
    forallb (rep_g g) t = true -> forallb (rep_g g) d = true ->
    exists bs, lg_pi g chk t d = Ok bs /\
               tokens v11 (S f) (bs ++ rest) = option_map (cons (PP t d)) (tokens v11 f rest).
  Proof.
    intros [|] t d rest f Hp Rt Rd; [exact (pi_roundtrip g Hm t d rest f Hp Rt Rd)|].
    destruct (pi_roundtrip g Hm t d rest f Hp Rt Rd) as (bs & Hb & Ht). exists bs. split; [|exact Ht].
    apply (pi_iff g Hm) in Hb. destruct Hb as (_ & _ & ->).
    unfold lg_pi, lg_markup, lg_name_r. cbn [andb]. rewrite (puts_rep d Rd).
    assert (N : lg_name g t = t).
    { clear -Rt. induction t as [|c t IH]; [reflexivity|]. cbn [forallb] in Rt. apply andb_true_iff in Rt. destruct Rt as [H1 H2].
      cbn [lg_name map]. fold (lg_name g t). rewrite (IH H2). unfold lg_name_put. unfold rep_g in H1.
      destruct (lc_max g <? c); [discriminate|reflexivity]. }
    rewrite N. cbn [lg_bind lg_lift].
    rewrite (name_const g Hm lg_pi_open eq_refl), (name_const g Hm lg_pi_close eq_refl).
    assert (Sep : (match d with c :: _ => if lg_is_ws c then [] else [lg_name_put g lg_pi_sep] | [] => [] end) = pi_sep d).
    { unfold pi_sep. destruct d as [|c d]; [reflexivity|]. destruct (lg_is_ws c); [reflexivity|].
      unfold lg_name_put. change lg_pi_sep with 32. unfold lg_max_ok in Hm. assert (E : (lc_max g <? 32) = false) by lia.
      rewrite E. reflexivity. }
    rewrite Sep. reflexivity.
  Qed.

  (* with the repair, data that cannot stand in a comment / PI is never written *)
  Theorem comment_not_ok_fails : forall s bs, markup_ok g s = false -> lg_comment g true s <> Ok bs.
  Proof. intros s bs H E. apply (comment_iff g Hm) in E. destruct E as [E _]. congruence. Qed.

  Theorem pi_not_ok_fails : forall t d bs, markup_ok g d = false \/ forallb (rep_g g) t = false ->
    lg_pi g true t d <> Ok bs.
  Proof. intros t d bs H E. apply (pi_iff g Hm) in E. destruct E as (E1 & E2 & _). destruct H; congruence. Qed.
End Markup2.

Theorem comment_roundtrip_tree : forall maxc v11 s rest f, lg_max_ok maxc = true ->
  comment_ok v11 s = true -> forallb (rep_g (lg_this_tree maxc v11)) s = true ->
  exists bs, lg_comment (lg_this_tree maxc v11) lg_chk_this_tree s = Ok bs /\
             tokens v11 (S f) (bs ++ rest) = option_map (cons (PM s)) (tokens v11 f rest).
Proof. intros maxc v11 s rest f Hm. exact (comment_roundtrip_any (lg_this_tree maxc v11) Hm lg_chk_this_tree s rest f). Qed.

Theorem pi_roundtrip_tree : forall maxc v11 t d rest f, lg_max_ok maxc = true ->
  pi_ok v11 t d = true -> forallb (rep_g (lg_this_tree maxc v11)) t = true ->
  forallb (rep_g (lg_this_tree maxc v11)) d = true ->
  exists bs, lg_pi (lg_this_tree maxc v11) lg_chk_this_tree t d = Ok bs /\
             tokens v11 (S f) (bs ++ rest) = option_map (cons (PP t d)) (tokens v11 f rest).
Proof. intros maxc v11 t d rest f Hm. exact (pi_roundtrip_any (lg_this_tree maxc v11) Hm lg_chk_this_tree t d rest f). Qed.
