(* OutoptModel.v — C08: proofs about the indent automaton, the token-level reader, the text method. *)
From Coq Require Import NArith ZArith List Bool Lia.
Require Import XV.SerDefs XV.GenOutopt XV.OutoptDefs.
Import ListNotations.
Local Open Scope N_scope.

(* ---- white space ---------------------------------------------------------------------------------- *)
Lemma forallb_repeat_ws : forall k, forallb is_ws (repeat 32 k) = true.
Proof. induction k; cbn; auto. Qed.

Lemma ws_string_ws_only : forall nl n, negb nl && (n =? 0) = false -> ws_only (ws_string nl n).
Proof.
  intros nl n H. unfold ws_only, ws_string. split.
  - rewrite forallb_app. rewrite forallb_repeat_ws. destruct nl; reflexivity.
  - destruct nl.
    + cbn. discriminate.
    + cbn in H. apply N.eqb_neq in H. cbn [app].
      destruct (N.to_nat n) eqn:E; [lia | cbn; discriminate].
Qed.

(* ---- ws_ins / coalesce ------------------------------------------------------------------------------ *)
Lemma ws_ins_refl : forall l, ws_ins l l.
Proof. induction l; constructor; auto. Qed.

Lemma cons_text_cons_text : forall s s' l, cons_text s (cons_text s' l) = cons_text (s ++ s') l.
Proof.
  intros s s' l. destruct l as [|e r]; cbn; auto.
  destruct e; cbn; auto. rewrite app_assoc. reflexivity.
Qed.

Lemma coalesce_markup : forall m l, is_text m = false -> coalesce (m :: l) = m :: coalesce l.
Proof. intros m l H. destruct m; cbn in *; try reflexivity; discriminate. Qed.

Lemma cons_text_markup : forall s m l, is_text m = false -> cons_text s (m :: l) = PT s :: m :: l.
Proof. intros s m l H. destruct m; cbn in *; try reflexivity; discriminate. Qed.

Lemma coalesce_iso_strong : forall b l0 l1, iso_ins b l0 l1 ->
  ws_ins (coalesce l0) (coalesce l1) /\
  (b = true -> forall s, ws_ins (cons_text s (coalesce l0)) (cons_text s (coalesce l1))).
Proof.
  induction 1.
  - split; intros; apply ws_ins_refl.
  - destruct IHiso_ins as [A B]. destruct e; cbn [coalesce is_text] in *;
      try (split; [constructor; exact A | intros _ s9; cbn [cons_text]; constructor; constructor; exact A]).
    split.
    + apply B; reflexivity.
    + intros _ s0. rewrite !cons_text_cons_text. apply B; reflexivity.
  - split; [|discriminate]. cbn. apply wi_add; [assumption | constructor].
  - destruct IHiso_ins as [A _]. split; [|discriminate].
    change (coalesce (PT w :: m :: l1)) with (cons_text w (coalesce (m :: l1))).
    rewrite !(coalesce_markup m) by assumption. rewrite cons_text_markup by assumption.
    apply wi_add; [assumption|]. constructor. exact A.
Qed.

Lemma coalesce_iso : forall l0 l1, iso_ins false l0 l1 -> ws_ins (coalesce l0) (coalesce l1).
Proof. intros l0 l1 H. exact (proj1 (coalesce_iso_strong _ _ _ H)). Qed.

Lemma cons_text_nat : forall s l, no_adjacent_text l = true -> no_adjacent_text (cons_text s l) = true.
Proof.
  intros s l H. destruct l as [|e r]; cbn; auto.
  destruct e; cbn in *; auto.
Qed.

Lemma coalesce_no_adjacent : forall l, no_adjacent_text (coalesce l) = true.
Proof.
  induction l as [|e r IH]; cbn; auto.
  destruct e; cbn [coalesce]; try (cbn; destruct (coalesce r) as [|x y]; [reflexivity | destruct x; exact IH]).
Qed.

(* ---- the automaton --------------------------------------------------------------------------------- *)
Definition parent_marked (es : list bool) : Prop := match es with false :: _ => False | _ => True end.

Definition Inv (pt lt : bool) (st : ist) (es : list bool) : Prop :=
  (pt = true -> prevt st = true /\ parent_marked es) /\
  (lt = true -> presv st = true /\ parent_marked es).

(* "nothing is written while ispreserve or isprevtext" *)
Lemma indent_silent : forall ind st, presv st = true \/ prevt st = true -> indent_toks ind st = [].
Proof.
  intros ind st H. unfold indent_toks. destruct ind; auto.
  destruct H as [H|H]; rewrite H; cbn; auto. rewrite andb_false_r. reflexivity.
Qed.

Lemma indent_W : forall n st lt, (lt = true -> presv st = true \/ prevt st = true) ->
  flat_map flat_tok (indent_toks (Some n) st) = [] \/
  (lt = false /\ exists w, flat_map flat_tok (indent_toks (Some n) st) = [PT w] /\ ws_only w).
Proof.
  intros n st lt H. unfold indent_toks.
  destruct (presv st) eqn:P; [left; reflexivity|].
  destruct (prevt st) eqn:Q; [left; reflexivity|].
  cbn [negb andb].
  destruct (negb (snl st) && (cur st =? 0)) eqn:Z; [left; reflexivity|].
  right. split.
  - destruct lt; auto. destruct (H eq_refl); discriminate.
  - exists (ws_string (snl st) (cur st)). split; [reflexivity | apply ws_string_ws_only; exact Z].
Qed.

Lemma indent_none : forall st, indent_toks None st = [].
Proof. reflexivity. Qed.

Lemma iso_step_markup : forall lt W m l0 l1, is_text m = false ->
  (W = [] \/ (lt = false /\ exists w, W = [PT w] /\ ws_only w)) ->
  iso_ins false l0 l1 -> iso_ins lt (m :: l0) (W ++ m :: l1).
Proof.
  intros lt W m l0 l1 Hm [HW | [Hlt [w [HW Hw]]]] H; subst; cbn [app].
  - apply ii_keep. rewrite Hm. exact H.
  - apply ii_ws; assumption.
Qed.

Lemma pte_marked : forall st es, parent_marked es -> pte st es = ([], st, es).
Proof. intros st es H. destruct es as [|[|] r]; cbn in *; auto. contradiction. Qed.

Lemma pte_shape : forall st es, exists p st1 es1, pte st es = (p, st1, es1) /\ flat_map flat_tok p = [] /\
  parent_marked es1 /\ (forall st', exists st1', pte st' es = (p, st1', es1)).
Proof.
  intros st es. destruct es as [|[|] r]; cbn [pte].
  - exists [], st, []. repeat split; auto. intros; eexists; reflexivity.
  - exists [], st, (true :: r). repeat split; auto. intros; eexists; reflexivity.
  - exists [KGt], (push_preserve (set_prevt false st)), (true :: r). repeat split; auto. intros; eexists; reflexivity.
Qed.

Lemma flat_dt : forall (dt : bool) name, flat_map flat_tok (if dt then [KDoctype name] else []) = [].
Proof. destruct dt; reflexivity. Qed.

Lemma run_iso : forall fx n evs pt lt st0 st es dt,
  Inv pt lt st es -> ind_guard fx pt lt evs = true ->
  iso_ins lt (flat_map flat_tok (run_events fx None evs (st0, es, dt)))
             (flat_map flat_tok (run_events fx (Some n) evs (st, es, dt))).
Proof.
  intros fx n evs. induction evs as [|e r IH]; intros pt lt st0 st es dt HI HG.
  - cbn [run_events]. rewrite indent_none. cbn [flat_map].
    destruct (indent_W n (set_snl true st) lt) as [HW | [Hlt [w [HW Hw]]]].
    + intros L. left. destruct HI as [_ HI]. destruct (HI L) as [P _]. exact P.
    + rewrite HW. constructor.
    + rewrite HW. subst lt. apply ii_end. exact Hw.
  - destruct e as [name attrs | name | t | t | t | t d]; cbn [run_events step].
    + (* startElement *)
      cbn [ind_guard] in HG. apply andb_true_iff in HG. destruct HG as [HG1 HG2].
      destruct (pte_shape st es) as [p [st1 [es1 [E1 [Fp [M1 U]]]]]].
      destruct (U st0) as [st1' E0]. rewrite E1, E0.
      rewrite !flat_map_app, !flat_dt, !Fp. cbn [app]. rewrite indent_none. cbn [flat_map app].
      change (flat_tok (KOpen name attrs)) with [PS name attrs].
      cbn [app].
      rewrite <- ?app_assoc; cbn [app]; apply iso_step_markup; [reflexivity | | ].
      * apply indent_W. intros L. right. subst lt. cbn in HG1. destruct pt; [|discriminate].
        destruct HI as [HI _]. destruct (HI eq_refl) as [Q Mk].
        rewrite (pte_marked st es Mk) in E1. inversion E1; subst. exact Q.
      * eapply IH; [|exact HG2]. split; discriminate.
    + (* endElement *)
      cbn [ind_guard] in HG.
      destruct es as [|[|] es1].
      * cbn [flat_map app]. change (flat_tok (KEmptyEnd name)) with [PE name]. cbn [app].
        apply ii_keep. cbn [is_text]. eapply IH; [|exact HG]. split; discriminate.
      * rewrite indent_none. rewrite !flat_map_app. cbn [flat_map app].
        change (flat_tok (KClose name)) with [PE name]. cbn [app].
        rewrite <- ?app_assoc; cbn [app]; apply iso_step_markup; [reflexivity | | ].
        -- apply indent_W. intros L. left. destruct HI as [_ HI]. destruct (HI L) as [P _]. exact P.
        -- eapply IH; [|exact HG]. split; discriminate.
      * cbn [flat_map app]. change (flat_tok (KEmptyEnd name)) with [PE name]. cbn [app].
        apply ii_keep. cbn [is_text]. eapply IH; [|exact HG]. split; discriminate.
    + (* characters *)
      destruct t as [|c t'].
      * cbn [ind_guard] in HG. eapply IH; eauto.
      * cbn [ind_guard] in HG.
        destruct (pte_shape st es) as [p [st1 [es1 [E1 [Fp [M1 U]]]]]].
        destruct (U st0) as [st1' E0]. rewrite E1, E0.
        rewrite !flat_map_app, !Fp. cbn [flat_map app].
        change (flat_tok (KText (c :: t'))) with [PT (c :: t')]. cbn [app].
        apply ii_keep. cbn [is_text]. eapply IH; [|exact HG].
        split; intros _; split; auto.
    + (* cdata *)
      destruct t as [|c t'].
      * cbn [ind_guard] in HG. eapply IH; eauto.
      * cbn [ind_guard] in HG.
        destruct (pte_shape st es) as [p [st1 [es1 [E1 [Fp [M1 U]]]]]].
        destruct (U st0) as [st1' E0]. rewrite E1, E0.
        rewrite indent_none. rewrite (indent_silent (Some n) (set_presv true st1)) by (left; reflexivity).
        rewrite !flat_map_app, !Fp. cbn [flat_map app].
        change (flat_tok (KCdata (c :: t'))) with [PT (c :: t')]. cbn [app].
        apply ii_keep. cbn [is_text]. eapply IH; [|exact HG].
        split.
        -- intros L. destruct fx.
           ++ split; auto.
           ++ rewrite orb_false_r in L. destruct HI as [HI _]. destruct (HI L) as [Q Mk].
              rewrite (pte_marked st es Mk) in E1. inversion E1; subst. split; auto.
        -- intros _. destruct fx; split; auto.
    + (* comment *)
      cbn [ind_guard] in HG.
      destruct (pte_shape st es) as [p [st1 [es1 [E1 [Fp [M1 U]]]]]].
      destruct (U st0) as [st1' E0]. rewrite E1, E0.
      rewrite indent_none. rewrite !flat_map_app, !Fp. cbn [flat_map app].
      change (flat_tok (KComment t)) with [PC t]. cbn [app].
      rewrite <- ?app_assoc; cbn [app]; apply iso_step_markup; [reflexivity | | ].
      * apply indent_W. intros L. left. destruct HI as [_ HI]. destruct (HI L) as [P Mk].
        rewrite (pte_marked st es Mk) in E1. inversion E1; subst. exact P.
      * eapply IH; [|exact HG]. split; [|discriminate].
        intros L. destruct HI as [HI _]. destruct (HI L) as [Q Mk].
        rewrite (pte_marked st es Mk) in E1. inversion E1; subst. split; auto.
    + (* processing instruction *)
      cbn [ind_guard] in HG.
      destruct (pte_shape st es) as [p [st1 [es1 [E1 [Fp [M1 U]]]]]].
      destruct (U st0) as [st1' E0]. rewrite E1, E0.
      rewrite indent_none. rewrite !flat_map_app, !Fp. cbn [flat_map app].
      change (flat_tok (KPI t d)) with [PP t d]. cbn [app].
      rewrite <- ?app_assoc; cbn [app]; apply iso_step_markup; [reflexivity | | ].
      * apply indent_W. intros L. left. destruct HI as [_ HI]. destruct (HI L) as [P Mk].
        rewrite (pte_marked st es Mk) in E1. inversion E1; subst. exact P.
      * eapply IH; [|exact HG]. split; [|discriminate].
        intros L. destruct HI as [HI _]. destruct (HI L) as [Q Mk].
        rewrite (pte_marked st es Mk) in E1. inversion E1; subst. split; auto.
Qed.

Lemma Inv0 : forall st es, Inv false false st es.
Proof. split; discriminate. Qed.

Lemma ind_guard_repaired : forall evs pt lt, (lt = true -> pt = true) -> ind_guard true pt lt evs = true.
Proof.
  induction evs as [|e r IH]; intros pt lt H; cbn [ind_guard]; auto.
  destruct e as [name attrs | name | t | t | t | t d].
  - apply andb_true_iff. split; [|apply IH; discriminate].
    destruct lt; auto. rewrite (H eq_refl). reflexivity.
  - apply IH; discriminate.
  - destruct t; apply IH; auto.
  - destruct t; [apply IH; auto|]. apply IH. intros _. apply orb_true_r.
  - apply IH; discriminate.
  - apply IH; discriminate.
Qed.

Theorem indent_adds_only_ws_guarded : forall fx n evs dt,
  ind_guard fx false false evs = true ->
  ws_ins (tparse (run_events fx None evs (ist0, [], dt))) (tparse (run_events fx (Some n) evs (ist0, [], dt))) /\
  no_adjacent_text (tparse (run_events fx (Some n) evs (ist0, [], dt))) = true.
Proof.
  intros fx n evs dt G. split.
  - unfold tparse. apply coalesce_iso. eapply run_iso; [apply Inv0 | exact G].
  - apply coalesce_no_adjacent.
Qed.

(* the tokens other than indentation are the same with and without indenting *)
Definition not_ws (t : tok) : bool := match t with KWs _ _ => false | _ => true end.

Lemma indent_toks_filter : forall ind st, filter not_ws (indent_toks ind st) = [].
Proof.
  intros ind st. unfold indent_toks. destruct ind; auto.
  destruct (negb (presv st) && negb (prevt st)); auto.
  destruct (negb (snl st) && (cur st =? 0)); auto.
Qed.

Lemma pte_nows : forall st es, filter not_ws (fst (fst (pte st es))) = fst (fst (pte st es)).
Proof. intros st es. destruct es as [|[|] r]; reflexivity. Qed.

Lemma run_strip : forall fx ind evs st0 st es dt,
  filter not_ws (run_events fx ind evs (st, es, dt)) = run_events fx None evs (st0, es, dt).
Proof.
  intros fx ind evs. induction evs as [|e r IH]; intros st0 st es dt.
  - cbn [run_events]. rewrite indent_toks_filter. reflexivity.
  - destruct e as [name attrs | name | t | t | t | t d]; cbn [run_events step];
      try (destruct t; [apply IH|]); destruct es as [|[|] es1]; destruct dt; cbn [pte];
      rewrite ?filter_app, ?indent_toks_filter; cbn [filter not_ws app indent_toks];
      rewrite <- ?app_assoc; cbn [app]; repeat first [apply IH | f_equal].
Qed.

(* ---- refutation witness ------------------------------------------------------------------------------ *)
Definition cdata_witness : list event :=
  [EStart [97] []; ECdata [120]; EStart [98] []; EEnd [98]; EEnd [97]].

Lemma cdata_witness_parse :
  tparse (run_events false None cdata_witness (ist0, [], false)) = [PS [97] []; PT [120]; PS [98] []; PE [98]; PE [97]] /\
  tparse (run_events false (Some 2) cdata_witness (ist0, [], false)) =
    [PS [97] []; PT [120; 10; 32; 32]; PS [98] []; PE [98]; PT [10]; PE [97]; PT [10]].
Proof. split; vm_compute; reflexivity. Qed.

Lemma cdata_witness_not_ws_ins :
  ~ ws_ins (tparse (run_events false None cdata_witness (ist0, [], false)))
           (tparse (run_events false (Some 2) cdata_witness (ist0, [], false))).
Proof.
  destruct cdata_witness_parse as [A B]. rewrite A, B. intros H.
  inversion H; subst. clear H.
  match goal with H : ws_ins _ _ |- _ => inversion H; subst; clear H end.
  match goal with H : ws_only _ |- _ => destruct H as [H _]; vm_compute in H; discriminate end.
Qed.

(* ---- the text method --------------------------------------------------------------------------------- *)
Definition frame_text (f : frame) : list N := let '(_, _, up) := f in flat_map string_value (rev up).

Lemma flat_map_rev_cons : forall (x : rnode) l, flat_map string_value (rev (x :: l)) = flat_map string_value (rev l) ++ string_value x.
Proof. intros. cbn [rev]. rewrite flat_map_app. cbn. rewrite app_nil_r. reflexivity. Qed.

(* with open elements on the stack the text written so far is the text of the closed parts; generalised
   statement: the string-value of what [build] returns = text of the stack frames (outermost first) ++ text of
   the current children ++ the text of the remaining events *)
Fixpoint stack_text (stack : list frame) : list N :=
  match stack with
  | [] => []
  | f :: r => stack_text r ++ frame_text f
  end.

Lemma build_text : forall evs cur_rev stack,
  balanced (length stack) evs = true ->
  flat_map string_value (build evs cur_rev stack) =
  stack_text stack ++ flat_map string_value (rev cur_rev) ++ ser_text_units evs.
Proof.
  induction evs as [|e r IH]; intros cur_rev stack B.
  - cbn in B. destruct stack; [|discriminate]. cbn. rewrite app_nil_r. reflexivity.
  - destruct e as [name attrs | name | t | t | t | t d]; cbn [build balanced ser_text_units flat_map text_step] in *.
    + rewrite (IH [] ((name, attrs, cur_rev) :: stack)) by exact B.
      cbn [stack_text frame_text rev flat_map app]. rewrite <- app_assoc. reflexivity.
    + destruct stack as [|[[n a] up] st]; [discriminate|].
      cbn [length] in B. rewrite (IH _ st) by exact B.
      cbn [stack_text frame_text]. rewrite flat_map_rev_cons. cbn [string_value].
      rewrite <- !app_assoc. reflexivity.
    + rewrite IH by exact B. rewrite flat_map_rev_cons. cbn [string_value]. rewrite <- !app_assoc. reflexivity.
    + rewrite IH by exact B. rewrite flat_map_rev_cons. cbn [string_value]. rewrite <- !app_assoc. reflexivity.
    + rewrite IH by exact B. rewrite flat_map_rev_cons. cbn [string_value]. rewrite app_nil_r. reflexivity.
    + rewrite IH by exact B. rewrite flat_map_rev_cons. cbn [string_value]. rewrite app_nil_r. reflexivity.
Qed.

Theorem text_units_are_string_value : forall evs, balanced 0 evs = true ->
  ser_text_units evs = flat_map string_value (build evs [] []).
Proof. intros evs B. rewrite build_text by exact B. reflexivity. Qed.

Lemma stream_encode_representable : forall k s, k <> EncUtf8 -> forallb (representable k) s = true ->
  flat_map (stream_encode_unit k) s = s.
Proof.
  intros k s Hk. induction s as [|c r IH]; cbn [forallb flat_map]; auto.
  intros H. apply andb_true_iff in H. destruct H as [H1 H2]. rewrite IH by exact H2.
  destruct k; cbn in *; try rewrite H1; reflexivity.
Qed.

(* ---- option selection ------------------------------------------------------------------------------- *)
(* per-field characterisation of the fold: every field except cdata and indent is "last one wins" *)
Definition no_late_cdata (outs : list (list oattr)) : Prop :=
  forall pre a post, concat outs = pre ++ a :: post ->
    (exists ns, a = ACdataElems ns) ->
    match fold_left (fun acc x => match x with AMethod m => Some m | _ => acc end) pre None with
    | Some MHtml | Some MText => False
    | _ => True
    end.

Lemma apply_attr_method : forall r a,
  r_method (apply_attr r a) = match a with AMethod m => m | _ => r_method r end.
Proof. intros r a. destruct a; cbn; auto. destruct (r_method r) eqn:E; cbn; auto. Qed.

Lemma apply_attr_encoding : forall r a,
  r_encoding (apply_attr r a) = match a with AEncoding s => s | _ => r_encoding r end.
Proof. intros r a. destruct a; cbn; auto. destruct (r_method r); reflexivity. Qed.

Lemma finish_method : forall r, r_method (finish_output r) = r_method r.
Proof. intros r. unfold finish_output. destruct (r_method r) eqn:E, (r_indent r); cbn; auto. Qed.

Lemma finish_encoding : forall r, r_encoding (finish_output r) = r_encoding r.
Proof. intros r. unfold finish_output. destruct (r_method r), (r_indent r); cbn; auto. Qed.

Lemma fold_attrs_method : forall o r,
  r_method (fold_left apply_attr o r) =
  match fold_left (fun acc x => match x with AMethod m => Some m | _ => acc end) o None with
  | Some m => m | None => r_method r end.
Proof.
  intros o. induction o as [|a o IH] using rev_ind; intros r; cbn; auto.
  rewrite !fold_left_app. cbn [fold_left]. rewrite apply_attr_method. destruct a; auto.
Qed.

Lemma fold_attrs_encoding : forall o r,
  r_encoding (fold_left apply_attr o r) =
  match fold_left (fun acc x => match x with AEncoding m => Some m | _ => acc end) o None with
  | Some m => m | None => r_encoding r end.
Proof.
  intros o. induction o as [|a o IH] using rev_ind; intros r; cbn; auto.
  rewrite !fold_left_app. cbn [fold_left]. rewrite apply_attr_encoding. destruct a; auto.
Qed.

Lemma last_some_app : forall A (f : oattr -> option A) l1 l2 acc,
  fold_left (fun acc a => match f a with Some x => Some x | None => acc end) (l1 ++ l2) acc =
  fold_left (fun acc a => match f a with Some x => Some x | None => acc end) l2
    (fold_left (fun acc a => match f a with Some x => Some x | None => acc end) l1 acc).
Proof. intros. apply fold_left_app. Qed.

Lemma fold_some_init : forall A (f : oattr -> option A) l acc,
  fold_left (fun acc a => match f a with Some x => Some x | None => acc end) l acc =
  match fold_left (fun acc a => match f a with Some x => Some x | None => acc end) l None with
  | Some x => Some x | None => acc end.
Proof.
  intros A f l. induction l as [|a l IH]; intros acc; cbn; auto.
  destruct (f a) eqn:E.
  - rewrite (IH (Some a0)). destruct (fold_left _ l None); reflexivity.
  - apply IH.
Qed.

Lemma fold_AMethod_eq : forall o acc,
  fold_left (fun acc a => match (match a with AMethod m => Some m | _ => None end) with Some x => Some x | None => acc end) o acc =
  fold_left (fun acc x => match x with AMethod m => Some m | _ => acc end) o acc.
Proof. induction o as [|a o IH]; intros acc; cbn; auto. destruct a; apply IH. Qed.

Lemma fold_AEncoding_eq : forall o acc,
  fold_left (fun acc a => match (match a with AEncoding m => Some m | _ => None end) with Some x => Some x | None => acc end) o acc =
  fold_left (fun acc x => match x with AEncoding m => Some m | _ => acc end) o acc.
Proof. induction o as [|a o IH]; intros acc; cbn; auto. destruct a; apply IH. Qed.

Lemma process_outputs_method_gen : forall outs r,
  r_method (fold_left (fun r o => finish_output (fold_left apply_attr o r)) outs r) =
  match last_some (fun a => match a with AMethod m => Some m | _ => None end) outs with
  | Some m => m | None => r_method r end.
Proof.
  intros outs. induction outs as [|o outs IH] using rev_ind; intros r.
  - reflexivity.
  - rewrite fold_left_app. cbn [fold_left]. rewrite finish_method, fold_attrs_method.
    unfold last_some. rewrite concat_app. cbn [concat]. rewrite app_nil_r, fold_left_app.
    rewrite IH. unfold last_some.
    set (F := fold_left _ (concat outs) None).
    rewrite (fold_some_init _ (fun a => match a with AMethod m => Some m | _ => None end) o F).
    rewrite <- fold_AMethod_eq. destruct (fold_left _ o None); auto.
Qed.

Theorem process_outputs_method : forall outs, r_method (process_outputs outs) = spec_method outs.
Proof.
  intros outs. unfold process_outputs, spec_method. rewrite process_outputs_method_gen.
  destruct (last_some _ outs); reflexivity.
Qed.

Lemma process_outputs_encoding_gen : forall outs r,
  r_encoding (fold_left (fun r o => finish_output (fold_left apply_attr o r)) outs r) =
  match last_some (fun a => match a with AEncoding m => Some m | _ => None end) outs with
  | Some m => m | None => r_encoding r end.
Proof.
  intros outs. induction outs as [|o outs IH] using rev_ind; intros r.
  - reflexivity.
  - rewrite fold_left_app. cbn [fold_left]. rewrite finish_encoding, fold_attrs_encoding.
    unfold last_some. rewrite concat_app. cbn [concat]. rewrite app_nil_r, fold_left_app.
    rewrite IH. unfold last_some.
    set (F := fold_left _ (concat outs) None).
    rewrite (fold_some_init _ (fun a => match a with AEncoding m => Some m | _ => None end) o F).
    rewrite <- fold_AEncoding_eq. destruct (fold_left _ o None); auto.
Qed.

Theorem process_outputs_encoding : forall outs, r_encoding (process_outputs outs) = spec_encoding outs.
Proof.
  intros outs. unfold process_outputs, spec_encoding. rewrite process_outputs_encoding_gen.
  destruct (last_some _ outs); reflexivity.
Qed.

(* ---- option selection: cdata-section-elements and indent ------------------------------------------------ *)
Definition xmlish (r : sroot) : Prop := match r_method r with MNone | MXml => True | _ => False end.
Definition attr_xmlish (a : oattr) : bool := match a with AMethod MHtml | AMethod MText => false | _ => true end.
Definition attr_no_amount (a : oattr) : bool := match a with AIndentAmount _ => false | _ => true end.
Definition cd_of (a : oattr) : list (list N) := match a with ACdataElems ns => ns | _ => [] end.
Definition ind_of (a : oattr) : option bool := match a with AIndent b => Some b | _ => None end.

Lemma apply_attr_cd : forall r a, xmlish r -> attr_xmlish a = true ->
  xmlish (apply_attr r a) /\ r_cdata (apply_attr r a) = r_cdata r ++ cd_of a.
Proof.
  intros r a X A. unfold xmlish in *. destruct a; cbn in *; try (split; [exact X | rewrite app_nil_r; reflexivity]).
  - destruct m; try discriminate; split; auto; rewrite app_nil_r; reflexivity.
  - destruct (r_method r) eqn:E; try contradiction; cbn; rewrite ?E; split; auto.
Qed.

Lemma finish_cd : forall r, xmlish r -> xmlish (finish_output r) /\ r_cdata (finish_output r) = r_cdata r /\ finish_output r = r.
Proof.
  intros r X. unfold xmlish, finish_output in *. destruct (r_method r) eqn:E; try contradiction; rewrite ?E; auto.
Qed.

Lemma fold_attrs_cd : forall o r, xmlish r -> forallb attr_xmlish o = true ->
  xmlish (fold_left apply_attr o r) /\ r_cdata (fold_left apply_attr o r) = r_cdata r ++ flat_map cd_of o.
Proof.
  induction o as [|a o IH]; intros r X A; cbn [fold_left flat_map forallb] in *.
  - split; auto. rewrite app_nil_r. reflexivity.
  - apply andb_true_iff in A. destruct A as [A1 A2].
    destruct (apply_attr_cd r a X A1) as [X1 C1].
    destruct (IH _ X1 A2) as [X2 C2]. split; auto. rewrite C2, C1, app_assoc. reflexivity.
Qed.

Lemma process_cd_gen : forall outs r, xmlish r -> forallb (forallb attr_xmlish) outs = true ->
  r_cdata (fold_left (fun r o => finish_output (fold_left apply_attr o r)) outs r) = r_cdata r ++ flat_map cd_of (concat outs).
Proof.
  induction outs as [|o outs IH]; intros r X A; cbn [fold_left concat forallb] in *.
  - cbn. rewrite app_nil_r. reflexivity.
  - apply andb_true_iff in A. destruct A as [A1 A2].
    destruct (fold_attrs_cd o r X A1) as [X1 C1].
    destruct (finish_cd _ X1) as [X2 [C2 _]].
    rewrite (IH _ X2 A2), C2, C1, flat_map_app, app_assoc. reflexivity.
Qed.

Theorem process_outputs_cdata : forall outs, forallb (forallb attr_xmlish) outs = true ->
  r_cdata (process_outputs outs) = spec_cdata outs.
Proof.
  intros outs A. unfold process_outputs. rewrite process_cd_gen; auto. exact I.
Qed.

(* indent: no html/text method, no xalan:indent-amount: the flag is the last explicit indent attribute *)
Definition ind_state (r : sroot) (last : option bool) : Prop :=
  r_amount r = stylesheet_indent_amount_default /\ xmlish r /\
  r_indent r = match last with Some true => IndYesExplicit | Some false => IndNoExplicit | None => IndNoImplicit end.

Definition upd (last : option bool) (a : oattr) : option bool := match ind_of a with Some b => Some b | None => last end.

Lemma apply_attr_ind : forall r a last, ind_state r last -> attr_xmlish a = true -> attr_no_amount a = true ->
  ind_state (apply_attr r a) (upd last a).
Proof.
  intros r a last [A [X I]] H1 H2. unfold ind_state, xmlish, upd in *.
  destruct a as [m|s|b|s|b|s|s|s|ns|z|b|b]; cbn in *; try discriminate; auto.
  all: try (destruct m; try discriminate; auto; fail).
  all: try (destruct b; auto; fail).
  all: try (destruct (r_method r) eqn:E; try contradiction; cbn; rewrite ?E; auto).
Qed.

Lemma fold_attrs_ind : forall o r last, ind_state r last -> forallb attr_xmlish o = true -> forallb attr_no_amount o = true ->
  ind_state (fold_left apply_attr o r) (fold_left upd o last).
Proof.
  induction o as [|a o IH]; intros r last S A B; cbn [fold_left forallb] in *; auto.
  apply andb_true_iff in A. apply andb_true_iff in B. destruct A, B. apply IH; auto. apply apply_attr_ind; auto.
Qed.

Lemma process_ind_gen : forall outs r last, ind_state r last ->
  forallb (forallb attr_xmlish) outs = true -> forallb (forallb attr_no_amount) outs = true ->
  ind_state (fold_left (fun r o => finish_output (fold_left apply_attr o r)) outs r) (fold_left upd (concat outs) last).
Proof.
  induction outs as [|o outs IH]; intros r last S A B; cbn [fold_left concat forallb] in *; auto.
  apply andb_true_iff in A. apply andb_true_iff in B. destruct A as [A1 A2], B as [B1 B2].
  rewrite fold_left_app. apply IH; auto.
  pose proof (fold_attrs_ind o r last S A1 B1) as S1.
  destruct S1 as [P [X Q]]. destruct (finish_cd _ X) as [_ [_ E]]. rewrite E. split; auto.
Qed.

Lemma upd_is_last_some : forall l last,
  fold_left upd l last = fold_left (fun acc a => match ind_of a with Some x => Some x | None => acc end) l last.
Proof. reflexivity. Qed.

Theorem select_indent_partial : forall outs a,
  forallb (forallb attr_xmlish) outs = true -> forallb (forallb attr_no_amount) outs = true -> (a_indent a < 0)%Z ->
  fst (fst (select_coded (process_outputs outs) a)) = spec_indent outs.
Proof.
  intros outs a A B H. unfold process_outputs.
  assert (S0 : ind_state sroot0 None) by (repeat split; exact I).
  pose proof (process_ind_gen outs sroot0 None S0 A B) as [P [X Q]].
  unfold select_coded. cbn [fst]. apply Z.ltb_lt in H. rewrite H. rewrite P.
  unfold spec_indent, last_some.
  replace (fold_left (fun acc a0 => match match a0 with AIndent b => Some b | _ => None end with Some x => Some x | None => acc end) (concat outs) None)
    with (fold_left upd (concat outs) None) by reflexivity.
  unfold output_indent. rewrite Q.
  assert (M : spec_method outs <> MHtml).
  { rewrite <- process_outputs_method. unfold process_outputs. unfold xmlish in X. intros E. rewrite E in X. exact X. }
  destruct (fold_left upd (concat outs) None) as [[|]|]; cbn; try reflexivity.
  destruct (spec_method outs); try reflexivity. contradiction.
Qed.

Theorem api_indent_forces_indenting : forall r a, (0 <= a_indent a)%Z ->
  fst (fst (select_coded r a)) = true /\ snd (fst (select_coded r a)) = Z.to_N (a_indent a).
Proof.
  intros r a H. unfold select_coded. cbn [fst snd].
  assert (E : (a_indent a <? 0)%Z = false) by (apply Z.ltb_ge; exact H). rewrite E.
  assert (F : (indent_on_when_amount_gt <? a_indent a)%Z = true) by (apply Z.ltb_lt; unfold indent_on_when_amount_gt; lia).
  rewrite F, ?E. split; reflexivity.
Qed.
