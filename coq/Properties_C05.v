(* Properties_C05.v - C05: the result does not depend on how source, stylesheet and output are supplied.
   What Coq carries: the three mechanisms in which the forms differ (FormsDefs.v):
   native tree building from SAX events (text accumulation, index assignment), the wrapper walk over
   a Xerces DOM, and the buffered callback output stream.  The model consumes GenForms.v, regenerated
   from /repo on every run.  The remaining plumbing (file / stream / C API / command line) is covered
   by the differential run of props/C05.py, not by these theorems. *)
From Coq Require Import NArith List Bool.
Import ListNotations.
Require Import XV.GenForms XV.FormsDefs XV.FormsModel XV.FormsChunks XV.FormsTree XV.FormsWrap XV.FormsIdDefs XV.FormsId.

(** * 1. characters() chunking *)

(* ANY re-chunking of characters events (splitting at any position, inserting or removing empty
   events, anywhere in the stream) builds the same tree, or fails in the same way *)
Theorem build_chunking_invariant : forall l1 l2, rechunk l1 l2 -> build_sax l1 = build_sax l2.
Proof. exact build_rechunk. Qed.
Print Assumptions build_chunking_invariant.

(* the re-chunking relation is exactly "same normal form" (adjacent characters merged, empty dropped) *)
Theorem rechunk_is_same_normal_form : forall l1 l2, rechunk l1 l2 <-> norm l1 = norm l2.
Proof. exact rechunk_iff_norm. Qed.
Print Assumptions rechunk_is_same_normal_form.

Theorem normal_form_is_normal : forall l, chars_normal (norm l) = true.
Proof. exact norm_normal. Qed.
Print Assumptions normal_form_is_normal.

(* the SAX serialisation of an XPath-normal document (no empty text, no adjacent text, no text at
   the top level, one document element), with its text chunked in any way, builds exactly that document, numbered in
   pre-order from first_index: adjacent chunks are ONE text node, no empty text node appears, text is
   never merged across an element boundary, a comment or a processing instruction *)
Theorem build_of_any_chunking : forall ts evs, top_ok ts = true -> rechunk evs (events_of_list ts) ->
  build_sax evs = Some (fst (number_list true first_index ts)).
Proof. exact build_roundtrip. Qed.
Print Assumptions build_of_any_chunking.

(** * 2. indexes *)

(* whatever (well-nested) event sequence is fed: the indexes read in document order (element, its
   attribute nodes, its children) are first_index, first_index+1, ... : index order = document order *)
Theorem index_is_preorder : forall evs d, build_sax evs = Some d -> incr_from first_index (flat d).
Proof. exact index_preorder. Qed.
Print Assumptions index_is_preorder.

(* the wrapper walk over every DOM (CDATA sections, entity references, document type included): the indexes
   of the nodes it links increase in document order (element, its attributes, its children) *)
Theorem wrap_indexes_ascend : forall xs, ascending_from wrap_first_index (wflat (wrap xs)).
Proof. exact wrap_ascending. Qed.
Print Assumptions wrap_indexes_ascend.

(* without a document type node (whose wrapper and entities take indexes but are not linked) they are consecutive *)
Theorem wrap_is_preorder : forall xs, forallb xnodoctype xs = true -> incr_from wrap_first_index (wflat (wrap xs)).
Proof. exact wrap_preorder. Qed.
Print Assumptions wrap_is_preorder.

(* and it presents exactly the DOM's nodes except the document type, in the DOM's order *)
Theorem wrap_presents_dom : forall xs, map wstrip (wrap xs) = map x2t (drop_doctype xs).
Proof. exact wrap_strip. Qed.
Print Assumptions wrap_presents_dom.

(** * 3. wrapper view = native tree *)

(* full statement: for every DOM, the wrapper presents the nodes of the native tree of the DOM's serialisation *)
Definition wrap_eq_build_statement (xs : list xnode) : Prop :=
  exists d, build_sax (sax_of_list xs) = Some d /\ map (strip true) d = map wstrip (wrap xs).

Definition s_a : str := [97%N].
Definition s_b : str := [98%N].
Definition s_x : str := [120%N].
Definition s_y : str := [121%N].

(* refuted by a CDATA section next to text: two wrapper nodes, one native text node *)
Definition cdata_witness : list xnode := [XElem s_a [] [XText s_x; XCData s_y]].
Theorem wrap_eq_build_refuted : ~ (forall xs, wrap_eq_build_statement xs).
Proof.
  intro H. destruct (H cdata_witness) as [d [Hb He]]. vm_compute in Hb. inversion Hb; subst. vm_compute in He. discriminate.
Qed.
Print Assumptions wrap_eq_build_refuted.

(* a document type declaration no longer refutes it (the wrapper does not link the DocumentType node
   into the child chain since the repair of K05c): see wrap_eq_build_partial, whose guard ignores it *)
Definition doctype_witness : list xnode := [XDoctype s_a 2; XComment s_x; XElem s_a [] [XText s_y]].
Example doctype_witness_agrees : wrap_eq_build_statement doctype_witness.
Proof. eexists. split; [vm_compute; reflexivity | vm_compute; reflexivity]. Qed.

(* refuted also by attribute order alone: the DOM keeps its own order, the native builder puts the
   xmlns declarations first *)
Definition attr_witness : list xnode := [XElem s_a [(s_b, s_x); (s_xmlns_colon ++ s_y, s_x)] []].
Theorem wrap_eq_build_refuted_attr_order : ~ wrap_eq_build_statement attr_witness.
Proof. intros [d [Hb He]]. vm_compute in Hb. inversion Hb; subst. vm_compute in He. discriminate. Qed.
Print Assumptions wrap_eq_build_refuted_attr_order.

(* partial: exact decidable guard xnormal (drop_doctype xs) = apart from the document type only
   element/text/comment/PI nodes, XPath-normal text, attributes in the native order (xmlns declarations
   first, no explicit xmlns:xml).  Then: same nodes in the same order (indexes and the implicit xmlns:xml
   attribute of the native document element erased), the native numbering is consecutive and the
   wrapper's increases in that order *)
Theorem wrap_eq_build_partial : forall xs, xnormal (drop_doctype xs) = true ->
  exists d, build_sax (sax_of_list xs) = Some d
            /\ map (strip true) d = map wstrip (wrap xs)
            /\ incr_from first_index (flat d)
            /\ ascending_from wrap_first_index (wflat (wrap xs)).
Proof. exact wrap_eq_build. Qed.
Print Assumptions wrap_eq_build_partial.

(** * 4. chunked output *)

(* XalanOutputStream exists in two variants k (FormsDefs.ostep_k): the original one (k = false) and the one
   repaired for K05e / C08 K-C08-2 (k = true: a flush done because more data is coming keeps a trailing high
   surrogate in the buffer).  GenForms.stream_keeps_high_surrogate, regenerated from /repo, says which one the
   tree has (chunks = chunks_k stream_keeps_high_surrogate is what the correspondence run compares with the
   library); the theorems are proved for BOTH. *)

(* full statement: flushing delivers exactly the written units, in order *)
Definition chunks_concat_statement (k : bool) (bs : N) (ws : list owrite) : Prop :=
  delivered (chunks_k k bs (ws ++ [OFlush])) = written ws.

(* refuted, in both variants: write(const char*, n) goes straight to the callback and does not flush the
   buffered wide data first (the header only documents the obligation; only an assert guards it) *)
Theorem chunks_concat_refuted : forall k, ~ (forall bs ws, chunks_concat_statement k bs ws).
Proof. intros k H. specialize (H ostream_bufsize [OWide [97%N]; ONarrow [98%N]]). destruct k; vm_compute in H; discriminate. Qed.
Print Assumptions chunks_concat_refuted.

(* partial: exact decidable guard narrow_ok = every narrow write finds the buffer empty.  For every
   buffer size (0 included) and every write sequence: nothing dropped, reordered or duplicated, the
   last partial buffer (and a high surrogate that was kept back) is delivered at flush *)
Theorem chunks_concat_partial : forall k bs ws, narrow_ok_k k bs ws = true -> chunks_concat_statement k bs ws.
Proof. exact chunks_units_k. Qed.
Print Assumptions chunks_concat_partial.

(* the instance for the tree as it is *)
Theorem chunks_concat_current : forall bs ws, narrow_ok bs ws = true -> delivered (chunks bs (ws ++ [OFlush])) = written ws.
Proof. exact (chunks_units_k stream_keeps_high_surrogate). Qed.
Print Assumptions chunks_concat_current.

(* before the final flush nothing is lost either: the rest is exactly the buffer content *)
Theorem chunks_pending : forall k bs ws, narrow_ok_k k bs ws = true ->
  delivered (chunks_k k bs ws) ++ o_buf (orun_k k bs ws) = written ws.
Proof. exact chunks_units_pending_k. Qed.
Print Assumptions chunks_pending.

(* byte level, for any block-wise transcoder (tc (a ++ b) = tc a ++ tc b) *)
Theorem chunks_concat_transcoded : forall (tc : list N -> list N), (forall a b, tc (a ++ b) = tc a ++ tc b) ->
  forall k bs ws, narrow_ok_k k bs ws = true ->
  flat_map (bytes_c tc) (chunks_k k bs (ws ++ [OFlush])) = flat_map (bytes_w tc) ws.
Proof. exact chunks_bytes_k. Qed.
Print Assumptions chunks_concat_transcoded.

(* the UTF-16 pass-through of doWrite is such a transcoder *)
Theorem chunks_concat_utf16 : forall k bs ws, narrow_ok_k k bs ws = true ->
  flat_map (bytes_c utf16le) (chunks_k k bs (ws ++ [OFlush])) = flat_map (bytes_w utf16le) ws.
Proof. intros. apply chunks_bytes_k; [apply utf16le_app | assumption]. Qed.
Print Assumptions chunks_concat_utf16.

(* sizes: the buffer never exceeds its size (+ 1 in the repaired variant: the high surrogate kept back); every
   callback chunk is at most that long, or it is exactly one oversized write (original variant) / a piece
   of one oversized write (repaired variant) *)
Theorem chunks_are_bounded : forall k bs ws,
  Forall (chunk_ok k (eff_size bs) ws) (chunks_k k bs ws) /\ (len (o_buf (orun_k k bs ws)) <= eff_size bs + slack k)%N.
Proof. exact chunks_bounded_k. Qed.
Print Assumptions chunks_are_bounded.

(** * 5. the element-by-ID table of the native builder (id()) *)

(* registering IDs does not disturb the tree: same document as build_sax of the untyped events *)
Theorem id_table_keeps_tree : forall evs d t, build_ids evs = Some (d, t) -> build_sax (map erase evs) = Some d.
Proof. exact build_ids_tree. Qed.
Print Assumptions id_table_keeps_tree.

(* getElementById(v) on the native tree = the FIRST element in document order with an attribute whose
   declared type is exactly "ID" and whose value is v (IDREF / IDREFS / NMTOKEN ... are never registered) *)
Theorem id_table_first_wins : forall evs d t v, build_ids evs = Some (d, t) ->
  id_lookup t v = id_lookup (all_id_pairs h_init evs) v.
Proof. exact table_is_first. Qed.
Print Assumptions id_table_first_wins.

Theorem id_table_only_declared_ids : forall evs d t p, build_ids evs = Some (d, t) -> In p t -> In p (all_id_pairs h_init evs).
Proof. exact table_only_ids. Qed.
Print Assumptions id_table_only_declared_ids.

(* with unique IDs the table IS the list of the ID attributes (value -> its one element): what
   DOMDocument::getElementById answers on the Xerces DOM of the same document *)
Theorem id_table_unique_ids : forall evs d t, build_ids evs = Some (d, t) -> unique_ids (all_id_pairs h_init evs) ->
  t = all_id_pairs h_init evs.
Proof. exact table_unique. Qed.
Print Assumptions id_table_unique_ids.

(** * the hypotheses are satisfiable / the statements are not vacuous *)
Definition doc1 : list tree :=
  [TComment s_x; TElem s_a [(s_b, s_x); (s_xmlns_colon ++ s_y, s_x)] [TText (s_x ++ s_y); TComment []; TText s_y; TElem s_b [] []; TText s_x]].

Example doc1_ok : top_ok doc1 = true.
Proof. reflexivity. Qed.

(* <!--x--><a b="x" xmlns:y="x">xy<!---->y<b/>x</a> with "xy" delivered as "", "x", "", "y", "" *)
Definition doc1_chunked : list sax_event :=
  [EComment s_x; EStart s_a [(s_b, s_x); (s_xmlns_colon ++ s_y, s_x)];
   EChars []; EChars s_x; EChars []; EChars s_y; EChars [];
   EComment []; EChars s_y; EStart s_b []; EEnd; EChars s_x; EChars []; EEnd].

Example doc1_rechunk : rechunk doc1_chunked (events_of_list doc1).
Proof. apply rechunk_iff_norm. reflexivity. Qed.

Example doc1_built :
  build_sax doc1_chunked =
  Some [IComment 2 s_x;
        IElem 3 s_a [(4%N, xml_attr); (5%N, (s_xmlns_colon ++ s_y, s_x)); (6%N, (s_b, s_x))]
          [IText 7 (s_x ++ s_y); IComment 8 []; IText 9 s_y; IElem 10 s_b [] []; IText 11 s_x]].
Proof. vm_compute. reflexivity. Qed.

(* not well nested / text at the top level: the builder fails, in every chunking *)
Example not_nested : build_sax [EStart s_a []; EEnd; EEnd] = None /\ build_sax [EStart s_a []] = None
                     /\ build_sax [EChars []; EChars s_x; EStart s_a []; EEnd] = None
                     /\ build_sax [EStart s_a []; EEnd; EComment []; EStart s_b []; EEnd] = None.
Proof. vm_compute. auto. Qed.

Definition dom1 : list xnode :=
  [XComment s_x; XElem s_a [(s_xmlns_colon ++ s_y, s_x); (s_b, s_x)] [XText (s_x ++ s_y); XPi s_b s_x; XElem s_b [] []]].
Example dom1_normal : xnormal (drop_doctype (XDoctype s_a 1 :: dom1)) = true.
Proof. reflexivity. Qed.

Example dom1_wrapped :
  wrap dom1 = [WComment 2 s_x;
               WElem 3 s_a [(4%N, (s_xmlns_colon ++ s_y, s_x)); (5%N, (s_b, s_x))]
                 [WText 6 (s_x ++ s_y); WPi 7 s_b s_x; WElem 8 s_b [] []]].
Proof. vm_compute. reflexivity. Qed.

(* a document type with two entities takes three indexes and is not linked *)
Example doctype_indexes : wflat (wrap [XDoctype s_a 2; XElem s_a [] [XCData s_x; XEntRef s_b [XText s_y]]]) = [5; 6; 7; 8]%N.
Proof. vm_compute. reflexivity. Qed.

(* the difference between the variants: a pair written unit by unit over a full buffer of 4 (K05e) ... *)
Definition u_hi : N := 55357%N.     (* U+1F600 = D83D DE00 *)
Definition u_lo : N := 56832%N.
Definition pair_at_boundary : list owrite := [OChar 97; OChar 98; OChar 99; OChar u_hi; OChar u_lo; OChar 100; OFlush]%N.
Example surrogate_split_original :
  chunks_k false 4 pair_at_boundary = [CWide [97; 98; 99; u_hi]; CWide [u_lo; 100]]%N.
Proof. vm_compute. reflexivity. Qed.
Example surrogate_kept_back_repaired :
  chunks_k true 4 pair_at_boundary = [CWide [97; 98; 99]; CWide [u_hi; u_lo; 100]]%N.
Proof. vm_compute. reflexivity. Qed.
(* ... with a buffer of ONE unit, and on the block path (the block's last unit waits, and goes out with the next block's first) *)
Example surrogate_buffer_of_one :
  chunks_k true 1 [OChar u_hi; OChar u_lo; OChar 100; OFlush]%N = [CWide [u_hi; u_lo]; CWide [100]]%N.
Proof. vm_compute. reflexivity. Qed.
Example surrogate_block_path :
  chunks_k true 2 [OWide [97; 98; u_hi]; OWide [u_lo; 99; 100]; OFlush]%N = [CWide [97; 98]; CWide [u_hi; u_lo]; CWide [99; 100]]%N.
Proof. vm_compute. reflexivity. Qed.

(* <a><see ref="k2"/><entry id="k2"/><see ref="nope"/></a> with ref IDREF, id ID: the forward reference does
   not shadow its target, the dangling one resolves to nothing *)
Definition s_id : str := [105; 100]%N.
Definition s_ref : str := [114; 101; 102]%N.
Definition s_k2 : str := [107; 50]%N.
Definition s_IDREF : str := [73; 68; 82; 69; 70]%N.
Definition id_events : list tevent :=
  [TStart s_a []; TStart s_x [((s_ref, s_k2), s_IDREF)]; TEv EEnd; TStart s_y [((s_id, s_k2), s_ID)]; TEv EEnd;
   TStart s_x [((s_ref, s_b), s_IDREF)]; TEv EEnd; TEv EEnd].
Example forward_idref_does_not_shadow : get_element_by_id id_events s_k2 = Some 6%N /\ get_element_by_id id_events s_b = None.
Proof. vm_compute. auto. Qed.
Example id_events_unique : unique_ids (all_id_pairs h_init id_events).
Proof. vm_compute. repeat constructor; intros []. Qed.

Definition writes1 : list owrite := [OWide [1; 2; 3]; OChar 4; OWide [5; 6; 7; 8; 9]; OFlush; ONarrow [10; 11]; OWide [12]]%N.
Example writes1_ok : narrow_ok 4 writes1 = true.
Proof. reflexivity. Qed.
Example writes1_chunks :
  chunks 4 (writes1 ++ [OFlush]) = [CWide [1; 2; 3; 4]; CWide [5; 6; 7; 8; 9]; CNarrow [10; 11]; CWide [12]]%N.
Proof. vm_compute. reflexivity. Qed.
