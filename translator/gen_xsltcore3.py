"""C01, part core2, deliverable (b): structural facts of the lazy evaluation of top-level variables / params that
coq/XsltCore3Defs.v models (VariablesStack::findXObject, findEntry, ElemVariable::getValue,
Stylesheet::pushTopLevelVariables), re-read from the current source on every run (coq/GenXsltCore3.v).
coq/Properties_C01core3.v (core3_lazy_evaluation_shapes_as_in_source) needs every one of them to be `true`.
Lenient about formatting; fails closed (AnchorError) when a function cannot be found."""
import re
import srcfacts
from gen_xsltcore2 import in_order, body_of


def gen_xsltcore3():
    facts = {}
    vs = srcfacts.strip_comments(srcfacts.read("XSLT/VariablesStack.cpp"))
    fx = body_of(vs, r"VariablesStack::findXObject\s*\([^)]*\)\s*\{", "VariablesStack::findXObject")
    # only the iterative build
    fx = re.sub(r"#else.*?#endif", "#endif", fx, flags=re.S)
    facts["value_present_returned_without_evaluation"] = in_order(
        fx, r"theValue\s*=\s*m_stack\s*\[\s*theEntryIndex\s*\]\s*\.\s*getValue\s*\(", r"if\s*\(\s*theValue\s*\.\s*null\s*\(\s*\)\s*==\s*false\s*\)\s*\{\s*return\s+theValue\s*;",
        r"else", r"getVariable\s*\(")
    guard_find = r"find\s*\(\s*m_guardStack\s*\.\s*begin\s*\(\s*\)\s*,\s*m_guardStack\s*\.\s*end\s*\(\s*\)\s*,\s*var\s*\)\s*!=\s*m_guardStack\s*\.\s*end\s*\(\s*\)"
    facts["guard_whole_stack_searched"] = bool(re.search(guard_find, fx))
    facts["guard_searched_before_push"] = in_order(fx, guard_find, r"CircularVariableDefWasDetected", r"m_guardStack\s*\.\s*push_back\s*\(\s*var\s*\)")
    facts["guard_push_marker_eval_marker_pop_store"] = in_order(
        fx, r"m_guardStack\s*\.\s*push_back\s*\(\s*var\s*\)", r"executionContext\s*\.\s*pushContextMarker\s*\(\s*\)",
        r"theNewValue\s*=\s*var\s*->\s*getValue\s*\(\s*executionContext\s*,\s*doc\s*\)", r"executionContext\s*\.\s*popContextMarker\s*\(\s*\)",
        r"m_guardStack\s*\.\s*pop_back\s*\(\s*\)", r"m_stack\s*\[\s*theEntryIndex\s*\]\s*\.\s*setValue\s*\(\s*theNewValue\s*\)") and \
        len(re.findall(r"var\s*->\s*getValue\s*\(", fx)) == 1
    facts["context_node_list_is_root_only"] = in_order(
        fx, r"doc\s*=\s*executionContext\s*\.\s*getRootDocument\s*\(", r"executionContext\s*\.\s*pushContextMarker", r"theRootNodeList\s*->\s*addNode\s*\(\s*doc\s*\)",
        r"ContextNodeListPushAndPop\s+\w+\s*\(\s*executionContext\s*,\s*\*\s*theRootNodeList\s*\)", r"var\s*->\s*getValue\s*\(")
    facts["text_only_mode_off_during_evaluation"] = in_order(
        fx, r"SetAndRestoreCopyTextNodesOnly\s+\w+\s*\(\s*executionContext\s*,\s*false\s*\)", r"var\s*->\s*getValue\s*\(")
    fe = body_of(vs, r"VariablesStack::findEntry\s*\([^)]*\)\s*\{", "VariablesStack::findEntry")
    facts["global_search_after_local_frame"] = in_order(
        fe, r"for\s*\(\s*size_type\s+i\s*=\s*nElems\s*-\s*1\s*;\s*i\s*>\s*0\s*;\s*--\s*i\s*\)",
        r"theEntryIndex\s*==\s*m_stack\s*\.\s*size\s*\(\s*\)\s*&&\s*fIsParam\s*==\s*false\s*&&\s*true\s*==\s*fSearchGlobalSpace",
        r"for\s*\(\s*size_type\s+i\s*=\s*m_globalStackFrameIndex\s*-\s*1\s*;\s*i\s*>\s*0\s*;\s*i\s*--\s*\)")

    ev = srcfacts.strip_comments(srcfacts.read("XSLT/ElemVariable.cpp"))
    gv = body_of(ev, r"ElemVariable::getValue\s*\([^)]*\)\s*const\s*\{", "ElemVariable::getValue")
    facts["getvalue_empty_is_empty_string"] = in_order(
        gv, r"if\s*\(\s*m_selectPattern\s*==\s*0\s*\)", r"if\s*\(\s*getFirstChildElem\s*\(\s*\)\s*==\s*0\s*\)", r"createStringReference\s*\(\s*s_emptyString\s*\)")
    # the select expression is evaluated with sourceNode (the root, for a top-level binding) as the current node
    facts["getvalue_select_at_source_node"] = in_order(
        gv, r"theCurrentNode\s*==\s*sourceNode", r"m_selectPattern\s*->\s*execute\s*\(\s*\*\s*this\s*,\s*executionContext\s*\)",
        r"CurrentNodePushAndPop\s+\w+\s*\(\s*executionContext\s*,\s*sourceNode\s*\)", r"m_selectPattern\s*->\s*execute\s*\(\s*\*\s*this\s*,\s*executionContext\s*\)")

    ss = srcfacts.strip_comments(srcfacts.read("XSLT/Stylesheet.cpp"))
    pt = body_of(ss, r"Stylesheet::pushTopLevelVariables\s*\([^)]*\)\s*const\s*\{", "Stylesheet::pushTopLevelVariables")
    facts["toplevel_imports_first_then_document_order"] = in_order(
        pt, r"m_imports\s*\.\s*rbegin\s*\(", r"stylesheet\s*->\s*pushTopLevelVariables\s*\(", r"for\s*\(\s*ParamVectorType::size_type\s+i\s*=\s*0\s*;\s*i\s*<\s*nVars\s*;\s*\+\+\s*i\s*\)",
        r"m_topLevelVariables\s*\[\s*i\s*\]")
    facts["external_param_pushed_with_value"] = in_order(
        pt, r"ELEMNAME_PARAM\s*==\s*var\s*->\s*getXSLToken\s*\(", r"arg\s*\.\s*getName\s*\(\s*\)\s*\.\s*equals\s*\(\s*var\s*->\s*getNameAttribute\s*\(\s*\)\s*\)",
        r"isParam\s*=\s*true", r"executionContext\s*\.\s*pushVariable\s*\(\s*arg\s*\.\s*getName\s*\(\s*\)\s*,\s*arg\s*\.\s*getXObject\s*\(\s*\)",
        r"if\s*\(\s*isParam\s*==\s*false\s*\)", r"executionContext\s*\.\s*pushVariable\s*\(\s*var\s*->\s*getNameAttribute\s*\(\s*\)\s*,\s*var\s*,")

    out = ["(* generated by translator/gen_xsltcore3.py from src/xalanc/XSLT/{VariablesStack,ElemVariable,Stylesheet}.cpp - do not edit *)"]
    for k in sorted(facts):
        out.append("Definition src3_%s : bool := %s." % (k, "true" if facts[k] else "false"))
    return "\n".join(out) + "\n", facts


GENERATORS = {"GenXsltCore3": gen_xsltcore3}
