"""C09 part "compile": generator of match patterns from the XSLT 1.0 Pattern grammar (section 5.2, productions [1]-[5]),
an independent recogniser of that grammar on top of vlib/xpsyntax.py, the expected compiled tree of a generated pattern
(written from the meaning of the op codes, not from the Coq model), a malformed stream, and a reference for the match
score classes written from XSLT 1.0 section 5.5 (default priorities) and XPath 1.0 section 2.3 (name tests compare
expanded names).  Shares no code with coq/Patc*.v or its extraction."""
import re
from vlib import xpsyntax

NS = {"p": "urn:p", "q2": "urn:q"}
NSFIELD = ",".join("%s=%s" % ("".join("%04x" % ord(c) for c in k), "".join("%04x" % ord(c) for c in v)) for k, v in sorted(NS.items()))


def hx(s):
    return "".join("%04x" % b for b in _u16(s)) or "-"


def _u16(s):
    bs = s.encode("utf-16-be", "surrogatepass")
    return [int.from_bytes(bs[i:i + 2], "big") for i in range(0, len(bs), 2)]


def hs(s):
    return "#" + "".join("%04x" % b for b in _u16(s))


# ------------------------------------------------------------------------------------------------------------------
# predicates: (text, PREDICATE_WITH_POSITION expected).  The flag is set when position() / last() is called in this
# predicate and not inside a nested predicate (XPathProcessorImpl::FunctionPosition / FunctionLast write the innermost
# entry of m_positionPredicateStack).
PREDS = [
    ("1", 0), ("2", 0), ("position()=1", 1), ("position() = last()", 1), ("last()", 1), ("last() - 1", 1),
    ("@x", 0), ("b", 0), ("not(b)", 0), ("count(b) = 2", 0), ("position() mod 2 = 1", 1), ("2 = position()", 1),
    ("string(last())", 1), ("b[position()=1]", 0), ("b[last()] or position() > 1", 1), ("b[last()]", 0),
    ("@x = 'v'", 0), ("text()", 0), ("not(position() = 1)", 1), ("true()", 0), ("p:b", 0), ("number(last()) > 1", 1),
    (".//b", 0), ("../b[1]", 0), ("1.0", 0), ("- 1", 0), ("last() and @x", 1), ("(position())", 1), ("b | c[last()]", 0),
]

TESTS = [("name", None, "a"), ("name", None, "b"), ("name", None, "c"), ("name", "p", "a"), ("name", "q2", "b"),
         ("name", None, None), ("name", "p", None), ("name", "q2", None),
         ("text",), ("comment",), ("node",), ("pi", None), ("pi", "x"), ("pi", "pi"),
         ("name", None, "div"), ("name", None, "or"), ("name", None, "id"), ("name", None, "child"), ("name", None, "text"),
         ("name", None, "a-b.c_d")]


def gen_alt(rng, simple=False):
    r = rng.random()
    if simple:
        head = ("rel",)
    elif r < 0.45:
        head = ("rel",)
    elif r < 0.60:
        head = ("root",)
    elif r < 0.75:
        head = ("anyp",)
    else:
        lit = lambda: rng.choice(["x", "a b", "", "it's", 'say "x"', "k"])
        f = ("id", [lit()]) if rng.random() < 0.5 else ("key", [lit(), lit()])
        head = ("fn", f, rng.choice(["", "/", "//"]))
    if head[0] == "root":
        n = rng.choice([0, 0, 1, 2, 3])
    elif head[0] == "fn":
        n = 0 if head[2] == "" else rng.choice([1, 1, 2, 3])
    else:
        n = rng.choice([1, 1, 1, 2, 2, 3, 4])
    if simple:
        n = 1
    steps = []
    for i in range(n):
        attr = rng.random() < 0.2
        test = rng.choice(TESTS)
        np = 0 if simple else rng.choice([0, 0, 0, 1, 1, 2])
        preds = [rng.choice(PREDS) for _ in range(np)]
        sep = rng.choice(["/", "/", "//"]) if i + 1 < n else ""
        spelled = rng.random() < 0.25          # child:: / attribute:: instead of the abbreviation
        steps.append({"attr": attr, "test": test, "preds": preds, "sep": sep, "long": spelled})
    return {"head": head, "steps": steps}


def gen_pattern(rng, simple=False):
    k = rng.choice([1, 1, 1, 2, 2, 3])
    return [gen_alt(rng, simple) for _ in range(k)]


def _quote(s):
    return '"%s"' % s if "'" in s else "'%s'" % s


def test_text(t):
    if t[0] == "name":
        pre = (t[1] + ":") if t[1] else ""
        return pre + (t[2] if t[2] is not None else "*")
    if t[0] == "pi":
        return "processing-instruction(%s)" % (_quote(t[1]) if t[1] is not None else "")
    return t[0] + "()"


def pattern_text(P, rng=None):
    sp = (lambda: rng.choice(["", "", "", " ", "  "])) if rng else (lambda: "")
    alts = []
    for a in P:
        h = a["head"]
        s = ""
        if h[0] == "root":
            s = "/"
        elif h[0] == "anyp":
            s = "//"
        elif h[0] == "fn":
            s = h[1][0] + sp() + "(" + sp() + ("," + sp()).join(_quote(x) for x in h[1][1]) + sp() + ")" + sp() + h[2]
        for st in a["steps"]:
            ax = ("attribute" + sp() + "::" + sp() if st["long"] else "@") if st["attr"] else ("child" + sp() + "::" + sp() if st["long"] else "")
            s += sp() + ax + test_text(st["test"]) + "".join(sp() + "[" + sp() + p + sp() + "]" for p, _ in st["preds"]) + sp() + st["sep"]
        alts.append(s)
    return (sp() + "|" + sp()).join(alts).strip()


def ntest_sx(t):
    if t[0] == "name":
        return "(name %s %s)" % (hs(NS[t[1]]) if t[1] else "-", hs(t[2]) if t[2] is not None else "*")
    if t[0] == "pi":
        return "(pi %s)" % hs(t[1]) if t[1] is not None else "(pi)"
    return t[0]


def expected_sx(P, pred_sx):
    """the compiled pattern, from the meaning of the op codes: an attribute step is MATCH_ATTRIBUTE; a child step
    followed by '//' is MATCH_ANY_ANCESTOR, otherwise MATCH_IMMEDIATE_ANCESTOR; '/' = FROM_ROOT, leading '//' =
    MATCH_ANY_ANCESTOR_WITH_PREDICATE node(); id()/key() = the function call, then MATCH_ANY_ANCESTOR_WITH_FUNCTION_CALL
    when '//' follows.  pred_sx: predicate text -> s-expression of the predicate's expression."""
    out = []
    for a in P:
        h = a["head"]
        parts = []
        if h[0] == "root":
            parts.append("(ps root root)")
        elif h[0] == "anyp":
            parts.append("(ps anyp node)")
        elif h[0] == "fn":
            parts.append("(pf (func %s%s))" % (hs(h[1][0]), "".join(" (lit %s)" % hs(x) for x in h[1][1])))
            if h[2] == "//":
                parts.append("(ps anyf node)")
        for st in a["steps"]:
            kind = "attr" if st["attr"] else ("any" if st["sep"] == "//" else "imm")
            parts.append("(ps %s %s%s)" % (kind, ntest_sx(st["test"]), "".join(" (p %d %s)" % (f, pred_sx[p]) for p, f in st["preds"])))
        out.append("(alt" + "".join(" " + x for x in parts) + ")")
    return "(pattern" + "".join(" " + x for x in out) + ")"


# ------------------------------------------------------------------------------------------------------------------
# the Pattern grammar, XSLT 1.0 section 5.2
#   [1] Pattern ::= LocationPathPattern | Pattern '|' LocationPathPattern
#   [2] LocationPathPattern ::= '/' RelativePathPattern? | IdKeyPattern (('/' | '//') RelativePathPattern)?
#                               | '//'? RelativePathPattern
#   [3] IdKeyPattern ::= 'id' '(' Literal ')' | 'key' '(' Literal ',' Literal ')'
#   [4] RelativePathPattern ::= StepPattern | RelativePathPattern '/' StepPattern | RelativePathPattern '//' StepPattern
#   [5] StepPattern ::= ChildOrAttributeAxisSpecifier NodeTest Predicate*
#   [6] ChildOrAttributeAxisSpecifier ::= AbbreviatedAxisSpecifier | ('child' | 'attribute') '::'
class PP(xpsyntax.P):
    def pattern(self):
        self.lpp()
        while self.isop("|"):
            self.i += 1
            self.lpp()

    def lpp(self):
        k, t = self.peek()
        if k == "func" and t in ("id", "key"):
            self.i += 1
            self.eat("op", "(")
            self.eat("lit")
            if t == "key":
                self.eat("op", ",")
                self.eat("lit")
            self.eat("op", ")")
            if self.isop("/", "//"):
                self.i += 1
                self.rpp()
            return
        if self.isop("/"):
            self.i += 1
            if self.starts_pstep():
                self.rpp()
            return
        if self.isop("//"):
            self.i += 1
        self.rpp()

    def starts_pstep(self):
        k, t = self.peek()
        return k in ("axis", "name", "nodetype") or (k == "op" and t == "@")

    def rpp(self):
        self.pstep()
        while self.isop("/", "//"):
            self.i += 1
            self.pstep()

    def pstep(self):
        k, t = self.peek()
        if k == "axis":
            if t not in ("child", "attribute"):
                raise xpsyntax.Bad("axis not allowed in a pattern")
        elif self.isop(".", ".."):
            raise xpsyntax.Bad("abbreviated step not allowed in a pattern")
        self.step()


def recognise_pattern(s):
    try:
        toks = xpsyntax.tokenize(s)
        if not toks:
            return False
        p = PP(toks)
        p.pattern()
        return p.i == len(toks)
    except (xpsyntax.Bad, RecursionError):
        return False


# classes of the recorded leniencies, decided on the token list of the independent tokenizer: the string is repaired
# alternative by alternative (each repair names its class) and the repaired token list must be a Pattern
def leniency_classes(s, _nested=False):
    """the token-level repair; when it fails, the string-level repair of the class noslash is tried first: a '/' is put
    behind a ')' that is directly followed by the start of a step (the XPath tokenizer itself refuses a name there)"""
    cl, ok = _leniency_classes(s)
    if ok or _nested:
        return cl, ok
    for m in re.finditer(r"\)\s*(?=[A-Za-z_@*])", s):
        cl2, ok2 = leniency_classes(s[:m.end()] + "/" + s[m.end():], True)
        if ok2:
            return cl2 | {"noslash"}, True
    return cl, ok


def _leniency_classes(s):
    """-> (set of class names, repaired token list is a Pattern).  Classes:
         empty   an empty alternative at the start / end of the pattern ("|a", "a|")
         triple  an alternative starting with '//' '/' ("///a")
         noslash an id()/key() head directly followed by a step ("id('x')a")
         idkey   an id()/key() head whose argument list is not (Literal) / (Literal ',' Literal)"""
    try:
        toks = xpsyntax.tokenize(s)
    except xpsyntax.Bad:
        return set(), False
    if not toks:
        return set(), False
    alts, cur, depth = [], [], 0
    for k, t in toks:
        if k == "op" and t in ("(", "["):
            depth += 1
        elif k == "op" and t in (")", "]"):
            depth -= 1
        if k == "op" and t == "|" and depth == 0:
            alts.append(cur)
            cur = []
        else:
            cur.append((k, t))
    alts.append(cur)
    classes = set()
    # empty alternatives are accepted at the two ends only
    while len(alts) > 1 and not alts[0]:
        alts.pop(0)
        classes.add("empty")
    while len(alts) > 1 and not alts[-1]:
        alts.pop()
        classes.add("empty")
    if alts == [[]] and "empty" in classes:
        return classes, True            # "|": nothing but empty alternatives
    out = []
    for a in alts:
        a = list(a)
        if len(a) >= 2 and a[0] == ("op", "//") and a[1] == ("op", "/"):
            del a[1]
            classes.add("triple")
        if a and a[0][0] == "func" and a[0][1] in ("id", "key") and len(a) > 1 and a[1] == ("op", "("):
            d, j = 0, 1
            while j < len(a):
                if a[j] == ("op", "(") or a[j] == ("op", "["):
                    d += 1
                elif a[j] == ("op", ")") or a[j] == ("op", "]"):
                    d -= 1
                    if d == 0:
                        break
                j += 1
            if j < len(a):
                want = [("lit", "'x'")] + ([("op", ","), ("lit", "'x'")] if a[0][1] == "key" else [])
                args = a[2:j]
                if [k for k, _ in args] != [k for k, _ in want] or any(w[0] == "op" and g != w for g, w in zip(args, want)):
                    # every argument must at least start with a literal (what the compiler does check)
                    classes.add("idkey")
                    args = want
                rest = a[j + 1:]
                if rest and not (rest[0][0] == "op" and rest[0][1] in ("/", "//")):
                    rest = [("op", "/")] + rest
                    classes.add("noslash")
                a = a[:2] + args + [a[j]] + rest
        if out:
            out.append(("op", "|"))
        out += a
    try:
        p = PP(out)
        p.pattern()
        return classes, p.i == len(out)
    except (xpsyntax.Bad, RecursionError):
        return classes, False


def malformed(rng, n):
    """mutations of well-formed patterns (token deleted / duplicated / replaced / inserted) and a hand-written list"""
    fixed = ["a|", "|a", "|", "a||b", "//", "a//", "a/", "/|a", "//|a", "a b", "id('x')[1]", "id('x')/", "id('x')//", "(a)", "a/..", ".", "a/.", "..",
             "$x", "a/$x", "foo()", "a/foo()", "descendant::a", "a/descendant::b", "self::a", "parent::a", "ancestor::a/b", "a///b", "id(a)",
             "id('a', 'b')", "id()", "key('a')", "key('a','b','c')", "key('k', 1)", "id('a' = 'b')", "id('x')|a", "id('x')/a", "id('x')//@a",
             "key('k','v')/a[1]", "a/id('x')", "id('x')/id('y')", "id('x')a", "key('k','v')@a", "id('x')child::a", "///a", "///a//b", "a|///b", "////a", "@", "@@a", "a/@", "child::", "attribute::", "a[", "a]", "a[]", "a[1", "a[1]]",
             "a|b|", "a | | b", "p:", "zz:a", "a:b:c", "*:a", "p:*", "*", "@*", "@p:*", "@node()", "@text()", "text()[1]", "node()/text()", "a/b|c/d",
             "/", "/a", "//a", "/@a", "//@a", "/a//b", "a//b//c/d", "child::a/attribute::b", "a//child::b", "a//attribute::b", "a/child::*",
             "processing-instruction('x')", "processing-instruction(x)", "processing-instruction('x','y')", "comment('x')", "text(1)",
             "a and b", "a or b", "a=b", "a+b", "-a", "1", "'a'", "a/1", "a/'b'", "/ /a", "a/ /b", "id ( 'x' ) // a", "key('k', 'v')//a[last()]",
             "a[id('x')]", "a[key('k',.)]", "a[$v]", "id('a'[1])", "id('a' | b)", "key('a'[b], 'c')", "id('x')[1]/a", "/id('x')", "//id('x')",
             "a/child::b/attribute::c", "attribute::a/child::b", "@a/b", "@a//b", "child::text()", "attribute::node()", "child::p:*"]
    out = list(fixed)
    toks_pool = ["|", "/", "//", "@", "::", "(", ")", "[", "]", ",", "$", ".", "..", "*", "a", "id", "key", "child", "attribute", "descendant",
                 "self", "text", "node", "'x'", "1", "and", "=", "-", "p:a", "p:*"]
    while len(out) < n:
        base = pattern_text(gen_pattern(rng))
        parts = re.findall(r"//|::|\.\.|'[^']*'|\"[^\"]*\"|[\w.\-]+(?::[\w.\-*]+)?|\S", base)
        if not parts:
            continue
        op = rng.choice(["del", "dup", "rep", "ins", "swap"])
        i = rng.randrange(len(parts))
        if op == "del":
            del parts[i]
        elif op == "dup":
            parts.insert(i, parts[i])
        elif op == "rep":
            parts[i] = rng.choice(toks_pool)
        elif op == "ins":
            parts.insert(i, rng.choice(toks_pool))
        elif len(parts) > 1:
            j = rng.randrange(len(parts))
            parts[i], parts[j] = parts[j], parts[i]
        # names that must not be glued stay separated; everything else is concatenated
        s = ""
        for x in parts:
            if s and re.match(r"[\w.\-'\"]", x[0]) and re.match(r"[\w.\-'\":*]", s[-1]):
                s += " "
            s += x
        out.append(s)
    return out[:n]


# ------------------------------------------------------------------------------------------------------------------
# scores: XSLT 1.0 section 5.5
def test_class(t):
    """default-priority class of a single NodeTest: q (0), w (-0.25), t (-0.5)"""
    if t[0] == "name":
        if t[2] is not None:
            return "q"
        return "w" if t[1] else "t"
    if t[0] == "pi":
        return "q" if t[1] is not None else "t"
    return "t"


def alt_class(a):
    h = a["head"]
    if h[0] != "rel" or len(a["steps"]) != 1 or a["steps"][0]["preds"]:
        return "o"
    return test_class(a["steps"][0]["test"])


def node_matches_test(t, attr, node):
    """node = (kind, nsuri or '', local or ''); XPath 2.3: a name test is true iff the node is of the principal node type
    of the axis and its expanded name equals the expanded name of the QName"""
    kind, u, l = node
    principal = "a" if attr else "e"
    if t[0] == "name":
        if kind != principal:
            return False
        if t[2] is None:
            return True if t[1] is None else u == NS[t[1]]
        return l == t[2] and u == (NS[t[1]] if t[1] else "")
    if attr:
        # the attribute axis contains attribute nodes only: node() is true for them, text() / comment() / pi never
        return kind == "a" and t[0] == "node"
    if t[0] == "node":
        return kind in "etcp"
    if t[0] == "text":
        return kind == "t"
    if t[0] == "comment":
        return kind == "c"
    if t[0] == "pi":
        return kind == "p" and (t[1] is None or l == t[1])
    return False


def simple_pattern_score(P, node):
    """P: alternatives of one predicate-free step each; the class of the first alternative that matches, '-' if none"""
    for a in P:
        st = a["steps"][0]
        if node_matches_test(st["test"], st["attr"], node):
            return test_class(st["test"])
    return "-"


LOCALS = ["a", "b", "c", "div", "x", "y", "pi"]


def gen_doc(rng):
    """a small namespaced document: text, [(kind, ns, local)] in the order of harness/patc.cpp (document node first, then
    pre-order: element, attributes as stored, children); attributes are emitted in document order and compared as a set
    per element by the caller (the library's order is its own)"""
    decl = ' xmlns:p="urn:p" xmlns:q2="urn:q"'
    dflt = rng.random() < 0.3

    def elem(depth, top=False):
        pre = rng.choice([None, None, "p", "q2"])
        l = rng.choice(LOCALS[:5])
        name = (pre + ":" + l) if pre else l
        attrs = []
        for an in rng.sample(["x", "y", "a", "p:x", "p:a", "q2:y"], rng.choice([0, 0, 1, 2, 3])):
            attrs.append(an)
        s = "<" + name + (decl if top else "") + (' xmlns="urn:d"' if top and dflt else "") + "".join(' %s="v"' % a for a in attrs) + ">"
        kids = ""
        for _ in range(rng.choice([0, 1, 2, 3]) if depth < 3 else 0):
            r = rng.random()
            if r < 0.55:
                kids += elem(depth + 1)
            elif r < 0.7:
                kids += "t"
            elif r < 0.85:
                kids += "<!--c-->"
            else:
                kids += "<?%s d?>" % rng.choice(["x", "pi", "y"])
        return s + kids + "</" + name + ">"
    return elem(0, True)
