"""C16 — facts of XSLT/NodeSorter.cpp, NodeSorter.hpp, ElemForEach.cpp, NodeSortKey.hpp consumed by
coq/SortDefs.v (GenSort.v): the cache sentinel, the results of the numeric comparison branches,
and the recognised shape of the comparator / sort / attribute loop.  Fail closed."""
import re, struct
import srcfacts
from srcfacts import AnchorError, need, read, strip_comments, function_body, HEADER


def _squeeze(s):
    """delete all whitespace except a single blank between two identifier characters"""
    s = re.sub(r"\s+", " ", s).strip()
    return re.sub(r"(?<![A-Za-z0-9_]) | (?![A-Za-z0-9_])", "", s)


def _norm(s):
    return _squeeze(strip_comments(s))


def lit(snippet):
    """regex for a literal C++ snippet (whitespace-insensitive). Markers: @INT@ captures an
    optionally signed integer, @BOOL@ captures true|false, @ANY@ matches anything (lazy)."""
    parts = re.split(r"(@INT@|@BOOL@|@ANY@|@FLOAT@)", snippet)
    rx = ""
    for p in parts:
        if p == "@INT@":
            rx += r"(-?\d+)"
        elif p == "@BOOL@":
            rx += r"(true|false)"
        elif p == "@FLOAT@":
            rx += r"([0-9.eE+-]+)L?"
        elif p == "@ANY@":
            rx += r".*?"
        else:
            rx += re.escape(_squeeze(p)) if p.strip() else ""
    return rx


def _cmp_of(txt, what):
    try:
        v = int(txt.replace(" ", ""))
    except ValueError:
        raise AnchorError("not an integer result in %s: %r" % (what, txt))
    return "Lt" if v < 0 else ("Gt" if v > 0 else "Eq")


def gen_sort():
    cpp = read("XSLT/NodeSorter.cpp")
    hpp = read("XSLT/NodeSorter.hpp")
    fe = read("XSLT/ElemForEach.cpp")
    nk = read("XSLT/NodeSortKey.hpp")
    facts = {}

    # --- compare ------------------------------------------------------------------------------
    body = _norm(function_body(cpp, r"NodeSorter::NodeSortKeyCompare::compare\s*\([^)]*\)\s*const\s*\{", "NodeSortKeyCompare::compare"))
    need(lit("int theResult = 0;"), body, "compare: int theResult = 0")
    need(lit("if(theKey.getTreatAsNumbers() == false)"), body, "compare: text branch first (getTreatAsNumbers() == false)")
    need(lit("theLHSString = getStringResult(theKey, theKeyIndex, theLHS); const XalanDOMString& theRHSString = getStringResult(theKey, theKeyIndex, theRHS);"
             " theResult = doCollationCompare(m_executionContext, theLHSString, theRHSString, theKey.getLanguageString(), theKey.getCaseOrder());"),
         body, "compare: string branch (LHS value, RHS value, doCollationCompare(lhs, rhs, lang, caseOrder))")
    need(lit("const double n1Num = getNumberResult(theKey, theKeyIndex, theLHS); const double n2Num = getNumberResult(theKey, theKeyIndex, theRHS);"),
         body, "compare: n1Num/n2Num from getNumberResult(LHS)/(RHS)")
    m = need(lit("if (DoubleSupport::isNaN(n1Num) == true) { if (DoubleSupport::isNaN(n2Num) == false) { theResult = @INT@; } }"
                 " else if (DoubleSupport::isNaN(n2Num) == true) { theResult = @INT@; }"
                 " else if (DoubleSupport::lessThan(n1Num, n2Num) == true) { theResult = @INT@; }"
                 " else if (DoubleSupport::greaterThan(n1Num, n2Num) == true) { theResult = @INT@; } }"),
             body, "compare: numeric if-chain (NaN lhs / NaN rhs / lessThan / greaterThan)")
    res = [_cmp_of(m.group(i), "numeric branch %d" % i) for i in (1, 2, 3, 4)]
    facts["numeric_results"] = res
    need(lit("if (theResult != 0) { if (theKey.getDescending() == true) { theResult = -theResult; } }"
             " else if(theKeyIndex + 1 < m_nodeSortKeys.size()) { theResult = compare(theLHS, theRHS, theKeyIndex + 1); } return theResult; }") + "$",
         body, "compare: descending negates non-zero results only; ties go to key index + 1")
    # --- operator() ---------------------------------------------------------------------------
    h = _norm(hpp)
    need(lit("operator()(const NodeVectorType::value_type& theLHS, const NodeVectorType::value_type& theRHS, XalanSize_t theKeyIndex = 0) const"
             " { return compare(theLHS, theRHS, theKeyIndex) < 0 ? true : false; }"), h,
         "NodeSortKeyCompare::operator(): compare(lhs, rhs, key) < 0")
    need(lit("struct XALAN_XSLT_EXPORT VectorEntry @ANY@ XalanNode* m_node; XalanSize_t m_position; }"), h, "VectorEntry {m_node, m_position}")
    # --- sort ---------------------------------------------------------------------------------
    s1 = _norm(function_body(cpp, r"NodeSorter::sort\s*\(\s*StylesheetExecutionContext&\s*executionContext\s*\)\s*\{", "NodeSorter::sort(ctx)"))
    need(lit("using std::stable_sort;"), s1, "sort: using std::stable_sort")
    need(r"[;}]" + lit("stable_sort(m_scratchVector.begin(), m_scratchVector.end(), theComparer);"), s1, "sort: stable_sort(begin, end, theComparer)")
    if re.search(r"(?<![A-Za-z0-9_])sort\(", s1):
        raise AnchorError("sort: an unstable sort call appears in NodeSorter::sort")
    need(lit("CollectionClearGuard<NumberResultsCacheType> guard1(m_numberResultsCache);") + ".*" +
         lit("CollectionClearGuard<StringResultsCacheType> guard2(m_stringResultsCache);"), s1, "sort: caches cleared when done")
    s2 = _norm(function_body(cpp, r"NodeSorter::sort\s*\(\s*StylesheetExecutionContext&\s*executionContext\s*,\s*MutableNodeRefList&\s*theList\s*\)\s*\{", "NodeSorter::sort(ctx, list)"))
    need(lit("if (m_keys.empty() == false)"), s2, "sort(list): only with keys")
    need(lit("for (; i < theLength; ++i) { m_scratchVector.push_back(NodeVectorType::value_type(theList.item(i), i)); }"), s2,
         "sort(list): entries (item(i), i)")
    need(lit("for (i = 0; i < theLength; ++i) { theList.addNode(m_scratchVector[i].m_node); }"), s2, "sort(list): copy back in sorted order")
    # --- number cache -------------------------------------------------------------------------
    g = _norm(function_body(cpp, r"NodeSorter::NodeSortKeyCompare::getNumberResult\s*\([^)]*\)\s*const\s*\{", "getNumberResult"))
    m = need(lit("const double theDummyValue = @FLOAT@;"), g, "getNumberResult: theDummyValue")
    try:
        dummy = float(m.group(1))
    except ValueError:
        raise AnchorError("theDummyValue is not a floating literal: " + m.group(1))
    bits = struct.unpack(">Q", struct.pack(">d", dummy))[0]
    facts["sentinel"] = dummy
    need(lit("if (theCache.empty() == true) { theCache.resize(m_nodeSortKeys.size()); }"), g, "getNumberResult: outer resize")
    m = need(lit("if (theCache[theKeyIndex].empty() == false) { if (DoubleSupport::equal(theCache[theKeyIndex][theEntry.m_position], theDummyValue) == @BOOL@)"
                 " { theCache[theKeyIndex][theEntry.m_position] = getResult("), g, "getNumberResult: dummy test before evaluation")
    sense = m.group(1) == "true"
    facts["dummy_test_sense"] = sense
    need(lit("else { theCache[theKeyIndex].resize(m_nodes.size(), 0); using std::fill; fill(theCache[theKeyIndex].begin(), theCache[theKeyIndex].end(), theDummyValue);"
             " theCache[theKeyIndex][theEntry.m_position] = getResult("), g, "getNumberResult: resize, fill with the dummy value, evaluate")
    need(lit("return theCache[theKeyIndex][theEntry.m_position]; }") + "$", g, "getNumberResult: returns the cache slot")
    # --- string cache -------------------------------------------------------------------------
    sg = _norm(function_body(cpp, r"NodeSorter::NodeSortKeyCompare::getStringResult\s*\([^)]*\)\s*const\s*\{", "getStringResult"))
    need(lit("if (theCache[theKeyIndex].empty() == false) { if (notCached(theCache[theKeyIndex][theEntry.m_position]) == true) { getResult("),
         sg, "getStringResult: notCached test before evaluation")
    need(lit("else { theCache[theKeyIndex].resize(m_nodes.size()); getResult("), sg, "getStringResult: resize then evaluate")
    c = _norm(cpp)
    need(lit("inline bool notCached(const XalanDOMString& theEntry) { return theEntry.empty(); }"), c, "notCached(XalanDOMString) = empty()")
    if re.search(r"#\s*define\s+XALAN_NODESORTER_CACHE_XOBJECTS", cpp + hpp):
        raise AnchorError("XALAN_NODESORTER_CACHE_XOBJECTS is defined: the string cache modelled is not the one compiled")
    # --- ElemForEach --------------------------------------------------------------------------
    f = _norm(fe)
    need(lit("if (m_sortElemsCount > 0) { MutableNodeRefList& sortedNodeList = executionContext.createAndPushMutableNodeRefList();"
             " if (nodesToTransform->getLength() > 1) { nodesToTransform = sortChildren("), f,
         "createSelectedAndSortedNodeList: sortChildren only when getLength() > 1")
    sc = _norm(function_body(fe, r"ElemForEach::sortChildren\s*\([^)]*\)\s*const\s*\{", "sortChildren"))
    need(lit("for(SortElemsVectorType::size_type i = 0; i < m_sortElemsCount; i++)"), sc, "sortChildren: loop over the xsl:sort children in order")
    lang_cleared = re.search(lit("langString.clear()"), sc) is not None
    facts["lang_cleared_per_key"] = lang_cleared
    # is langString one scratch string for all keys (declared before the loop) or one per key?
    decl = need(lit("XalanDOMString& langString ="), sc, "sortChildren: declaration of langString")
    loop = need(lit("for(SortElemsVectorType::size_type i = 0; i < m_sortElemsCount; i++)"), sc, "sortChildren: loop")
    lang_shared = decl.start() < loop.start()
    facts["lang_shared_scratch"] = lang_shared
    order = [x for x in re.findall(r"sort->get(Lang|DataType|Order|CaseOrder)AVT\(\)", sc)]
    if order != ["Lang", "DataType", "Order", "CaseOrder"]:
        raise AnchorError("sortChildren: AVTs are not evaluated in the order lang, data-type, order, case-order: %r" % order)
    if len(re.findall(lit("scratchString.clear();"), sc)) != 3:
        raise AnchorError("sortChildren: expected three scratchString.clear() (after data-type, order, case-order)")
    need(lit("keys.push_back(NodeSortKey(executionContext, sort->getSelectPattern(), treatAsNumbers, descending, caseOrder, langString, *this));"), sc,
         "sortChildren: NodeSortKey(select, treatAsNumbers, descending, caseOrder, langString)")
    need(lit("ContextNodeListPushAndPop theContextNodeListPushAndPop(executionContext, selectedNodeList); sorter->sort(executionContext, sortedNodeList);"), sc,
         "sortChildren: sort with the unsorted list as context node list")
    lang_by_pointer = re.search(lit("const XalanDOMString* m_languageString;"), _norm(nk)) is not None
    facts["lang_by_pointer"] = lang_by_pointer

    out = HEADER
    out += "From Coq Require Import ZArith.\n\n"
    out += "(* NodeSorter.cpp getNumberResult: theDummyValue = %r, as binary64 bits *)\n" % dummy
    out += "Definition sentinel_bits : Z := %d%%Z.\n" % bits
    out += "(* the slot is (re)evaluated when DoubleSupport::equal(slot, theDummyValue) == <this> *)\n"
    out += "Definition dummy_test_sense : bool := %s.\n\n" % ("true" if sense else "false")
    out += "(* NodeSortKeyCompare::compare, numeric branch: sign of theResult in each arm *)\n"
    out += "Definition nan_lhs_result : comparison := %s.   (* n1 NaN, n2 not *)\n" % res[0]
    out += "Definition nan_rhs_result : comparison := %s.   (* n2 NaN, n1 not *)\n" % res[1]
    out += "Definition lt_result : comparison := %s.        (* lessThan(n1, n2) *)\n" % res[2]
    out += "Definition gt_result : comparison := %s.        (* greaterThan(n1, n2) *)\n\n" % res[3]
    out += "(* ElemForEach::sortChildren / NodeSortKey: is langString cleared per key; is it kept by pointer *)\n"
    out += "Definition lang_cleared_per_key : bool := %s.\n" % ("true" if lang_cleared else "false")
    out += "Definition lang_by_pointer : bool := %s.\n" % ("true" if lang_by_pointer else "false")
    out += "(* langString is declared before the loop over the xsl:sort children (one string for all keys) *)\n"
    out += "Definition lang_shared_scratch : bool := %s.\n" % ("true" if lang_shared else "false")
    out += "\n(* shapes recognised (anchors; the generator fails closed when one is not found):\n"
    out += "   compare: text/number branch, descending negates non-zero results only, ties recurse on key+1;\n"
    out += "   operator(): compare < 0; sort: std::stable_sort over (node, original position);\n"
    out += "   caches: resize/fill/evaluate, string slot 'not cached' = empty; lists of length <= 1 not sorted *)\n"
    return out, facts


GENERATORS = {"GenSort": gen_sort}
