(* C14 — result elements/attributes get the requested expanded names; prefixes resolve.
   Statements only; proofs in NsfixModel.v over the model NsfixDefs.v (+ GenNsfix.v, regenerated
   from /repo on every run).  What is and is not proved is said in props/C14.claim.json. *)
From Coq Require Import List NArith.
Require Import XV.GenNsfix XV.NsfixDefs XV.NsfixModel XV.NsfixStep XV.NsfixWhole.
Import ListNotations.
Local Open Scope N_scope.

(* ---- invariants of the mechanism (all states, all stacks) ---- *)

(* the unique-prefix generator never returns a prefix that is declared in scope (and its fuel,
   one more than the number of declarations, always suffices) *)
Theorem unique_prefix_not_in_scope : forall k c,
  ns_for_prefix k (Some (AGen (unique_loop (S (length (concat k))) k c))) = None.
Proof. exact unique_loop_fresh. Qed.
Print Assumptions unique_prefix_not_in_scope.

Theorem gen_unique_fresh_and_monotone : forall s g s1, gen_unique s = (g, s1) ->
  ns_for_prefix (stk s1) (Some g) = None /\ stk s1 = stk s /\ pend s1 = pend s /\ pattrs s1 = pattrs s
  /\ out s1 = out s /\ hz s1 = hz s
  /\ exists n, g = AGen n /\ ctr s <= n /\ ctr s1 = n + 1.
Proof. exact gen_unique_spec. Qed.
Print Assumptions gen_unique_fresh_and_monotone.

(* two successive inventions differ, whether or not the first one was declared in between *)
Theorem invented_prefixes_distinct : forall s g1 s1 g2 s2,
  gen_unique s = (g1, s1) -> gen_unique s1 = (g2, s2) -> g1 <> g2.
Proof. exact gen_unique_twice_distinct. Qed.
Print Assumptions invented_prefixes_distinct.

(* after addResultAttribute("xmlns:p", u) the stack resolves p to u (whether the attribute was
   written or suppressed as redundant), and no other prefix changes its binding *)
Theorem declared_prefix_resolves : forall s a u, stk s <> [] -> plain_atom a = true ->
  ns_for_prefix (stk (declare_prefix s a u)) (Some a) = Some u.
Proof. exact declare_prefix_resolves. Qed.
Print Assumptions declared_prefix_resolves.

Theorem declaration_keeps_other_prefixes : forall s a b u, plain_atom b = true -> atom_eqb b a = false ->
  ns_for_prefix (stk (declare_prefix s a u)) (Some b) = ns_for_prefix (stk s) (Some b).
Proof. exact declare_prefix_other. Qed.
Print Assumptions declaration_keeps_other_prefixes.

Theorem declared_default_resolves : forall s u, stk s <> [] -> u <> 0 ->
  ns_for_prefix (stk (declare_default s u)) None = Some u.
Proof. exact declare_default_resolves. Qed.
Print Assumptions declared_default_resolves.

(* getResultPrefixForNamespace only answers with a prefix that the stack still resolves to the
   namespace (KN1 repair: a prefix re-bound in a nearer context is not returned) *)
Theorem found_prefix_resolves : forall k u p, prefix_for_ns k u = Some p -> ns_for_prefix k p = Some u.
Proof. exact prefix_for_ns_sound. Qed.
Print Assumptions found_prefix_resolves.

(* ---- the whole-program theorem ---- *)

(* result_ns_wellformed_partial: for EVERY list of the modelled constructors (literal result
   elements with exclude-result-prefixes - also with xsl:use-attribute-sets, whose xsl:attribute
   instructions run between the declarations and the literal attributes -, xsl:element,
   xsl:attribute with or without namespace=, text, end tags; any nesting, any prefixes/URIs, any
   history), if the run raises no hazard
   (exact decidable guard guard_ok; on a tree WITHOUT the respective repair: K17 duplicate expanded
   name, KN6 p:e with namespace=""; on every tree: KN10 a literal attribute whose prefix was re-bound
   on the pending start tag before the attribute was added (with the KN10 repair the xsl:attribute
   of an attribute set no longer does that),
   xsl:attribute creating an xmlns declaration, and stylesheet-side arguments no stylesheet can
   produce), the namespace-aware reader accepts every start tag the engine has written: the element
   and each attribute resolve - through the declarations written on it and its ancestors - to
   exactly the expanded name the instruction asked for, every prefix is declared, no declaration is
   illegal, no qualified or expanded attribute name occurs twice.  Proof: an invariant tying the
   result-namespace stack to the reader's scope (NsfixWhole.v), by induction over the list. *)
Theorem result_ns_wellformed_partial : forall ops,
  guard_ok ops = true -> wellformed (events (run ops)) = true.
Proof. exact result_ns_wellformed_l. Qed.
Print Assumptions result_ns_wellformed_partial.

(* the same including the start tag that is still pending at the end of the list *)
Theorem result_ns_wellformed_partial_pending : forall ops,
  guard_ok ops = true -> wellformed (events (flush (run ops))) = true.
Proof. exact result_ns_wellformed_closed_l. Qed.
Print Assumptions result_ns_wellformed_partial_pending.

(* hazards only accumulate: a prefix of a hazard-free program is hazard-free *)
Theorem hazards_accumulate : forall s o, exists l, hz (exec_op s o) = l ++ hz s.
Proof. exact hz_ext_op. Qed.
Print Assumptions hazards_accumulate.

(* ---- xsl:copy / xsl:copy-of: the ancestor walk of copyNamespaceAttributes ---- *)

(* for every prefix (and for the default namespace) the declaration offered to the result is the
   NEAREST one on the ancestor-or-self axis of the copied source element: a declaration on a nearer
   element shadows the declarations of the same prefix on farther ancestors *)
Theorem copy_ns_nearest_declaration_wins : forall p levels,
  ctx_lookup p (copy_ns_offered levels) = ctx_lookup p (concat levels).
Proof. exact copy_ns_nearest_wins_l. Qed.
Print Assumptions copy_ns_nearest_declaration_wins.

(* once a prefix has been seen, nothing farther is offered for it *)
Theorem copy_ns_visited_prefix_not_offered : forall p levels visited, mem_pfx p visited = true ->
  ctx_lookup p (copy_ns_walk levels visited) = None.
Proof. exact copy_ns_walk_seen. Qed.
Print Assumptions copy_ns_visited_prefix_not_offered.

(* <a xmlns:p="outer" xmlns="d-outer"><b xmlns:p="inner" xmlns="d-inner"><p:c/></b></a>, copy of p:c *)
Example copy_ns_shadowing_example :
  copy_ns_offered [[]; [(Some (U 1), 5); (None, 7)]; [(Some (U 1), 4); (None, 6)]]
  = [(Some (U 1), 5); (None, 7)].
Proof. vm_compute. reflexivity. Qed.

(* ---- the compile-time clauses (exclude-result-prefixes) for literal result elements ---- *)

Theorem lre_declares_only_allowed : forall name inscope excl attrs d,
  In d (lre_decls name inscope excl attrs) ->
  In d inscope /\ lre_decl_allowed name excl attrs d = true.
Proof. exact lre_decls_sound. Qed.
Print Assumptions lre_declares_only_allowed.

Theorem lre_excluded_namespace_only_if_needed : forall name inscope excl attrs p u,
  In (p, u) (lre_decls name inscope excl attrs) -> mem_uri u excl = true ->
  p = fst name \/ exists a, In a attrs /\ fst (fst a) = p /\ p <> None.
Proof. exact lre_excluded_only_if_needed. Qed.
Print Assumptions lre_excluded_namespace_only_if_needed.

Theorem lre_one_declaration_per_prefix : forall name inscope excl attrs,
  NoDup (map fst (lre_decls name inscope excl attrs)).
Proof. exact lre_decls_nodup. Qed.
Print Assumptions lre_one_declaration_per_prefix.

(* ---- K17, KN6, KN10: witness against the full statement on a tree without the repair,
   regression example (guard holds, reader accepts) on a tree with it (fixes/C14/10..13).
   GenNsfix.v, regenerated from the tree on every run, says which; the model, the whole-program
   theorem above and these statements are written - and checked - for both values ---- *)

Theorem result_ns_K17_duplicate_expanded_name : witness k17_fixed k17_prog.
Proof. exact k17_witness_l. Qed.
Print Assumptions result_ns_K17_duplicate_expanded_name.
Theorem result_ns_KN6_element_empty_namespace : witness kn6_fixed emptyns_prog.
Proof. exact emptyns_witness_l. Qed.
Print Assumptions result_ns_KN6_element_empty_namespace.
Theorem result_ns_KN10_attribute_set_rebinds_prefix : witness kn10_fixed kn10_prog.
Proof. exact kn10_witness_l. Qed.
Print Assumptions result_ns_KN10_attribute_set_rebinds_prefix.

(* with the K17 repair the duplicate-expanded-name hazard cannot be raised any more: adding an
   attribute only ever adds the "creates a declaration" hazard *)
Theorem k17_hazard_unreachable_when_repaired : k17_fixed = true -> forall s n v r,
  hz (emit_attr s n v r) = (match decl_prefix n with Some _ => [HDeclAttr] | None => [] end) ++ hz s.
Proof. exact k17_unreachable_l. Qed.
Print Assumptions k17_hazard_unreachable_when_repaired.

(* ---- regression examples: the programs of the repaired defects K3, K16, KN1, KN2, KN3, KN4, KN5
   now satisfy the guard and the reader accepts their events ---- *)
Example repaired_K3 : accepted k3_prog. Proof. exact k3_accepted_l. Qed.
Example repaired_K16_xmlns : accepted k16_prog. Proof. exact k16_accepted_l. Qed.
Example repaired_K16_xml : accepted k16b_prog. Proof. exact k16b_accepted_l. Qed.
Example repaired_KN1_shadowed_prefix : accepted shadow_prog. Proof. exact shadow_accepted_l. Qed.
Example repaired_KN2_late_attribute :
  accepted leak_prog /\ nth 2 (events (run leak_prog)) EText = EStart (None, U 3) (0, U 3) [].
Proof. exact leak_accepted_l. Qed.
Example repaired_KN3_xml_like_prefix : accepted xmlish_prog. Proof. exact xmlish_accepted_l. Qed.
Example repaired_KN4_undeclared_element_prefix : accepted undecl_prog. Proof. exact undecl_accepted_l. Qed.
Example repaired_KN5_xml_prefix : accepted xmlprefix_prog. Proof. exact xmlprefix_accepted_l. Qed.

(* ---- the guard is satisfiable and then the reader accepts the events ---- *)
Example guard_satisfiable_1 : accepted ok_prog1.
Proof. exact ok_prog1_l. Qed.
Example guard_satisfiable_2 : accepted ok_prog2.
Proof. exact ok_prog2_l. Qed.
