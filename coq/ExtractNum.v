(* Extraction of the C18 model for the correspondence driver. ExtrOcamlBasic only. *)
Require Import ExtrOcamlBasic.
Require Import XV.NumDefs.
Extraction "extracted/num_model.ml"
  number_to_string string_to_number d_round d_floor d_ceiling of_bits to_bits printf_bytes.
