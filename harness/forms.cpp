// C05 driver: the forms of supplying source / stylesheet / output, against the rebuilt library.
//
// One case per line, tokens separated by ' '.  Strings inside tokens are comma separated hex UTF-16
// code units, fields of a token are separated by '|' (same syntax as ocaml/forms_driver.ml).
//
//   <id> B <events>       feed the events to a XalanDocumentBuilder's ContentHandler/LexicalHandler
//                         (S|qname|an|av|.. A|qname|an|av|atype|.. E C|chars I|ws M|comment P|target|data), dump the tree
//                         (with A tokens followed by ' # value=index|- ...': getElementById of every attribute value):
//                         <id> <depth>:<kind>:<getIndex()>:<name>:<value> ...   or   <id> ERR
//   <id> W <hex xml> [r]  parse with XercesDOMParser ("r": keep entity reference nodes); prints
//                         <id>/x <raw DOM tokens>  (S|..|E T| D| R|..r M| P| Y|name|entities)
//                         <id>/w <dump of XercesParserLiaison::createDocument(dom,false,true,true)>
//                         <id>/n <dump of the native tree parsed from the same text>
//                         <id>/s <the SAX2 events Xerces delivered for the same text, as B tokens>
//   <id> O <enc> <bs> <writes>   XalanTransformerOutputStream with setBufferSize(bs); enc = u16 | loc;
//                         w|units c|unit n|bytes f ; prints <id> <hex bytes of callback 1> ... F<flush calls>
//   <id> T <seed> <hex stylesheet> <hex source> <params: - or name=hexexpr,...> [flags: u = the stylesheet uses its base URI, x = xml output method (tree targets are compared)]
//                         runs the same transformation through every form; prints
//                         <id>/ref ok <hex bytes> | err <rc>        (stream source, stylesheet source, std::ostream)
//                         <id>/treeref ok <hex canonical dump of the parsed reference bytes> | err
//                         <id>/<source>.<sheet>.<target> =          same as the reference (bytes, or tree dump = treeref)
//                         <id>/<source>.<sheet>.<target> ok <hex> | err <rc> <hex message>     otherwise
#include "common.hpp"
#include <map>
#include <set>
#include <algorithm>
#include <strstream>
#include <unistd.h>
#include <sys/stat.h>
#include <xercesc/framework/MemBufInputSource.hpp>
#include <xercesc/framework/LocalFileInputSource.hpp>
#include <xercesc/parsers/XercesDOMParser.hpp>
#include <xercesc/sax2/SAX2XMLReader.hpp>
#include <xercesc/sax2/XMLReaderFactory.hpp>
#include <xercesc/sax2/Attributes.hpp>
#include <xercesc/sax2/ContentHandler.hpp>
#include <xercesc/sax2/LexicalHandler.hpp>
#include <xercesc/sax2/DefaultHandler.hpp>
#include <xercesc/sax/DTDHandler.hpp>
#include <xercesc/sax/SAXException.hpp>
#include <xercesc/dom/DOM.hpp>
#include <xercesc/util/XMLUni.hpp>
#include <xalanc/XSLT/XSLTInputSource.hpp>
#include <xalanc/XSLT/XSLTResultTarget.hpp>
#include <xalanc/XalanDOM/XalanNode.hpp>
#include <xalanc/XalanDOM/XalanDocument.hpp>
#include <xalanc/XalanDOM/XalanNamedNodeMap.hpp>
#include <xalanc/XalanDOM/XalanDOMException.hpp>
#include <xalanc/XalanTransformer/XalanDocumentBuilder.hpp>
#include <xalanc/XalanTransformer/XalanParsedSource.hpp>
#include <xalanc/XalanTransformer/XalanCompiledStylesheet.hpp>
#include <xalanc/XalanTransformer/XalanTransformerOutputStream.hpp>
#include <xalanc/XalanTransformer/XercesDOMWrapperParsedSource.hpp>
#include <xalanc/XalanTransformer/XalanCAPI.h>
#include <xalanc/PlatformSupport/XalanOutputStreamPrintWriter.hpp>
#include <xalanc/XercesParserLiaison/XercesParserLiaison.hpp>
#include <xalanc/XercesParserLiaison/XercesDOMSupport.hpp>
#include <xalanc/XercesParserLiaison/FormatterToXercesDOM.hpp>
#include <xalanc/XalanSourceTree/XalanSourceTreeParserLiaison.hpp>
#include <xalanc/XalanSourceTree/XalanSourceTreeDOMSupport.hpp>
#include <xalanc/XalanSourceTree/XalanSourceTreeDocument.hpp>
#include <xalanc/XalanSourceTree/FormatterToSourceTree.hpp>

using namespace xalanc;
using namespace verif;
namespace xc = xercesc;

typedef std::basic_string<XMLCh> xstr;

static std::string unhex(const std::string& h)
{
    std::string r;
    for (size_t i = 0; i + 1 < h.size(); i += 2) r += (char) std::strtoul(h.substr(i, 2).c_str(), 0, 16);
    return r;
}

static std::string hexs(const std::string& s)
{
    static const char* d = "0123456789abcdef";
    std::string r;
    for (size_t i = 0; i < s.size(); ++i) { r += d[(unsigned char) s[i] >> 4]; r += d[(unsigned char) s[i] & 15]; }
    return r;
}

static std::vector<std::string> splitc(const std::string& s, char c)
{
    std::vector<std::string> out; size_t i = 0;
    while (true) { size_t j = s.find(c, i); out.push_back(s.substr(i, j == std::string::npos ? j : j - i)); if (j == std::string::npos) break; i = j + 1; }
    return out;
}

static xstr field_to_x(const std::string& f)
{
    xstr r; size_t i = 0;
    while (i < f.size()) { size_t j = f.find(',', i); if (j == std::string::npos) j = f.size(); r += (XMLCh) std::strtoul(f.substr(i, j - i).c_str(), 0, 16); i = j + 1; }
    return r;
}

static std::string x_to_field(const XMLCh* p, size_t n)
{
    std::string r; char buf[8];
    for (size_t i = 0; i < n; ++i) { std::snprintf(buf, sizeof buf, i ? ",%x" : "%x", (unsigned) p[i]); r += buf; }
    return r;
}
static std::string x_to_field(const XMLCh* p) { size_t n = 0; if (p) while (p[n]) ++n; return x_to_field(p, n); }
static std::string x_to_field(const XalanDOMString& s) { return x_to_field(s.c_str(), s.length()); }

// ---------------------------------------------------------------------------------------------
// tree dumps

static char kind_of(const XalanNode* n)
{
    switch (n->getNodeType()) {
    case XalanNode::ELEMENT_NODE: return 'e';
    case XalanNode::ATTRIBUTE_NODE: return 'a';
    case XalanNode::TEXT_NODE: return 't';
    case XalanNode::CDATA_SECTION_NODE: return 'd';
    case XalanNode::ENTITY_REFERENCE_NODE: return 'r';
    case XalanNode::COMMENT_NODE: return 'c';
    case XalanNode::PROCESSING_INSTRUCTION_NODE: return 'p';
    case XalanNode::DOCUMENT_TYPE_NODE: return 'y';
    default: return '?';
    }
}

static void dump_indexed(const XalanNode* n, int depth, std::string& out)
{
    char k = kind_of(n);
    char buf[64];
    std::snprintf(buf, sizeof buf, "%d:%c:%lu:", depth, k, (unsigned long) n->getIndex());
    if (!out.empty()) out += ' ';
    out += buf;
    if (k == 'e' || k == 'r' || k == 'y') { out += x_to_field(n->getNodeName()); out += ':'; }
    else if (k == 'p') { out += x_to_field(n->getNodeName()); out += ':'; out += x_to_field(n->getNodeValue()); }
    else { out += ':'; out += x_to_field(n->getNodeValue()); }
    if (k == 'e') {
        const XalanNamedNodeMap* am = n->getAttributes();
        if (am) for (XalanSize_t i = 0; i < am->getLength(); ++i) {
            const XalanNode* a = am->item(i);
            std::snprintf(buf, sizeof buf, " %d:a:%lu:", depth + 1, (unsigned long) a->getIndex());
            out += buf; out += x_to_field(a->getNodeName()); out += ':'; out += x_to_field(a->getNodeValue());
        }
    }
    for (const XalanNode* c = n->getFirstChild(); c; c = c->getNextSibling()) dump_indexed(c, depth + 1, out);
}

static std::string dump_doc(const XalanNode* doc)
{
    std::string out;
    for (const XalanNode* c = doc->getFirstChild(); c; c = c->getNextSibling()) dump_indexed(c, 0, out);
    return out;
}

static std::string utf8(const XalanDOMString& s)
{
    std::string r;
    for (XalanDOMString::size_type i = 0; i < s.length(); ++i) {
        unsigned c = s[i];
        if (c >= 0xD800 && c < 0xDC00 && i + 1 < s.length()) { unsigned d = s[i + 1]; if (d >= 0xDC00 && d < 0xE000) { c = 0x10000 + ((c - 0xD800) << 10) + (d - 0xDC00); ++i; } }
        if (c < 0x80) r += (char) c;
        else if (c < 0x800) { r += (char) (0xC0 | (c >> 6)); r += (char) (0x80 | (c & 63)); }
        else if (c < 0x10000) { r += (char) (0xE0 | (c >> 12)); r += (char) (0x80 | ((c >> 6) & 63)); r += (char) (0x80 | (c & 63)); }
        else { r += (char) (0xF0 | (c >> 18)); r += (char) (0x80 | ((c >> 12) & 63)); r += (char) (0x80 | ((c >> 6) & 63)); r += (char) (0x80 | (c & 63)); }
    }
    return r;
}

// canonical form of a result tree: attributes sorted by name, adjacent text / CDATA merged,
// empty text dropped, one line per node
static void canon(const XalanNode* n, int depth, std::string& out)
{
    std::string pendingText; bool havePending = false;
    for (const XalanNode* c = n->getFirstChild(); ; c = c->getNextSibling()) {
        char k = c ? kind_of(c) : 0;
        if (k == 't' || k == 'd') { pendingText += utf8(c->getNodeValue()); havePending = true; continue; }
        if (havePending) {
            if (!pendingText.empty()) { out += std::to_string(depth) + " t " + hexs(pendingText) + "\n"; }
            pendingText.clear(); havePending = false;
        }
        if (!c) break;
        if (k == 'e') {
            out += std::to_string(depth) + " e " + utf8(c->getNodeName()) + " {" + utf8(c->getNamespaceURI()) + "}";
            std::vector<std::string> as;
            const XalanNamedNodeMap* am = c->getAttributes();
            if (am) for (XalanSize_t i = 0; i < am->getLength(); ++i) {
                const XalanNode* a = am->item(i);
                std::string nm = utf8(a->getNodeName());
                if (nm == "xmlns:xml") continue;
                as.push_back(nm + "=" + hexs(utf8(a->getNodeValue())));
            }
            std::sort(as.begin(), as.end());
            for (size_t i = 0; i < as.size(); ++i) out += " " + as[i];
            out += "\n";
            canon(c, depth + 1, out);
        }
        else if (k == 'c') out += std::to_string(depth) + " c " + hexs(utf8(c->getNodeValue())) + "\n";
        else if (k == 'p') out += std::to_string(depth) + " p " + utf8(c->getNodeName()) + " " + hexs(utf8(c->getNodeValue())) + "\n";
        else if (k == 'y') { /* document type: not part of the XPath data model */ }
        else out += std::to_string(depth) + " ? " + std::string(1, k) + "\n";
    }
}

// getElementById of every candidate value:  " # <value>=<index of the element>|-  ..."
static std::string id_observations(const XalanDocument* doc, const std::vector<xstr>& cands)
{
    std::string out = " #";
    for (size_t k = 0; k < cands.size(); ++k) {
        XalanDOMString v; for (size_t i = 0; i < cands[k].size(); ++i) v.append(1, cands[k][i]);
        const XalanElement* e = doc->getElementById(v);
        out += " " + x_to_field(cands[k].c_str(), cands[k].size()) + "=" + (e ? std::to_string((unsigned long) e->getIndex()) : std::string("-"));
    }
    return out;
}

static void add_cand(std::vector<xstr>& cands, const xstr& v)
{
    if (std::find(cands.begin(), cands.end(), v) == cands.end()) cands.push_back(v);
}

// ---------------------------------------------------------------------------------------------
// mode B: events straight into the document builder

class VAttrs : public xc::Attributes
{
public:
    struct A { xstr uri, local, qname, value, type; };
    std::vector<A> v;
    virtual XMLSize_t getLength() const { return v.size(); }
    virtual const XMLCh* getURI(const XMLSize_t i) const { return i < v.size() ? v[i].uri.c_str() : 0; }
    virtual const XMLCh* getLocalName(const XMLSize_t i) const { return i < v.size() ? v[i].local.c_str() : 0; }
    virtual const XMLCh* getQName(const XMLSize_t i) const { return i < v.size() ? v[i].qname.c_str() : 0; }
    virtual const XMLCh* getType(const XMLSize_t i) const { static const XMLCh t[] = { 'C', 'D', 'A', 'T', 'A', 0 }; return i < v.size() && !v[i].type.empty() ? v[i].type.c_str() : t; }
    virtual const XMLCh* getValue(const XMLSize_t i) const { return i < v.size() ? v[i].value.c_str() : 0; }
    virtual bool getIndex(const XMLCh* const uri, const XMLCh* const local, XMLSize_t& index) const
    { for (size_t i = 0; i < v.size(); ++i) if (v[i].uri == uri && v[i].local == local) { index = i; return true; } return false; }
    virtual int getIndex(const XMLCh* const uri, const XMLCh* const local) const
    { XMLSize_t i; return getIndex(uri, local, i) ? (int) i : -1; }
    virtual bool getIndex(const XMLCh* const qn, XMLSize_t& index) const
    { for (size_t i = 0; i < v.size(); ++i) if (v[i].qname == qn) { index = i; return true; } return false; }
    virtual int getIndex(const XMLCh* const qn) const { XMLSize_t i; return getIndex(qn, i) ? (int) i : -1; }
    virtual const XMLCh* getType(const XMLCh* const, const XMLCh* const) const { return getType((XMLSize_t) 0); }
    virtual const XMLCh* getType(const XMLCh* const) const { return getType((XMLSize_t) 0); }
    virtual const XMLCh* getValue(const XMLCh* const uri, const XMLCh* const local) const { XMLSize_t i; return getIndex(uri, local, i) ? v[i].value.c_str() : 0; }
    virtual const XMLCh* getValue(const XMLCh* const qn) const { XMLSize_t i; return getIndex(qn, i) ? v[i].value.c_str() : 0; }
};

static xstr X(const char* s) { xstr r; for (; *s; ++s) r += (XMLCh) (unsigned char) *s; return r; }

static void mode_B(const std::string& id, const std::vector<std::string>& toks, size_t first)
{
    XalanTransformer t;
    XalanDocumentBuilder* b = t.createDocumentBuilder();
    xc::ContentHandler* ch = b->getContentHandler();
    xc::LexicalHandler* lh = b->getLexicalHandler();
    std::vector<std::map<xstr, xstr> > ns(1);
    ns[0][X("xml")] = X("http://www.w3.org/XML/1998/namespace");
    std::vector<xstr> open, cands;
    bool err = false, typed = false;
    try {
        ch->startDocument();
        for (size_t k = first; k < toks.size(); ++k) {
            std::vector<std::string> f = splitc(toks[k], '|');
            const std::string& tag = f[0];
            if (tag == "S" || tag == "A") {
                std::map<xstr, xstr> scope = ns.back();
                VAttrs at;
                const size_t stride = tag == "A" ? 3 : 2;
                if (tag == "A") typed = true;
                for (size_t i = 2; i + stride - 1 < f.size(); i += stride) {
                    VAttrs::A a; a.qname = field_to_x(f[i]); a.value = field_to_x(f[i + 1]);
                    if (tag == "A") { a.type = field_to_x(f[i + 2]); add_cand(cands, a.value); }
                    if (a.qname == X("xmlns")) scope[xstr()] = a.value;
                    else if (a.qname.compare(0, 6, X("xmlns:")) == 0) scope[a.qname.substr(6)] = a.value;
                    at.v.push_back(a);
                }
                for (size_t i = 0; i < at.v.size(); ++i) {
                    VAttrs::A& a = at.v[i];
                    size_t c = a.qname.find((XMLCh) ':');
                    if (a.qname == X("xmlns") || a.qname.compare(0, 6, X("xmlns:")) == 0) { a.uri = X("http://www.w3.org/2000/xmlns/"); a.local = c == xstr::npos ? a.qname : a.qname.substr(c + 1); }
                    else if (c == xstr::npos) { a.local = a.qname; }
                    else { a.local = a.qname.substr(c + 1); a.uri = scope[a.qname.substr(0, c)]; }
                }
                xstr q = field_to_x(f[1]); size_t c = q.find((XMLCh) ':');
                xstr uri = scope[c == xstr::npos ? xstr() : q.substr(0, c)];
                xstr local = c == xstr::npos ? q : q.substr(c + 1);
                ns.push_back(scope); open.push_back(q);
                ch->startElement(uri.c_str(), local.c_str(), q.c_str(), at);
            }
            else if (tag == "E") {
                if (open.empty()) { err = true; break; }   // the library would pop its dummy entry: undefined
                xstr q = open.back(); open.pop_back(); ns.pop_back();
                ch->endElement(X("").c_str(), q.c_str(), q.c_str());
            }
            else if (tag == "C") { xstr s = field_to_x(f.size() > 1 ? f[1] : ""); ch->characters(s.c_str(), s.size()); }
            else if (tag == "I") { xstr s = field_to_x(f.size() > 1 ? f[1] : ""); if (open.empty()) { err = true; break; } ch->ignorableWhitespace(s.c_str(), s.size()); }
            else if (tag == "M") { xstr s = field_to_x(f.size() > 1 ? f[1] : ""); lh->comment(s.c_str(), s.size()); }
            else if (tag == "P") { xstr a = field_to_x(f[1]), d = field_to_x(f.size() > 2 ? f[2] : ""); ch->processingInstruction(a.c_str(), d.c_str()); }
        }
        if (!err && !open.empty()) err = true;
        if (!err) ch->endDocument();
    }
    catch (const XalanDOMException&) { err = true; }
    catch (...) { err = true; }
    if (err) std::cout << id << " ERR\n";
    else std::cout << id << " " << dump_doc(b->getDocument()) << (typed ? id_observations(b->getDocument(), cands) : std::string()) << "\n";
    t.destroyDocumentBuilder(b);
}

// ---------------------------------------------------------------------------------------------
// mode W

class Quiet : public xc::DefaultHandler
{
public:
    bool failed; Quiet() : failed(false) {}
    virtual void error(const xc::SAXParseException&) {}
    virtual void fatalError(const xc::SAXParseException& e) { failed = true; throw e; }
    virtual void warning(const xc::SAXParseException&) {}
};

static void raw_dom(const xc::DOMNode* n, std::string& out)
{
    for (const xc::DOMNode* c = n->getFirstChild(); c; c = c->getNextSibling()) {
        if (!out.empty()) out += ' ';
        switch (c->getNodeType()) {
        case xc::DOMNode::ELEMENT_NODE: {
            out += "S|" + x_to_field(c->getNodeName());
            const xc::DOMNamedNodeMap* am = c->getAttributes();
            for (XMLSize_t i = 0; i < am->getLength(); ++i) { out += "|" + x_to_field(am->item(i)->getNodeName()) + "|" + x_to_field(am->item(i)->getNodeValue()); }
            size_t before = out.size();
            std::string inner; raw_dom(c, inner);
            if (!inner.empty()) out += " " + inner;
            (void) before;
            out += " E"; break; }
        case xc::DOMNode::TEXT_NODE: out += "T|" + x_to_field(c->getNodeValue()); break;
        case xc::DOMNode::CDATA_SECTION_NODE: out += "D|" + x_to_field(c->getNodeValue()); break;
        case xc::DOMNode::ENTITY_REFERENCE_NODE: { out += "R|" + x_to_field(c->getNodeName()); std::string inner; raw_dom(c, inner); if (!inner.empty()) out += " " + inner; out += " r"; break; }
        case xc::DOMNode::COMMENT_NODE: out += "M|" + x_to_field(c->getNodeValue()); break;
        case xc::DOMNode::PROCESSING_INSTRUCTION_NODE: out += "P|" + x_to_field(c->getNodeName()) + "|" + x_to_field(c->getNodeValue()); break;
        case xc::DOMNode::DOCUMENT_TYPE_NODE: {
            const xc::DOMDocumentType* dt = static_cast<const xc::DOMDocumentType*>(c);
            out += "Y|" + x_to_field(c->getNodeName()) + "|" + std::to_string((unsigned long) dt->getEntities()->getLength()); break; }
        default: out += "?"; break;
        }
    }
}

class Recorder : public xc::DefaultHandler
{
public:
    std::string out; bool inDTD; std::vector<xstr> cands; Recorder() : inDTD(false) {}
    void add(const std::string& t) { if (!out.empty()) out += ' '; out += t; }
    virtual void startElement(const XMLCh* const, const XMLCh* const, const XMLCh* const qname, const xc::Attributes& attrs)
    {
        std::string t = "A|" + x_to_field(qname);
        for (XMLSize_t i = 0; i < attrs.getLength(); ++i) {
            t += "|" + x_to_field(attrs.getQName(i)) + "|" + x_to_field(attrs.getValue(i)) + "|" + x_to_field(attrs.getType(i));
            add_cand(cands, xstr(attrs.getValue(i)));
        }
        add(t);
    }
    virtual void endElement(const XMLCh* const, const XMLCh* const, const XMLCh* const) { add("E"); }
    virtual void characters(const XMLCh* const chars, const XMLSize_t length) { add("C|" + x_to_field(chars, length)); }
    virtual void ignorableWhitespace(const XMLCh* const chars, const XMLSize_t length) { add("I|" + x_to_field(chars, length)); }
    virtual void processingInstruction(const XMLCh* const target, const XMLCh* const data) { add("P|" + x_to_field(target) + "|" + x_to_field(data)); }
    virtual void comment(const XMLCh* const chars, const XMLSize_t length) { if (!inDTD) add("M|" + x_to_field(chars, length)); }
    virtual void endCDATA() {}
    virtual void endDTD() { inDTD = false; }
    virtual void endEntity(const XMLCh* const) {}
    virtual void startCDATA() {}
    virtual void startDTD(const XMLCh* const, const XMLCh* const, const XMLCh* const) { inDTD = true; }
    virtual void startEntity(const XMLCh* const) {}
    virtual void fatalError(const xc::SAXParseException& e) { throw e; }
};

static xc::SAX2XMLReader* make_reader()
{
    xc::SAX2XMLReader* r = xc::XMLReaderFactory::createXMLReader();
    r->setFeature(xc::XMLUni::fgSAX2CoreNameSpaces, true);
    r->setFeature(xc::XMLUni::fgSAX2CoreNameSpacePrefixes, true);
    r->setFeature(xc::XMLUni::fgSAX2CoreValidation, false);
    r->setFeature(xc::XMLUni::fgXercesDynamic, false);
    r->setFeature(xc::XMLUni::fgXercesSchema, false);
    return r;
}

static void mode_W(const std::string& id, const std::string& xml, bool keepRefs)
{
    static const XMLCh sysid[] = { 'f', 'i', 'l', 'e', ':', '/', '/', '/', 'v', 'm', 'e', 'm', '/', 'w', '.', 'x', 'm', 'l', 0 };
    // the SAX2 events (with the declared attribute types); every attribute value is a candidate for getElementById
    Recorder rec; bool recOk = true;
    {
        xc::SAX2XMLReader* r = make_reader();
        r->setContentHandler(&rec); r->setLexicalHandler(&rec); r->setErrorHandler(&rec);
        try {
            xc::MemBufInputSource is((const XMLByte*) xml.data(), xml.size(), sysid, false);
            r->parse(is);
        }
        catch (...) { recOk = false; }
        delete r;
    }
    // Xerces DOM + wrapper
    {
        xc::XercesDOMParser parser; Quiet q;
        parser.setDoNamespaces(true); parser.setCreateEntityReferenceNodes(keepRefs); parser.setErrorHandler(&q);
        parser.setValidationScheme(xc::XercesDOMParser::Val_Never);
        try {
            xc::MemBufInputSource is((const XMLByte*) xml.data(), xml.size(), sysid, false);
            parser.parse(is);
            const xc::DOMDocument* dom = parser.getDocument();
            std::string raw; raw_dom(dom, raw);
            std::cout << id << "/x " << raw << "\n";
            XercesParserLiaison liaison; XercesDOMSupport support(liaison);
            XalanDocument* xd = liaison.createDocument(dom, false, true, true);
            std::cout << id << "/w " << dump_doc(xd) << id_observations(xd, rec.cands) << "\n";
        }
        catch (...) { std::cout << id << "/x ERR\n" << id << "/w ERR\n"; }
    }
    // native tree
    {
        XalanTransformer t; t.setWarningStream(0);
        std::istringstream ss(xml); XSLTInputSource in(&ss); in.setSystemId(sysid);
        const XalanParsedSource* ps = 0;
        if (t.parseSource(in, ps, false) == 0 && ps) std::cout << id << "/n " << dump_doc(ps->getDocument()) << id_observations(ps->getDocument(), rec.cands) << "\n";
        else std::cout << id << "/n ERR\n";
    }
    if (recOk) std::cout << id << "/s " << rec.out << "\n";
    else std::cout << id << "/s ERR\n";
}

// ---------------------------------------------------------------------------------------------
// mode O

struct Sink { std::vector<std::string> chunks; std::string all; unsigned flushes; size_t shortAt; Sink() : flushes(0), shortAt((size_t) -1) {} };

extern "C" {
static CallbackSizeType sink_write(const char* data, CallbackSizeType n, void* h)
{
    Sink* s = static_cast<Sink*>(h);
    s->chunks.push_back(std::string(data, n)); s->all.append(data, n);
    return n;
}
static void sink_flush(void* h) { static_cast<Sink*>(h)->flushes++; }
}

static void mode_O(const std::string& id, const std::vector<std::string>& toks)
{
    Sink sink;
    std::string out;
    try {
        XalanTransformerOutputStream os(XalanMemMgrs::getDefaultXercesMemMgr(), &sink, sink_write, sink_flush);
        if (toks[2] == "u16") os.setOutputEncoding(XalanDOMString("UTF-16"));
        else if (toks[2] != "loc") os.setOutputEncoding(XalanDOMString(toks[2].c_str()));
        sink.chunks.clear(); sink.all.clear();       // drop the byte order mark written by setOutputEncoding
        os.setBufferSize((XalanOutputStream::size_type) std::strtoul(toks[3].c_str(), 0, 10));
        for (size_t k = 4; k < toks.size(); ++k) {
            std::vector<std::string> f = splitc(toks[k], '|');
            if (f[0] == "w") { xstr s = field_to_x(f.size() > 1 ? f[1] : ""); static const XMLCh z[] = { 0 }; os.write(s.empty() ? z : s.c_str(), (XalanOutputStream::size_type) s.size()); }
            else if (f[0] == "c") { xstr s = field_to_x(f[1]); os.write((XalanDOMChar) s[0]); }
            else if (f[0] == "n") { xstr s = field_to_x(f.size() > 1 ? f[1] : ""); std::string b; for (size_t i = 0; i < s.size(); ++i) b += (char) s[i]; os.write(b.c_str(), (XalanOutputStream::size_type) b.size()); }
            else if (f[0] == "f") os.flush();
        }
    }
    catch (...) { out = " EXC"; }
    std::cout << id;
    for (size_t i = 0; i < sink.chunks.size(); ++i) std::cout << " " << (sink.chunks[i].empty() ? std::string("-") : hexs(sink.chunks[i]));
    std::cout << " F" << sink.flushes << out << "\n";
}

// ---------------------------------------------------------------------------------------------
// mode T

struct Case
{
    std::string id, sheet, src, dir;
    std::vector<std::pair<std::string, std::string> > params;
    unsigned seed;
    std::string srcPath, sheetPath, srcURL, sheetURL;
};

struct Result { int rc; bool tree; std::string data, msg; Result() : rc(-99), tree(false) {} };

static unsigned lcg(unsigned& s) { s = s * 1664525u + 1013904223u; return s >> 8; }

// forwards SAX2 events to a document builder, re-chunking every characters() event at random
// positions (empty chunks included)
class Rechunker : public xc::DefaultHandler
{
public:
    xc::ContentHandler* ch; xc::LexicalHandler* lh; xc::DTDHandler* dh; unsigned seed; unsigned long calls, pieces;
    Rechunker(XalanDocumentBuilder* b, unsigned s) : ch(b->getContentHandler()), lh(b->getLexicalHandler()), dh(b->getDTDHandler()), seed(s), calls(0), pieces(0) {}
    virtual void startDocument() { ch->startDocument(); }
    virtual void endDocument() { ch->endDocument(); }
    virtual void startElement(const XMLCh* const u, const XMLCh* const l, const XMLCh* const q, const xc::Attributes& a) { ch->startElement(u, l, q, a); }
    virtual void endElement(const XMLCh* const u, const XMLCh* const l, const XMLCh* const q) { ch->endElement(u, l, q); }
    virtual void characters(const XMLCh* const chars, const XMLSize_t length)
    {
        ++calls;
        XMLSize_t pos = 0;
        unsigned mode = lcg(seed) % 4;       // 0: as is, 1: few cuts, 2: many cuts, 3: single characters at the ends
        if (mode == 0) { ++pieces; ch->characters(chars, length); return; }
        while (true) {
            XMLSize_t rest = length - pos, n;
            unsigned r = lcg(seed);
            if (r % 5 == 0) n = 0;
            else if (mode == 1) n = rest == 0 ? 0 : 1 + (lcg(seed) % rest);
            else if (mode == 2) n = rest == 0 ? 0 : 1 + (lcg(seed) % (rest < 4 ? rest : 4));
            else n = rest == 0 ? 0 : (pos == 0 ? 1 : rest);
            xstr piece(chars + pos, n);
            ++pieces;
            ch->characters(piece.c_str(), n);
            pos += n;
            if (pos >= length && n != 0) break;
            if (pos >= length && length == 0) break;
        }
        if (lcg(seed) % 3 == 0) { xstr e; ++pieces; ch->characters(e.c_str(), 0); }
    }
    virtual void ignorableWhitespace(const XMLCh* const chars, const XMLSize_t length) { ch->ignorableWhitespace(chars, length); }
    virtual void processingInstruction(const XMLCh* const t, const XMLCh* const d) { ch->processingInstruction(t, d); }
    virtual void setDocumentLocator(const xc::Locator* const l) { ch->setDocumentLocator(l); }
    virtual void startPrefixMapping(const XMLCh* const p, const XMLCh* const u) { ch->startPrefixMapping(p, u); }
    virtual void endPrefixMapping(const XMLCh* const p) { ch->endPrefixMapping(p); }
    virtual void skippedEntity(const XMLCh* const n) { ch->skippedEntity(n); }
    virtual void notationDecl(const XMLCh* const n, const XMLCh* const p, const XMLCh* const s) { dh->notationDecl(n, p, s); }
    virtual void unparsedEntityDecl(const XMLCh* const n, const XMLCh* const p, const XMLCh* const s, const XMLCh* const nn) { dh->unparsedEntityDecl(n, p, s, nn); }
    virtual void comment(const XMLCh* const chars, const XMLSize_t length) { lh->comment(chars, length); }
    virtual void endCDATA() { lh->endCDATA(); }
    virtual void endDTD() { lh->endDTD(); }
    virtual void endEntity(const XMLCh* const n) { lh->endEntity(n); }
    virtual void startCDATA() { lh->startCDATA(); }
    virtual void startDTD(const XMLCh* const n, const XMLCh* const p, const XMLCh* const s) { lh->startDTD(n, p, s); }
    virtual void startEntity(const XMLCh* const n) { lh->startEntity(n); }
    virtual void error(const xc::SAXParseException&) {}
    virtual void warning(const xc::SAXParseException&) {}
    virtual void fatalError(const xc::SAXParseException& e) { throw e; }
};

static void normalise_dom(xc::DOMDocument* doc, xc::DOMNode* n)
{
    xc::DOMNode* c = n->getFirstChild();
    while (c) {
        xc::DOMNode* next = c->getNextSibling();
        if (c->getNodeType() == xc::DOMNode::CDATA_SECTION_NODE) {
            xc::DOMText* t = doc->createTextNode(c->getNodeValue());
            n->replaceChild(t, c); c->release();
        }
        else if (c->getNodeType() == xc::DOMNode::ELEMENT_NODE) normalise_dom(doc, c);
        c = next;
    }
}

enum Src { S_FILE, S_STREAM, S_DEFAULT, S_XERCES, S_WRAP, S_WRAPRAW, S_BUILDER, S_N };
enum Sheet { H_INPUT, H_FILE, H_COMPILED, H_PI, H_N };
enum Target { T_OSTREAM, T_FILE, T_CALLBACK, T_WRITER1, T_WRITER7, T_WRITER512, T_WRITER4096, T_XDOM, T_STREE, T_N };
static const char* src_name[] = { "file", "stream", "defaultps", "xercesps", "wrapps", "wraprawps", "builder" };
static const char* sheet_name[] = { "input", "sheetfile", "compiled", "pi" };
static const char* target_name[] = { "ostream", "outfile", "callback", "writer1", "writer7", "writer512", "writer4096", "xercesdom", "sourcetree" };

static std::string read_file(const std::string& p)
{
    std::ifstream f(p.c_str(), std::ios::binary); std::ostringstream s; s << f.rdbuf(); return s.str();
}

static std::string tree_of_bytes(const std::string& bytes, bool& ok)
{
    XalanTransformer t; t.setWarningStream(0);
    std::istringstream ss(bytes); XSLTInputSource in(&ss);
    in.setSystemId(XalanDOMString("file:///vmem/result.xml").c_str());
    const XalanParsedSource* ps = 0;
    ok = t.parseSource(in, ps, false) == 0 && ps != 0;
    std::string out;
    if (ok) canon(ps->getDocument(), 0, out);
    return out;
}

static Result run_form(const Case& c, Src s, Sheet h, Target g)
{
    Result res;
    XalanTransformer t; t.setWarningStream(0);
    for (size_t k = 0; k < c.params.size(); ++k)
        t.setStylesheetParam(XalanDOMString(c.params[k].first.c_str()), XalanDOMString(c.params[k].second.c_str()));
    const XalanDOMString srcURL(c.srcURL.c_str()), sheetURL(c.sheetURL.c_str());
    // ---- source
    std::istringstream srcStream(c.src);
    XSLTInputSource srcFile(c.srcPath.c_str());
    XSLTInputSource srcIn(&srcStream); srcIn.setSystemId(srcURL.c_str());
    const XalanParsedSource* ps = 0; bool destroyPS = false;
    XercesParserLiaison xliaison; XercesDOMSupport xsupport(xliaison);
    xc::XercesDOMParser xparser; Quiet quiet;
    XalanDocumentBuilder* builder = 0;
    XercesDOMWrapperParsedSource* wrapped = 0;
    int rc = 0;
    try {
        if (s == S_DEFAULT || s == S_XERCES) { rc = t.parseSource(srcIn, ps, s == S_XERCES); destroyPS = rc == 0; }
        else if (s == S_WRAP || s == S_WRAPRAW) {
            xparser.setDoNamespaces(true); xparser.setCreateEntityReferenceNodes(false); xparser.setErrorHandler(&quiet);
            xparser.setValidationScheme(xc::XercesDOMParser::Val_Never);
            xc::MemBufInputSource is((const XMLByte*) c.src.data(), c.src.size(), srcURL.c_str(), false);
            try { xparser.parse(is); } catch (...) { rc = -2; }
            if (rc == 0) {
                xc::DOMDocument* dom = xparser.getDocument();
                if (s == S_WRAP) { normalise_dom(dom, dom); dom->normalize(); }
                wrapped = new XercesDOMWrapperParsedSource(dom, xliaison, xsupport, srcURL);
                ps = wrapped;
            }
        }
        else if (s == S_BUILDER) {
            builder = t.createDocumentBuilder(srcURL);
            Rechunker rk(builder, c.seed * 2654435761u + 17);
            xc::SAX2XMLReader* r = make_reader();
            r->setContentHandler(&rk); r->setLexicalHandler(&rk); r->setDTDHandler(&rk); r->setErrorHandler(&rk);
            xc::MemBufInputSource is((const XMLByte*) c.src.data(), c.src.size(), srcURL.c_str(), false);
            try { r->parse(is); } catch (...) { rc = -2; }
            delete r;
            ps = builder;
        }
        if (rc != 0) { res.rc = rc; res.msg = "source: " + std::string(t.getLastError()); }
        else {
            // ---- stylesheet
            std::istringstream sheetStream(c.sheet);
            XSLTInputSource sheetIn(&sheetStream); sheetIn.setSystemId(sheetURL.c_str());
            XSLTInputSource sheetFile(c.sheetPath.c_str());
            const XSLTInputSource& sheetSrc = h == H_FILE ? sheetFile : sheetIn;
            const XalanCompiledStylesheet* cs = 0;
            if (h == H_COMPILED) rc = t.compileStylesheet(sheetIn, cs);
            if (rc != 0) { res.rc = rc; res.msg = "compile: " + std::string(t.getLastError()); }
            else {
                // ---- target
                std::ostringstream os; Sink sink;
                std::string outPath = c.dir + "/out.bin";
                ::unlink(outPath.c_str());
                XalanTransformerOutputStream cbStream(XalanMemMgrs::getDefaultXercesMemMgr(), &sink, sink_write, sink_flush);
                XalanOutputStreamPrintWriter cbWriter(cbStream);
                xc::DOMImplementation* impl = xc::DOMImplementationRegistry::getDOMImplementation(X("Core").c_str());
                xc::DOMDocument* outDom = 0;
                XalanSourceTreeDOMSupport stSupport; XalanSourceTreeParserLiaison stLiaison(stSupport);
                stSupport.setParserLiaison(&stLiaison);
                XalanSourceTreeDocument* outTree = 0;
                FormatterToXercesDOM* fx = 0; FormatterToSourceTree* fs = 0;
                XSLTResultTarget* target = 0;
                bool direct = false;     // the handler overloads of transform()
                switch (g) {
                case T_OSTREAM: target = new XSLTResultTarget(os); break;
                case T_FILE: target = new XSLTResultTarget(outPath.c_str()); break;
                case T_CALLBACK:
                    if ((s <= S_STREAM && (h == H_INPUT || h == H_FILE || h == H_PI)) || (s > S_STREAM && h == H_COMPILED)) direct = true;
                    else target = new XSLTResultTarget(&cbWriter);
                    break;
                case T_WRITER1: cbStream.setBufferSize(1); target = new XSLTResultTarget(&cbWriter); break;
                case T_WRITER7: cbStream.setBufferSize(7); target = new XSLTResultTarget(&cbWriter); break;
                case T_WRITER512: cbStream.setBufferSize(512); target = new XSLTResultTarget(&cbWriter); break;
                case T_WRITER4096: cbStream.setBufferSize(4096); target = new XSLTResultTarget(&cbWriter); break;
                case T_XDOM: outDom = impl->createDocument(); fx = new FormatterToXercesDOM(outDom, 0); target = new XSLTResultTarget(*fx); break;
                case T_STREE: outTree = stLiaison.createXalanSourceTreeDocument(); fs = new FormatterToSourceTree(XalanMemMgrs::getDefaultXercesMemMgr(), outTree); target = new XSLTResultTarget(*fs); break;
                default: break;
                }
                // ---- transform
                if (direct) {
                    if (s <= S_STREAM) {
                        const XSLTInputSource& in = s == S_FILE ? srcFile : srcIn;
                        rc = h == H_PI ? t.transform(in, &sink, sink_write, sink_flush) : t.transform(in, sheetSrc, &sink, sink_write, sink_flush);
                    }
                    else rc = t.transform(*ps, cs, &sink, sink_write, sink_flush);
                }
                else if (s <= S_STREAM) {
                    const XSLTInputSource& in = s == S_FILE ? srcFile : srcIn;
                    rc = h == H_PI ? t.transform(in, *target) : h == H_COMPILED ? t.transform(in, cs, *target) : t.transform(in, sheetSrc, *target);
                }
                else rc = h == H_PI ? t.transform(*ps, *target) : h == H_COMPILED ? t.transform(*ps, cs, *target) : t.transform(*ps, sheetSrc, *target);
                res.rc = rc;
                if (rc != 0) res.msg = t.getLastError();
                else switch (g) {
                    case T_OSTREAM: res.data = os.str(); break;
                    case T_FILE: delete target; target = 0; res.data = read_file(outPath); break;
                    case T_XDOM: {
                        XercesParserLiaison l2; XercesDOMSupport s2(l2);
                        XalanDocument* xd = l2.createDocument(outDom, false, true, true);
                        res.tree = true; canon(xd, 0, res.data); break; }
                    case T_STREE: res.tree = true; canon(outTree, 0, res.data); break;
                    default: res.data = sink.all; break;
                }
                delete target; delete fx; delete fs;
                if (outDom) outDom->release();
            }
        }
    }
    catch (const std::exception& e) { res.rc = -98; res.msg = std::string("std::exception: ") + e.what(); }
    catch (...) { res.rc = -97; res.msg = "unknown exception"; }
    if (destroyPS && ps) t.destroyParsedSource(ps);
    delete wrapped;
    if (builder) t.destroyDocumentBuilder(builder);
    return res;
}

// the C API
static Result run_capi(const Case& c, int which)
{
    Result res;
    XalanHandle h = CreateXalanTransformer();
    for (size_t k = 0; k < c.params.size(); ++k) XalanSetStylesheetParam(c.params[k].first.c_str(), c.params[k].second.c_str(), h);
    std::string outPath = c.dir + "/outc.bin"; ::unlink(outPath.c_str());
    Sink sink; char* data = 0; int rc = 0;
    XalanCSSHandle css = 0; XalanPSHandle psh = 0;
    switch (which) {
    case 0: rc = XalanTransformToData(c.srcPath.c_str(), c.sheetPath.c_str(), &data, h); break;
    case 1: rc = XalanTransformToData(c.srcPath.c_str(), 0, &data, h); break;                       // xml-stylesheet PI
    case 2: rc = XalanTransformToFile(c.srcPath.c_str(), c.sheetPath.c_str(), outPath.c_str(), h); break;
    case 3: rc = XalanTransformToHandler(c.srcPath.c_str(), c.sheetPath.c_str(), h, &sink, sink_write, sink_flush); break;
    default:
        rc = which == 7 ? XalanCompileStylesheetFromStream(c.sheet.c_str(), (unsigned long) c.sheet.size(), h, &css) : XalanCompileStylesheet(c.sheetPath.c_str(), h, &css);
        if (rc == 0) rc = which == 7 ? XalanParseSourceFromStream(c.src.c_str(), (unsigned long) c.src.size(), h, &psh) : XalanParseSource(c.srcPath.c_str(), h, &psh);
        if (rc == 0) {
            if (which == 4 || which == 7) rc = XalanTransformToDataPrebuilt(psh, css, &data, h);
            else if (which == 5) rc = XalanTransformToFilePrebuilt(psh, css, outPath.c_str(), h);
            else rc = XalanTransformToHandlerPrebuilt(psh, css, h, &sink, sink_write, sink_flush);
        }
        break;
    }
    res.rc = rc;
    if (rc != 0) { const char* m = XalanGetLastError(h); res.msg = m ? m : ""; }
    else if (data) { res.data = data; XalanFreeData(data); }
    else if (which == 2 || which == 5) res.data = read_file(outPath);
    else res.data = sink.all;
    if (psh) XalanDestroyParsedSource(psh, h);
    if (css) XalanDestroyCompiledStylesheet(css, h);
    DeleteXalanTransformer(h);
    return res;
}
static const char* capi_name[] = { "capi.todata", "capi.todata_pi", "capi.tofile", "capi.tohandler", "capi.prebuilt_todata", "capi.prebuilt_tofile", "capi.prebuilt_tohandler", "capi.prebuiltstream_todata" };

static void report(const Case& c, const std::string& form, const Result& r, const Result& ref, const std::string& treeref, bool treerefOk)
{
    std::cout << c.id << "/" << form << " ";
    if (r.rc != 0) {
        if (ref.rc != 0) std::cout << "=\n";
        else std::cout << "err " << r.rc << " " << hexs(r.msg) << "\n";
        return;
    }
    if (ref.rc != 0) { std::cout << "ok " << hexs(r.data) << "\n"; return; }
    if (r.tree) {
        if (!treerefOk) std::cout << "skip\n";
        else if (r.data == treeref) std::cout << "=\n";
        else std::cout << "tree " << hexs(r.data) << "\n";
    }
    else if (r.data == ref.data) std::cout << "=\n";
    else std::cout << "ok " << hexs(r.data) << "\n";
}

static void mode_T(Case& c, bool usesBaseURI, bool xmlMethod)
{
    const bool nulFree = false;
    { std::ofstream f(c.srcPath.c_str(), std::ios::binary); f << c.src; }
    { std::ofstream f(c.sheetPath.c_str(), std::ios::binary); f << c.sheet; }
    Result ref = run_form(c, S_STREAM, H_INPUT, T_OSTREAM);
    if (ref.rc == 0) std::cout << c.id << "/ref ok " << hexs(ref.data) << "\n";
    else std::cout << c.id << "/ref err " << ref.rc << " " << hexs(ref.msg) << "\n";
    bool treeOk = false; std::string treeref;
    if (ref.rc == 0 && xmlMethod) treeref = tree_of_bytes(ref.data, treeOk);   // html / text serialisation is not the tree (indentation, no escaping)
    std::cout << c.id << "/treeref " << (treeOk ? "ok " + hexs(treeref) : std::string("err")) << "\n";
    unsigned rot = c.seed;
    // every source form x stylesheet form, to a std::ostream
    for (int s = 0; s < S_N; ++s) for (int h = 0; h < H_N; ++h) {
        if (s == S_STREAM && h == H_INPUT) continue;
        report(c, std::string(src_name[s]) + "." + sheet_name[h] + ".ostream", run_form(c, (Src) s, (Sheet) h, T_OSTREAM), ref, treeref, treeOk);
    }
    // every target form with the reference source/stylesheet forms and with one rotating combination
    for (int g = 1; g < T_N; ++g) {
        int s = (int) (lcg(rot) % S_N), h = (int) (lcg(rot) % H_N);
        if (s == S_WRAPRAW) s = S_WRAP;
        if ((g == T_XDOM || g == T_STREE) && ref.rc == 0 && !treeOk) {
            // the result is not one well-formed XML document (text / html method, text at the top
            // level): a tree-building target cannot hold it, nothing to compare
            std::cout << c.id << "/stream.input." << target_name[g] << " skip\n";
            continue;
        }
        report(c, std::string("stream.input.") + target_name[g], run_form(c, S_STREAM, H_INPUT, (Target) g), ref, treeref, treeOk);
        report(c, std::string(src_name[s]) + "." + sheet_name[h] + "." + target_name[g], run_form(c, (Src) s, (Sheet) h, (Target) g), ref, treeref, treeOk);
    }
    // the handler overloads of transform()
    report(c, "file.sheetfile.callback", run_form(c, S_FILE, H_FILE, T_CALLBACK), ref, treeref, treeOk);
    report(c, "stream.pi.callback", run_form(c, S_STREAM, H_PI, T_CALLBACK), ref, treeref, treeOk);
    report(c, "defaultps.compiled.callback", run_form(c, S_DEFAULT, H_COMPILED, T_CALLBACK), ref, treeref, treeOk);
    report(c, "builder.compiled.callback", run_form(c, S_BUILDER, H_COMPILED, T_CALLBACK), ref, treeref, treeOk);
    // C API (the data buffer is NUL terminated: only for outputs without NUL bytes)
    for (int w = 0; w < 8; ++w) {
        bool dataForm = w == 0 || w == 1 || w == 4 || w == 7;
        if (w == 7 && usesBaseURI) { std::cout << c.id << "/" << capi_name[w] << " skip\n"; continue; }   // the FromStream functions take no system id
        if (dataForm && !nulFree && ref.rc == 0 && ref.data.find('\0') != std::string::npos) { std::cout << c.id << "/" << capi_name[w] << " skip\n"; continue; }
        report(c, capi_name[w], run_capi(c, w), ref, treeref, treeOk);
    }
}

int main(int argc, char** argv)
{
    Init init;
    std::istream* in = &std::cin;
    std::ifstream f;
    if (argc > 1) { f.open(argv[1]); in = &f; }
    char tmpl[] = "/tmp/verif_forms_XXXXXX";
    std::string dir = mkdtemp(tmpl);
    std::string line;
    while (std::getline(*in, line)) {
        if (line.empty() || line[0] == '#') continue;
        std::vector<std::string> toks = split(line);
        if (toks.size() < 2) continue;
        const std::string& id = toks[0];
        try {
            if (toks[1] == "B") mode_B(id, toks, 2);
            else if (toks[1] == "W" && toks.size() >= 3) mode_W(id, unhex(toks[2]), toks.size() > 3 && toks[3] == "r");
            else if (toks[1] == "O" && toks.size() >= 4) mode_O(id, toks);
            else if (toks[1] == "T" && toks.size() >= 6) {
                Case c; c.id = id; c.dir = dir; c.seed = (unsigned) std::strtoul(toks[2].c_str(), 0, 10);
                c.sheet = unhex(toks[3]); c.src = unhex(toks[4]);
                if (toks[5] != "-") {
                    std::vector<std::string> ps = splitc(toks[5], ',');
                    for (size_t k = 0; k < ps.size(); ++k) { size_t e = ps[k].find('='); if (e != std::string::npos) c.params.push_back(std::make_pair(ps[k].substr(0, e), unhex(ps[k].substr(e + 1)))); }
                }
                c.srcPath = dir + "/main.xml"; c.sheetPath = dir + "/main.xsl";
                c.srcURL = "file://" + c.srcPath; c.sheetURL = "file://" + c.sheetPath;
                mode_T(c, toks.size() > 6 && toks[6].find('u') != std::string::npos, toks.size() > 6 && toks[6].find('x') != std::string::npos);
            }
        }
        catch (...) { std::cout << id << " EXC\n"; }
        std::cout.flush();
    }
    std::string cmd = "rm -rf " + dir;
    if (std::system(cmd.c_str())) {}
    return 0;
}
