(* PatModel2.v — C09, part 2: the declarative selection as a right-to-left chain, and the matcher on the
   compiled user steps: exact on '/'-only chains, nearest-ancestor optimal on '//' prefixes. *)
From Coq Require Import List Bool Arith Lia.
Require Import XV.PatDefs XV.PatModel.
Import ListNotations.

(** * the selection, read from the selected node back to the node matched by the first step *)
Fixpoint reach (D : doc) (steps : list (sep * sstep)) (n c : nat) : Prop :=
  match steps with
  | [] => False
  | (_, st) :: r =>
      sstep_ok D st c /\
      match r with
      | [] => n = c
      | (sp2, _) :: _ =>
          exists c2, reach D r n c2 /\
          exists p2, parent D c2 = Some p2 /\
                     match sp2 with SChild => p2 = c | SDesc => In c (aos D p2) end
      end
  end.

Definition expand (D : doc) (sp : sep) (cs : list nat) : list nat :=
  match sp with SChild => cs | SDesc => flat_map (dos D) cs end.

Lemma sel_steps_cons : forall D cs s r,
  sel_steps D cs (s :: r) = sel_steps D (flat_map (spec_step D (snd s)) (expand D (fst s) cs)) r.
Proof. reflexivity. Qed.

Lemma in_dos : forall D c c', In c (dos D c') <->
  c < length D /\ (c = c' \/ (is_attr (kind_of D c) = false /\ In c' (aos D c))).
Proof.
  intros D c c'. unfold dos. rewrite filter_In. unfold nodes. rewrite in_seq.
  rewrite orb_true_iff, andb_true_iff, Nat.eqb_eq, negb_true_iff, mem_In.
  split; intros [H1 H2]; (split; [lia|exact H2]).
Qed.

Lemma reach_first_ok : forall D steps n c, reach D steps n c ->
  exists p, parent D c = Some p.
Proof.
  intros D steps n c H. destruct steps as [|[sp st] r]; [contradiction|].
  destruct H as [[p [Hp _]] _]. exists p. exact Hp.
Qed.

Lemma reach_aos : forall D steps n c, reach D steps n c -> In c (aos D n).
Proof.
  intros D steps. induction steps as [|[sp st] r IH]; intros n c H; [contradiction|].
  cbn [reach] in H. destruct H as [_ H]. destruct r as [|[sp2 st2] r'].
  - subst. apply aos_self.
  - destruct H as [c2 [H2 [p2 [Hp2 H3]]]]. apply IH in H2.
    pose proof (aos_parent_in D c2 n p2 H2 Hp2) as H4.
    destruct sp2; [subst; exact H4|]. eapply aos_trans; eauto.
Qed.

Lemma sel_steps_reach : forall D steps, wf_doc D = true -> steps <> [] -> forall cs n,
  In n (sel_steps D cs steps) <->
  exists c, reach D steps n c /\
            exists p, parent D c = Some p /\
                      In p (expand D (match steps with (sp, _) :: _ => sp | [] => SChild end) cs).
Proof.
  intros D steps W. induction steps as [|[sp st] r IH]; intros Hne cs n; [congruence|].
  rewrite sel_steps_cons. cbn [fst snd].
  destruct r as [|[sp2 st2] r'].
  - cbn [sel_steps fold_left reach]. rewrite in_flat_map. split.
    + intros [p [Hp Hn]]. exists n. split.
      * split; [|reflexivity]. exists p. split; [eapply in_spec_step_parent; eauto|exact Hn].
      * exists p. split; [eapply in_spec_step_parent; eauto|exact Hp].
    + intros [c [[[p' [Hp' Hin]] E] [p [Hp Hex]]]]. subst c.
      rewrite Hp' in Hp. inversion Hp. subst p'. exists p. split; assumption.
  - rewrite (IH ltac:(discriminate)). clear IH. split.
    + intros [c2 [R2 [p2 [Hp2 Hex]]]].
      destruct sp2; cbn [expand] in Hex.
      * apply in_flat_map in Hex. destruct Hex as [p [Hp Hin]].
        exists p2. split.
        -- cbn [reach]. split; [exists p; split; [eapply in_spec_step_parent; eauto|exact Hin]|].
           exists c2. split; [exact R2|]. exists p2. split; [exact Hp2|reflexivity].
        -- exists p. split; [eapply in_spec_step_parent; eauto|exact Hp].
      * apply in_flat_map in Hex. destruct Hex as [c0 [Hc0 Hd]].
        apply in_flat_map in Hc0. destruct Hc0 as [p [Hp Hin]].
        exists c0. split.
        -- cbn [reach]. split; [exists p; split; [eapply in_spec_step_parent; eauto|exact Hin]|].
           exists c2. split; [exact R2|]. exists p2. split; [exact Hp2|].
           apply in_dos in Hd. destruct Hd as [_ [Hd|[_ Hd]]]; [subst; apply aos_self|exact Hd].
        -- exists p. split; [eapply in_spec_step_parent; eauto|exact Hp].
    + intros [c [R [p [Hp Hex]]]]. cbn [reach] in R.
      destruct R as [[p' [Hp' Hin]] [c2 [R2 [p2 [Hp2 Hrel]]]]].
      rewrite Hp' in Hp. inversion Hp. subst p'.
      assert (Hc : In c (flat_map (spec_step D st) (expand D sp cs))).
      { apply in_flat_map. exists p. split; assumption. }
      exists c2. split; [exact R2|]. exists p2. split; [exact Hp2|].
      destruct sp2; cbn [expand].
      * subst p2. exact Hc.
      * apply in_flat_map. exists c. split; [exact Hc|]. apply in_dos. split.
        -- pose proof (parent_lt _ _ _ Hp2). pose proof (parent_valid _ _ _ Hp2). lia.
        -- right. split; [|exact Hrel].
           apply container_not_attr. apply (wf_parent_container D c2 p2 W Hp2).
Qed.

(** * the matcher on compiled user steps *)
Definition is_user (m : mstep) : bool :=
  match m with MAttr _ _ | MAny _ _ | MImm _ _ => true | _ => false end.

Lemma compile_steps_cons : forall sp st r,
  compile_steps ((sp, st) :: r) =
  (if s_attr st then MAttr (s_test st) (s_preds st)
   else if next_is_desc r then MAny (s_test st) (s_preds st)
   else MImm (s_test st) (s_preds st)) :: compile_steps r.
Proof. reflexivity. Qed.

Lemma compile_head_user : forall sp st r, exists m rest,
  compile_steps ((sp, st) :: r) = m :: rest /\ is_user m = true.
Proof.
  intros sp st r. rewrite compile_steps_cons.
  destruct (s_attr st); [|destruct (next_is_desc r)]; eexists; eexists; split; reflexivity.
Qed.

Lemma user_not_anyfn : forall m, is_user m = true -> is_anyfn m = false.
Proof. intros m. destruct m; simpl; intro H; try discriminate; reflexivity. Qed.

Lemma step_pattern_one : forall D m n,
  step_pattern D [m] n = let (c', s) := body D m [] n in ((if s then c' else None), s).
Proof. reflexivity. Qed.

Lemma step_pattern_cons2 : forall D m m2 rest n,
  step_pattern D (m :: m2 :: rest) n =
  match step_pattern D (m2 :: rest) n with
  | (Some c, true) =>
      match (if is_anyfn m2 then Some c else parent D c) with
      | Some c' => let (c'', s) := body D m (m2 :: rest) c' in ((if s then c'' else None), s)
      | None => (None, false)
      end
  | _ => (None, false)
  end.
Proof.
  intros D m m2 rest n. cbn [step_pattern].
  destruct (match rest with
            | [] => inl n
            | nxt :: _ =>
                match step_pattern D rest n with
                | (Some c, true) =>
                    match (if is_anyfn nxt then Some c else parent D c) with
                    | Some c' => inl c'
                    | None => inr (None, false)
                    end
                | _ => inr (None, false)
                end
            end) as [x|x]; try reflexivity.
  - destruct (body D m2 rest x) as [c'' s]. destruct s; [destruct c''|]; try reflexivity.
    destruct (if is_anyfn m2 then Some n0 else parent D n0); reflexivity.
  - destruct x as [o b]. destruct o; destruct b; try reflexivity.
    destruct (if is_anyfn m2 then Some n0 else parent D n0); reflexivity.
Qed.

(* what a user step at the front can return *)
Lemma user_result : forall D m rest n, is_user m = true ->
  (exists g, step_pattern D (m :: rest) n = (Some g, true)) \/ step_pattern D (m :: rest) n = (None, false).
Proof.
  intros D m rest n U.
  assert (B : forall c, (exists g, (let (c', s) := body D m rest c in ((if s then c' else None), s)) = (Some g, true))
                        \/ (let (c', s) := body D m rest c in ((if s then c' else None), s)) = (None, false)).
  { intros c. destruct m; try discriminate; cbn [body].
    - destruct (step_ok D true t ps c); [left; eexists; reflexivity|right; reflexivity].
    - destruct (is_attr (kind_of D c)); [right; reflexivity|].
      destruct (find _ (aos D c)); [left; eexists; reflexivity|right; reflexivity].
    - destruct (step_ok D false t ps c); [left; eexists; reflexivity|right; reflexivity]. }
  destruct rest as [|m2 rest'].
  - rewrite step_pattern_one. apply B.
  - rewrite step_pattern_cons2.
    destruct (step_pattern D (m2 :: rest') n) as [[c|] [|]]; try (right; reflexivity).
    destruct (if is_anyfn m2 then Some c else parent D c); [apply B|right; reflexivity].
Qed.

Definition wf_steps (steps : list (sep * sstep)) : Prop :=
  Forall (fun s => Forall wf_pred (s_preds (snd s))) steps.

Lemma all_child_desc_then_child : forall l, all_child l = true -> desc_then_child l = true.
Proof.
  induction l as [|[sp st] r IH]; intro H; [reflexivity|]. destruct sp; [exact H|discriminate].
Qed.

(* '/'-only chains: the matcher is exact and deterministic *)
Lemma chain_child : forall D steps, wf_doc D = true -> wf_steps steps -> steps <> [] ->
  all_child (tl steps) = true -> forall n g,
  step_pattern D (compile_steps steps) n = (Some g, true) <-> reach D steps n g.
Proof.
  intros D steps W. induction steps as [|[sp st] r IH]; intros Wf Hne Hall n g; [congruence|].
  inversion_clear Wf as [|? ? Wst Wr]. cbn [snd] in Wst. cbn [tl] in Hall.
  destruct r as [|[sp2 st2] r'].
  - rewrite compile_steps_cons. cbn [next_is_desc compile_steps reach].
    rewrite step_pattern_one.
    assert (E : (let (c', s) := body D (if s_attr st then MAttr (s_test st) (s_preds st)
                                        else MImm (s_test st) (s_preds st)) [] n in
                 ((if s then c' else None), s))
                = ((if step_ok D (s_attr st) (s_test st) (s_preds st) n then Some n else None),
                   step_ok D (s_attr st) (s_test st) (s_preds st) n)).
    { destruct (s_attr st); reflexivity. }
    rewrite E. clear E. rewrite <- (step_ok_spec D st g W Wst).
    destruct (step_ok D (s_attr st) (s_test st) (s_preds st) n) eqn:S.
    + split.
      * intro H. inversion H. subst. split; [exact S|reflexivity].
      * intros [_ H]. subst. reflexivity.
    + split; [discriminate|]. intros [H1 H2]. subst. rewrite S in H1. discriminate.
  - destruct sp2; [|discriminate]. cbn [all_child] in Hall.
    specialize (IH Wr ltac:(discriminate) Hall).
    rewrite compile_steps_cons.
    destruct (compile_head_user SChild st2 r') as [m2 [rest [Em2 Um2]]].
    rewrite Em2 in *. cbn [next_is_desc].
    rewrite step_pattern_cons2. rewrite (user_not_anyfn m2 Um2).
    assert (E : forall c', (let (c'', s) := body D (if s_attr st then MAttr (s_test st) (s_preds st)
                                        else MImm (s_test st) (s_preds st)) (m2 :: rest) c' in
                 ((if s then c'' else None), s))
                = ((if step_ok D (s_attr st) (s_test st) (s_preds st) c' then Some c' else None),
                   step_ok D (s_attr st) (s_test st) (s_preds st) c')).
    { intro c'. destruct (s_attr st); reflexivity. }
    cbn [reach]. split.
    + intros H.
      destruct (step_pattern D (m2 :: rest) n) as [[c2|] [|]] eqn:R; try discriminate.
      destruct (parent D c2) as [c'|] eqn:Hp; [|discriminate].
      rewrite E in H. destruct (step_ok D (s_attr st) (s_test st) (s_preds st) c') eqn:S; [|discriminate].
      inversion H. subst c'. split; [apply (step_ok_spec D st g W Wst); exact S|].
      exists c2. split; [apply IH; exact R|]. exists g. split; [exact Hp|reflexivity].
    + intros [Hok [c2 [R2 [p2 [Hp2 Ep]]]]]. subst p2.
      apply IH in R2. rewrite R2, Hp2, E.
      apply (step_ok_spec D st g W Wst) in Hok. rewrite Hok. reflexivity.
Qed.

(* '//' prefixes: whatever chain the specification finds, the nearest-ancestor matcher succeeds with a
   context at or below the chain's *)
Lemma chain_any : forall D steps, wf_doc D = true -> wf_steps steps -> steps <> [] ->
  desc_then_child (tl steps) = true -> forall n,
  (forall g, step_pattern D (compile_steps steps) n = (Some g, true) -> reach D steps n g) /\
  (forall c, reach D steps n c ->
             exists g, step_pattern D (compile_steps steps) n = (Some g, true) /\ In c (aos D g)).
Proof.
  intros D steps W. induction steps as [|[sp st] r IH]; intros Wf Hne Hg n; [congruence|].
  cbn [tl] in Hg.
  destruct r as [|[sp2 st2] r'].
  - pose proof (chain_child D [(sp, st)] W Wf Hne eq_refl n) as C. split.
    + intros g H. apply C. exact H.
    + intros c H. exists c. split; [apply C; exact H|apply aos_self].
  - destruct sp2.
    + (* the rest is '/'-only: exact *)
      cbn [desc_then_child] in Hg.
      pose proof (chain_child D ((sp, st) :: (SChild, st2) :: r') W Wf Hne Hg n) as C. split.
      * intros g H. apply C. exact H.
      * intros c H. exists c. split; [apply C; exact H|apply aos_self].
    + cbn [desc_then_child] in Hg.
      inversion_clear Wf as [|? ? Wst Wr]. cbn [snd] in Wst.
      assert (Hg' : desc_then_child (tl ((SDesc, st2) :: r')) = true) by exact Hg.
      destruct (IH Wr ltac:(discriminate) Hg' n) as [IHa IHb]. clear IH.
      rewrite compile_steps_cons.
      destruct (compile_head_user SDesc st2 r') as [m2 [rest [Em2 Um2]]].
      rewrite Em2 in *. cbn [next_is_desc].
      rewrite step_pattern_cons2. rewrite (user_not_anyfn m2 Um2).
      destruct (s_attr st) eqn:At.
      * (* an attribute step in front of '//' selects nothing and matches nothing *)
        split.
        -- intros g H.
           destruct (step_pattern D (m2 :: rest) n) as [[c2|] [|]] eqn:R; try discriminate.
           destruct (parent D c2) as [c'|] eqn:Hp; [|discriminate].
           cbn [body] in H.
           destruct (step_ok D true (s_test st) (s_preds st) c') eqn:S; [|discriminate].
           exfalso. unfold step_ok in S. apply andb_prop in S. destruct S as [S _].
           apply attr_test_attr in S.
           destruct (wf_parent_container D c2 c' W Hp) as [Hc _].
           apply container_not_attr in Hc. congruence.
        -- intros c H. exfalso. cbn [reach] in H.
           destruct H as [[p [Hp Hin]] [c2 [_ [p2 [Hp2 Hanc]]]]].
           unfold spec_step in Hin. apply apply_preds_sub in Hin. rewrite At in Hin.
           apply filter_In in Hin. destruct Hin as [Hin _]. apply in_attributes in Hin.
           destruct Hin as [_ Hattr].
           destruct (aos_container D c p2 W Hanc) as [E|E].
           ++ subst. destruct (wf_parent_container D c2 p2 W Hp2) as [Hc _].
              apply container_not_attr in Hc. congruence.
           ++ apply container_not_attr in E. congruence.
      * set (F := fun a => negb (is_root (kind_of D a)) && child_test (s_test st) (kind_of D a)
                          && do_preds (found_index D false (s_test st) (s_preds st) a) (s_preds st) a true).
        assert (FS : forall a, is_attr (kind_of D a) = false ->
                     F a = step_ok D (s_attr st) (s_test st) (s_preds st) a).
        { intros a Ha. unfold F, step_ok. rewrite At, Ha. reflexivity. }
        split.
        -- intros g H.
           destruct (step_pattern D (m2 :: rest) n) as [[c2|] [|]] eqn:R; try discriminate.
           destruct (parent D c2) as [c'|] eqn:Hp; [|discriminate].
           cbn [body] in H.
           destruct (is_attr (kind_of D c')) eqn:Ac; [discriminate|].
           fold F in H. destruct (find F (aos D c')) as [a|] eqn:Fd; [|discriminate].
           inversion H. subst a. apply find_some in Fd. destruct Fd as [Hin Fg].
           assert (Hna : is_attr (kind_of D g) = false).
           { destruct (aos_container D g c' W Hin) as [E|E]; [subst; exact Ac|].
             apply container_not_attr. exact E. }
           rewrite (FS g Hna) in Fg. cbn [reach]. split; [apply (step_ok_spec D st g W Wst); exact Fg|].
           exists c2. split; [apply IHa; reflexivity|]. exists c'. split; [exact Hp|exact Hin].
        -- intros c H. cbn [reach] in H.
           destruct H as [Hok [c2 [R2 [p2 [Hp2 Hanc]]]]].
           destruct (IHb c2 R2) as [g2 [R Hc2]]. rewrite R.
           pose proof (IHa g2 R) as Rg2. destruct (reach_first_ok D _ n g2 Rg2) as [c' Hp].
           rewrite Hp. cbn [body].
           destruct (wf_parent_container D g2 c' W Hp) as [Hcc _].
           rewrite (container_not_attr _ Hcc). fold F.
           assert (Hin : In c (aos D c')).
           { apply aos_cases in Hc2. destruct Hc2 as [E|[q [Hq Hc2]]].
             - subst g2. rewrite Hp in Hp2. inversion Hp2. subst. exact Hanc.
             - rewrite Hp in Hq. inversion Hq. subst q.
               eapply aos_trans; [exact Hanc|]. eapply aos_parent_in; eauto. }
           assert (Hna : is_attr (kind_of D c) = false).
           { destruct (aos_container D c c' W Hin) as [E|E].
             - subst. apply container_not_attr. exact Hcc.
             - apply container_not_attr. exact E. }
           apply (step_ok_spec D st c W Wst) in Hok. rewrite <- (FS c Hna) in Hok.
           destruct (find_aos D F c' c Hin Hok) as [g [Fd Hg2]].
           rewrite Fd. exists g. split; [reflexivity|exact Hg2].
Qed.

(* an attribute step in front of '//' selects nothing *)
Lemma attr_before_desc_unreachable : forall D sp st st2 r' n c, wf_doc D = true ->
  s_attr st = true -> reach D ((sp, st) :: (SDesc, st2) :: r') n c -> False.
Proof.
  intros D sp st st2 r' n c W At H. cbn [reach] in H.
  destruct H as [[p [Hp Hin]] [c2 [_ [p2 [Hp2 Hanc]]]]].
  unfold spec_step in Hin. apply apply_preds_sub in Hin. rewrite At in Hin.
  apply filter_In in Hin. destruct Hin as [Hin _]. apply in_attributes in Hin.
  destruct Hin as [_ Hattr].
  destruct (aos_container D c p2 W Hanc) as [E|E].
  - subst. destruct (wf_parent_container D c2 p2 W Hp2) as [Hc _].
    apply container_not_attr in Hc. congruence.
  - apply container_not_attr in E. congruence.
Qed.

(* soundness needs no guard: whatever the matcher finds is a chain of the expression semantics *)
Lemma chain_sound : forall D steps, wf_doc D = true -> wf_steps steps -> steps <> [] -> forall n g,
  step_pattern D (compile_steps steps) n = (Some g, true) -> reach D steps n g.
Proof.
  intros D steps W. induction steps as [|[sp st] r IH]; intros Wf Hne n g H; [congruence|].
  destruct r as [|[sp2 st2] r'].
  - apply (chain_child D [(sp, st)] W Wf Hne eq_refl n g). exact H.
  - inversion_clear Wf as [|? ? Wst Wr]. cbn [snd] in Wst.
    specialize (IH Wr ltac:(discriminate) n).
    rewrite compile_steps_cons in H.
    destruct (compile_head_user sp2 st2 r') as [m2 [rest [Em2 Um2]]].
    rewrite Em2 in *.
    rewrite step_pattern_cons2, (user_not_anyfn m2 Um2) in H.
    destruct (step_pattern D (m2 :: rest) n) as [[c2|] [|]] eqn:R; try discriminate.
    destruct (parent D c2) as [c'|] eqn:Hp; [|discriminate].
    pose proof (IH c2 eq_refl) as R2.
    assert (Plain : forall at', at' = s_attr st ->
              step_ok D at' (s_test st) (s_preds st) c' = true -> g = c' ->
              reach D ((sp, st) :: (sp2, st2) :: r') n g).
    { intros at' Eat S Eg. subst at' g. cbn [reach]. split; [apply (step_ok_spec D st c' W Wst); exact S|].
      exists c2. split; [exact R2|]. exists c'. split; [exact Hp|].
      destruct sp2; [reflexivity|apply aos_self]. }
    destruct (s_attr st) eqn:At.
    + cbn [body] in H. destruct (step_ok D true (s_test st) (s_preds st) c') eqn:S; [|discriminate].
      inversion H. apply (Plain true); auto.
    + destruct sp2; cbn [next_is_desc] in H.
      * cbn [body] in H. destruct (step_ok D false (s_test st) (s_preds st) c') eqn:S; [|discriminate].
        inversion H. apply (Plain false); auto.
      * cbn [body] in H.
        destruct (is_attr (kind_of D c')) eqn:Ac; [discriminate|].
        match type of H with context [find ?F _] => set (F0 := F) in * end.
        destruct (find F0 (aos D c')) as [a|] eqn:Fd; [|discriminate].
        inversion H. subst a. apply find_some in Fd. destruct Fd as [Hin Fg].
        assert (Hna : is_attr (kind_of D g) = false).
        { destruct (aos_container D g c' W Hin) as [E|E]; [subst; exact Ac|].
          apply container_not_attr. exact E. }
        assert (S : step_ok D (s_attr st) (s_test st) (s_preds st) g = true).
        { unfold step_ok. rewrite At, Hna. exact Fg. }
        cbn [reach]. split; [apply (step_ok_spec D st g W Wst); exact S|].
        exists c2. split; [exact R2|]. exists c'. split; [exact Hp|exact Hin].
Qed.
