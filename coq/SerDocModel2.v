(* SerDocModel2.v — C04: the document-level theorem for the UTF-8 writer, from the UTF-16 one
   (SerDocModel.serialize_parse_utf16) and the simulation of SerUtf8Sim.v. *)
From Coq Require Import NArith List Bool Lia ZifyBool ZifyNat ZifyN.
Require Import XV.SerDefs XV.XmlParseDefs XV.XmlDocDefs XV.SerDocDefs XV.SerUtfModel XV.SerUtf8Sim XV.SerDocModel.
Import ListNotations.
Local Open Scope N_scope.

(* every string of the script consists of 16-bit units (the model does not bound a unit) *)
Definition event_small (e : event) : bool :=
  match e with
  | EStart n attrs => small n && forallb (fun a => small (fst a) && small (snd a)) attrs
  | EEnd n => small n
  | EText s | ECdata s | EComment s => small s
  | EPI t d => small t && small d
  end.
Definition script_small (es : list event) : bool := forallb event_small es.

Lemma name_units_paired : forall n k, (length n <= k)%nat -> name_units_ok n = true -> paired n = true.
Proof.
  unfold paired. intros n k. revert n. induction k as [|k IH]; intros n Hk H.
  - destruct n; [reflexivity|cbn [length] in Hk; lia].
  - destruct n as [|c r]; [reflexivity|]. cbn [length] in Hk. cbn [name_units_ok] in H. cbn [code_points].
    unfold x_high, x_low, x_in in H.
    destruct ((55296 <=? c) && (c <=? 56319)) eqn:Eh.
    + destruct r as [|lo r']; [discriminate|]. apply andb_true_iff in H. destruct H as [H1 H2].
      unfold x_in in H1. rewrite H1. specialize (IH r' ltac:(cbn [length] in Hk; lia) H2).
      destruct (code_points r'); [reflexivity|discriminate].
    + destruct ((56320 <=? c) && (c <=? 57343)) eqn:El; [discriminate|].
      specialize (IH r ltac:(lia) H). destruct (code_points r); [reflexivity|discriminate].
Qed.

Lemma name_ok_str_ok : forall n, name_ok n = true -> small n = true -> str_ok n = true.
Proof.
  intros n H Hs. unfold str_ok. rewrite Hs. cbn [andb]. unfold name_ok in H. apply andb_true_iff in H.
  destruct H as [H _]. unfold valid_name in H. destruct n as [|c r]; [discriminate|].
  apply andb_true_iff in H. destruct H as [_ H]. exact (name_units_paired _ _ (le_n _) H).
Qed.

Lemma events_sim_ok : forall v11 es b, events_ok v11 es b = true -> script_small es = true ->
  forallb sim_event_ok es = true.
Proof.
  intros v11. induction es as [|e r IH]; intros b H Hs; [reflexivity|].
  cbn [events_ok] in H. apply andb_true_iff in H. destruct H as [H Hr]. apply andb_true_iff in H. destruct H as [He _].
  unfold script_small in Hs. cbn [forallb] in Hs. apply andb_true_iff in Hs. destruct Hs as [Hse Hsr].
  cbn [forallb]. rewrite (IH _ Hr Hsr), andb_true_r.
  destruct e as [n attrs|n|s|s|s|t d]; cbn [event_ok event_small sim_event_ok] in *.
  - apply andb_true_iff in He. destruct He as [Hn Ha]. apply andb_true_iff in Hse. destruct Hse as [Sn Sa].
    rewrite (name_ok_str_ok n Hn Sn). cbn [andb]. apply forallb_forall. intros a Hin.
    rewrite forallb_forall in Ha, Sa. specialize (Ha a Hin). specialize (Sa a Hin).
    apply andb_true_iff in Ha. destruct Ha as [A1 _]. apply andb_true_iff in Sa. destruct Sa as [S1 S2].
    rewrite (name_ok_str_ok _ A1 S1), S2. reflexivity.
  - exact (name_ok_str_ok n He Hse).
  - exact Hse.
  - discriminate.
  - exact Hse.
  - unfold pi_ok in He. apply andb_true_iff in Hse. destruct Hse as [St Sd].
    rewrite !andb_true_iff in He. destruct He as [[[[Hn _] _] _] _].
    rewrite (name_ok_str_ok t Hn St), Sd. reflexivity.
Qed.

(* decl strings: 16-bit units with paired surrogates *)
Theorem serialize_parse_utf8 : forall v11 ver enc es,
  tree_ok v11 es = true -> script_small es = true ->
  decl_string_ok ver = true -> decl_string_ok enc = true -> str_ok ver = true -> str_ok enc = true ->
  exists bytes, payload (document_items fam_utf8 v11 ver enc es) = Ok bytes /\
                parse_doc_utf8 v11 bytes = Some (map pev_of es).
Proof.
  intros v11 ver enc es Ht Hs Dv De Sv Se.
  destruct (serialize_parse_utf16 v11 ver enc es Ht Dv De) as [bs [Hp Hd]].
  unfold tree_ok in Ht. apply andb_true_iff in Ht. destruct Ht as [He _].
  exact (utf8_document_transfer v11 ver enc es bs _ Sv Se (events_sim_ok v11 es false He Hs) Hp Hd).
Qed.
