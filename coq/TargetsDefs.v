(* C05, part "targets": the two tree-building result targets as coded,

     FormatterToXercesDOM   (src/xalanc/XercesParserLiaison/FormatterToXercesDOM.cpp)
     FormatterToSourceTree  (src/xalanc/XalanSourceTree/FormatterToSourceTree.cpp)

   as state machines over the FormatterListener event alphabet, and the independent specification: the tree a
   well-nested event sequence denotes (structural recursion over the item tree, adjacent character events
   coalesce, an empty text makes no node, order of children = order of events).

   State of a builder: the text accumulation buffer (m_textBuffer), the children of the current parent so far, and
   the open elements (m_currentElem/m_elemStack, m_currentElement/m_elementStack/m_lastChildStack) as a zipper -
   every frame holds the header of an open element and the children its parent had when it was opened.
   The mutable DOM is abstracted to this zipper: appending to "the current parent" conses on [cur]; an element
   becomes a child in its parent's list when it is closed (in the library it is linked at startElement and filled
   afterwards - the same final tree, [result] links what is still open).

   Which event methods call processAccumulatedText() first, the two variants of FormatterToSourceTree::cdata, the
   marker processing instruction of charactersRaw and the xmlns strings are read from the source on every run
   (GenTargets.v, translator/gen_targets.py); the rest of each method body is pinned there textually.

   Outside the model: the validity checks Xerces applies to names (createElement / createProcessingInstruction /
   createElementNS raise INVALID_CHARACTER_ERR / NAMESPACE_ERR on malformed names): scripts carry XML names;
   characters(chars, length) is taken with a buffer of exactly [length] units (FormatterToSourceTree tests
   isXMLWhitespace(chars) up to the terminating NUL); endElement() without an open element is undefined behaviour
   in FormatterToSourceTree (vector::back() of an empty vector): the model refuses it.

   Definitions only (extracted by ExtractTargets.v). Strings are lists of N (UTF-16 code units). *)
From Coq Require Import List NArith Bool.
Import ListNotations.
Require Import XV.GenTargets.

Definition str := list N.

Fixpoint str_eqb (a b : str) : bool :=
  match a, b with
  | [], [] => true
  | x :: a', y :: b' => N.eqb x y && str_eqb a' b'
  | _, _ => false
  end.

Definition is_empty (s : str) : bool := match s with [] => true | _ => false end.

(* XalanXMLChar::isWhitespace / XMLChar1_0::isAllSpaces: space, tab, LF, CR *)
Definition is_ws (c : N) : bool := N.eqb c 32 || N.eqb c 9 || N.eqb c 10 || N.eqb c 13.
Definition all_ws (s : str) : bool := forallb is_ws s.

Definition attrs := list (str * str).          (* the AttributeList of startElement: qualified name, value *)
Definition tattr := (str * str * str)%type.    (* attribute node: qualified name, namespace URI ([] = none), value *)

Inductive ev :=
| EvStartDoc
| EvEndDoc
| EvStart (n : str) (a : attrs)
| EvEnd (n : str)
| EvChars (s : str)
| EvRaw (s : str)            (* charactersRaw *)
| EvCdata (s : str)
| EvComment (s : str)
| EvPI (t d : str)
| EvIws (s : str)            (* ignorableWhitespace *)
| EvEntRef (n : str).

Inductive tnode :=
| TElem (n ns : str) (a : list tattr) (ch : list tnode)
| TText (s : str)            (* text node made from the accumulated buffer *)
| TCdata (s : str)           (* CDATA section node *)
| TIws (s : str)             (* text node made by ignorableWhitespace(): never merged with its neighbours *)
| TComment (s : str)
| TPI (t d : str)
| TEntRef (n : str).

Inductive target := XDOM | STREE.
Inductive mode := MDoc | MFrag.                (* build below the document node / below a document fragment *)
Definition resolver := option (list (str * str)).   (* None: no prefix resolver set (m_prefixResolver == 0) *)

(* ---- names and namespaces ---- *)
Definition colon : N := 58.

Fixpoint prefix_of (s : str) : option str :=
  match s with
  | [] => None
  | c :: r => if N.eqb c colon then Some []
              else match prefix_of r with Some p => Some (c :: p) | None => None end
  end.

Fixpoint after_colon (s : str) : option str :=
  match s with
  | [] => None
  | c :: r => if N.eqb c colon then Some r else after_colon r
  end.

Definition local_of (s : str) : str := match after_colon s with Some l => l | None => s end.

(* PrefixResolver::getNamespaceForPrefix: a null result and an empty URI both mean "no namespace" to the callers *)
Fixpoint lookup (p : str) (m : list (str * str)) : str :=
  match m with
  | [] => []
  | (k, v) :: r => if str_eqb k p then v else lookup p r
  end.

Fixpoint starts_with (s p : str) : bool :=
  match p with
  | [] => true
  | c :: p' => match s with d :: s' => N.eqb c d && starts_with s' p' | [] => false end
  end.

Definition is_nsdecl (n : str) : bool := starts_with n xmlns_with_sep || str_eqb n xmlns_name.

(* element: DOMServices::getNamespaceForPrefix(name, resolver, false, ..) and
   XalanSourceTreeDocument::getNamespaceForPrefix(name, resolver, .., true): the default namespace applies *)
Definition elem_ns (res : resolver) (n : str) : str :=
  match res with
  | None => []
  | Some m => match prefix_of n with None => lookup [] m | Some p => lookup p m end
  end.

(* attribute, Xerces target: DOMServices::getNamespaceForPrefix(name, resolver, true, ..): "xmlns" itself is in the
   xmlns namespace, an unprefixed name in none *)
Definition x_attr_ns (res : resolver) (n : str) : str :=
  match res with
  | None => []
  | Some m => if str_eqb n xmlns_name then xmlns_uri
              else match prefix_of n with None => [] | Some p => lookup p m end
  end.

(* attribute, source tree: XalanSourceTreeDocument::getNamespaceForPrefix(name, resolver, .., false, ..): no special
   case for "xmlns" *)
Definition s_attr_ns (res : resolver) (n : str) : str :=
  match res with
  | None => []
  | Some m => match prefix_of n with None => [] | Some p => lookup p m end
  end.

(* Xerces: setAttribute(name, v) replaces the value of the attribute whose nodeName is name; setAttributeNS(ns, qname, v)
   replaces the attribute with that namespace and local name (taking the new prefix) *)
Definition x_key_match (q ns : str) (e : tattr) : bool :=
  match e with
  | (q', ns', _) =>
      if is_empty ns then str_eqb q' q
      else negb (is_empty ns') && str_eqb ns' ns && str_eqb (local_of q') (local_of q)
  end.

Fixpoint x_set_attr (q ns v : str) (l : list tattr) : list tattr :=
  match l with
  | [] => [(q, ns, v)]
  | e :: r =>
      if x_key_match q ns e
      then (match e with (q', ns', _) => if is_empty ns then (q', ns', v) else (q, ns, v) end) :: r
      else e :: x_set_attr q ns v r
  end.

Definition x_attrs (res : resolver) (a : attrs) : list tattr :=
  fold_left (fun l p => x_set_attr (fst p) (x_attr_ns res (fst p)) (snd p) l) a [].

(* source tree: createAttributes twice - namespace declarations first, then the others; every entry makes a node *)
Definition s_tag (res : resolver) (p : str * str) : tattr := (fst p, s_attr_ns res (fst p), snd p).

Definition s_attrs (res : resolver) (a : attrs) : list tattr :=
  map (s_tag res) (filter (fun p => is_nsdecl (fst p)) a) ++
  map (s_tag res) (filter (fun p => negb (is_nsdecl (fst p))) a).

Definition t_attrs (t : target) (res : resolver) (a : attrs) : list tattr :=
  match t with XDOM => x_attrs res a | STREE => s_attrs res a end.

(* ---- builder state ---- *)
(* open element: name, namespace, attributes, and the children its PARENT had when it was opened (reversed) *)
Definition frame := (str * str * list tattr * list tnode)%type.
(* buf = m_textBuffer; cur = children of the current parent so far (reversed; the parent is the innermost open element,
   or the document / fragment when ctx is empty); ctx = the open elements, innermost first *)
Record st := mkSt { buf : str; cur : list tnode; ctx : list frame }.
Definition st0 : st := mkSt [] [] [].

Definition bind {A B : Type} (o : option A) (f : A -> option B) : option B :=
  match o with Some x => f x | None => None end.

Definition is_nil {A : Type} (l : list A) : bool := match l with [] => true | _ => false end.
Definition is_elem (n : tnode) : bool := match n with TElem _ _ _ _ => true | _ => false end.

(* what the root accepts: a document fragment takes everything; a Xerces DOMDocument takes one element, comments,
   processing instructions and non-empty white-space-only text (DOMDocumentImpl::isKidOK), everything else is
   HIERARCHY_REQUEST_ERR; a XalanSourceTreeDocument takes one element, comments and processing instructions
   (appendChildNode overloads; doCharacters throws HIERARCHY_REQUEST_ERR) *)
Definition root_ok (t : target) (m : mode) (n : tnode) (r : list tnode) : bool :=
  match m with
  | MFrag => true
  | MDoc =>
      match n with
      | TElem _ _ _ _ => negb (existsb is_elem r)
      | TComment _ | TPI _ _ => true
      | TText s | TIws s => match t with XDOM => negb (is_empty s) && all_ws s | STREE => false end
      | TCdata _ | TEntRef _ => false
      end
  end.

(* may node n become a child of the current parent, whose children so far are c *)
Definition accepts (t : target) (m : mode) (top : bool) (n : tnode) (c : list tnode) : bool :=
  negb top || root_ok t m n c.

(* append(newNode) / doAppendChildNode(...): the current element, else the fragment, else the document *)
Definition append (t : target) (m : mode) (n : tnode) (s : st) : option st :=
  if accepts t m (is_nil (ctx s)) n (cur s) then Some (mkSt (buf s) (n :: cur s) (ctx s)) else None.

(* processAccumulatedText() *)
Definition flush (t : target) (m : mode) (s : st) : option st :=
  match buf s with
  | [] => Some s
  | b => append t m (TText b) (mkSt [] (cur s) (ctx s))
  end.

Definition flush_if (b : bool) (t : target) (m : mode) (s : st) : option st :=
  if b then flush t m s else Some s.

(* startElement: the new element is linked to the current parent and becomes the current parent *)
Definition push (t : target) (m : mode) (q ns : str) (a : list tattr) (s : st) : option st :=
  if accepts t m (is_nil (ctx s)) (TElem q ns a []) (cur s)
  then Some (mkSt (buf s) [] ((q, ns, a, cur s) :: ctx s)) else None.

Definition close_frame (c : list tnode) (f : frame) : list tnode :=
  match f with (q, ns, a, pc) => TElem q ns a (rev c) :: pc end.

Definition pop (s : st) : option st :=
  match ctx s with
  | f :: r => Some (mkSt (buf s) (close_frame (cur s) f) r)
  | [] => None
  end.

(* the children of the root as they stand: elements still open are already linked to their parents in the library *)
Definition unwind (k : list frame) (c : list tnode) : list tnode := fold_left close_frame k c.

Definition add_chars (c : str) (s : st) : st := mkSt (buf s ++ c) (cur s) (ctx s).

(* FormatterToSourceTree::characters *)
Definition s_chars (m : mode) (c : str) (s : st) : option st :=
  match m, ctx s with
  | MDoc, [] => if all_ws c then Some s else None
  | _, _ => Some (add_chars c s)
  end.

Definition x_cdata (m : mode) (c : str) (s : st) : option st :=
  bind (flush_if x_flush_cdata XDOM m s) (append XDOM m (TCdata c)).

Definition x_step (m : mode) (res : resolver) (e : ev) (s : st) : option st :=
  match e with
  | EvStartDoc => flush_if x_flush_startDocument XDOM m s
  | EvEndDoc => flush_if x_flush_endDocument XDOM m s
  | EvStart n a => bind (flush_if x_flush_startElement XDOM m s) (push XDOM m n (elem_ns res n) (x_attrs res a))
  | EvEnd _ => bind (flush_if x_flush_endElement XDOM m s)
                    (fun s1 => match ctx s1 with [] => Some s1 | _ => pop s1 end)
  | EvChars c => bind (flush_if x_flush_characters XDOM m s) (fun s1 => Some (add_chars c s1))
  | EvRaw c => bind (flush_if x_flush_charactersRaw XDOM m s) (x_cdata m c)
  | EvCdata c => x_cdata m c s
  | EvComment c => bind (flush_if x_flush_comment XDOM m s) (append XDOM m (TComment c))
  | EvPI a b => bind (flush_if x_flush_processingInstruction XDOM m s) (append XDOM m (TPI a b))
  | EvIws c => bind (flush_if x_flush_ignorableWhitespace XDOM m s) (append XDOM m (TIws c))
  | EvEntRef n => bind (flush_if x_flush_entityReference XDOM m s) (append XDOM m (TEntRef n))
  end.

Definition s_step (m : mode) (res : resolver) (e : ev) (s : st) : option st :=
  match e with
  | EvStartDoc => bind (flush_if s_flush_startDocument STREE m s)
                       (fun s1 => Some (mkSt [] (unwind (ctx s1) (cur s1)) []))
  | EvEndDoc => flush_if (match m with MFrag => s_flush_endDocument_frag | MDoc => s_flush_endDocument_doc end) STREE m s
  | EvStart n a => bind (flush_if s_flush_startElement STREE m s) (push STREE m n (elem_ns res n) (s_attrs res a))
  | EvEnd _ => bind (flush_if s_flush_endElement STREE m s) pop
  | EvChars c => bind (flush_if s_flush_characters STREE m s) (s_chars m c)
  | EvRaw c => bind (flush_if s_flush_charactersRaw STREE m s)
                    (fun s1 => bind (append STREE m (TPI pi_marker_target pi_marker_data) s1) (s_chars m c))
  | EvCdata c => bind (flush_if s_flush_cdata STREE m s)
                      (fun s1 => if s_cdata_is_characters then s_chars m c s1 else Some s1)
  | EvComment c => bind (flush_if s_flush_comment STREE m s) (append STREE m (TComment c))
  | EvPI a b => bind (flush_if s_flush_processingInstruction STREE m s) (append STREE m (TPI a b))
  | EvIws c =>
      match m, ctx s with
      | MDoc, [] => Some s
      | _, _ => bind (flush_if s_flush_ignorableWhitespace STREE m s) (append STREE m (TIws c))
      end
  | EvEntRef _ => flush_if s_flush_entityReference STREE m s
  end.

Definition step (t : target) (m : mode) (res : resolver) (e : ev) (s : st) : option st :=
  match t with XDOM => x_step m res e s | STREE => s_step m res e s end.

Fixpoint run_from (t : target) (m : mode) (res : resolver) (evs : list ev) (s : st) : option st :=
  match evs with
  | [] => Some s
  | e :: r => bind (step t m res e s) (run_from t m res r)
  end.

Definition result (s : st) : list tnode := rev (unwind (ctx s) (cur s)).

Definition run_target (t : target) (m : mode) (res : resolver) (evs : list ev) : option (list tnode) :=
  match run_from t m res evs st0 with Some s => Some (result s) | None => None end.

(* ---- specification: well-nested event sequences are the flat images of item trees ---- *)
Inductive item :=
| IElem (n : str) (a : attrs) (body : list item)
| IChars (s : str)
| IRaw (s : str)
| ICdata (s : str)
| IComment (s : str)
| IPI (t d : str)
| IIws (s : str)
| IEntRef (n : str).

Fixpoint flat (i : item) : list ev :=
  match i with
  | IElem n a body => EvStart n a :: flat_map flat body ++ [EvEnd n]
  | IChars s => [EvChars s]
  | IRaw s => [EvRaw s]
  | ICdata s => [EvCdata s]
  | IComment s => [EvComment s]
  | IPI t d => [EvPI t d]
  | IIws s => [EvIws s]
  | IEntRef n => [EvEntRef n]
  end.

Definition script (l : list item) : list ev := EvStartDoc :: flat_map flat l ++ [EvEndDoc].

(* adjacent text nodes are one node, an empty text is no node *)
Fixpoint merge_text (l : list tnode) : list tnode :=
  match l with
  | [] => []
  | TText s :: r =>
      match s with
      | [] => merge_text r
      | _ => match merge_text r with
             | TText s' :: r' => TText (s ++ s') :: r'
             | r' => TText s :: r'
             end
      end
  | x :: r => x :: merge_text r
  end.

(* the nodes one item stands for, per target (what the target does with the event kinds that are not plain
   characters / comment / processing instruction is part of its documented behaviour) *)
Definition top_chars (m : mode) (top : bool) (s : str) : list tnode :=
  match m, top with MDoc, true => [] | _, _ => [TText s] end.

Fixpoint img (t : target) (m : mode) (res : resolver) (top : bool) (i : item) : list tnode :=
  match i with
  | IElem n a body => [TElem n (elem_ns res n) (t_attrs t res a) (merge_text (flat_map (img t m res false) body))]
  | IChars s => match t with XDOM => [TText s] | STREE => top_chars m top s end
  | IRaw s => match t with
              | XDOM => [TCdata s]
              | STREE => TPI pi_marker_target pi_marker_data :: top_chars m top s
              end
  | ICdata s => match t with
                | XDOM => [TCdata s]
                | STREE => if s_cdata_is_characters then top_chars m top s else []
                end
  | IComment s => [TComment s]
  | IPI a b => [TPI a b]
  | IIws s => match t with
              | XDOM => [TIws s]
              | STREE => match m, top with MDoc, true => [] | _, _ => [TIws s] end
              end
  | IEntRef n => match t with XDOM => [TEntRef n] | STREE => [] end
  end.

Definition den_t (t : target) (m : mode) (res : resolver) (l : list item) : list tnode :=
  merge_text (flat_map (img t m res true) l).

(* the tree the sequence denotes in the XPath data model (what parsing the serialized result gives): every kind of
   character data is text, white space outside the document element is no node *)
Definition i_tag (res : resolver) (p : str * str) : tattr := (fst p, x_attr_ns res (fst p), snd p).

Fixpoint ideal (m : mode) (res : resolver) (top : bool) (i : item) : list tnode :=
  match i with
  | IElem n a body => [TElem n (elem_ns res n) (map (i_tag res) a) (merge_text (flat_map (ideal m res false) body))]
  | IChars s | IRaw s | ICdata s | IIws s => top_chars m top s
  | IComment s => [TComment s]
  | IPI a b => [TPI a b]
  | IEntRef n => [TEntRef n]
  end.

Definition den (m : mode) (res : resolver) (l : list item) : list tnode :=
  merge_text (flat_map (ideal m res true) l).

(* ---- guards ---- *)
(* document mode: what may stand outside the document element *)
Fixpoint top_ok_go (t : target) (seen : bool) (l : list item) : bool :=
  match l with
  | [] => true
  | IElem _ _ _ :: r => negb seen && top_ok_go t true r
  | IChars s :: r => all_ws s && top_ok_go t seen r
  | IRaw s :: r => match t with XDOM => false | STREE => all_ws s && top_ok_go t seen r end
  | ICdata s :: r => match t with
                     | XDOM => false
                     | STREE => (if s_cdata_is_characters then all_ws s else true) && top_ok_go t seen r
                     end
  | IIws s :: r => match t with XDOM => negb (is_empty s) && all_ws s | STREE => true end && top_ok_go t seen r
  | IEntRef _ :: r => match t with XDOM => false | STREE => top_ok_go t seen r end
  | (IComment _ | IPI _ _) :: r => top_ok_go t seen r
  end.

Definition top_ok (t : target) (m : mode) (l : list item) : bool :=
  match m with MFrag => true | MDoc => top_ok_go t false l end.

(* scripts made of elements, characters, comments and processing instructions only *)
Fixpoint plain (i : item) : bool :=
  match i with
  | IElem _ _ body => forallb plain body
  | IChars _ | IComment _ | IPI _ _ => true
  | _ => false
  end.

Fixpoint no_dup (l : list str) : bool :=
  match l with
  | [] => true
  | x :: r => negb (existsb (str_eqb x) r) && no_dup r
  end.

Fixpoint attrs_distinct (i : item) : bool :=
  match i with
  | IElem _ a body => no_dup (map fst a) && forallb attrs_distinct body
  | _ => true
  end.

Fixpoint no_top_chars (l : list item) : bool :=
  match l with
  | [] => true
  | IChars _ :: _ => false
  | _ :: r => no_top_chars r
  end.

(* attributes in the source tree's order: namespace declarations first *)
Definition ns_first (a : list tattr) : list tattr :=
  filter (fun e => is_nsdecl (fst (fst e))) a ++ filter (fun e => negb (is_nsdecl (fst (fst e)))) a.

Fixpoint norm_attrs (n : tnode) : tnode :=
  match n with
  | TElem q ns a ch => TElem q ns (ns_first a) (map norm_attrs ch)
  | x => x
  end.

(* re-chunking of the characters events *)
Inductive chunk_eq : list ev -> list ev -> Prop :=
| ce_refl : forall l, chunk_eq l l
| ce_split : forall a b r, chunk_eq (EvChars (a ++ b) :: r) (EvChars a :: EvChars b :: r)
| ce_empty : forall r, chunk_eq (EvChars [] :: r) r
| ce_cons : forall e l1 l2, chunk_eq l1 l2 -> chunk_eq (e :: l1) (e :: l2)
| ce_sym : forall l1 l2, chunk_eq l1 l2 -> chunk_eq l2 l1
| ce_trans : forall l1 l2 l3, chunk_eq l1 l2 -> chunk_eq l2 l3 -> chunk_eq l1 l3.

(* event kinds and the flush table the model uses, for the tie theorem *)
Inductive evkind := KStartDoc | KEndDoc | KStart | KEnd | KChars | KRaw | KCdata | KComment | KPI | KIws | KEntRef.

Definition kind_of (e : ev) : evkind :=
  match e with
  | EvStartDoc => KStartDoc | EvEndDoc => KEndDoc | EvStart _ _ => KStart | EvEnd _ => KEnd | EvChars _ => KChars
  | EvRaw _ => KRaw | EvCdata _ => KCdata | EvComment _ => KComment | EvPI _ _ => KPI | EvIws _ => KIws
  | EvEntRef _ => KEntRef
  end.

(* does the event method attach a node or move the current-parent pointer (as coded); [top]: no element is open *)
Definition structural (t : target) (m : mode) (top : bool) (k : evkind) : bool :=
  match k with
  | KStart | KEnd | KComment | KPI | KRaw => true
  | KIws => match t, m, top with STREE, MDoc, true => false | _, _, _ => true end
  | KCdata | KEntRef => match t with XDOM => true | STREE => false end
  | KEndDoc => match t, m with XDOM, _ => true | STREE, MFrag => true | STREE, MDoc => false end
  | KStartDoc | KChars => false
  end.

(* the flush table as the hand-written model expects it (tie: equal to the regenerated one) *)
Definition flush_tbl (t : target) (m : mode) (k : evkind) : bool :=
  match t, k with
  | _, (KStartDoc | KChars) => false
  | XDOM, _ => true
  | STREE, (KCdata | KEntRef) => false
  | STREE, KEndDoc => match m with MFrag => true | MDoc => false end
  | STREE, _ => true
  end.

Definition gen_flush_tbl (t : target) (m : mode) (k : evkind) : bool :=
  match t, k with
  | XDOM, KStartDoc => x_flush_startDocument | XDOM, KEndDoc => x_flush_endDocument
  | XDOM, KStart => x_flush_startElement | XDOM, KEnd => x_flush_endElement
  | XDOM, KChars => x_flush_characters | XDOM, KRaw => x_flush_charactersRaw
  | XDOM, KCdata => x_flush_cdata | XDOM, KComment => x_flush_comment
  | XDOM, KPI => x_flush_processingInstruction | XDOM, KIws => x_flush_ignorableWhitespace
  | XDOM, KEntRef => x_flush_entityReference
  | STREE, KStartDoc => s_flush_startDocument
  | STREE, KEndDoc => match m with MFrag => s_flush_endDocument_frag | MDoc => s_flush_endDocument_doc end
  | STREE, KStart => s_flush_startElement | STREE, KEnd => s_flush_endElement
  | STREE, KChars => s_flush_characters | STREE, KRaw => s_flush_charactersRaw
  | STREE, KCdata => s_flush_cdata | STREE, KComment => s_flush_comment
  | STREE, KPI => s_flush_processingInstruction | STREE, KIws => s_flush_ignorableWhitespace
  | STREE, KEntRef => s_flush_entityReference
  end.

(* ---- document-order indexes of the source-tree target ----
   XalanSourceTreeDocument hands out m_nextIndexValue++ to every node it creates (createElementNode: the element, then
   its attribute nodes in vector order; createTextNode / createTextIWSNode / createCommentNode /
   createProcessingInstructionNode: one each); DOMServices::isNodeAfter and the node-list sorting compare these
   indexes.  The index layer runs beside the builder state: the same zipper with (index, number of attribute nodes)
   in place of the node data.  A node takes its index when it is CREATED; everywhere but in startElement() creation and
   linking are adjacent; for startElement() the order of "create the element" and "flush the text" is read from the
   source (s_element_created_after_flush).  FormatterToXercesDOM stores no index: order in a Xerces DOM is structural. *)
Inductive ixn := IxN (i : N) (na : nat) (ch : list ixn).
Definition ixframe := (N * nat * list ixn)%type.
Record ixst := mkIx { icur : list ixn; ictx : list ixframe; nxt : N }.
(* [a]: the document's index counter when the builder starts (st_first_index on a fresh document; a document fragment
   takes one index itself when it is constructed; a document that already holds result tree fragments is further on) *)
Definition ix0 (a : N) : ixst := mkIx [] [] a.

Definition ix_leaf (x : ixst) : ixst := mkIx (IxN (nxt x) 0 [] :: icur x) (ictx x) (nxt x + 1).
Definition ix_close (c : list ixn) (f : ixframe) : list ixn := match f with (i, na, pc) => IxN i na (rev c) :: pc end.
Definition ix_pop (x : ixst) : ixst :=
  match ictx x with f :: r => mkIx (ix_close (icur x) f) r (nxt x) | [] => x end.
(* processAccumulatedText creates a text node iff the buffer is not empty ([b]: the builder state before the event) *)
Definition ix_flush (b : st) (x : ixst) : ixst := if is_empty (buf b) then x else ix_leaf x.
Definition ix_flush_if (f : bool) (b : st) (x : ixst) : ixst := if f then ix_flush b x else x.

Definition ix_start (na : nat) (b : st) (x : ixst) : ixst :=
  if s_element_created_after_flush then
    let x1 := ix_flush_if s_flush_startElement b x in
    mkIx [] ((nxt x1, na, icur x1) :: ictx x1) (nxt x1 + 1 + N.of_nat na)
  else
    let x0 := mkIx (icur x) (ictx x) (nxt x + 1 + N.of_nat na) in
    let x1 := ix_flush_if s_flush_startElement b x0 in
    mkIx [] ((nxt x, na, icur x1) :: ictx x1) (nxt x1).

Definition ix_step (m : mode) (e : ev) (b : st) (x : ixst) : ixst :=
  match e with
  | EvStartDoc => let x1 := ix_flush_if s_flush_startDocument b x in
                  mkIx (fold_left ix_close (ictx x1) (icur x1)) [] (nxt x1)
  | EvEndDoc => ix_flush_if (match m with MFrag => s_flush_endDocument_frag | MDoc => s_flush_endDocument_doc end) b x
  | EvStart _ a => ix_start (length a) b x
  | EvEnd _ => ix_pop (ix_flush_if s_flush_endElement b x)
  | EvChars _ => ix_flush_if s_flush_characters b x
  | EvRaw _ => ix_leaf (ix_flush_if s_flush_charactersRaw b x)
  | EvCdata _ => ix_flush_if s_flush_cdata b x
  | EvComment _ => ix_leaf (ix_flush_if s_flush_comment b x)
  | EvPI _ _ => ix_leaf (ix_flush_if s_flush_processingInstruction b x)
  | EvIws _ => match m, ctx b with
               | MDoc, [] => x
               | _, _ => ix_leaf (ix_flush_if s_flush_ignorableWhitespace b x)
               end
  | EvEntRef _ => ix_flush_if s_flush_entityReference b x
  end.

Fixpoint ix_run (m : mode) (res : resolver) (evs : list ev) (b : st) (x : ixst) : option (st * ixst) :=
  match evs with
  | [] => Some (b, x)
  | e :: r => match s_step m res e b with
              | Some b' => ix_run m res r b' (ix_step m e b x)
              | None => None
              end
  end.

Definition ix_result (x : ixst) : list ixn := rev (fold_left ix_close (ictx x) (icur x)).

Fixpoint nseq (a : N) (n : nat) : list N := match n with O => [] | S k => a :: nseq (a + 1) k end.

(* document order: the element, its attribute nodes, its children *)
Fixpoint ix_pre (n : ixn) : list N :=
  match n with IxN i na ch => i :: nseq (i + 1) na ++ flat_map ix_pre ch end.

(* independent reading: pre-order numbering of a finished tree *)
Fixpoint number (a : N) (n : tnode) : ixn * N :=
  match n with
  | TElem _ _ at_ ch =>
      let r := (fix go (l : list tnode) (k : N) : list ixn * N :=
                  match l with
                  | [] => ([], k)
                  | y :: r => let (y', k1) := number k y in let (r', k2) := go r k1 in (y' :: r', k2)
                  end) ch (a + 1 + N.of_nat (length at_))%N in
      (IxN a (length at_) (fst r), snd r)
  | _ => (IxN a 0 [], (a + 1)%N)
  end.

Fixpoint number_list (a : N) (l : list tnode) : list ixn * N :=
  match l with
  | [] => ([], a)
  | y :: r => let (y', k1) := number a y in let (r', k2) := number_list k1 r in (y' :: r', k2)
  end.

Definition fresh_start (m : mode) : N := match m with MDoc => st_first_index | MFrag => (st_first_index + 1)%N end.

Definition run_indexes (m : mode) (res : resolver) (a : N) (evs : list ev) : option (list tnode * list ixn) :=
  match ix_run m res evs st0 (ix0 a) with
  | Some (b, x) => Some (result b, ix_result x)
  | None => None
  end.
