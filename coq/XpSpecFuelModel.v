(* XpSpecFuelModel.v — the fuel of the step recursion is sufficient: with more fuel than steps,
   [steps_from] never reports out-of-fuel unless the evaluator of predicate expressions does. *)
From Coq Require Import List Arith Lia.
Require Import XV.XpAst XV.DomDefs XV.NumDefs XV.XpDefs.
Import ListNotations.

Section Fuel.
  Variable ev : ctx -> expr -> res value.
  Hypothesis Hev : forall cc pe, ev cc pe <> Err EFuel.

  Lemma pred_filter_fuel c l pe : forall rest i e, pred_filter ev c l pe rest i = Err e -> e <> EFuel.
  Proof.
    induction rest as [|n rest IH]; intros i e H; cbn [pred_filter] in H; [discriminate|].
    destruct (ev (with_node c n l) pe) as [v|e0] eqn:E; cbn [bind] in H.
    - destruct (pred_filter ev c l pe rest (S i)) as [r|e1] eqn:E1; cbn [bind] in H; [discriminate|].
      inversion H; subst. eapply IH; exact E1.
    - inversion H; subst. intros ->. exact (Hev _ _ E).
  Qed.

  Lemma apply_pred_fuel c l p e : apply_pred ev c l p = Err e -> e <> EFuel.
  Proof.
    unfold apply_pred. destruct l as [|a l0]; [discriminate|].
    destruct (snd p); try apply pred_filter_fuel.
    destruct (d_index _ _); discriminate.
  Qed.

  Lemma apply_preds_fuel c : forall ps l e, apply_preds ev c l ps = Err e -> e <> EFuel.
  Proof.
    unfold apply_preds. induction ps as [|p ps IH]; intros l e H; cbn [fold_left] in H; [discriminate|].
    cbn [bind] in H. destruct (apply_pred ev c l p) as [l1|e1] eqn:E.
    - eapply IH; exact H.
    - assert (Hf : forall q, fold_left (fun acc p0 => do l' <- acc; apply_pred ev c l' p0) q (Err e1) = Err e1)
        by (induction q; simpl; auto).
      rewrite Hf in H. inversion H; subst. eapply apply_pred_fuel; exact E.
  Qed.

  Lemma axis_nodes_total c ax t n : exists r, axis_nodes c ax t n = Ok r.
  Proof. unfold axis_nodes. destruct ax; eexists; reflexivity. Qed.

  Theorem steps_from_fuel c : forall steps sfuel sub rv e, length steps < sfuel ->
    steps_from ev c sfuel sub rv steps = Err e -> e <> EFuel.
  Proof.
    induction steps as [|[[ax t] ps] rest IH]; intros sfuel sub rv e Hf H;
      (destruct sfuel as [|sf]; [lia|]); cbn [steps_from] in H; [discriminate|].
    simpl in Hf.
    set (F := fun (acc : res (list nat)) (n : nat) =>
                do q <- acc; do an <- axis_nodes c ax t n; let (l0, rv0) := an in
                do l1 <- apply_preds ev c l0 ps; do r0 <- steps_from ev c sf l1 rv0 rest; Ok (merge_doc_order q r0)) in *.
    assert (Hf0 : forall l e1, fold_left F l (Err e1) = Err e1) by (induction l; simpl; auto).
    assert (G : forall l q, fold_left F l (Ok q) = Err e -> e <> EFuel).
    { induction l as [|n l IHl]; intros q Hq; cbn [fold_left] in Hq; [discriminate|].
      destruct (F (Ok q) n) as [q'|e1] eqn:EF; [eapply IHl; exact Hq|].
      rewrite Hf0 in Hq. inversion Hq; subst e1. clear Hq.
      unfold F in EF. cbn [bind] in EF.
      destruct (axis_nodes_total c ax t n) as [[l0 rv0] Ea]. rewrite Ea in EF. cbn [bind] in EF.
      destruct (apply_preds ev c l0 ps) as [l1|e1] eqn:Ep; cbn [bind] in EF.
      - destruct (steps_from ev c sf l1 rv0 rest) as [r0|e1] eqn:Es; cbn [bind] in EF; [discriminate|].
        inversion EF; subst e1. eapply (IH sf l1 rv0); [lia | exact Es].
      - inversion EF; subst e1. eapply apply_preds_fuel; exact Ep. }
    exact (G sub [] H).
  Qed.
End Fuel.
