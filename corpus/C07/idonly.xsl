<?xml version="1.0"?>
<xsl:stylesheet version="1.0" xmlns:xsl="http://www.w3.org/1999/XSL/Transform">
  <xsl:param name="tid"/>
  <xsl:template match="/"><out tid="{$tid}" n="{count(id('i1 i2'))}"><xsl:for-each select="//ref"><r><xsl:value-of select="count(id(@to))"/></r></xsl:for-each></out></xsl:template>
</xsl:stylesheet>
