"""Run whole transformations through the rebuilt library (harness/xslt.cpp).
   case = {"id": str, "sheet": str|bytes, "source": str|bytes, "params": {name: xpath-expr},
           "files": {name: str|bytes}, "opts": "xercesdom,reuse"}
   run(cases) -> {id: ("ok", output_bytes) | ("err", status:int, message:str) | ("crash",)}"""
from vlib import core


def _b(x):
    return x if isinstance(x, bytes) else x.encode("utf-8")


def line_of(c):
    s = "%s|S:%s|D:%s" % (c["id"], _b(c["sheet"]).hex(), _b(c["source"]).hex())
    if c.get("params"):
        s += "|P:" + ";".join("%s=%s" % (k, _b(v).hex()) for k, v in c["params"].items())
    if c.get("files"):
        s += "|F:" + ";".join("%s=%s" % (k, _b(v).hex()) for k, v in c["files"].items())
    if c.get("opts"):
        s += "|O:" + c["opts"]
    return s


def build(variant="plain"):
    return core.build_harness("xslt", variant)


def run(cases, exe=None, jobs=None, timeout=1200):
    if exe is None:
        exe, ok, log = build()
        if not ok:
            raise RuntimeError("xslt driver does not compile: " + log[-800:])
    lines = [line_of(c) for c in cases]
    rc, res, raw = core.run_lines_parallel(exe, lines, jobs=jobs, timeout=timeout, sep="|")
    out = {}
    for c in cases:
        r = res.get(c["id"])
        if r is None:
            out[c["id"]] = ("crash",)
            continue
        f = r.split("|")
        if f[0] == "ok":
            out[c["id"]] = ("ok", bytes.fromhex(f[1]) if len(f) > 1 else b"")
        else:
            out[c["id"]] = ("err", int(f[1]), bytes.fromhex(f[2]).decode("utf-8", "replace") if len(f) > 2 else "")
    return out
