"""C06 — a reused transformer behaves like a fresh one: no state leaks between calls."""
import os, re
from concurrent.futures import ThreadPoolExecutor
from vlib import core
from vlib import api_pool as P

LEVEL = "proof"
FAMILY = "api"
NAMES = ["p", "q", "n", "r"]            # parameter names <-> indices of the model
CALLS = "cpqtTuvde"                      # ops that return a status (and set / keep the error message)
MSG_CALLS = "cpqtTuv"                    # ops that empty the error message when they start
OBJSTACK = {"StylesheetExecutionContextDefault::m_mutableNodeRefListStack", "StylesheetExecutionContextDefault::m_stringStack",
            "StylesheetExecutionContextDefault::m_formatterToTextStack", "StylesheetExecutionContextDefault::m_formatterToSourceTreeStack"}
SUBOBJ = {"VariablesStack": "StylesheetExecutionContextDefault::m_variablesStack",
          "CountersTable": "StylesheetExecutionContextDefault::m_countersTable"}
STATUS_OUTCOME = {0: "k", -1: "fx", -2: "fp", -3: "fm", -4: "fd"}

OK_SHEETS = [i for i, s in enumerate(P.SHEETS) if s[0] == "ok"]
COMPILE_FAIL = [i for i, s in enumerate(P.SHEETS) if s[0] == "compile"]
RUN_FAIL = [i for i, s in enumerate(P.SHEETS) if s[0] == "run"]
OK_SOURCES = [i for i, s in enumerate(P.SOURCES) if s[0] == "ok"]
BAD_SOURCES = [i for i, s in enumerate(P.SOURCES) if s[0] == "bad"]


def hook_present():
    try:
        a = open(os.path.join(core.REPO, "src/xalanc/XSLT/StylesheetExecutionContextDefault.hpp"), errors="replace").read()
        b = open(os.path.join(core.REPO, "src/xalanc/XalanTransformer/XalanTransformer.hpp"), errors="replace").read()
    except OSError:
        return False
    return "verifReportSizes" in a and "verifGetExecutionContext" in b and "verifReportSizes" in b


# ---------------------------------------------------------------------------------------------
# running the harness (pool lines are repeated in front of every chunk)

def run_harness(exe, hlines, jobs=None):
    jobs = jobs or core.NPROC
    pool = P.pool_lines()
    if not hlines:
        return {}, ""
    per = max(1, (len(hlines) + jobs - 1) // jobs)
    chunks = [hlines[i:i + per] for i in range(0, len(hlines), per)]

    def one(ch):
        """a crash loses the rest of the process: the history that killed it is recorded and the
        remaining ones are run in a new process"""
        got, crashes, todo = {}, [], list(ch)
        while todo:
            rc, out = core.sh([exe], input="\n".join(pool + todo) + "\n", timeout=900)
            for line in out.split("\n"):
                if line.startswith("H "):
                    f = line.split(" ", 2)
                    try:
                        got[f[1]] = [parse_res(x) for x in (f[2].split(";") if len(f) > 2 and f[2] else [])]
                    except (ValueError, IndexError):
                        pass
            missing = [l for l in todo if l.split(" ", 2)[1] not in got]
            if rc == 0 or not missing:
                break
            crashes.append((rc, missing[0]))
            todo = missing[1:]
        return got, crashes
    with ThreadPoolExecutor(jobs) as ex:
        rs = list(ex.map(one, chunks))
    res, err = {}, ""
    for got, crashes in rs:
        res.update(got)
        for rc, line in crashes:
            err += "the driver process died (exit status %d) while running this history on the library:\n%s\n" % (
                rc, re.sub(r"^H \S+ ", "H reused ", line))
    return res, err


def parse_res(x):
    f = x.split(":", 4)
    return {"status": None if f[0] == "." else int(f[0]), "hash": f[1], "len": int(f[2]), "msg": f[3],
            "residue": f[4] if len(f) > 4 else "?"}


def canon_member(name):
    if name in CLASSES:
        return name
    cls = name.split("::")[0]
    return SUBOBJ.get(cls, name)


CLASSES = {}     # member -> audited category, from the extracted model (filled in run)
UNKNOWN_MEMBERS = set()


def residue_set(r):
    """per-transformation members that differ from a new transformer (sticky / constant / scratch
    members are allowed to differ; a member the audit does not know is remembered)"""
    if r in ("-", "?"):
        return set()
    out = set()
    for x in r.split(","):
        m = canon_member(x.split("=")[0])
        c = CLASSES.get(m)
        if c is None:
            UNKNOWN_MEMBERS.add(m)
            out.add(m)
        elif c == "per-transformation":
            out.add(m)
    return out


# ---------------------------------------------------------------------------------------------
# histories: generation and the oracle's own bookkeeping (no Coq model involved)

class Track:
    """What the documentation says is current: params (last set since last clear), installed
    functions, indent, live handles."""
    def __init__(self):
        self.params, self.funcs, self.indent, self.cs, self.ps = {}, set(), None, [], []

    def setup_ops(self):
        ops = ["i%d" % k for k in sorted(self.funcs)]
        for n in sorted(self.params):
            form, v = self.params[n]
            ops.append("%s%s=%d" % ("s" if form == "e" else "n", n, v))
        if self.indent is not None:
            ops.append("o%d" % self.indent)
        return ops


def fresh_for(track, op):
    """History that performs the same transformation / compile / parse on a NEW transformer that
    was only given the current settings. Returns None when the op makes no library call."""
    c, a = op[0], op[1:]
    pre = track.setup_ops()
    if c in "cpq":
        return pre + [op]
    x, y = (a.split(",") + [""])[:2]
    if c == "T":
        return pre + [op]
    if c == "t":
        i, j = int(x), int(y)
        if i >= len(track.cs) or j >= len(track.ps) or track.cs[i] is None or track.ps[j] is None:
            return None
        d, xer = track.ps[j]
        return pre + ["c%d" % track.cs[i], "%s%d" % ("q" if xer else "p", d), "t0,0"]
    if c == "u":
        i = int(x)
        if i >= len(track.cs) or track.cs[i] is None:
            return None
        return pre + ["c%d" % track.cs[i], "u0,%s" % y]
    if c == "v":
        j = int(y)
        if j >= len(track.ps) or track.ps[j] is None:
            return None
        d, xer = track.ps[j]
        return pre + ["%s%d" % ("q" if xer else "p", d), "v%s,0" % x]
    return None


def apply_track(track, op, status):
    c, a = op[0], op[1:]
    if c == "c":
        track.cs.append(int(a) if status == 0 else None)
    elif c in "pq":
        track.ps.append((int(a), c == "q") if status == 0 else None)
    elif c in "sn":
        n, v = a.split("=")
        track.params[n] = ("e" if c == "s" else "v", int(v))
    elif c == "x":
        track.params.clear()
    elif c == "i":
        track.funcs.add(int(a))
    elif c == "r":
        track.funcs.discard(int(a))
    elif c == "d":
        if int(a) < len(track.cs) and status == 0:
            track.cs[int(a)] = None
    elif c == "e":
        if int(a) < len(track.ps) and status == 0:
            track.ps[int(a)] = None
    elif c == "o":
        track.indent = int(a)


FAILING = []     # sheets that really abort on a new transformer (measured at the start of run)
QUIET = []       # sheets that never abort


def probe_sheets(impl):
    """Which pool sheets abort on a new transformer (some planned abort kinds only warn in this library)."""
    lines = ["H s%d %s" % (i, ";".join("T%d,%d" % (i, d) for d in OK_SOURCES)) for i in range(len(P.SHEETS))]
    res, err = run_harness(impl, lines, jobs=4)
    FAILING[:] = [i for i in range(len(P.SHEETS)) if any(x["status"] != 0 for x in res.get("s%d" % i, []))]
    QUIET[:] = [i for i in range(len(P.SHEETS)) if i not in FAILING]
    return err


def gen_history(ctx, maxlen, allow_form_switch):
    r = ctx.rng
    ops = []
    ncs = nps = 0
    exprs = {}       # names currently set in expression form (for the K3 guard)
    last_failed = False

    def sheet(prefer_ok=False):
        x = r.random()
        if prefer_ok:
            return r.choice(OK_SHEETS)
        if x < 0.63 and FAILING:
            return r.choice(FAILING)
        return r.choice(QUIET)

    def source(sh=None):
        if sh is not None and "error-in-" in P.SHEETS[sh][1] and r.random() < 0.75:
            return r.choice(P.FAIL_SOURCES)      # the node that makes the facility fail mid-use comes last
        return r.choice(BAD_SOURCES) if r.random() < 0.07 else r.choice(OK_SOURCES)

    def follower(sh):
        """after an abort inside a facility with internal caches, a sheet that uses the same facility
        (same data-type, fewer or equal keys / nodes included), on a source without the failing node"""
        fac = P.facility_of(P.SHEETS[sh][1])
        if fac is None or r.random() < 0.25:
            return r.choice(OK_SHEETS), source()
        tag = r.choice(P.FACILITY[fac])
        idx = [i for i, t in enumerate(P.SHEETS) if t[1] == tag][0]
        return idx, r.choice([d for d in OK_SOURCES if d not in P.FAIL_SOURCES])
    for _ in range(r.randrange(0, 4)):
        if r.random() < 0.5:
            ops.append("c%d" % sheet()); ncs += 1
        else:
            ops.append("%s%d" % (r.choice("pq"), source())); nps += 1
    n = r.randrange(4, maxlen + 1)
    quiet_src = [d for d in OK_SOURCES if d not in P.FAIL_SOURCES]
    while len(ops) < n:
        x = r.random()
        if last_failed is False and r.random() < 0.10:
            # the SAME compiled stylesheet object fails inside lazily evaluated / stack-disciplined machinery
            # (global variable or param, nested call-template params, apply-imports, attribute sets, key build,
            # sort key, number count) and is used again afterwards
            sh = r.choice(P.LAZY_SHEETS)
            ops.append("c%d" % sh); i = ncs; ncs += 1
            ops.append("%s%d" % (r.choice("ppq"), r.choice(P.FAIL_SOURCES))); jf = nps; nps += 1
            ops.append("%s%d" % (r.choice("ppq"), r.choice(quiet_src))); jk = nps; nps += 1
            for _ in range(r.choice([1, 1, 2])):
                ops.append(r.choice(["t%d,%d" % (i, jf), "t%d,%d" % (i, jf), "u%d,%d" % (i, r.choice(P.FAIL_SOURCES))]))
                if r.random() < 0.3:
                    ops.append(r.choice(["x", "i1", "o2", "sq=2", "T%d,%d" % (r.choice(OK_SHEETS), r.choice(quiet_src))]))
                ops.append(r.choice(["t%d,%d" % (i, jk), "t%d,%d" % (i, jk), "u%d,%d" % (i, r.choice(quiet_src))]))
            continue
        if last_failed is False and r.random() < 0.05:
            # the collator cache of the transformer's collation functor: same lang, case-order given, then not given
            # (or the other one), on keys that differ only in case
            names = {t[1]: i for i, t in enumerate(P.SHEETS)}
            seq = r.choice([["sort-lang-upper", "sort-lang-plain"], ["sort-lang-lower", "sort-lang-plain"],
                            ["sort-lang-upper", "sort-lang-lower", "sort-lang-plain"], ["sort-lang-plain", "sort-lang-upper", "sort-lang-plain"]])
            d = r.choice([6, 7])
            for nm in seq:
                ops.append("T%d,%d" % (names[nm], d))
            continue
        if last_failed is False and r.random() < 0.05:
            # the DecimalFormat cache of the transformer's format-number functor: declarations that differ in one symbol only
            for sh in r.sample(P.DF_SHEETS, r.choice([2, 3, 3, 4])):
                ops.append("T%d,%d" % (sh, r.choice(quiet_src)))
            continue
        if x < 0.58 or last_failed is not False:
            if last_failed is not False and r.random() < 0.8:
                # a failure is directly followed by successes that could observe a leak
                s, d = follower(last_failed)
                ops.append("T%d,%d" % (s, d))
                if r.random() < 0.4:
                    s2, d2 = follower(last_failed)
                    ops.append("T%d,%d" % (s2, d2))
                last_failed = False
                continue
            last_failed = False
            form = r.choice("tTTuv") if ncs and nps else "T"
            s = sheet()
            if form == "t":
                ops.append("t%d,%d" % (r.randrange(ncs), r.randrange(nps)))
            elif form == "T":
                ops.append("T%d,%d" % (s, source(s)))
            elif form == "u":
                ops.append("u%d,%d" % (r.randrange(ncs), source()))
            else:
                ops.append("v%d,%d" % (s, r.randrange(nps)))
            if s in FAILING and form in "Tv" and r.random() < 0.8:
                last_failed = s
        elif x < 0.70:
            name = r.choice(NAMES)
            if r.random() < 0.7:
                e = r.randrange(len(P.EXPRS))
                if e in P.BAD_EXPRS and r.random() < 0.7:
                    e = 0
                ops.append("s%s=%d" % (name, e)); exprs[name] = True
            elif allow_form_switch or name not in exprs:
                ops.append("n%s=%d" % (name, r.randrange(0, 50)))
        elif x < 0.74:
            ops.append("x"); exprs.clear()
        elif x < 0.80:
            ops.append("%s%d" % (r.choice("iir"), r.randrange(1, 3)))
        elif x < 0.86:
            if r.random() < 0.5:
                ops.append("c%d" % sheet()); ncs += 1
            else:
                ops.append("%s%d" % (r.choice("pq"), source())); nps += 1
        elif x < 0.92:
            if ncs and r.random() < 0.5:
                ops.append("d%d" % r.randrange(ncs))
            elif nps:
                ops.append("e%d" % r.randrange(nps))
        elif x < 0.95:
            ops.append("o%d" % r.choice([0, 1, 2, 4]))
        else:
            ops.append("c%d" % r.choice(COMPILE_FAIL + RUN_FAIL)); ncs += 1
    return ops


CORPUS = [
    # stale error message after a later success (finding: stale_error_after_success)
    ["c0", "p0", "c16", "t1,0", "t0,0", "c0", "T0,0"],
    # a value-form set after an expression-form set of the same name (finding: param_form_switch)
    ["sp=0", "np=7", "T6,0", "x", "np=7", "T6,0"],
    # aborts that leave object-stack counts behind (finding: objstack_depth_after_abort), followed by users of the same state
    ["T16,0", "T10,0", "T19,1", "T3,0", "T20,0", "T4,1", "T25,0", "T5,0", "T22,0", "T0,1", "T1,1"],
    # params stay until cleared, across failures; functions; handles reused around other operations
    ["c6", "p0", "sp=0", "nq=5", "t0,0", "T16,0", "t0,0", "T12,0", "t0,0", "x", "t0,0", "i1", "c7", "t1,0", "T17,1", "t1,0", "r1", "t1,0", "d0", "t1,0", "e0"],
    ["c11", "q1", "sp=2", "t0,0", "T16,1", "t0,0", "v21,0", "t0,0", "u0,4", "t0,0", "sp=4", "t0,0", "x", "t0,0"],
    ["o2", "T5,0", "T25,0", "T5,0", "o0", "T9,0", "T13,2", "T9,0"],
    # an abort INSIDE a facility with internal caches, then users of the same facility with the same
    # data-type and fewer-or-equal keys / nodes (node sorter: text, number, two keys, lang; counters; key tables; format-number)
    ["T32,6", "T29,0", "T29,8", "T32,8", "T33,6", "T30,0", "T30,8", "T33,8"],
    ["T33,7", "T30,8", "T32,7", "T29,8", "T31,6", "T35,6", "T31,8", "T29,2"],
    ["c32", "c33", "c29", "c30", "p6", "p8", "p0", "t0,0", "t2,1", "t2,2", "t1,0", "t3,1", "t3,2", "q7", "t0,3", "t2,1"],
    ["T34,6", "T34,8", "T4,0", "T34,6", "T30,8", "T29,8"],
    ["T36,6", "T1,0", "T36,8", "T36,7", "T10,0", "T1,8"],
    ["T37,6", "T0,0", "T37,8", "T37,7", "T8,0", "T0,8"],
    ["T38,6", "T39,0", "T38,8", "T39,8", "T38,7", "T39,6"],
    # an abort INSIDE lazily evaluated / stack-disciplined machinery, then the SAME compiled stylesheet again:
    # global variable body / select (nested globals), global param default, call-template params, apply-imports, attribute sets
    ["c40", "c41", "p6", "p8", "t0,0", "t0,1", "t1,0", "t1,1", "u0,7", "u0,0", "u1,7", "u1,2", "t0,1", "t1,1"],
    ["c42", "q7", "q8", "t0,0", "t0,1", "sq=0", "t0,0", "t0,1", "x", "u0,6", "u0,8"],
    ["c43", "c44", "c45", "p7", "p0", "t0,0", "t0,1", "t1,0", "t1,1", "t2,0", "t2,1", "u0,6", "u1,6", "u2,6", "t0,1", "t1,1", "t2,1"],
    ["c37", "c32", "c36", "p6", "p8", "t0,0", "t0,1", "t1,0", "t1,1", "t2,0", "t2,1"],
    # an abort while a POOLED object holds partial content (text written into a result tree fragment at depth
    # 1-3 or a with-param body; attribute / comment / PI bodies; nested XPath string and node-set work), then
    # builders of the same things at the same depth, same and different stylesheets, inline and compiled
    ["T46,6", "T48,0", "T46,8", "T47,8", "T46,7", "T48,2", "T46,0", "T3,0"],
    ["T47,6", "T48,8", "T47,8", "T3,0", "T47,7", "T47,0", "T48,0", "T19,0", "T48,2", "T10,0"],
    ["c46", "c47", "c48", "p6", "p7", "p8", "t0,0", "t2,2", "t0,2", "t1,0", "t2,2", "t1,2", "t0,1", "t2,1", "t1,1", "t1,2", "t0,2"],
    ["T49,6", "T49,8", "T9,0", "T49,7", "T49,0", "T49,2", "T10,0", "T45,8"],
    ["T50,6", "T50,8", "T2,0", "T50,7", "T4,0", "T50,0", "T48,0"],
]


# ---------------------------------------------------------------------------------------------

def evaluate(ctx, histories, impl, model, have_hook, facts, known_cls):
    """Runs the histories, the oracle's fresh re-runs and the model. Returns (violations, corr, known_hits)."""
    hlines = ["H h%d %s" % (k, ";".join(ops)) for k, ops in enumerate(histories)]
    res, err = run_harness(impl, hlines)
    viol, corr, known_hits = [], [], {}
    el = err.strip().split("\n") if err.strip() else []
    for i in range(0, len(el) - 1, 2):
        viol.append({"what": el[i], "replay": el[i + 1]})
    # pass 1: oracle bookkeeping, collect the fresh histories needed
    fresh_needed = {}
    per_hist = []
    for k, ops in enumerate(histories):
        rr = res.get("h%d" % k)
        if rr is None or len(rr) != len(ops):
            if ";".join(ops) not in err:
                viol.append({"what": "no (complete) result for the history (crash?)", "replay": hlines[k]})
            per_hist.append(None)
            continue
        tr = Track()
        items = []
        for op, r in zip(ops, rr):
            fr = None
            if op[0] in MSG_CALLS and r["status"] != -90:
                fr = fresh_for(tr, op)
                if fr is not None:
                    fresh_needed.setdefault(";".join(fr), None)
            sh_idx = None
            if op[0] in "Tv":
                sh_idx = int(op[1:].split(",")[0])
            elif op[0] in "tu":
                i = int(op[1:].split(",")[0])
                sh_idx = tr.cs[i] if i < len(tr.cs) else None
            items.append((op, r, fr, sh_idx))
            apply_track(tr, op, r["status"])
        per_hist.append(items)
    keys = sorted(fresh_needed)
    flines = ["H f%d %s" % (i, k) for i, k in enumerate(keys)]
    fres, ferr = run_harness(impl, flines)
    fl = ferr.strip().split("\n") if ferr.strip() else []
    for i in range(0, len(fl) - 1, 2):
        viol.append({"what": "on a NEW transformer: " + fl[i], "replay": fl[i + 1]})
    for i, k in enumerate(keys):
        rr = fres.get("f%d" % i)
        fresh_needed[k] = rr[-1] if rr and len(rr) == len(k.split(";")) else None

    # pass 2: the oracle
    seen = set()
    for k, items in enumerate(per_hist):
        if items is None:
            continue
        ops = histories[k]
        for pos, (op, r, fr, sh_idx) in enumerate(items):
            ctx.cov["evaluations"] += 1
            ctx.count("op:" + op[0])
            if have_hook and residue_set(r["residue"]):
                rs = residue_set(r["residue"])
                prevtxt = items[pos - 1][1]["residue"] if pos else "-"
                if r["residue"] != prevtxt:
                    if rs <= OBJSTACK and "objstack_depth_after_abort" in known_cls:
                        known_hits["objstack_depth_after_abort"] = known_hits.get("objstack_depth_after_abort", 0) + 1
                    else:
                        shown = ",".join(x for x in r["residue"].split(",") if canon_member(x.split("=")[0]) in rs)
                        viol.append({"what": "after op %d (%s) per-transformation state of the execution context differs from a new transformer's: %s" % (pos, op, shown),
                                     "replay": "H reused %s" % ";".join(ops[:pos + 1])})
            if op[0] in "de" and r["status"] not in (0, -90):
                viol.append({"what": "op %d (%s): destroying a live object returned %s" % (pos, op, r["status"]),
                             "replay": "H reused %s" % ";".join(ops[:pos + 1])})
            if fr is None:
                continue
            f = fresh_needed.get(";".join(fr))
            if f is None:
                viol.append({"what": "the fresh re-run of op %d (%s) gave no result" % (pos, op), "replay": "H fresh %s" % ";".join(fr)})
                continue
            if op[0] in "tTuv":
                ctx.count("transform:" + ("ok" if r["status"] == 0 else "fail%d" % r["status"]))
                if r["status"] != 0:
                    d = int(op[1:].split(",")[1]) if op[0] in "Tu" else None
                    ctx.count("abort:" + ("source-parse-error" if d is not None and P.SOURCES[d][0] == "bad"
                                          else (P.SHEETS[sh_idx][1] if sh_idx is not None and sh_idx in FAILING else "bad-param-or-other")))
            seen.add((";".join(fr), r["status"], r["hash"]))
            diffs = []
            if r["status"] != f["status"]:
                diffs.append("status %s, a new transformer returns %s" % (r["status"], f["status"]))
            if (r["hash"], r["len"]) != (f["hash"], f["len"]):
                diffs.append("output (%d bytes, fnv %s) differs from a new transformer's (%d bytes, fnv %s)" % (r["len"], r["hash"], f["len"], f["hash"]))
            msgdiff = r["msg"] != f["msg"]
            if diffs or msgdiff:
                stale_only = (not diffs) and r["status"] == 0 and f["msg"] == "0" and r["msg"] != "0"
                formswitch = form_switch_before(ops[:pos])
                if stale_only and op[0] in "ctv" and "stale_error_after_success" in known_cls:   # entry points that do not start with parseSource
                    known_hits["stale_error_after_success"] = known_hits.get("stale_error_after_success", 0) + 1
                    continue
                if formswitch and "param_form_switch" in known_cls:
                    known_hits["param_form_switch"] = known_hits.get("param_form_switch", 0) + 1
                    continue
                if msgdiff:
                    diffs.append("getLastError() %s, on a new transformer %s" % (
                        "is empty" if r["msg"] == "0" else "is non-empty (fnv %s)" % r["msg"],
                        "it is empty" if f["msg"] == "0" else "it has fnv %s" % f["msg"]))
                viol.append({"what": "op %d (%s): %s" % (pos, op, "; ".join(diffs)),
                             "replay": "H reused %s\nH fresh %s" % (";".join(ops[:pos + 1]), ";".join(fr))})
    ctx.cov["distinct_nontrivial"] += len(seen)

    # pass 3: correspondence with the extracted model
    if model:
        nst = facts.get("stmts", 1)
        mlines = []
        for k, items in enumerate(per_hist):
            if items is None:
                continue
            mops = []
            for op, r, fr, _ in items:
                mops.append(model_op(op, r, nst))
            mlines.append("H h%d %s" % (k, ";".join(mops)))
        mh = {}
        rcm, outm = core.sh([model], input="\n".join(mlines) + "\n", timeout=900)
        for line in outm.split("\n"):
            if line.startswith("H "):
                f = line.split(" ", 2)
                mh[f[1]] = f[2].split(";") if len(f) > 2 and f[2] else []
        if rcm != 0:
            corr.append({"what": "model driver exited with %d: %s" % (rcm, outm[-300:])})
        key_needed = {}
        cmp_items = []
        for k, items in enumerate(per_hist):
            if items is None:
                continue
            mo = mh.get("h%d" % k)
            if mo is None or len(mo) != len(items):
                corr.append({"what": "model gave no result for history %s" % ";".join(histories[k])})
                continue
            for pos, ((op, r, fr, _), m) in enumerate(zip(items, mo)):
                ctx.cov["traces_validated_against_impl"] += 1
                out, _, mres_ = m.partition("|")
                where = "history %s op %d (%s)" % (";".join(histories[k][:pos + 1]), pos, op)
                mset = set() if mres_ == "-" else set(mres_.split(","))
                if have_hook:
                    hs = residue_set(r["residue"])
                    if not hs <= mset:
                        corr.append({"what": "%s: library residue %s not within the model's %s" % (where, sorted(hs), sorted(mset))})
                if out == ".":
                    if r["status"] is not None:
                        corr.append({"what": "%s: model says void call, library returned %s" % (where, r["status"])})
                    continue
                if out == "N":
                    if r["status"] != -90:
                        corr.append({"what": "%s: model says dead handle, library call returned %s" % (where, r["status"])})
                    continue
                f = out[1:].split(":", 2)
                if r["status"] == -90:
                    corr.append({"what": "%s: model makes the call, the driver saw a dead handle" % where})
                    continue
                if f[0] != str(r["status"]):
                    corr.append({"what": "%s: model status %s, library %s" % (where, f[0], r["status"])})
                if op[0] in MSG_CALLS and (f[1] == "1") != (r["msg"] != "0"):
                    corr.append({"what": "%s: model says getLastError() %s, library %s" % (where, "non-empty" if f[1] == "1" else "empty", "non-empty" if r["msg"] != "0" else "empty")})
                if out[0] == "T" and len(f) > 2 and f[2] != "-":
                    fk = fresh_from_key(f[2], op)
                    key_needed.setdefault(fk, None)
                    cmp_items.append((where, fk, r))
        todo = [k for k in sorted(key_needed) if k not in fresh_needed]
        if todo:
            kres, kerr = run_harness(impl, ["H k%d %s" % (i, k) for i, k in enumerate(todo)])
            for i, k in enumerate(todo):
                rr = kres.get("k%d" % i)
                fresh_needed[k] = rr[-1] if rr and len(rr) == len(k.split(";")) else None
        for where, fk, r in cmp_items:
            f = fresh_needed.get(fk)
            if f is None:
                corr.append({"what": "%s: no result for the model's fresh history %s" % (where, fk)})
            elif (r["status"], r["hash"], r["len"]) != (f["status"], f["hash"], f["len"]):
                corr.append({"what": "%s: result (%s, %d bytes, %s) differs from the model's prediction fresh(%s) = (%s, %d bytes, %s)" % (
                    where, r["status"], r["len"], r["hash"], fk, f["status"], f["len"], f["hash"])})
    return viol, corr, known_hits


def msgdiff_only_stale(diffs, r, f):
    return not diffs


def form_switch_before(ops):
    """guard of params_sticky_until_cleared_partial, negated: some name was set in value form after
    having been set in expression form, since the last clear"""
    exprs = set()
    for op in ops:
        if op[0] == "x":
            exprs.clear()
        elif op[0] == "s":
            exprs.add(op[1:].split("=")[0])
        elif op[0] == "n" and op[1:].split("=")[0] in exprs:
            return True
    return False


def model_op(op, r, nst):
    c, a = op[0], op[1:]
    st = r["status"]
    oc = STATUS_OUTCOME.get(st, "fx") if st is not None else "k"
    ab = nst - 1
    if c in "cpq":
        return "%s%s:%s" % (c, a, oc)
    if c == "t":
        return "t%s:%s:%d" % (a, oc, ab)
    if c == "v":
        return "v%s:%s:%d" % (a, oc, ab)
    if c in "Tu":
        d = int(a.split(",")[1])
        if P.SOURCES[d][0] == "bad":
            return "%s%s:%s:k:%d" % (c, a, oc, ab)
        return "%s%s:k:%s:%d" % (c, a, oc, ab)
    if c in "sn":
        n, v = a.split("=")
        return "%s%d=%s" % (c, NAMES.index(n), v)
    return op


def fresh_from_key(key, op):
    """s<S>,d<D>,x<0|1>,P<n>=<e|v><val>+..,F<k>+..,I<indent> -> a history for a new transformer"""
    m = re.fullmatch(r"s(\d+),d(\d+),x([01]),P([^,]*),F([^,]*),I(-?\d+)", key)
    s, d, x, ps, fs, ind = m.groups()
    ops = ["i%s" % k for k in fs.split("+") if k]
    for p in ps.split("+"):
        if p:
            n, v = p.split("=")
            ops.append("%s%s=%s" % ("s" if v[0] == "e" else "n", NAMES[int(n)], v[1:]))
    if ind != "-1":
        ops.append("o%s" % ind)
    c = op[0]
    if c == "T":
        return ";".join(ops + ["T%s,%s" % (s, d)])
    if c == "t":
        return ";".join(ops + ["c%s" % s, "%s%s" % ("q" if x == "1" else "p", d), "t0,0"])
    if c == "u":
        return ";".join(ops + ["c%s" % s, "u0,%s" % d])
    return ";".join(ops + ["%s%s" % ("q" if x == "1" else "p", d), "v%s,0" % s])


def model_classes(model):
    rc, out = core.sh([model], input="CLASSES x\n", timeout=60)
    return dict(l.split(" ")[1:3] for l in out.split("\n") if l.startswith("CLASS "))


def model_facts(model):
    rc, out = core.sh([model], input="FACTS x\n", timeout=60)
    m = re.search(r"FACTS (.*)", out)
    d = {}
    if m:
        for kv in m.group(1).split():
            k, _, v = kv.partition("=")
            d[k] = int(v) if v.lstrip("-").isdigit() else v
    return d


def run(ctx):
    ctx.assumptions += [
        "audited classification of every data member (coq/ApiDefs.v audit): per-transformation / sticky / constant / stack object / scratch; a transformation can only leave per-transformation members dirty",
        "audited: theParserLiaison.setExecutionContext(*ctx) only stores a pointer; SAXParseException derives from SAXException; the other caught classes are unrelated",
        "what a transformation can observe of the transformer is its key (stylesheet, source, visible params, installed functions, indent) and the members classified per-transformation; checked on every run by the correspondence and the independent fresh-transformer oracle",
        "members of VariablesStack and CountersTable are generated and classified; members of the other sub-objects (NodeSorter, allocators, caches, object-stack pools) are covered by the hook and by their owner's reset()/clear() call, not by the translator",
        "VariablesStack::m_currentStackFrameIndex never exceeds the stack size when reset() runs (then the anchored pop() loop brings it to 0); observed through the hook",
    ]
    ok_lib, liblog = core.build_lib("plain")
    if not ok_lib:
        ctx.broken.append("library does not build from the working tree: " + liblog[-500:])
        return ctx.finish(LEVEL)
    proved = ctx.prove(["Properties_C06.v"], ["GenApi"])
    model, ok_m, mlog = core.build_model(FAMILY)
    if not ok_m:
        ctx.broken.append("model extraction/build failed: " + mlog[-500:])
        model = None
    have_hook = hook_present()
    impl, ok_h, hlog = core.build_harness("api", "plain", extra_flags=(["-DVERIF_HAVE_C06_HOOK"] if have_hook else []))
    if not ok_h:
        ctx.broken.append("harness does not compile against the working tree: " + hlog[-500:])
        return ctx.finish(LEVEL)
    if have_hook:
        rc, out = core.sh([impl], input="M probe\n", timeout=60)
        if " StylesheetExecutionContextDefault::m_modeStack=" not in out:
            have_hook = False    # binary built before the hook existed / without the flag: do not trust it
    ctx.notes["hook"] = "present: internal sizes compared after every call" if have_hook else \
        "ABSENT in this tree (hooks/C06_hook.diff not applied): the residue leg is skipped; leaks are only seen through outputs"
    perr = probe_sheets(impl)
    if perr:
        ctx.broken.append("sheet probe: " + " / ".join(perr[:300].split("\n")))
    ctx.notes["aborting_sheets"] = [P.SHEETS[i][1] for i in FAILING]
    ctx.notes["planned_abort_kinds_that_only_warn_here"] = [P.SHEETS[i][1] for i in QUIET if P.SHEETS[i][0] != "ok"]
    facts = model_facts(model) if model else {}
    CLASSES.clear()
    CLASSES.update(model_classes(model) if model else {})
    ctx.notes["generated_switches"] = facts
    known_cls = {k["cls"]: k for k in ctx.known.for_property("C06")}
    # which alternative of each theorem pair is the live one
    ctx.notes["live_theorems"] = {
        "residue": "residue_always_clean" if facts.get("objstack_reset_rewinds") == "true" else "residue_confined + residue_always_clean_refuted (object-stack counts) + objstack_count_invisible",
        "params": "params_sticky_until_cleared" if facts.get("set_value_drops_expr") == "true" else "params_sticky_until_cleared_partial + _refuted",
        "error_message": "error_message_fresh_after_success" if facts.get("errclear_dotransform") == "clearpush" else "error_message_fresh_after_success_partial + _refuted"}
    # a repaired defect must not stay listed as known, and an unlisted one must be reported
    allow_form_switch = "param_form_switch" not in known_cls

    n_hist, maxlen = (500, 22) if not ctx.thorough else (5000, 30)
    histories = [list(h) for h in CORPUS] + [gen_history(ctx, maxlen, allow_form_switch) for _ in range(n_hist)]
    ctx.cov["samples"] = [";".join(h) for h in histories[:3] + histories[len(CORPUS):len(CORPUS) + 5]]
    viol, corr, hits = evaluate(ctx, histories, impl, model, have_hook, facts, known_cls)
    if (corr or not proved or not model or ctx.broken) and not viol and not ctx.thorough:
        ctx.escalated = True
        more = [gen_history(ctx, 30, True) for _ in range(1500)]
        v2, c2, h2 = evaluate(ctx, more, impl, model, have_hook, facts, known_cls)
        viol += v2
        corr += c2
        for k, v in h2.items():
            hits[k] = hits.get(k, 0) + v
    nt = sum(v for k, v in ctx.distribution.items() if k.startswith("transform:"))
    nf = sum(v for k, v in ctx.distribution.items() if k.startswith("transform:fail"))
    ctx.notes["transformations"] = {"total": nt, "failing": nf, "failing_share": round(nf / nt, 3) if nt else 0}
    ctx.notes["rule"] = "distinct_nontrivial = distinct (settings + stylesheet + source given to a new transformer, status, output hash) triples compared between the reused and a new transformer"
    ctx.notes["known_class_hits"] = hits
    for cls, n in sorted(hits.items()):
        k = known_cls[cls]
        ctx.known_finding("%s %s" % (k["key"], k["what"]))
    if corr:
        ctx.broken.append("correspondence api: %d differences between model and library, e.g. %s" % (len(corr), corr[0]["what"][:400]))
        ctx.notes["correspondence_mismatches"] = [c["what"][:300] for c in corr[:20]]
    if viol:
        viol.sort(key=lambda v: len(v["replay"]))
        def reproduces(v):
            """a difference against a new transformer must show again when the two histories are run once more
            (a leak that depends on heap addresses may not): such replays are passed over for one that does"""
            ls = [l for l in v["replay"].split("\n") if l.startswith("H reused ") or l.startswith("H fresh ")]
            if len(ls) != 2:
                return True
            rr, _ = run_harness(impl, ls, jobs=1)
            a, b = rr.get("reused"), rr.get("fresh")
            if not a or not b:
                return True
            return (a[-1]["status"], a[-1]["hash"], a[-1]["len"], a[-1]["msg"]) != (b[-1]["status"], b[-1]["hash"], b[-1]["len"], b[-1]["msg"])
        seen_w, tries, unstable = set(), {}, {}
        for v in viol:
            key = re.sub(r"\d+", "N", re.sub(r"\([^)]*\)", "()", v["what"]))[:60]      # one replay per kind of failure, shortest first
            if key in seen_w or len(seen_w) >= 8:
                continue
            if tries.get(key, 0) < 12 and not reproduces(v):
                tries[key] = tries.get(key, 0) + 1
                unstable.setdefault(key, v)
                continue
            seen_w.add(key)
            unstable.pop(key, None)
            txt = "# C06 oracle failure: %s\n# replay: python3 check.py C06 --replay <this file>   (pool + histories for .build/api_plain)\n" % v["what"]
            txt += "\n".join(P.pool_lines()) + "\n" + v["replay"] + "\n"
            ctx.violation("oracle", txt)
        for key, v in unstable.items():
            if key not in seen_w:      # seen in the run, but no history of this kind showed it a second time
                ctx.violation("oracle", "# C06 oracle failure (did not show again on a second run of the same histories: address dependent?): %s\n" % v["what"]
                              + "\n".join(P.pool_lines()) + "\n" + v["replay"] + "\n")
    ctx.notes["oracle_failures"] = len(viol)
    if UNKNOWN_MEMBERS:
        ctx.broken.append("hook reports members the audited classification does not know: " + ", ".join(sorted(UNKNOWN_MEMBERS)))
    return ctx.finish(LEVEL, explanation="theorems over the transformer state machine tied to the generated reset facts + correspondence of the extracted model with the rebuilt library (status, error-message staleness, residue via the hook, outputs equal the model's fresh prediction) + independent oracle: every call re-run on a new transformer")


def replay(ctx, path):
    core.build_lib("plain")
    have_hook = hook_present()
    impl, ok_h, hlog = core.build_harness("api", "plain", extra_flags=(["-DVERIF_HAVE_C06_HOOK"] if have_hook else []))
    lines = [l.rstrip("\n") for l in open(path) if l.strip() and not l.startswith("#")]
    rc, out = core.sh([impl], input="\n".join(lines) + "\n", env={"API_VERBOSE": "1"})
    print(out)
    res = {}
    for line in out.split("\n"):
        if line.startswith("H "):
            f = line.split(" ", 2)
            res[f[1]] = [parse_res(x) for x in f[2].split(";")] if len(f) > 2 else []
    bad = 0
    if "reused" in res and "fresh" in res and res["reused"] and res["fresh"]:
        a, b = res["reused"][-1], res["fresh"][-1]
        if (a["status"], a["hash"], a["len"], a["msg"]) != (b["status"], b["hash"], b["len"], b["msg"]):
            print("DIFFERENT: reused %s vs fresh %s" % (a, b))
            bad = 1
    model, ok_m, _ = core.build_model(FAMILY)
    CLASSES.clear()
    CLASSES.update(model_classes(model) if ok_m else {})
    if "reused" in res and res["reused"] and CLASSES:
        rs = residue_set(res["reused"][-1]["residue"])
        if rs:
            print("RESIDUE (per-transformation members that differ from a new transformer): " + ", ".join(sorted(rs)))
            bad = 1
    return bad
