(* C08 part "html": the whole way round (serialize_html, then parse_html) for an element with a text child:
   start tag, escaped text, end tag; names in any ASCII case. *)
From Coq Require Import NArith List Bool Lia ZifyBool ZifyNat ZifyN.
Require Import XV.GenOutopt XV.GenHtml XV.HtmlEnt4Defs XV.HtmlDefs XV.HtmlTableModel XV.HtmlRefModel XV.HtmlTextModel.
Import ListNotations.
Open Scope N_scope.

Lemma name_char_plain : forall ch, name_char ch = true -> is_ws ch = false /\ ch <> 62 /\ ch <> 47 /\ ch <= 127.
Proof.
  intros ch H. unfold name_char, is_alnum, is_letter, is_digit, mem in H. cbn [existsb] in H. unfold is_ws, mem. cbn [existsb]. lia.
Qed.

Lemma run_tagname : forall rest acc toks, forallb name_char rest = true ->
  run (TagName acc, toks) rest = (TagName (rev (map low rest) ++ acc), toks).
Proof.
  induction rest as [|ch rest IH]; intros acc toks H; [reflexivity|].
  cbn [forallb] in H. apply andb_true_iff in H. destruct H as [H1 H2]. destruct (name_char_plain _ H1) as (A & B & C & _).
  rewrite run_cons. cbn [step]. rewrite A. destruct (ch =? 62) eqn:E1; [lia|]. destruct (ch =? 47) eqn:E2; [lia|].
  rewrite IH by exact H2. cbn [map rev]. rewrite <- app_assoc. reflexivity.
Qed.

Lemma run_endname : forall rest acc toks, forallb name_char rest = true ->
  run (EndName acc, toks) rest = (EndName (rev (map low rest) ++ acc), toks).
Proof.
  induction rest as [|ch rest IH]; intros acc toks H; [reflexivity|].
  cbn [forallb] in H. apply andb_true_iff in H. destruct H as [H1 H2]. destruct (name_char_plain _ H1) as (A & B & C & _).
  rewrite run_cons. cbn [step]. rewrite A. destruct (ch =? 62) eqn:E1; [lia|]. destruct (ch =? 47) eqn:E2; [lia|]. cbn [orb].
  rewrite IH by exact H2. cbn [map rev]. rewrite <- app_assoc. reflexivity.
Qed.

Lemma letter_facts : forall ch, is_letter ch = true -> ch <> 47 /\ ch <> 33 /\ ch <> 63 /\ ch <= 127.
Proof. intros ch H. unfold is_letter in H. lia. Qed.

Lemma acc_name_ascii : forall c s, maxc_ok c -> forallb (fun ch => ch <=? 127) s = true -> acc_name c s = s.
Proof.
  intros c s Hc H. unfold acc_name. rewrite <- (map_id s) at 2. apply map_ext_in. intros ch Hin.
  rewrite forallb_forall in H. specialize (H _ Hin). destruct (maxc c <? ch) eqn:E; [|reflexivity].
  destruct Hc as [Hc|[Hc|Hc]]; rewrite Hc in E; lia.
Qed.

Lemma name_ascii : forall ch rest, is_letter ch = true -> forallb name_char rest = true -> forallb (fun x => x <=? 127) (ch :: rest) = true.
Proof.
  intros ch rest H1 H2. cbn [forallb]. destruct (letter_facts _ H1) as (_ & _ & _ & L). apply andb_true_iff. split; [lia|].
  rewrite forallb_forall in *. intros x Hx. destruct (name_char_plain _ (H2 x Hx)) as (_ & _ & _ & L2). lia.
Qed.

(* the tree builder puts consecutive character tokens into one text node *)
Lemma build_chars : forall s t cur stack r,
  build (map TkChar s ++ r) (HText t :: cur) stack = build r (HText (t ++ s) :: cur) stack.
Proof.
  induction s as [|ch s IH]; intros t cur stack r; [rewrite app_nil_r; reflexivity|].
  cbn [map app build add_char]. rewrite IH, <- app_assoc. reflexivity.
Qed.
Lemma build_text : forall s stack r, s <> [] ->
  build (map TkChar s ++ r) [] stack = build r [HText s] stack.
Proof.
  intros s stack r H. destruct s as [|ch s]; [congruence|]. cbn [map app build add_char]. rewrite build_chars. reflexivity.
Qed.

Lemma rev_rev_low : forall ch rest, rev (rev (map low rest) ++ [low ch]) = map low (ch :: rest).
Proof. intros. rewrite rev_app_distr, rev_involutive. reflexivity. Qed.

Theorem element_text_roundtrip_lemma : forall c name s,
  maxc_ok c -> name_ok name = true -> chars_ok s = true -> s <> [] ->
  in_names (map low name) void4 = false -> in_names (map low name) raw4 = false -> str_eqb (map low name) head_name = false ->
  exists o, serialize_html c [HEl name [] [HText s]] = Some (doctype_line c ++ o) /\
            parse_html o = Some [norm c (HEl name [] [HText s])].
Proof.
  intros c name s Hc Hn Hs Hne Hv Hr Hh.
  destruct name as [|ch rest]; [discriminate|]. cbn [name_ok] in Hn. apply andb_true_iff in Hn. destruct Hn as [Hl Hrest].
  destruct (text_roundtrip c s Hc Hs) as (o & Ho & Hrun).
  set (name := ch :: rest) in *.
  assert (Hscr : str_eqb (map low name) [115; 99; 114; 105; 112; 116] = false).
  { destruct (str_eqb (map low name) [115; 99; 114; 105; 112; 116]) eqn:E; [|reflexivity].
    apply str_eqb_eq in E. rewrite E in Hr. vm_compute in Hr. discriminate. }
  assert (Hacc : acc_name c name = name) by (apply acc_name_ascii; [exact Hc | apply name_ascii; assumption]).
  exists ([60] ++ name ++ [62] ++ o ++ [60; 47] ++ name ++ [62]). split.
  - unfold serialize_html. cbn [ser_list ser_node ser_attrs].
    rewrite elem_is_head, Hh, elem_is_void, Hv, elem_is_raw, Hr, elem_is_script, Hscr, Hacc. cbn [negb].
    destruct s as [|s0 s']; [congruence|]. rewrite Ho. cbn [pte app]. rewrite !app_nil_r.
    repeat (rewrite <- ?app_assoc; cbn [app]). reflexivity.
  - unfold parse_html, tokenize.
    assert (T : run (Data, []) ([60] ++ name ++ [62] ++ o ++ [60; 47] ++ name ++ [62]) =
                (Data, TkEnd (map low name) :: emit_chars s [TkStart (map low name) []])).
    { destruct (letter_facts _ Hl) as (A & B & C & _).
      unfold name. cbn [app]. rewrite run_cons. cbn [step step_data N.eqb Pos.eqb]. rewrite run_cons. cbn [step].
      destruct (ch =? 47) eqn:E1; [lia|]. destruct (ch =? 33) eqn:E2; [lia|]. destruct (ch =? 63) eqn:E3; [lia|]. rewrite Hl.
      rewrite run_app, run_tagname by exact Hrest. rewrite run_cons. cbn [step is_ws mem existsb N.eqb Pos.eqb orb].
      rewrite rev_rev_low. unfold emit_start. fold name. rewrite Hr. cbn [rev].
      rewrite run_app, Hrun. rewrite run_cons. cbn [step step_data N.eqb Pos.eqb]. rewrite run_cons. cbn [step N.eqb Pos.eqb].
      rewrite run_cons. cbn [step]. rewrite Hl. rewrite run_app, run_endname by exact Hrest.
      cbn [run fold_left step N.eqb Pos.eqb]. rewrite rev_rev_low. reflexivity. }
    rewrite T. unfold emit_chars. cbn [rev]. rewrite rev_app_distr, rev_involutive. cbn [rev app].
    cbn [app build]. rewrite Hv. rewrite build_text by exact Hne.
    cbn [build]. rewrite str_eqb_refl. cbn [rev app filter ws_only_text negb norm map]. rewrite Hh. cbn [andb]. reflexivity.
Qed.
