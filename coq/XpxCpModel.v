(* C02, extension part (family xpx): str:padding and str:align on characters (XpxCpDefs.v) — proofs.
   `chars s` (XpCpDefs) is the list of the characters of a UTF-16 string, each as its code units ([u] or [high; low]);
   `well_formed s`: every surrogate of s is half of a pair (what an XML parser delivers). *)
From Coq Require Import List NArith ZArith Bool Arith Lia.
From Coq Require Import ZifyBool ZifyNat ZifyN.
Require Import XV.GenXpx XV.XpxDefs XV.XpxModel XV.XpxStr XV.XpCpDefs XV.XpCpModel XV.XpxCpDefs.
Import ListNotations.
Local Open Scope nat_scope.

(* ---------------------------------------------------------------------------------------------- *)
(* lists of anything: the repeated list, cut *)

Lemma grepeat_length : forall A (l : list A) k, length (concat (repeat l k)) = k * length l.
Proof. intros A l. induction k as [|k IH]; cbn [repeat concat]; [reflexivity|]. rewrite app_length, IH. lia. Qed.

Lemma gnth_firstn_lt : forall A (l : list A) r j d, j < r -> nth j (firstn r l) d = nth j l d.
Proof.
  intros A. induction l as [|a l IH]; intros r j d H.
  - rewrite firstn_nil. reflexivity.
  - destruct r as [|r]; [lia|]. destruct j as [|j]; [reflexivity|]. cbn. apply IH. lia.
Qed.

Lemma gnth_concat_repeat : forall A (l : list A) q i d, 0 < length l -> i < q * length l ->
  nth i (concat (repeat l q)) d = nth (i mod length l) l d.
Proof.
  intros A l. induction q as [|q IH]; intros i d Hp Hi; [lia|]. cbn [repeat concat].
  destruct (Nat.ltb i (length l)) eqn:E.
  - rewrite app_nth1 by lia. rewrite Nat.mod_small by lia. reflexivity.
  - rewrite app_nth2 by lia. rewrite IH by (cbn [Nat.mul] in Hi; lia). f_equal.
    replace i with ((i - length l) + 1 * length l) at 2 by lia. rewrite Nat.mod_add by lia. reflexivity.
Qed.

(* character i of (q copies of l, then the first r of l) is character (i mod |l|) of l *)
Lemma gnth_cycle : forall A (l : list A) q r i d, 0 < length l -> r <= length l -> i < q * length l + r ->
  nth i (concat (repeat l q) ++ firstn r l) d = nth (i mod length l) l d.
Proof.
  intros A l q r i d Hp Hr Hi. destruct (Nat.ltb i (q * length l)) eqn:E.
  - rewrite app_nth1 by (rewrite grepeat_length; lia). apply gnth_concat_repeat; lia.
  - rewrite app_nth2 by (rewrite grepeat_length; lia). rewrite grepeat_length.
    rewrite gnth_firstn_lt by lia. f_equal.
    replace i with ((i - q * length l) + q * length l) at 2 by lia. rewrite Nat.mod_add by lia.
    rewrite Nat.mod_small by lia. reflexivity.
Qed.

Lemma forallb_concat_repeat : forall A (f : A -> bool) l q, forallb f l = true -> forallb f (concat (repeat l q)) = true.
Proof. intros A f l q H. induction q as [|q IH]; cbn [repeat concat]; [reflexivity|]. rewrite forallb_app, H, IH. reflexivity. Qed.

Lemma forallb_firstn : forall A (f : A -> bool) l k, forallb f l = true -> forallb f (firstn k l) = true.
Proof. intros A f l k H. apply (forallb_firstn_skipn A f l 0 k H). Qed.

Lemma forallb_skipn : forall A (f : A -> bool) l k, forallb f l = true -> forallb f (skipn k l) = true.
Proof.
  intros A f l k H. rewrite forallb_forall in *. intros x Hx. apply H.
  rewrite <- (firstn_skipn k l). apply in_or_app. right. exact Hx.
Qed.

Lemma concat_map_single : forall (s : list N), concat (map (fun u => [u]) s) = s.
Proof. induction s as [|a s IH]; cbn; [reflexivity|]. f_equal. exact IH. Qed.

(* ---------------------------------------------------------------------------------------------- *)
(* characters of a concatenation; the cut made by unitsOfCharacters *)

Lemma chars_nonempty : forall s, s <> [] -> 1 <= cp_length s.
Proof.
  intros s H. rewrite cp_length_chars. destruct s as [|h [|l r]]; [congruence | cbn; lia |].
  cbn [chars]. destruct (is_pair h l); cbn [length]; lia.
Qed.

Lemma cp_length_le : forall s, cp_length s <= length s.
Proof. intros s. unfold cp_length. lia. Qed.

(* a well-formed string followed by anything: the characters are the characters of the parts *)
Lemma chars_app : forall a b, well_formed a = true -> chars (a ++ b) = chars a ++ chars b.
Proof.
  induction a as [|h l r E IHa|h r E IHa] using cp_ind; intros b W.
  - reflexivity.
  - rewrite well_formed_pair in W by assumption. cbn [app]. rewrite !chars_pair by assumption.
    cbn [app]. f_equal. apply IHa. exact W.
  - rewrite well_formed_single in W by assumption. apply andb_true_iff in W. destruct W as [Wh Wr].
    cbn [app]. rewrite (chars_single h r) by assumption. cbn [app].
    rewrite chars_single; [f_equal; apply IHa; exact Wr|].
    unfold is_surrogate in Wh. apply negb_true_iff, orb_false_iff in Wh. destruct Wh as [Hh _].
    destruct (r ++ b) as [|x y]; [reflexivity|]. cbn. unfold is_pair. rewrite Hh. reflexivity.
Qed.

Lemma chars_repeat_app : forall pad q x, well_formed pad = true ->
  chars (concat (repeat pad q) ++ x) = concat (repeat (chars pad) q) ++ chars x.
Proof.
  intros pad q x W. induction q as [|q IH]; cbn [repeat concat app]; [reflexivity|].
  rewrite <- !app_assoc. rewrite chars_app by exact W. rewrite IH. reflexivity.
Qed.

Lemma units_of_no_pairs : forall s k, count_pairs s = 0 -> units_of s k = Nat.min k (length s).
Proof.
  induction s as [|h l r E IHs|h r E IHs] using cp_ind; intros k C.
  - destruct k; reflexivity.
  - rewrite count_pairs_pair in C by assumption. discriminate.
  - rewrite count_pairs_single in C by assumption. destruct k as [|k]; [rewrite units_of_0; reflexivity|].
    rewrite units_of_single by assumption. rewrite IHs by exact C. cbn [length]. lia.
Qed.

(* with or without the shortcut for strings that have no pair, the cut is the one unitsOf makes *)
Lemma uoc_firstn : forall s k, firstn (units_of_characters s (count_pairs s) k) s = firstn (units_of s k) s.
Proof.
  intros s k. unfold units_of_characters. destruct (Nat.eqb (count_pairs s) 0) eqn:E; [|reflexivity].
  apply Nat.eqb_eq in E. rewrite units_of_no_pairs by exact E.
  destruct (Nat.leb k (length s)) eqn:L.
  - apply Nat.leb_le in L. rewrite Nat.min_l by lia. reflexivity.
  - apply Nat.leb_gt in L. rewrite Nat.min_r by lia. rewrite !firstn_all2 by lia. reflexivity.
Qed.

Lemma uoc_skipn : forall s k, skipn (units_of_characters s (count_pairs s) k) s = skipn (units_of s k) s.
Proof.
  intros s k. unfold units_of_characters. destruct (Nat.eqb (count_pairs s) 0) eqn:E; [|reflexivity].
  apply Nat.eqb_eq in E. rewrite units_of_no_pairs by exact E.
  destruct (Nat.leb k (length s)) eqn:L.
  - apply Nat.leb_le in L. rewrite Nat.min_l by lia. reflexivity.
  - apply Nat.leb_gt in L. rewrite Nat.min_r by lia. rewrite !skipn_all2 by lia. reflexivity.
Qed.

Lemma uoc_le : forall s k, k <= cp_length s -> units_of_characters s (count_pairs s) k <= length s.
Proof.
  intros s k H. unfold units_of_characters. destruct (Nat.eqb (count_pairs s) 0) eqn:E.
  - pose proof (cp_length_le s). lia.
  - pose proof (f_equal (@length N) (firstn_units_of s k)) as F. rewrite firstn_length in F.
    destruct (Nat.leb (units_of s k) (length s)) eqn:L; [apply Nat.leb_le in L; exact L|].
    apply Nat.leb_gt in L. exfalso.
    (* units_of never exceeds the length *)
    clear -L. revert k L. induction s as [|h l r E IHs|h r E IHs] using cp_ind; intros k L.
    + destruct k; cbn in L; lia.
    + destruct k as [|k]; [rewrite units_of_0 in L; cbn in L; lia|].
      rewrite units_of_pair in L by assumption. cbn [length] in L. apply (IHs k). lia.
    + destruct k as [|k]; [rewrite units_of_0 in L; cbn in L; lia|].
      rewrite units_of_single in L by assumption. cbn [length] in L. apply (IHs k). lia.
Qed.

(* the prefix of k characters, as cut by the code *)
Lemma cut_prefix : forall s k, substr s 0 (units_of_characters s (count_pairs s) k) = concat (firstn k (chars s)).
Proof. intros s k. unfold substr. cbn [skipn]. rewrite uoc_firstn. apply firstn_units_of. Qed.

(* the rest after k characters, as cut by the code: append(s, off, length - off) *)
Lemma cut_suffix : forall s k, let off := units_of_characters s (count_pairs s) k in
  chars (substr s off (length s - off)) = skipn k (chars s).
Proof.
  intros s k off. unfold substr. rewrite firstn_all2 by (rewrite skipn_length; lia).
  unfold off. rewrite uoc_skipn. apply skipn_units_of.
Qed.

Lemma well_formed_prefix : forall s k, well_formed s = true -> well_formed (concat (firstn k (chars s))) = true.
Proof.
  intros s k W. rewrite well_formed_chars in *. rewrite chars_firstn. apply forallb_firstn. exact W.
Qed.

(* ---------------------------------------------------------------------------------------------- *)
(* str:padding *)

Lemma pad_loop_cp_shape : forall fuel rem pad k, pad <> [] -> rem <= fuel -> 0 < rem ->
  exists q r, pad_loop_cp fuel rem pad (concat (repeat pad k)) = concat (repeat pad q) ++ concat (firstn r (chars pad))
              /\ q * cp_length pad + r = k * cp_length pad + rem /\ 0 < r <= cp_length pad.
Proof.
  induction fuel as [|f IH]; intros rem pad k Hp Hf Hr; [lia|]. cbn [pad_loop_cp].
  pose proof (chars_nonempty pad Hp) as Hc.
  destruct (Nat.ltb (cp_length pad) rem) eqn:E.
  - rewrite concat_repeat_snoc. destruct (IH (rem - cp_length pad) pad (S k)) as [q [r [H1 [H2 H3]]]]; try lia; [exact Hp|].
    exists q, r. split; [exact H1|]. split; [|exact H3]. cbn [Nat.mul] in H2. lia.
  - exists k, rem. rewrite cut_prefix. split; [reflexivity|]. split; lia.
Qed.

(* copies of the padding string, the last one cut after r whole characters *)
Lemma padding_cp_shape : forall n pad, pad <> [] -> 0 < n ->
  exists q r, padding_cp n pad = concat (repeat pad q) ++ concat (firstn r (chars pad))
              /\ q * cp_length pad + r = n /\ r <= cp_length pad.
Proof.
  intros n pad Hne Hn. destruct n as [|n']; [lia|]. destruct pad as [|c [|c2 p]]; [congruence| |].
  - exists (S n'), 0. cbn [padding_cp firstn concat]. rewrite app_nil_r, concat_repeat_single. split; [reflexivity|].
    cbn. lia.
  - cbn [padding_cp]. destruct (pad_loop_cp_shape (S n') (S n') (c :: c2 :: p) 0) as [q [r [H1 [H2 H3]]]]; try lia; [discriminate|].
    exists q, r. cbn [repeat concat] in H1. split; [exact H1|]. split; lia.
Qed.

Lemma padding_cp_chars : forall n pad, pad <> [] -> well_formed pad = true -> 0 < n ->
  exists q r, chars (padding_cp n pad) = concat (repeat (chars pad) q) ++ firstn r (chars pad)
              /\ q * cp_length pad + r = n /\ r <= cp_length pad.
Proof.
  intros n pad Hne W Hn. destruct (padding_cp_shape n pad Hne Hn) as [q [r [H1 [H2 H3]]]].
  exists q, r. rewrite H1, chars_repeat_app by exact W. rewrite chars_firstn. auto.
Qed.

Lemma padding_cp_empty_pad : forall n, padding_cp n [] = [].
Proof. intros [|n]; reflexivity. Qed.

(* the result has n characters, character i is character (i mod |pad|) of the padding string, no pair is split *)
Lemma padding_cp_spec : forall n pad, pad <> [] -> well_formed pad = true ->
  cp_length (padding_cp n pad) = n
  /\ (forall i d, i < n -> nth i (chars (padding_cp n pad)) d = nth (i mod cp_length pad) (chars pad) d)
  /\ well_formed (padding_cp n pad) = true.
Proof.
  intros n pad Hne W. destruct n as [|n'].
  - split; [reflexivity|]. split; [intros; lia | reflexivity].
  - destruct (padding_cp_chars (S n') pad Hne W) as [q [r [H1 [H2 H3]]]]; [lia|].
    pose proof (chars_nonempty pad Hne) as Hc. rewrite (cp_length_chars pad) in *.
    split; [|split].
    + rewrite cp_length_chars, H1, app_length, grepeat_length, firstn_length. lia.
    + intros i d Hi. rewrite H1. apply gnth_cycle; lia.
    + rewrite well_formed_chars in *. rewrite H1, forallb_app.
      rewrite forallb_concat_repeat by exact W. rewrite forallb_firstn by exact W. reflexivity.
Qed.

Lemma pad_loop_cp_no_pairs : forall fuel rem pad acc, count_pairs pad = 0 ->
  pad_loop_cp fuel rem pad acc = pad_loop fuel rem pad acc.
Proof.
  induction fuel as [|f IH]; intros rem pad acc C; [reflexivity|]. cbn [pad_loop_cp pad_loop].
  unfold cp_length, units_of_characters. rewrite C, Nat.sub_0_r. cbn [Nat.eqb]. rewrite IH by exact C. reflexivity.
Qed.

Lemma padding_cp_no_pairs : forall n pad, count_pairs pad = 0 -> padding_cp n pad = padding n pad.
Proof.
  intros n pad C. destruct n as [|n]; [reflexivity|]. destruct pad as [|c [|c2 p]]; [reflexivity | reflexivity|].
  cbn [padding_cp padding]. apply pad_loop_cp_no_pairs. exact C.
Qed.

(* ---------------------------------------------------------------------------------------------- *)
(* str:align *)

Lemma align_cp_truncates : forall t p m, cp_length p < cp_length t ->
  chars (align_cp t p m) = firstn (cp_length p) (chars t).
Proof.
  intros t p m H. unfold align_cp. cbv zeta. destruct (Nat.eqb (cp_length t) (cp_length p)) eqn:E1; [lia|].
  destruct (Nat.ltb (cp_length p) (cp_length t)) eqn:E2; [|lia].
  rewrite cut_prefix. apply chars_firstn.
Qed.

(* the characters of the target string replace a range of the characters of the padding string *)
Lemma align_cp_replaces : forall t p m, well_formed t = true -> well_formed p = true -> cp_length t <= cp_length p ->
  chars (align_cp t p m) = firstn (align_start (cp_length t) (cp_length p) m) (chars p) ++ chars t
                           ++ skipn (align_start (cp_length t) (cp_length p) m + cp_length t) (chars p).
Proof.
  intros t p m Wt Wp Hle. unfold align_cp. cbv zeta. destruct (Nat.eqb (cp_length t) (cp_length p)) eqn:E1.
  - assert (Hst : align_start (cp_length t) (cp_length p) m = 0) by (destruct m; unfold align_start; lia).
    rewrite Hst. cbn [firstn Nat.add app]. rewrite skipn_all2 by (rewrite <- cp_length_chars; lia).
    rewrite app_nil_r. reflexivity.
  - destruct (Nat.ltb (cp_length p) (cp_length t)) eqn:E2; [lia|].
    destruct m; unfold align_start.
    + cbn [firstn Nat.add app]. rewrite chars_app by exact Wt. f_equal. apply cut_suffix.
    + rewrite cut_prefix. rewrite chars_app by (apply well_formed_prefix; exact Wp).
      rewrite chars_firstn. f_equal. rewrite skipn_all2 by (rewrite <- cp_length_chars; lia).
      rewrite app_nil_r. reflexivity.
    + rewrite cut_prefix. rewrite chars_app by (apply well_formed_prefix; exact Wp).
      rewrite chars_firstn. f_equal. rewrite chars_app by exact Wt. f_equal.
      rewrite (Nat.add_comm ((cp_length p - cp_length t) / 2)). apply cut_suffix.
Qed.

Lemma align_cp_length : forall t p m, well_formed t = true -> well_formed p = true ->
  cp_length (align_cp t p m) = cp_length p /\ well_formed (align_cp t p m) = true.
Proof.
  intros t p m Wt Wp. destruct (Nat.ltb (cp_length p) (cp_length t)) eqn:E.
  - apply Nat.ltb_lt in E. rewrite well_formed_chars, cp_length_chars, align_cp_truncates by exact E. split.
    + rewrite firstn_length, <- cp_length_chars. lia.
    + apply forallb_firstn. rewrite <- well_formed_chars. exact Wt.
  - apply Nat.ltb_ge in E. pose proof (align_start_fits _ _ m E) as Hf.
    rewrite well_formed_chars, cp_length_chars, align_cp_replaces by assumption. split.
    + rewrite !app_length, firstn_length, skipn_length, <- !cp_length_chars. lia.
    + rewrite !forallb_app. rewrite well_formed_chars in Wt, Wp.
      rewrite forallb_firstn, forallb_skipn, Wt by exact Wp. reflexivity.
Qed.

Lemma align_cp_no_pairs : forall t p m, count_pairs t = 0 -> count_pairs p = 0 -> align_cp t p m = align t p m.
Proof.
  intros t p m Ct Cp. unfold align_cp, align, cp_length, units_of_characters. cbv zeta.
  rewrite Ct, Cp, !Nat.sub_0_r. cbn [Nat.eqb].
  destruct (Nat.eqb (length t) (length p)) eqn:E1; [reflexivity|].
  destruct (Nat.ltb (length p) (length t)) eqn:E2; [reflexivity|].
  destruct m; [reflexivity | reflexivity|].
  generalize ((length p - length t) / 2). intros h. f_equal. f_equal. f_equal. lia.
Qed.

(* ---------------------------------------------------------------------------------------------- *)
(* the form as found (code units): the K6x inputs *)

Lemma padding_units_witness :
  well_formed k6x_pad = true /\ well_formed (padding_gen false 2 k6x_pad) = false /\ cp_length (padding_gen false 3 k6x_pad) <> 3.
Proof. vm_compute. split; [reflexivity|]. split; [reflexivity | discriminate]. Qed.

Lemma align_units_witness :
  well_formed k6x_target = true /\ well_formed k6x_template = true
  /\ cp_length (align_gen false k6x_target k6x_template ALeft) <> cp_length k6x_template.
Proof. vm_compute. split; [reflexivity|]. split; [reflexivity | discriminate]. Qed.

(* the functions of this tree *)
Definition padding_ok (f : nat -> list N -> list N) : Prop :=
  forall n pad, pad <> [] -> well_formed pad = true ->
    cp_length (f n pad) = n
    /\ (forall i d, i < n -> nth i (chars (f n pad)) d = nth (i mod cp_length pad) (chars pad) d)
    /\ well_formed (f n pad) = true.
Definition align_ok (f : list N -> list N -> align_mode -> list N) : Prop :=
  forall t p m, well_formed t = true -> well_formed p = true ->
    cp_length (f t p m) = cp_length p /\ well_formed (f t p m) = true.

Lemma padding_align_tree :
  (gen_exslt_padding_align_count_characters = true /\ padding_ok padding_tree /\ align_ok align_tree)
  \/ (gen_exslt_padding_align_count_characters = false /\ ~ padding_ok padding_tree /\ ~ align_ok align_tree).
Proof.
  unfold padding_tree, align_tree. destruct gen_exslt_padding_align_count_characters.
  - left. split; [reflexivity|]. split.
    + intros n pad H W. apply padding_cp_spec; assumption.
    + intros t p m Wt Wp. apply align_cp_length; assumption.
  - right. split; [reflexivity|]. split.
    + intros H. destruct (H 3 k6x_pad) as [H1 _]; [discriminate | reflexivity|].
      destruct padding_units_witness as [_ [_ W]]. exact (W H1).
    + intros H. destruct (H k6x_target k6x_template ALeft) as [H1 _]; [reflexivity | reflexivity|].
      destruct align_units_witness as [_ [_ W]]. exact (W H1).
Qed.

(* without the hypothesis the statement fails: a low surrogate at the start and a high one at the end of the padding
   string join into one character where two copies meet *)
Lemma padding_cp_needs_well_formed : exists pad, pad <> [] /\ cp_length (padding_cp 4 pad) <> 4.
Proof. exists [56499; 55349]%N. split; [discriminate|]. vm_compute. discriminate. Qed.
