(* C13 — the tree part of StripDefs.v: consulting the strip decision at every observation point
   (the code) is the same as observing the physically stripped tree with no decision at all.

   All statements are closed under the global context (Print Assumptions at the end). *)
From Coq Require Import String List NArith Bool Arith Lia.
Import ListNotations.
Require Import XV.StripDefs.
Open Scope list_scope.

(* ------------------------------------------------------------------------------------------------ *)
(* induction over the nested inductive [node] *)

Fixpoint node_ind' (P : node -> Prop)
  (HE : forall n a ks, Forall P ks -> P (Elem n a ks))
  (HT : forall d, P (Text d))
  (HC : forall d, P (Comment d))
  (HP : forall t d, P (PI t d))
  (x : node) : P x :=
  match x with
  | Elem n a ks =>
      HE n a ks
        ((fix go (l : list node) : Forall P l :=
            match l with
            | [] => Forall_nil P
            | k :: r => Forall_cons k (node_ind' P HE HT HC HP k) (go r)
            end) ks)
  | Text d => HT d
  | Comment d => HC d
  | PI t d => HP t d
  end.

(* ------------------------------------------------------------------------------------------------ *)
(* list facts *)

Lemma filter_all_true {A} (f : A -> bool) (l : list A) :
  (forall x, f x = true) -> filter f l = l.
Proof.
  intros H. induction l as [|a l IH]; simpl; [reflexivity|]. rewrite H, IH. reflexivity.
Qed.

Lemma filter_map_comm {A B} (f : A -> B) (p : B -> bool) (l : list A) :
  filter p (map f l) = map f (filter (fun x => p (f x)) l).
Proof.
  induction l as [|a l IH]; simpl; [reflexivity|].
  destruct (p (f a)); simpl; rewrite IH; reflexivity.
Qed.

Lemma map_flat_map {A B C} (f : B -> C) (g : A -> list B) (l : list A) :
  map f (flat_map g l) = flat_map (fun x => map f (g x)) l.
Proof.
  induction l as [|a l IH]; simpl; [reflexivity|]. rewrite map_app, IH. reflexivity.
Qed.

Lemma flat_map_map {A B C} (f : A -> B) (g : B -> list C) (l : list A) :
  flat_map g (map f l) = flat_map (fun x => g (f x)) l.
Proof.
  induction l as [|a l IH]; simpl; [reflexivity|]. rewrite IH. reflexivity.
Qed.

Lemma flat_map_ext_Forall {A B} (g h : A -> list B) (l : list A) :
  Forall (fun x => g x = h x) l -> flat_map g l = flat_map h l.
Proof.
  induction 1 as [|a l Ha _ IH]; simpl; [reflexivity|]. rewrite Ha, IH. reflexivity.
Qed.

Lemma map_ext_F {A B} (g h : A -> B) (l : list A) :
  Forall (fun x => g x = h x) l -> map g l = map h l.
Proof.
  induction 1 as [|a l Ha _ IH]; simpl; [reflexivity|]. rewrite Ha, IH. reflexivity.
Qed.

Lemma Forall_flat_map_intro {A B} (P : B -> Prop) (g : A -> list B) (l : list A) :
  Forall (fun x => Forall P (g x)) l -> Forall P (flat_map g l).
Proof.
  induction 1 as [|a l Ha _ IH]; simpl; [constructor|]. apply Forall_app. split; assumption.
Qed.

Lemma nth_error_map' {A B} (f : A -> B) (l : list A) (n : nat) :
  nth_error (map f l) n = option_map f (nth_error l n).
Proof.
  revert n. induction l as [|a l IH]; intros [|n]; simpl; auto.
Qed.

(* ------------------------------------------------------------------------------------------------ *)
(* 1. the decision does not change under removal *)

Lemma stripped_rs : forall st pk pk' x, stripped st pk (remove_stripped st pk' x) = stripped st pk x.
Proof. intros st pk pk' x. destruct x; reflexivity. Qed.

Lemma visible_rs : forall st pk pk' x, visible st pk (remove_stripped st pk' x) = visible st pk x.
Proof. intros st pk pk' x. unfold visible. rewrite stripped_rs. reflexivity. Qed.

Lemma is_text_rs : forall st pk x, is_text (remove_stripped st pk x) = is_text x.
Proof. intros st pk x. destruct x; reflexivity. Qed.

Lemma is_elem_rs : forall st pk x, is_elem (remove_stripped st pk x) = is_elem x.
Proof. intros st pk x. destruct x; reflexivity. Qed.

Lemma test_node_rs : forall st pk t x, test_node t (remove_stripped st pk x) = test_node t x.
Proof. intros st pk t x. destruct x; destruct t; reflexivity. Qed.

Lemma kids_key_rs : forall st pk pk' x, kids_key pk (remove_stripped st pk' x) = kids_key pk x.
Proof. intros st pk pk' x. destruct x; reflexivity. Qed.

Lemma stripped_no_strip : forall pk x, stripped no_strip pk x = false.
Proof. intros pk x. destruct x; simpl; try reflexivity. rewrite andb_false_r. reflexivity. Qed.

Lemma visible_no_strip : forall pk x, visible no_strip pk x = true.
Proof. intros pk x. unfold visible. rewrite stripped_no_strip. reflexivity. Qed.

Lemma ctx_visible_no_strip : forall c, ctx_visible no_strip c = true.
Proof. intros c. apply visible_no_strip. Qed.

Lemma keep_visible_no_strip : forall l, keep_visible no_strip l = l.
Proof. intros l. apply filter_all_true. apply ctx_visible_no_strip. Qed.

Lemma filter_visible_no_strip : forall pk l, filter (visible no_strip pk) l = l.
Proof. intros pk l. apply filter_all_true. apply visible_no_strip. Qed.

(* xml:space="preserve" in force: nothing is stripped, whatever the declarations *)
Lemma stripped_preserve : forall st q x, stripped st (q, true) x = false.
Proof. intros st q x. destruct x; simpl; try reflexivity. apply andb_false_r. Qed.

(* the decision under a key = the inherited xml:space state, or the decision by the name alone *)
Lemma visible_key_split : forall st n xs k, visible st (n, xs) k = xs || visible st (n, false) k.
Proof.
  intros st n xs k. unfold visible. destruct k; destruct xs; simpl; rewrite ?andb_false_r; reflexivity.
Qed.

(* ------------------------------------------------------------------------------------------------ *)
(* strip_list *)

Lemma strip_list_eq : forall st pk l,
  strip_list st pk l = map (remove_stripped st pk) (filter (visible st pk) l).
Proof.
  intros st pk l. unfold strip_list. rewrite filter_map_comm. f_equal.
  apply filter_ext. intros x. apply visible_rs.
Qed.

Lemma strip_list_app : forall st pk a b,
  strip_list st pk (a ++ b) = strip_list st pk a ++ strip_list st pk b.
Proof. intros st pk a b. unfold strip_list. rewrite map_app, filter_app. reflexivity. Qed.

Lemma strip_list_cons_vis : forall st pk k l, visible st pk k = true ->
  strip_list st pk (k :: l) = remove_stripped st pk k :: strip_list st pk l.
Proof. intros st pk k l H. unfold strip_list. simpl. rewrite visible_rs, H. reflexivity. Qed.

Lemma strip_list_cons_invis : forall st pk k l, visible st pk k = false ->
  strip_list st pk (k :: l) = strip_list st pk l.
Proof. intros st pk k l H. unfold strip_list. simpl. rewrite visible_rs, H. reflexivity. Qed.

Lemma strip_list_length : forall st pk l,
  length (strip_list st pk l) = length (filter (visible st pk) l).
Proof. intros st pk l. rewrite strip_list_eq. apply map_length. Qed.

Lemma rs_elem : forall st pk n a ks,
  remove_stripped st pk (Elem n a ks) = Elem n a (strip_list st (child_key pk n a) ks).
Proof. reflexivity. Qed.

(* ------------------------------------------------------------------------------------------------ *)
(* 2. children (the children of x are removed with the key x looks at them with) *)

Lemma rs_children : forall st pk x,
  children no_strip pk (remove_stripped st pk x) =
  map (remove_stripped st (kids_key pk x)) (children st pk x).
Proof.
  intros st pk x. destruct x; try reflexivity.
  rewrite rs_elem. cbn [children kids_key]. rewrite filter_visible_no_strip. apply strip_list_eq.
Qed.

Lemma rs_children_length : forall st pk x,
  length (children no_strip pk (remove_stripped st pk x)) = length (children st pk x).
Proof. intros st pk x. rewrite rs_children. apply map_length. Qed.

(* ------------------------------------------------------------------------------------------------ *)
(* a scheme for the observations defined by flat_map over the children *)

Lemma flat_map_strip {B} (g h : node -> list B) st pk ks :
  Forall (fun k => stripped st pk k = false -> g (remove_stripped st pk k) = h k) ks ->
  (forall k, stripped st pk k = true -> h k = []) ->
  flat_map g (strip_list st pk ks) = flat_map h ks.
Proof.
  intros HF Hs. induction HF as [|k r Hk _ IH]; [reflexivity|].
  destruct (stripped st pk k) eqn:E.
  - rewrite strip_list_cons_invis by (unfold visible; rewrite E; reflexivity).
    simpl. rewrite (Hs k E). simpl. exact IH.
  - rewrite strip_list_cons_vis by (unfold visible; rewrite E; reflexivity).
    simpl. rewrite (Hk eq_refl), IH. reflexivity.
Qed.

(* ------------------------------------------------------------------------------------------------ *)
(* 3. string-value *)

Lemma sv_stripped : forall st pk k, stripped st pk k = true -> sv st pk k = [].
Proof.
  intros st pk k H. destruct k; simpl in *; try discriminate. rewrite H. reflexivity.
Qed.

Lemma rs_sv : forall st pk x, stripped st pk x = false ->
  sv no_strip pk (remove_stripped st pk x) = sv st pk x.
Proof.
  intros st pk x. revert pk. induction x using node_ind'; intros pk Hs.
  - rewrite rs_elem. cbn [sv]. apply flat_map_strip.
    + eapply Forall_impl; [|exact H]. intros k Hk. apply Hk.
    + apply sv_stripped.
  - simpl in *. rewrite Hs. unfold no_strip. rewrite andb_false_r. reflexivity.
  - reflexivity.
  - reflexivity.
Qed.

Lemma rs_string_value : forall st pk x, stripped st pk x = false ->
  string_value no_strip pk (remove_stripped st pk x) = string_value st pk x.
Proof.
  intros st pk x Hs. destruct x; try reflexivity.
  - unfold string_value. rewrite rs_elem. rewrite <- rs_elem. apply rs_sv. exact Hs.
  - apply (rs_sv st pk (Text data) Hs).
Qed.

(* ------------------------------------------------------------------------------------------------ *)
(* 4. copy *)

Lemma copy_events_stripped : forall st pk k, stripped st pk k = true -> copy_events st pk k = [].
Proof.
  intros st pk k H. destruct k; simpl in *; try discriminate. rewrite H. reflexivity.
Qed.

Lemma rs_copy_events : forall st pk x, stripped st pk x = false ->
  copy_events no_strip pk (remove_stripped st pk x) = copy_events st pk x.
Proof.
  intros st pk x. revert pk. induction x using node_ind'; intros pk Hs.
  - rewrite rs_elem. cbn [copy_events]. f_equal. f_equal. apply flat_map_strip.
    + eapply Forall_impl; [|exact H]. intros k Hk. apply Hk.
    + apply copy_events_stripped.
  - simpl in *. rewrite Hs. unfold no_strip. rewrite andb_false_r. reflexivity.
  - reflexivity.
  - reflexivity.
Qed.

(* ------------------------------------------------------------------------------------------------ *)
(* 5. descendant-or-self.  Every descendant is removed with ITS OWN key (the key of its parent's
   children), so the statement goes through [desc_keyed], the descendants paired with their keys *)

Lemma dos_unfold : forall st pk x,
  desc_or_self st pk x =
  if stripped st pk x then [] else
  x :: match x with
       | Elem n a ks => flat_map (desc_or_self st (child_key pk n a)) ks
       | _ => []
       end.
Proof. intros st pk x. destruct x; reflexivity. Qed.

Lemma dk_unfold : forall st pk x,
  desc_keyed st pk x =
  if stripped st pk x then [] else
  (pk, x) :: match x with
             | Elem n a ks => flat_map (desc_keyed st (child_key pk n a)) ks
             | _ => []
             end.
Proof. intros st pk x. destruct x; reflexivity. Qed.

Lemma dos_stripped : forall st pk k, stripped st pk k = true -> desc_or_self st pk k = [].
Proof. intros st pk k H. rewrite dos_unfold, H. reflexivity. Qed.

Lemma dk_stripped : forall st pk k, stripped st pk k = true -> desc_keyed st pk k = [].
Proof. intros st pk k H. rewrite dk_unfold, H. reflexivity. Qed.

(* the keyed list is the plain one with keys attached *)
Lemma desc_keyed_nodes : forall st pk x, map snd (desc_keyed st pk x) = desc_or_self st pk x.
Proof.
  intros st pk x. revert pk. induction x using node_ind'; intros pk;
    rewrite dk_unfold, dos_unfold; destruct (stripped st pk _); try reflexivity.
  cbn [map snd]. f_equal. rewrite map_flat_map. apply flat_map_ext_Forall.
  eapply Forall_impl; [|exact H]. intros k Hk. apply Hk.
Qed.

(* removal of a node with the key it is looked at with *)
Definition rs_keyed (st : pred) (p : key * node) : node := remove_stripped st (fst p) (snd p).

Lemma rs_desc_or_self : forall st pk x, stripped st pk x = false ->
  desc_or_self no_strip pk (remove_stripped st pk x) =
  map (rs_keyed st) (desc_keyed st pk x).
Proof.
  intros st pk x. revert pk. induction x using node_ind'; intros pk Hs;
    rewrite (dk_unfold st), (dos_unfold no_strip), stripped_no_strip, Hs.
  - rewrite rs_elem. cbn [map]. unfold rs_keyed at 1. cbn [fst snd]. rewrite <- rs_elem. f_equal.
    rewrite map_flat_map. apply flat_map_strip.
    + eapply Forall_impl; [|exact H]. intros k Hk. apply Hk.
    + intros k Hk. rewrite dk_stripped by exact Hk. reflexivity.
  - reflexivity.
  - reflexivity.
  - reflexivity.
Qed.

Lemma rs_desc_or_self_length : forall st pk x, stripped st pk x = false ->
  length (desc_or_self no_strip pk (remove_stripped st pk x)) = length (desc_or_self st pk x).
Proof.
  intros st pk x Hs. rewrite rs_desc_or_self by exact Hs.
  rewrite <- desc_keyed_nodes, !map_length. reflexivity.
Qed.

Lemma rs_desc_or_self_texts : forall st pk x, stripped st pk x = false ->
  length (filter is_text (desc_or_self no_strip pk (remove_stripped st pk x))) =
  length (filter is_text (desc_or_self st pk x)).
Proof.
  intros st pk x Hs. rewrite rs_desc_or_self by exact Hs. rewrite <- desc_keyed_nodes.
  rewrite !filter_map_comm, !map_length. f_equal. apply filter_ext. intros y. apply is_text_rs.
Qed.

(* ------------------------------------------------------------------------------------------------ *)
(* 6. removal with no declarations; removal twice *)

Lemma rs_no_strip : forall pk x, remove_stripped no_strip pk x = x.
Proof.
  intros pk x. revert pk. induction x using node_ind'; intros pk; try reflexivity.
  simpl. rewrite filter_visible_no_strip. f_equal.
  induction H as [|k r Hk _ IH]; simpl; [reflexivity|]. rewrite Hk, IH. reflexivity.
Qed.

Lemma rs_idempotent : forall st pk x,
  remove_stripped st pk (remove_stripped st pk x) = remove_stripped st pk x.
Proof.
  intros st pk x. revert pk. induction x using node_ind'; intros pk; try reflexivity.
  rewrite rs_elem, rs_elem. f_equal. set (ck := child_key pk n a).
  induction H as [|k r Hk _ IH]; [reflexivity|].
  destruct (visible st ck k) eqn:E.
  - rewrite (strip_list_cons_vis _ _ _ _ E).
    rewrite strip_list_cons_vis by (rewrite visible_rs; exact E).
    rewrite Hk, IH. reflexivity.
  - rewrite (strip_list_cons_invis _ _ _ _ E). exact IH.
Qed.

(* ------------------------------------------------------------------------------------------------ *)
(* 7. axes *)

Lemma picks_strip : forall st pk l pre post,
  map (strip_ctx st) (filter (ctx_visible st) (picks pk pre l post)) =
  picks pk (strip_list st pk pre) (strip_list st pk l) (strip_list st pk post).
Proof.
  intros st pk l. induction l as [|k r IH]; intros pre post; [reflexivity|].
  cbn [picks filter]. unfold ctx_visible at 1. cbn [c_pk c_self].
  destruct (visible st pk k) eqn:E.
  - rewrite (strip_list_cons_vis _ _ _ _ E). cbn [map picks]. f_equal.
    + unfold strip_ctx. cbn [c_pk c_before c_self c_after]. rewrite strip_list_app. reflexivity.
    + rewrite IH, strip_list_app, (strip_list_cons_vis _ _ k [] E). reflexivity.
  - rewrite (strip_list_cons_invis _ _ _ _ E).
    rewrite IH, strip_list_app, (strip_list_cons_invis _ _ k [] E).
    change (strip_list st pk []) with (@nil node). rewrite app_nil_r. reflexivity.
Qed.

Lemma keep_visible_all : forall st l, Forall (fun c => ctx_visible st c = true) (keep_visible st l).
Proof.
  intros st l. apply Forall_forall. intros c Hc. apply filter_In in Hc. apply Hc.
Qed.

(* the inner loop of desc_ctxs_of as a function of its own (ck = the key of the children) *)
Fixpoint desc_go (st : pred) (ck : key) (pre l : list node) : list ctx :=
  match l with
  | [] => []
  | k :: r =>
      (if visible st ck k
       then {| c_pk := ck; c_before := pre; c_self := k; c_after := r |} :: desc_ctxs_of st ck k
       else [])
      ++ desc_go st ck (pre ++ [k]) r
  end.

Lemma desc_go_fix : forall st ck ks pre,
  (fix go (pre l : list node) : list ctx :=
     match l with
     | [] => []
     | k :: r =>
         (if visible st ck k
          then {| c_pk := ck; c_before := pre; c_self := k; c_after := r |} :: desc_ctxs_of st ck k
          else [])
         ++ go (pre ++ [k]) r
     end) pre ks = desc_go st ck pre ks.
Proof.
  intros st ck ks. induction ks as [|k r IH]; intros pre; [reflexivity|].
  cbn [desc_go]. rewrite <- IH. reflexivity.
Qed.

Lemma desc_ctxs_of_elem : forall st pk n a ks,
  desc_ctxs_of st pk (Elem n a ks) = desc_go st (child_key pk n a) [] ks.
Proof. intros st pk n a ks. exact (desc_go_fix st (child_key pk n a) ks []). Qed.

Lemma desc_go_strip : forall st ck ks,
  Forall (fun k => forall pk, map (strip_ctx st) (desc_ctxs_of st pk k) =
                   desc_ctxs_of no_strip pk (remove_stripped st pk k)) ks ->
  forall pre,
  map (strip_ctx st) (desc_go st ck pre ks) =
  desc_go no_strip ck (strip_list st ck pre) (strip_list st ck ks).
Proof.
  intros st ck ks HF. induction HF as [|k r Hk _ IH]; intros pre; [reflexivity|].
  cbn [desc_go]. rewrite map_app, IH, strip_list_app.
  destruct (visible st ck k) eqn:E.
  - rewrite (strip_list_cons_vis _ _ k r E), (strip_list_cons_vis _ _ k [] E).
    cbn [desc_go]. rewrite visible_no_strip. cbn [map]. rewrite Hk. reflexivity.
  - rewrite (strip_list_cons_invis _ _ k r E), (strip_list_cons_invis _ _ k [] E).
    change (strip_list st ck []) with (@nil node). rewrite app_nil_r. reflexivity.
Qed.

Lemma desc_ctxs_strip : forall st pk x,
  map (strip_ctx st) (desc_ctxs_of st pk x) = desc_ctxs_of no_strip pk (remove_stripped st pk x).
Proof.
  intros st pk x. revert pk. induction x using node_ind'; intros pk; try reflexivity.
  rewrite rs_elem, !desc_ctxs_of_elem. apply (desc_go_strip st (child_key pk n a) ks H []).
Qed.

Lemma desc_go_visible : forall st ck ks,
  Forall (fun k => forall pk, Forall (fun c => ctx_visible st c = true) (desc_ctxs_of st pk k)) ks ->
  forall pre, Forall (fun c => ctx_visible st c = true) (desc_go st ck pre ks).
Proof.
  intros st ck ks HF. induction HF as [|k r Hk _ IH]; intros pre; [constructor|].
  cbn [desc_go]. apply Forall_app. split; [|apply IH].
  destruct (visible st ck k) eqn:E; [|constructor].
  constructor; [exact E|apply Hk].
Qed.

Lemma desc_ctxs_visible : forall st pk x,
  Forall (fun c => ctx_visible st c = true) (desc_ctxs_of st pk x).
Proof.
  intros st pk x. revert pk. induction x using node_ind'; intros pk; try constructor.
  rewrite desc_ctxs_of_elem. apply desc_go_visible. exact H.
Qed.

Lemma axis_equiv : forall st a c, ctx_visible st c = true ->
  map (strip_ctx st) (axis_ctxs st a c) = axis_ctxs no_strip a (strip_ctx st c).
Proof.
  intros st a c Hv. destruct c as [pk pre x post]. unfold ctx_visible in Hv. cbn [c_pk c_self] in Hv.
  destruct a; cbn [axis_ctxs].
  - reflexivity.
  - unfold child_ctxs. cbn [strip_ctx c_self c_pk c_before c_after].
    destruct x; try reflexivity.
    rewrite rs_elem, keep_visible_no_strip. unfold keep_visible. rewrite picks_strip. reflexivity.
  - cbn [strip_ctx c_self c_pk c_before c_after]. apply desc_ctxs_strip.
  - cbn [map]. f_equal. cbn [strip_ctx c_self c_pk c_before c_after]. apply desc_ctxs_strip.
  - unfold following_sibling_ctxs. cbn [strip_ctx c_self c_pk c_before c_after].
    rewrite keep_visible_no_strip. unfold keep_visible. rewrite picks_strip.
    rewrite strip_list_app, (strip_list_cons_vis _ _ x [] Hv). reflexivity.
  - unfold preceding_sibling_ctxs. cbn [strip_ctx c_self c_pk c_before c_after].
    rewrite keep_visible_no_strip. unfold keep_visible. rewrite picks_strip.
    rewrite (strip_list_cons_vis _ _ x post Hv). reflexivity.
Qed.

Lemma axis_visible : forall st a c, ctx_visible st c = true ->
  Forall (fun c' => ctx_visible st c' = true) (axis_ctxs st a c).
Proof.
  intros st a c Hv. destruct a; cbn [axis_ctxs].
  - constructor; [exact Hv|constructor].
  - unfold child_ctxs. destruct (c_self c); try constructor. apply keep_visible_all.
  - apply desc_ctxs_visible.
  - constructor; [exact Hv|apply desc_ctxs_visible].
  - apply keep_visible_all.
  - apply keep_visible_all.
Qed.

(* ------------------------------------------------------------------------------------------------ *)
(* 8. steps *)

Lemma map_apply_pred {A B} (f : A -> B) (p : ppred) (l : list A) :
  map f (apply_pred p l) = apply_pred p (map f l).
Proof.
  destruct p; simpl.
  - reflexivity.
  - destruct k; [reflexivity|]. rewrite nth_error_map'. destruct (nth_error l k); reflexivity.
  - rewrite <- map_rev. destruct (rev l); reflexivity.
  - rewrite <- map_rev, nth_error_map'. destruct (nth_error (rev l) k); reflexivity.
Qed.

Lemma apply_pred_incl {A} (p : ppred) (l : list A) (x : A) : In x (apply_pred p l) -> In x l.
Proof.
  destruct p; simpl.
  - auto.
  - destruct k; [intros []|]. destruct (nth_error l k) eqn:E; [|intros []].
    intros [<-|[]]. eapply nth_error_In; eauto.
  - destruct (rev l) eqn:E; [intros []|]. intros [<-|[]].
    apply in_rev. rewrite E. left; reflexivity.
  - destruct (nth_error (rev l) k) eqn:E; [|intros []].
    intros [<-|[]]. apply in_rev. eapply nth_error_In; eauto.
Qed.

Lemma step_equiv : forall st s c, ctx_visible st c = true ->
  map (strip_ctx st) (eval_step st s c) = eval_step no_strip s (strip_ctx st c).
Proof.
  intros st s c Hv. unfold eval_step. rewrite map_apply_pred. f_equal.
  rewrite <- (axis_equiv st _ c Hv). rewrite filter_map_comm. f_equal.
  apply filter_ext. intros c'. destruct c' as [pk' pre' x' post']. cbn [strip_ctx c_self]. symmetry. apply test_node_rs.
Qed.

Lemma step_visible : forall st s c, ctx_visible st c = true ->
  Forall (fun c' => ctx_visible st c' = true) (eval_step st s c).
Proof.
  intros st s c Hv. apply Forall_forall. intros x Hx. unfold eval_step in Hx.
  apply apply_pred_incl in Hx. apply filter_In in Hx. destruct Hx as [Hx _].
  pose proof (axis_visible st (s_axis s) c Hv) as HA. rewrite Forall_forall in HA. auto.
Qed.

(* ------------------------------------------------------------------------------------------------ *)
(* 9. paths *)

Lemma path_equiv : forall st p c, ctx_visible st c = true ->
  map (strip_ctx st) (eval_path st p c) = eval_path no_strip p (strip_ctx st c).
Proof.
  intros st p. induction p as [|s r IH]; intros c Hv; cbn [eval_path]; [reflexivity|].
  rewrite <- (step_equiv st s c Hv). rewrite map_flat_map, flat_map_map.
  apply flat_map_ext_Forall. eapply Forall_impl; [|apply step_visible; exact Hv].
  intros c' Hc'. apply IH. exact Hc'.
Qed.

Lemma path_visible : forall st p c, ctx_visible st c = true ->
  Forall (fun c' => ctx_visible st c' = true) (eval_path st p c).
Proof.
  intros st p. induction p as [|s r IH]; intros c Hv; cbn [eval_path].
  - constructor; [exact Hv|constructor].
  - apply Forall_flat_map_intro. eapply Forall_impl; [|apply step_visible; exact Hv].
    intros c' Hc'. apply IH. exact Hc'.
Qed.

(* ------------------------------------------------------------------------------------------------ *)
(* 10. observations *)

Lemma observe_equiv : forall st c, ctx_visible st c = true ->
  observe st c = observe no_strip (strip_ctx st c).
Proof.
  intros st c Hv. destruct c as [pk pre x post]. unfold ctx_visible in Hv. cbn [c_pk c_self] in Hv.
  assert (Hs : stripped st pk x = false).
  { unfold visible in Hv. destruct (stripped st pk x); [discriminate|reflexivity]. }
  unfold observe. cbn [strip_ctx c_self c_pk c_before c_after].
  rewrite (rs_string_value st pk x Hs), (rs_copy_events st pk x Hs), rs_children,
    (rs_desc_or_self_length st pk x Hs), (rs_desc_or_self_texts st pk x Hs).
  rewrite !filter_visible_no_strip, map_length, strip_list_length.
  replace (strip_list st pk pre ++ remove_stripped st pk x :: strip_list st pk post)
    with (strip_list st pk (pre ++ x :: post))
    by (rewrite strip_list_app, (strip_list_cons_vis _ _ x post Hv); reflexivity).
  rewrite strip_list_length. reflexivity.
Qed.

(* ------------------------------------------------------------------------------------------------ *)
(* 11. the whole observation language *)

Lemma run_obs_equiv : forall st p d, visible st root_key d = true ->
  run_obs st p d = run_obs no_strip p (remove_stripped st root_key d).
Proof.
  intros st p d Hv. unfold run_obs.
  change (root_ctx (remove_stripped st root_key d)) with (strip_ctx st (root_ctx d)).
  rewrite <- (path_equiv st p (root_ctx d) Hv). rewrite map_map.
  apply map_ext_F. eapply Forall_impl; [|apply (path_visible st p (root_ctx d) Hv)].
  intros c Hc. apply observe_equiv. exact Hc.
Qed.

Theorem strip_equiv_tree : forall st p n a ks,
  run_obs st p (Elem n a ks) = run_obs no_strip p (remove_stripped st root_key (Elem n a ks)).
Proof. intros st p n a ks. apply run_obs_equiv. reflexivity. Qed.

(* ------------------------------------------------------------------------------------------------ *)
(* 12. the removal as modelled IS the Recommendation's removal (with xml:space) *)

Theorem xml_space_rule_lemma : forall st q xs x,
  remove_stripped st (q, xs) x = rec_remove st xs x.
Proof.
  intros st q xs x. revert q xs. induction x using node_ind'; intros q xs; try reflexivity.
  cbn [remove_stripped rec_remove]. unfold child_key. cbn [snd].
  set (xs' := xml_space_of xs a). f_equal.
  replace (map (rec_remove st xs') ks) with (map (remove_stripped st (n, xs')) ks)
    by (apply map_ext_F; eapply Forall_impl; [|exact H]; intros k Hk; apply Hk).
  apply filter_ext. intros k. apply visible_key_split.
Qed.

(* the removal looks at the inherited xml:space state of the key only, not at the name in it *)
Lemma remove_stripped_key_name : forall st q q' xs x,
  remove_stripped st (q, xs) x = remove_stripped st (q', xs) x.
Proof. intros st q q' xs x. rewrite !xml_space_rule_lemma. reflexivity. Qed.

Lemma remove_stripped_name_only : forall st q q' x, no_xml_space_preserve x = true ->
  remove_stripped st (q, false) x = remove_stripped st (q', false) x.
Proof. intros st q q' x _. apply remove_stripped_key_name. Qed.

(* under a key with xml:space="preserve" in force every node is visible *)
Lemma visible_preserve : forall st q k, visible st (q, true) k = true.
Proof. intros st q k. unfold visible. rewrite stripped_preserve. reflexivity. Qed.

Print Assumptions strip_equiv_tree.
Print Assumptions xml_space_rule_lemma.
Print Assumptions remove_stripped_name_only.
Print Assumptions rs_idempotent.
