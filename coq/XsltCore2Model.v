(* C01 core2 interpreter: basic lemmas (run composition, emission on the bundled output stacks, the comment / PI
   fix-up loops, the text a collector reads back, monotonicity of the reference semantics in fuel and in the guard).
   The lemmas about the VariablesStack, the XObject heap and the evaluation glue are those of XsltCoreModel.v. *)
From Coq Require Import List NArith Bool Arith Lia.
Require Import XV.XsltEventsDefs XV.XsltEventsModel XV.XsltVarsDefs XV.XsltVarsModel XV.XsltCoreDefs XV.XsltCoreModel XV.XsltCore2Defs.
Import ListNotations.

(* ================= the output bundle ================= *)
Lemma emit_nil : forall o, emit2 [] o = o.
Proof. destruct o as [[|e r] t s]; reflexivity. Qed.

Lemma emit_app : forall a b o, emit2 (a ++ b) o = emit2 b (emit2 a o).
Proof. destruct o as [[|e r] t s]; unfold emit2; simpl; auto. rewrite run_ops_app. reflexivity. Qed.

Lemma emit_lre_start_ops : forall n pre o, nonempty n = true ->
  emit_lre_start2 n pre o = emit2 (IStart n :: map (fun p => IAttr (fst p) (snd p)) pre) o.
Proof.
  intros n pre o Hn. destruct o as [[|e r] t s]; unfold emit_lre_start2, emit2; simpl; auto. f_equal. f_equal.
  rewrite add_attrs_guarded.
  - reflexivity.
  - unfold pending, eng_start. simpl. exact Hn.
Qed.

Lemma tflag_emit : forall ops o, tflag (emit2 ops o) = tflag o.
Proof. reflexivity. Qed.

Lemma tflag_push_fmt : forall e o, tflag (push_fmt e o) = tflag o.
Proof. reflexivity. Qed.

Lemma tflag_push_str : forall s o, tflag (push_str s o) = tflag o.
Proof. reflexivity. Qed.

Lemma emit_push_fmt : forall ops e o, emit2 ops (push_fmt e o) = push_fmt (run_ops ops e) o.
Proof. reflexivity. Qed.

(* ---- what a text collector reads back ---- *)
Lemma text_of_items_ops : forall its s, text_of_items its = Some s -> chars_of_ops (ops_of its) = s.
Proof.
  induction its as [|i r IH]; intros s H.
  - inversion H. reflexivity.
  - destruct i; try discriminate. cbn [text_of_items] in H.
    destruct (text_of_items r) as [t|]; try discriminate. inversion H; subst.
    unfold ops_of. cbn [flat_map ops_of_item app chars_of_ops]. f_equal. apply IH. reflexivity.
Qed.

Lemma collector_text : forall its s, text_of_items its = Some s ->
  chars_of_sax (rev (out (run_ops (ops_of its) e_init))) = s.
Proof.
  intros its s H. rewrite <- (chars_flush (run_ops (ops_of its) e_init)).
  pose proof (text_never_lost_or_reordered_thm (ops_of its)) as X. unfold events_of, eng_finish in X. rewrite X.
  apply text_of_items_ops. exact H.
Qed.

Lemma text_of_items_all : forall its s, text_of_items its = Some s -> forallb is_gtext its = true.
Proof.
  induction its as [|i r IH]; intros s H; auto. destruct i; try discriminate. cbn [text_of_items] in H.
  destruct (text_of_items r) as [t|] eqn:E; try discriminate. simpl. eapply IH. reflexivity.
Qed.

Lemma filter_all : forall (A : Type) (p : A -> bool) l, forallb p l = true -> filter p l = l.
Proof.
  induction l; simpl; auto. intros H. apply andb_true_iff in H. destruct H as [H1 H2]. rewrite H1. f_equal. auto.
Qed.

(* the copy-text-nodes-only flag the machine variant fxf (fx_frag) has on top while the semantics is in mode tm *)
Definition mflag (fxf : bool) (tm : tmode) : bool :=
  match tm with TOff => false | TOn => true | TFrag => negb fxf end.

(* what xsl:copy / xsl:copy-of hands to the formatter is what the semantics adds, whenever the semantics is defined.
   The guard is needed only for the variant that does not leave text-only mode in a fragment *)
Lemma copy_guard_tfilter : forall fxf gd tm its its', (fxf = false -> gd = true) -> copy_guard gd tm its = Some its' ->
  its' = its /\ tfilter (mflag fxf tm) its = its.
Proof.
  intros fxf gd tm its its' Hg H. destruct tm; simpl in *.
  - inversion H. auto.
  - destruct (forallb is_gtext its) eqn:E; try discriminate. inversion H. subst its'. split; auto. apply filter_all. exact E.
  - destruct (forallb is_gtext its) eqn:E.
    + inversion H. subst its'. split; auto. destruct (negb fxf); auto. apply filter_all. exact E.
    + destruct fxf.
      * destruct gd; try discriminate. inversion H. auto.
      * rewrite (Hg eq_refl) in H. discriminate.
Qed.

Lemma elem_guard_mflag : forall fxf gd tm, (fxf = false -> gd = true) -> elem_guard gd tm = true -> mflag fxf tm = false.
Proof.
  intros fxf gd tm Hg. destruct tm; simpl; auto; try discriminate.
  destruct fxf; auto. rewrite (Hg eq_refl). discriminate.
Qed.

Lemma fpush_flag : forall fxf tm o, tflag o = mflag fxf tm -> tflag (fpush fxf o) = mflag fxf (tfrag tm).
Proof.
  intros fxf tm o H. unfold fpush. destruct fxf.
  - destruct tm; reflexivity.
  - rewrite H. destruct tm; reflexivity.
Qed.

Section Core2Base.
  Variable ev_value : N -> list value -> N -> N -> N -> value.
  Variable ev_string : N -> list value -> N -> N -> N -> str.
  Variable ev_bool : N -> list value -> N -> N -> N -> bool.
  Variable ev_nodes : N -> list value -> N -> N -> N -> list N.
  Variable ev_sort : N -> list value -> N -> N -> N -> list N -> list N.
  Variable sel_template : N -> N -> option N.
  Variable node_copy : N -> list item.
  Variable node_shallow : N -> shallow.
  Variable templates : list instr2.
  Variable name_ok : str -> bool.
  Variable pi_ok : str -> bool.
  Variable fx_frag fx_copy : bool.

  Notation step2 := (step2 fx_frag fx_copy ev_value ev_string ev_bool ev_nodes ev_sort sel_template node_copy node_shallow templates name_ok pi_ok).
  Notation run2 := (run2 fx_frag fx_copy ev_value ev_string ev_bool ev_nodes ev_sort sel_template node_copy node_shallow templates name_ok pi_ok).
  Notation sem2 := (fun gd => sem2 gd ev_value ev_string ev_bool ev_nodes ev_sort sel_template node_copy node_shallow templates name_ok pi_ok).

  (* ---- run2 ---- *)
  Lemma run_app : forall a b c s,
    run2 (a + b) c s = match run2 a c s with Run2 c' s' => run2 b c' s' | r => r end.
  Proof.
    induction a; intros b c s.
    - reflexivity.
    - cbn [plus XsltCore2Defs.run2]. destruct (step2 c s); auto.
  Qed.

  Lemma run_to : forall a b c s c' s', run2 a c s = Run2 c' s' -> run2 (a + b) c s = run2 b c' s'.
  Proof. intros. rewrite run_app. rewrite H. reflexivity. Qed.

  Lemma run_one : forall c s c' s', step2 c s = Run2 c' s' -> run2 1 c s = Run2 c' s'.
  Proof. intros. cbn [XsltCore2Defs.run2]. rewrite H. reflexivity. Qed.

  Lemma run_done_more : forall a b c s s', run2 a c s = Done2 s' -> run2 (a + b) c s = Done2 s'.
  Proof. intros. rewrite run_app. rewrite H. reflexivity. Qed.

  Lemma pick_ext : forall lk1 lk2 : lkfun, (forall xs, lk1 xs = lk2 xs) -> forall c l, pick2 ev_bool lk1 c l = pick2 ev_bool lk2 c l.
  Proof. intros lk1 lk2 Hlk c. induction l; simpl; auto. destruct a; auto. rewrite (gx_ext _ _ Hlk). rewrite IHl. reflexivity. Qed.

  (* ---- monotonicity of the reference semantics: in the fuel, and from the guarded to the unguarded reading ---- *)
  Definition gle (g g' : instr2 -> venv -> option (venv * list item)) : Prop :=
    forall x en r, g x en = Some r -> g' x en = Some r.

  Lemma sem_seq_mono : forall g g', gle g g' -> forall l en r, sem_seq2 g l en = Some r -> sem_seq2 g' l en = Some r.
  Proof.
    intros g g' H. induction l; intros en r; simpl; auto.
    destruct (g a en) as [[en' o1]|] eqn:E; try discriminate. rewrite (H _ _ _ E).
    destruct (sem_seq2 g l en') eqn:E2; try discriminate. rewrite (IHl _ _ E2). auto.
  Qed.

  Lemma each_mono : forall (g g' : N -> N -> option (list item)),
    (forall n p r, g n p = Some r -> g' n p = Some r) ->
    forall l pos r, each g l pos = Some r -> each g' l pos = Some r.
  Proof.
    intros g g' H. induction l; intros pos r; simpl; auto.
    destruct (g a pos) eqn:E; try discriminate. rewrite (H _ _ _ E).
    destruct (each g l (N.succ pos)) eqn:E2; try discriminate. rewrite (IHl _ _ E2). auto.
  Qed.

  Lemma sem_vvalue_mono : forall (s s' : list instr2 -> venv -> option (list item)),
    (forall l en r, s l en = Some r -> s' l en = Some r) ->
    forall c sel body en r, sem_vvalue2 ev_value s c sel body en = Some r -> sem_vvalue2 ev_value s' c sel body en = Some r.
  Proof.
    intros s s' H c sel body en r. unfold sem_vvalue2. destruct sel; auto. destruct body; auto.
    destruct (s (i :: body) en) eqn:E; try discriminate. rewrite (H _ _ _ E). auto.
  Qed.

  Lemma sem_wps_mono : forall (s s' : list instr2 -> venv -> option (list item)),
    (forall l en r, s l en = Some r -> s' l en = Some r) ->
    forall c en l r, sem_wps2 ev_value s c en l = Some r -> sem_wps2 ev_value s' c en l = Some r.
  Proof.
    intros s s' H c en. induction l; intros r; simpl; auto. destruct a; auto.
    destruct (sem_vvalue2 ev_value s c sel body en) eqn:E; try discriminate.
    rewrite (sem_vvalue_mono s s' H _ _ _ _ _ E).
    destruct (sem_wps2 ev_value s c en l) eqn:E2; try discriminate. rewrite (IHl _ eq_refl). auto.
  Qed.

  Lemma sem_tmpl_mono : forall (g g' : venv -> ctx -> instr2 -> venv -> option (venv * list item)),
    (forall pv c, gle (g pv c) (g' pv c)) ->
    forall pv c t r, sem_tmpl2 ev_value templates g pv c t = Some r -> sem_tmpl2 ev_value templates g' pv c t = Some r.
  Proof.
    intros g g' H pv c t r. unfold sem_tmpl2. destruct (nth_error templates (N.to_nat t)); auto. destruct i; auto.
    destruct (sem_params2 ev_value pv c ps []); auto. apply sem_seq_mono. apply H.
  Qed.

  Lemma copy_guard_mono : forall g1 g2 tm its r, (g2 = true -> g1 = true) ->
    copy_guard g1 tm its = Some r -> copy_guard g2 tm its = Some r.
  Proof.
    intros g1 g2 tm its r Hg. destruct tm; simpl; auto.
    destruct (forallb is_gtext its); auto. destruct g2. rewrite (Hg eq_refl). auto. destruct g1; auto. discriminate.
  Qed.

  Lemma elem_guard_mono : forall g1 g2 tm, (g2 = true -> g1 = true) -> elem_guard g1 tm = true -> elem_guard g2 tm = true.
  Proof.
    intros g1 g2 tm Hg. destruct tm; simpl; auto. destruct g2; auto. rewrite (Hg eq_refl). auto.
  Qed.

  Lemma sem_S_gen : forall g1 g2, (g2 = true -> g1 = true) ->
    forall f f1, (forall tm wp c, gle (sem2 g1 f tm wp c) (sem2 g2 f1 tm wp c)) ->
    forall tm wp c, gle (sem2 g1 (S f) tm wp c) (sem2 g2 (S f1) tm wp c).
  Proof.
    intros g1 g2 Hg f f1 IHf tm wp c x en r H.
    assert (IHs : forall tm' wp' c' l en' r', sem_seq2 (sem2 g1 f tm' wp' c') l en' = Some r' -> sem_seq2 (sem2 g2 f1 tm' wp' c') l en' = Some r').
    { intros tm' wp' c'. apply sem_seq_mono. apply IHf. }
    assert (IHt : forall tm' pv c' t r', sem_tmpl2 ev_value templates (sem2 g1 f tm') pv c' t = Some r' -> sem_tmpl2 ev_value templates (sem2 g2 f1 tm') pv c' t = Some r').
    { intros tm'. apply sem_tmpl_mono. intros. apply IHf. }
    revert H. cbn [XsltCore2Defs.sem2]. destruct x; auto.
    - destruct (nonempty n); auto. destruct (ev_atts ev_string (slk en) c atts); auto.
      destruct (sem_seq2 (sem2 g1 f tm wp c) body en) eqn:E; try discriminate. rewrite (IHs _ _ _ _ _ _ E). auto.
    - destruct (gx ev_bool (slk en) c e) as [[|]|]; auto.
      destruct (sem_seq2 (sem2 g1 f tm wp c) body en) eqn:E; try discriminate. rewrite (IHs _ _ _ _ _ _ E). auto.
    - destruct (pick2 ev_bool (slk en) c branches) as [[x|]|]; auto.
      destruct (sem2 g1 f tm wp c x en) as [[e1 o1]|] eqn:E; try discriminate. rewrite (IHf _ _ _ _ _ _ E). auto.
    - destruct (sem_seq2 (sem2 g1 f tm wp c) body en) eqn:E; try discriminate. rewrite (IHs _ _ _ _ _ _ E). auto.
    - destruct (sem_seq2 (sem2 g1 f tm wp c) body en) eqn:E; try discriminate. rewrite (IHs _ _ _ _ _ _ E). auto.
    - destruct body; auto. destruct (sel_nodes ev_nodes ev_sort (slk en) c e srt); auto.
      match goal with |- match each ?g ?l ?p with _ => _ end = _ -> _ => destruct (each g l p) eqn:E; try discriminate end.
      erewrite each_mono; try exact E; try (intros n0 p0 r0; apply IHs); auto.
    - destruct (sem_wps2 ev_value (sem_seq2 (sem2 g1 f (tfrag tm) wp c)) c en wps) eqn:E; try discriminate.
      rewrite (sem_wps_mono _ _ (IHs (tfrag tm) wp c) _ _ _ _ E).
      destruct (sem_tmpl2 ev_value templates (sem2 g1 f tm) v c t) eqn:E2; try discriminate. rewrite (IHt _ _ _ _ _ E2). auto.
    - match goal with |- match sem_wps2 _ ?s ?c1 _ _ with _ => _ end = _ -> _ => destruct (sem_wps2 ev_value s c1 en wps) eqn:E; try discriminate end.
      erewrite sem_wps_mono; [| |exact E]; [|apply IHs].
      match goal with |- match sel_nodes _ _ _ ?c1 _ _ with _ => _ end = _ -> _ => destruct (sel_nodes ev_nodes ev_sort (slk en) c1 e srt); auto end.
      match goal with |- match each ?g ?l ?p with _ => _ end = _ -> _ => destruct (each g l p) eqn:E3; try discriminate end.
      erewrite each_mono; try exact E3; try (intros n0 p0 r0; cbv beta; destruct (sel_template n0 _); auto; fail); auto.
    - destruct (lookup_v n en); auto.
      destruct (sem_vvalue2 ev_value (sem_seq2 (sem2 g1 f (tfrag tm) wp c)) c sel body en) eqn:E; try discriminate.
      rewrite (sem_vvalue_mono _ _ (IHs (tfrag tm) wp c) _ _ _ _ _ E). auto.
    - destruct (node_shallow (cnode c)); auto.
      + destruct (nonempty n); cbn [andb]; auto. destruct (elem_guard g1 tm) eqn:Eg; try discriminate.
        rewrite (elem_guard_mono _ _ _ Hg Eg).
        destruct (sem_seq2 (sem2 g1 f tm wp c) body en) eqn:E; try discriminate. rewrite (IHs _ _ _ _ _ _ E). auto.
      + destruct (sem_seq2 (sem2 g1 f tm wp c) body en) eqn:E; try discriminate. rewrite (IHs _ _ _ _ _ _ E). auto.
      + destruct (copy_guard g1 tm its) eqn:E; try discriminate. rewrite (copy_guard_mono _ _ _ _ _ Hg E). auto.
    - destruct (gx ev_value (slk en) c e); auto.
      destruct (copy_guard g1 tm (copy_items node_copy v)) eqn:E; try discriminate. rewrite (copy_guard_mono _ _ _ _ _ Hg E). auto.
    - destruct (ev_avt ev_string (slk en) c nm); auto. destruct (name_ok s); auto.
      destruct (sem_seq2 (sem2 g1 f tm wp c) body en) eqn:E; try discriminate. rewrite (IHs _ _ _ _ _ _ E). auto.
    - destruct (sem_seq2 (sem2 g1 f TOn wp c) body en) eqn:E; try discriminate. rewrite (IHs _ _ _ _ _ _ E). auto.
    - destruct (ev_avt ev_string (slk en) c nm); auto. destruct (pi_ok s); auto.
      destruct (sem_seq2 (sem2 g1 f TOn wp c) body en) eqn:E; try discriminate. rewrite (IHs _ _ _ _ _ _ E). auto.
    - destruct (nonempty n); auto.
      destruct (sem_seq2 (sem2 g1 f tm wp c) (use_sets use) en) eqn:E0; try discriminate. rewrite (IHs _ _ _ _ _ _ E0).
      destruct (ev_atts ev_string (slk en) c atts); auto.
      destruct (sem_seq2 (sem2 g1 f tm wp c) body en) eqn:E; try discriminate. rewrite (IHs _ _ _ _ _ _ E). auto.
    - destruct (ev_avt ev_string (slk en) c nm); auto. destruct (name_ok s); auto.
      destruct (sem_seq2 (sem2 g1 f tm wp c) (use_sets use) en) eqn:E0; try discriminate. rewrite (IHs _ _ _ _ _ _ E0).
      destruct (sem_seq2 (sem2 g1 f tm wp c) body en) eqn:E; try discriminate. rewrite (IHs _ _ _ _ _ _ E). auto.
    - destruct (node_shallow (cnode c)); auto.
      + destruct (nonempty n); cbn [andb]; auto. destruct (elem_guard g1 tm) eqn:Eg; try discriminate.
        rewrite (elem_guard_mono _ _ _ Hg Eg).
        destruct (sem_seq2 (sem2 g1 f tm wp c) (use_sets use) en) eqn:E0; try discriminate. rewrite (IHs _ _ _ _ _ _ E0).
        destruct (sem_seq2 (sem2 g1 f tm wp c) body en) eqn:E; try discriminate. rewrite (IHs _ _ _ _ _ _ E). auto.
      + destruct (sem_seq2 (sem2 g1 f tm wp c) body en) eqn:E; try discriminate. rewrite (IHs _ _ _ _ _ _ E). auto.
      + destruct (copy_guard g1 tm its) eqn:E; try discriminate. rewrite (copy_guard_mono _ _ _ _ _ Hg E). auto.
    - destruct (nth_error templates (N.to_nat k)) as [[]|]; auto.
      destruct (sem_seq2 (sem2 g1 f tm wp c) (set_body use atts) []) eqn:E; try discriminate. rewrite (IHs _ _ _ _ _ _ E). auto.
  Qed.

  Lemma sem_S : forall g f tm wp c, gle (sem2 g f tm wp c) (sem2 g (S f) tm wp c).
  Proof.
    intros g. induction f; intros tm wp c. intros x en r H; discriminate. apply sem_S_gen; auto.
  Qed.

  Lemma sem_fuel_le : forall g f f' tm wp c, f <= f' -> gle (sem2 g f tm wp c) (sem2 g f' tm wp c).
  Proof.
    induction 1. intros x en r H; exact H.
    intros x en r H0. apply sem_S. apply IHle. exact H0.
  Qed.

  (* the guarded semantics is the reference semantics, restricted *)
  Lemma sem_guard_le : forall f tm wp c, gle (sem2 true f tm wp c) (sem2 false f tm wp c).
  Proof.
    induction f; intros tm wp c. intros x en r H; discriminate. apply sem_S_gen; auto.
  Qed.
End Core2Base.
